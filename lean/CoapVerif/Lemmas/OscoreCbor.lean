import CoapVerif.Lemmas.Oscore
/- Helper lemmas for C14: the CBOR heads of RFC 8949 §3 are injective and prefix-free; so are the byte-string,
integer and array items built from them; hence external_aad / Enc_structure determine (alg, kid, piv). -/
namespace Coap
open Coap.Spec.Crypto Coap.Spec.Oscore

theorem beBytes_length (k n : Nat) : (beBytes k n).length = k := by
  induction k generalizing n with
  | zero => rfl
  | succ k ih => simp [beBytes, ih]

theorem u8_ofNat_inj {a b : Nat} (ha : a < 256) (hb : b < 256) (h : UInt8.ofNat a = UInt8.ofNat b) : a = b := by
  have := congrArg UInt8.toNat h
  rw [UInt8.toNat_ofNat', UInt8.toNat_ofNat'] at this
  omega

/-- fixed-width big-endian is injective below 256^k -/
theorem beBytes_inj (k : Nat) : ∀ n m : Nat, n < 256 ^ k → m < 256 ^ k → beBytes k n = beBytes k m → n = m := by
  induction k with
  | zero => intro n m hn hm _; simp at hn hm; omega
  | succ k ih =>
    intro n m hn hm h
    simp only [beBytes] at h
    have hl : (beBytes k (n / 256)).length = (beBytes k (m / 256)).length := by
      rw [beBytes_length, beBytes_length]
    obtain ⟨h1, h2⟩ := List.append_inj h hl
    have hq : n / 256 = m / 256 := by
      apply ih _ _ _ _ h1
      · rw [Nat.pow_succ] at hn; omega
      · rw [Nat.pow_succ] at hm; omega
    have hr : n % 256 = m % 256 := by
      simp only [List.cons.injEq, and_true] at h2
      exact u8_ofNat_inj (by omega) (by omega) h2
    omega

/-- the 5-bit "additional information" of a head -/
def cborAi (n : Nat) : Nat :=
  if n < 24 then n else if n < 256 then 24 else if n < 65536 then 25 else if n < 4294967296 then 26 else 27

/-- the argument bytes that follow the initial byte -/
def cborArg (n : Nat) : Bytes :=
  if n < 24 then [] else if n < 256 then beBytes 1 n else if n < 65536 then beBytes 2 n
  else if n < 4294967296 then beBytes 4 n else beBytes 8 n

theorem cborHead_eq (mt n : Nat) : cborHead mt n = UInt8.ofNat (mt * 32 + cborAi n) :: cborArg n := by
  unfold cborHead cborAi cborArg
  repeat' split
  all_goals rfl

theorem cborAi_lt (n : Nat) : cborAi n < 28 := by
  unfold cborAi
  repeat' split
  all_goals omega

theorem cborArg_length (n : Nat) : (cborArg n).length ≤ 8 := by
  unfold cborArg
  repeat' split
  all_goals simp [beBytes_length]

theorem cborHead_length (mt n : Nat) : (cborHead mt n).length ≤ 9 := by
  rw [cborHead_eq]
  have := cborArg_length n
  simp; omega

/-- same additional information, same argument bytes (plus arbitrary continuations) ⇒ same argument -/
theorem cborArg_inj (a b : Nat) (x y : Bytes) (ha : a < 2 ^ 64) (hb : b < 2 ^ 64) (hai : cborAi a = cborAi b)
    (h : cborArg a ++ x = cborArg b ++ y) : a = b ∧ x = y := by
  unfold cborAi at hai
  unfold cborArg at h
  by_cases a1 : a < 24
  · have b1 : b < 24 := by
      simp only [a1, if_true] at hai
      repeat' split at hai
      all_goals omega
    simp only [a1, b1, if_true] at hai h
    exact ⟨hai, by simpa using h⟩
  · by_cases a2 : a < 256
    · have b1 : ¬ b < 24 := by
        simp only [a1, a2, if_true, if_false] at hai
        repeat' split at hai
        all_goals omega
      have b2 : b < 256 := by
        simp only [a1, a2, if_true, if_false] at hai
        repeat' split at hai
        all_goals omega
      simp only [a1, a2, b1, b2, if_true, if_false] at h
      obtain ⟨h1, h2⟩ := List.append_inj h (by rw [beBytes_length, beBytes_length])
      exact ⟨beBytes_inj 1 a b (by omega) (by omega) h1, h2⟩
    · by_cases a3 : a < 65536
      · have b2 : ¬ b < 256 := by
          simp only [a1, a2, a3, if_true, if_false] at hai
          repeat' split at hai
          all_goals omega
        have b1 : ¬ b < 24 := by omega
        have b3 : b < 65536 := by
          simp only [a1, a2, a3, if_true, if_false] at hai
          repeat' split at hai
          all_goals omega
        simp only [a1, a2, a3, b1, b2, b3, if_true, if_false] at h
        obtain ⟨h1, h2⟩ := List.append_inj h (by rw [beBytes_length, beBytes_length])
        exact ⟨beBytes_inj 2 a b (by omega) (by omega) h1, h2⟩
      · by_cases a4 : a < 4294967296
        · have b3 : ¬ b < 65536 := by
            simp only [a1, a2, a3, a4, if_true, if_false] at hai
            repeat' split at hai
            all_goals omega
          have b1 : ¬ b < 24 := by omega
          have b2 : ¬ b < 256 := by omega
          have b4 : b < 4294967296 := by
            simp only [a1, a2, a3, a4, if_true, if_false] at hai
            repeat' split at hai
            all_goals omega
          simp only [a1, a2, a3, a4, b1, b2, b3, b4, if_true, if_false] at h
          obtain ⟨h1, h2⟩ := List.append_inj h (by rw [beBytes_length, beBytes_length])
          exact ⟨beBytes_inj 4 a b (by omega) (by omega) h1, h2⟩
        · have b4 : ¬ b < 4294967296 := by
            simp only [a1, a2, a3, a4, if_false] at hai
            repeat' split at hai
            all_goals omega
          have b1 : ¬ b < 24 := by omega
          have b2 : ¬ b < 256 := by omega
          have b3 : ¬ b < 65536 := by omega
          simp only [a1, a2, a3, a4, b1, b2, b3, b4, if_false] at h
          obtain ⟨h1, h2⟩ := List.append_inj h (by rw [beBytes_length, beBytes_length])
          exact ⟨beBytes_inj 8 a b (by omega) (by omega) h1, h2⟩

/-- **CBOR heads are injective and prefix-free, across major types**: a head followed by anything equals a head
followed by anything only if major type, argument and continuation agree (arguments below 2^64 — the range of
the encoding). -/
theorem cborHead_inj (mt mt' a b : Nat) (x y : Bytes) (hmt : mt < 8) (hmt' : mt' < 8) (ha : a < 2 ^ 64) (hb : b < 2 ^ 64)
    (h : cborHead mt a ++ x = cborHead mt' b ++ y) : mt = mt' ∧ a = b ∧ x = y := by
  rw [cborHead_eq, cborHead_eq] at h
  simp only [List.cons_append, List.cons.injEq] at h
  obtain ⟨h0, h1⟩ := h
  have la := cborAi_lt a
  have lb := cborAi_lt b
  have := u8_ofNat_inj (by omega) (by omega) h0
  have hm : mt = mt' := by omega
  have hai : cborAi a = cborAi b := by omega
  have := cborArg_inj a b x y ha hb hai h1
  exact ⟨hm, this.1, this.2⟩

/-- byte strings: `cborBstr a ++ x = cborBstr b ++ y → a = b ∧ x = y` -/
theorem cborBstr_inj (a b x y : Bytes) (ha : a.length < 2 ^ 64) (hb : b.length < 2 ^ 64)
    (h : cborBstr a ++ x = cborBstr b ++ y) : a = b ∧ x = y := by
  unfold cborBstr at h
  rw [List.append_assoc, List.append_assoc] at h
  obtain ⟨_, hl, hr⟩ := cborHead_inj 2 2 _ _ _ _ (by omega) (by omega) ha hb h
  exact List.append_inj hr hl

theorem cborTstr_inj (a b x y : Bytes) (ha : a.length < 2 ^ 64) (hb : b.length < 2 ^ 64)
    (h : cborTstr a ++ x = cborTstr b ++ y) : a = b ∧ x = y := by
  unfold cborTstr at h
  rw [List.append_assoc, List.append_assoc] at h
  obtain ⟨_, hl, hr⟩ := cborHead_inj 3 3 _ _ _ _ (by omega) (by omega) ha hb h
  exact List.append_inj hr hl

theorem cborUint_inj (a b : Nat) (x y : Bytes) (ha : a < 2 ^ 64) (hb : b < 2 ^ 64)
    (h : cborUint a ++ x = cborUint b ++ y) : a = b ∧ x = y :=
  (cborHead_inj 0 0 a b x y (by omega) (by omega) ha hb h).2

theorem cborArray_inj (a b : Nat) (x y : Bytes) (ha : a < 2 ^ 64) (hb : b < 2 ^ 64)
    (h : cborArray a ++ x = cborArray b ++ y) : a = b ∧ x = y :=
  (cborHead_inj 4 4 a b x y (by omega) (by omega) ha hb h).2

/-- integers −2^64 .. 2^64 − 1 (CBOR major types 0 and 1) -/
theorem cborInt_inj (i j : Int) (x y : Bytes) (hi : -(2 ^ 64) ≤ i ∧ i < 2 ^ 64) (hj : -(2 ^ 64) ≤ j ∧ j < 2 ^ 64)
    (h : cborInt i ++ x = cborInt j ++ y) : i = j ∧ x = y := by
  unfold cborInt at h
  by_cases h1 : 0 ≤ i <;> by_cases h2 : 0 ≤ j
  · simp only [h1, h2, if_true] at h
    obtain ⟨_, hv, hr⟩ := cborHead_inj 0 0 _ _ _ _ (by omega) (by omega) (by omega) (by omega) h
    exact ⟨by omega, hr⟩
  · simp only [h1, h2, if_true, if_false] at h
    obtain ⟨hm, _, _⟩ := cborHead_inj 0 1 _ _ _ _ (by omega) (by omega) (by omega) (by omega) h
    omega
  · simp only [h1, h2, if_true, if_false] at h
    obtain ⟨hm, _, _⟩ := cborHead_inj 1 0 _ _ _ _ (by omega) (by omega) (by omega) (by omega) h
    omega
  · simp only [h1, h2, if_false] at h
    obtain ⟨_, hv, hr⟩ := cborHead_inj 1 1 _ _ _ _ (by omega) (by omega) (by omega) (by omega) h
    exact ⟨by omega, hr⟩

theorem cborBstr_length_le (b : Bytes) : (cborBstr b).length ≤ 9 + b.length := by
  unfold cborBstr
  have := cborHead_length 2 b.length
  simp; omega

theorem cborInt_length_le (i : Int) : (cborInt i).length ≤ 9 := by
  unfold cborInt
  split <;> exact cborHead_length _ _

theorem aadArray_length_le (alg : Int) (kid piv : Bytes) : (aadArray alg kid piv).length ≤ 64 + kid.length + piv.length := by
  unfold aadArray cborArray cborUint
  have h1 := cborHead_length 4 5
  have h2 := cborHead_length 0 1
  have h3 := cborHead_length 4 1
  have h4 := cborInt_length_le alg
  have h5 := cborBstr_length_le kid
  have h6 := cborBstr_length_le piv
  have h7 := cborBstr_length_le []
  simp only [List.length_append]
  simp only [List.length_nil] at h7
  omega

/-- §5.4: the aad_array determines algorithm, request_kid and request_piv -/
theorem aadArray_inj (alg alg' : Int) (kid kid' piv piv' : Bytes)
    (ha : -(2 ^ 64) ≤ alg ∧ alg < 2 ^ 64) (ha' : -(2 ^ 64) ≤ alg' ∧ alg' < 2 ^ 64)
    (hk : kid.length < 2 ^ 64) (hk' : kid'.length < 2 ^ 64) (hp : piv.length < 2 ^ 64) (hp' : piv'.length < 2 ^ 64)
    (h : aadArray alg kid piv = aadArray alg' kid' piv') : alg = alg' ∧ kid = kid' ∧ piv = piv' := by
  unfold aadArray at h
  simp only [List.append_assoc] at h
  have h := List.append_cancel_left h
  have h := List.append_cancel_left h
  have h := List.append_cancel_left h
  obtain ⟨e1, h⟩ := cborInt_inj _ _ _ _ ha ha' h
  obtain ⟨e2, h⟩ := cborBstr_inj _ _ _ _ hk hk' h
  obtain ⟨e3, _⟩ := cborBstr_inj _ _ _ _ hp hp' h
  exact ⟨e1, e2, e3⟩

theorem encStructure_inj (e e' : Bytes) (he : e.length < 2 ^ 64) (he' : e'.length < 2 ^ 64)
    (h : encStructure e = encStructure e') : e = e' := by
  unfold encStructure at h
  simp only [List.append_assoc] at h
  have h := List.append_cancel_left h
  have h := List.append_cancel_left h
  have h := List.append_cancel_left h
  have := cborBstr_inj e e' [] [] he he' (by simpa using h)
  exact this.1

end Coap
