import CoapVerif.Model.QBlock
import CoapVerif.Lemmas.Block
/- Lemmas about the Q-Block model (Model/QBlock.lean): the 4.08 missing-blocks parser never reads behind the payload, always
   ends, only ever names blocks of the body; the server's encoder and the client's parser agree; the gap walk of the
   missing-blocks loops lists exactly the unrecorded numbers below the highest recorded one. -/
set_option linter.unusedSimpArgs false
namespace Coap.QBlock
open Coap Coap.Block Coap.Spec.Block

/-- `derive_cbor_value` called as the 4.08 loop calls it (`rem_len = data + length - bp`, `bp < data + length`): it stays
inside the payload and consumes between 1 and 5 bytes -/
theorem deriveCbor_spec (bp : Bytes) (hne : bp ≠ []) :
    ∃ v pre rest, deriveCbor bp bp.length = .ok (v, rest) ∧ bp = pre ++ rest ∧ 1 ≤ pre.length ∧ pre.length ≤ 5 := by
  rcases bp with _ | ⟨b0, r1⟩
  · exact absurd rfl hne
  · unfold deriveCbor
    simp only []
    by_cases h1 : b0.toNat % 32 < 24
    · rw [if_pos h1]; exact ⟨_, [b0], r1, rfl, rfl, by simp, by simp⟩
    · rw [if_neg h1]
      by_cases h2 : b0.toNat % 32 = 24
      · rw [if_pos h2]
        rcases r1 with _ | ⟨b1, r2⟩
        · exact ⟨cborFail, [b0], [], by simp, rfl, by simp, by simp⟩
        · exact ⟨b1.toNat, [b0, b1], r2, by simp [show ¬ (r2.length + 1 + 1 < 2) by omega], rfl, by simp, by simp⟩
      · rw [if_neg h2]
        by_cases h3 : b0.toNat % 32 = 25
        · rw [if_pos h3]
          rcases r1 with _ | ⟨b1, _ | ⟨b2, r3⟩⟩
          · exact ⟨cborFail, [b0], [], by simp, rfl, by simp, by simp⟩
          · exact ⟨cborFail, [b0], [b1], by simp, rfl, by simp, by simp⟩
          · exact ⟨b1.toNat * 256 + b2.toNat, [b0, b1, b2], r3, by simp [show ¬ (r3.length + 1 + 1 + 1 < 3) by omega], rfl, by simp, by simp⟩
        · rw [if_neg h3]
          rcases r1 with _ | ⟨b1, _ | ⟨b2, _ | ⟨b3, _ | ⟨b4, r5⟩⟩⟩⟩
          · exact ⟨cborFail, [b0], [], by simp, rfl, by simp, by simp⟩
          · exact ⟨cborFail, [b0], [b1], by simp, rfl, by simp, by simp⟩
          · exact ⟨cborFail, [b0], [b1, b2], by simp, rfl, by simp, by simp⟩
          · exact ⟨cborFail, [b0], [b1, b2, b3], by simp, rfl, by simp, by simp⟩
          · exact ⟨b1.toNat * 16777216 + b2.toNat * 65536 + b3.toNat * 256 + b4.toNat, [b0, b1, b2, b3, b4], r5,
              by simp [show ¬ (r5.length + 1 + 1 + 1 + 1 + 1 < 5) by omega], rfl, by simp, by simp⟩

/-- what the 4.08 loop guarantees about the messages it sends, as an invariant over `acc` -/
def TxOk (body : Bytes) (szx : Nat) (t : QTx) : Prop :=
  t.num < 2 ^ 20 ∧ blockOffset t.num szx < body.length ∧
  t.payload = (body.drop (blockOffset t.num szx)).take (2 ^ (szx + 4)) ∧ t.payload ≠ [] ∧
  t.m = moreBit body.length t.num szx

theorem addBlock_txok (body : Bytes) (szx num : Nat) (p : Bytes) (hn : ¬ num > 2 ^ 20 - 1) (h : addBlock body num szx = some p) :
    TxOk body szx ⟨num, moreBit body.length num szx, p⟩ := by
  unfold addBlock at h
  simp only [] at h
  split at h
  · simp at h
  · rename_i hlt
    have hp : p = (body.drop (blockOffset num szx)).take (2 ^ (szx + 4)) := by simpa using h.symm
    refine ⟨by show num < 2 ^ 20; omega, by show blockOffset num szx < body.length; omega, hp, ?_, rfl⟩
    rw [hp]
    intro hnil
    have hl := congrArg List.length hnil
    simp only [List.length_take, List.length_drop, List.length_nil] at hl
    have : 0 < 2 ^ (szx + 4) := Nat.two_pow_pos _
    omega

theorem q408Loop_spec (body : Bytes) (szx : Nat) : ∀ (n : Nat) (bp : Bytes) (acc : List QTx),
    (∀ t, t ∈ acc → TxOk body szx t) →
    ∃ o, q408Loop body szx n bp acc = .ok o ∧ (∀ t, t ∈ o.sent → TxOk body szx t) ∧
      o.sent.length ≤ acc.length + n ∧ o.sent.length ≤ acc.length + bp.length
  | 0, bp, acc, hacc => by
    refine ⟨⟨acc.reverse, .done⟩, rfl, ?_, by simp, by simp⟩
    intro t ht; exact hacc t (by simpa using ht)
  | n + 1, [], acc, hacc => by
    refine ⟨⟨acc.reverse, .done⟩, rfl, ?_, by simp, by simp⟩
    intro t ht; exact hacc t (by simpa using ht)
  | n + 1, b0 :: r, acc, hacc => by
    have hdone : ∀ e, (∀ t, t ∈ (⟨acc.reverse, e⟩ : Q408Out).sent → TxOk body szx t) := by
      intro e t ht; exact hacc t (by simpa using ht)
    unfold q408Loop
    simp only []
    by_cases hmt : b0.toNat / 64 ≠ 0
    · rw [if_pos hmt]
      exact ⟨_, rfl, hdone _, by simp, by simp⟩
    · rw [if_neg hmt]
      obtain ⟨v, pre, rest, hd, hsplit, hp1, hp5⟩ := deriveCbor_spec (b0 :: r) (by simp)
      rw [hd]
      simp only []
      by_cases hbig : v > 2 ^ 20 - 1
      · rw [if_pos hbig]
        exact ⟨_, rfl, hdone _, by simp, by simp⟩
      · rw [if_neg hbig]
        cases hab : addBlock body v szx with
        | none => exact ⟨_, rfl, hdone _, by simp, by simp⟩
        | some p =>
          simp only []
          have hacc' : ∀ t, t ∈ (⟨v, moreBit body.length v szx, p⟩ :: acc) → TxOk body szx t := by
            intro t ht
            rcases List.mem_cons.mp ht with h | h
            · rw [h]; exact addBlock_txok body szx v p hbig hab
            · exact hacc t h
          obtain ⟨o, ho, h1, h2, h3⟩ := q408Loop_spec body szx n rest _ hacc'
          refine ⟨o, ho, h1, ?_, ?_⟩
          · simp only [List.length_cons] at h2; omega
          · have hl := congrArg List.length hsplit
            simp only [List.length_cons, List.length_append] at hl h3 ⊢
            omega

/-! ## the server's encoder against the client's parser -/

theorem derive_add408 (n : Nat) (x rest : Bytes) (h : add408Block n = some x) :
    deriveCbor (x ++ rest) (x ++ rest).length = .ok (n, rest) ∧ n < 2 ^ 20 ∧
    ∃ b0 t, x = b0 :: t ∧ b0.toNat / 64 = 0 := by
  unfold add408Block at h
  by_cases h0 : n ≥ 2 ^ 20
  · rw [if_pos h0] at h; simp at h
  · rw [if_neg h0] at h
    by_cases h1 : n < 24
    · rw [if_pos h1] at h
      have hx : x = [UInt8.ofNat n] := by simpa using h.symm
      have hb : (UInt8.ofNat n).toNat = n := toNat_ofNat_lt n (by omega)
      subst hx
      refine ⟨?_, by omega, _, _, rfl, by rw [hb]; omega⟩
      simp only [deriveCbor, List.cons_append, List.nil_append, hb]
      rw [if_pos (by omega), Nat.mod_eq_of_lt (by omega)]
    · rw [if_neg h1] at h
      by_cases h2 : n < 256
      · rw [if_pos h2] at h
        have hx : x = [24, UInt8.ofNat n] := by simpa using h.symm
        have hb : (UInt8.ofNat n).toNat = n := toNat_ofNat_lt n h2
        subst hx
        refine ⟨?_, by omega, _, _, rfl, by decide⟩
        simp only [deriveCbor, List.cons_append, List.nil_append, List.length_cons, hb]
        have : (24 : UInt8).toNat % 32 = 24 := by decide
        rw [this]
        simp
      · rw [if_neg h2] at h
        by_cases h3 : n < 65536
        · rw [if_pos h3] at h
          have hx : x = [25, UInt8.ofNat (n / 256), UInt8.ofNat (n % 256)] := by simpa using h.symm
          have hb1 : (UInt8.ofNat (n / 256)).toNat = n / 256 := toNat_ofNat_lt _ (by omega)
          have hb2 : (UInt8.ofNat (n % 256)).toNat = n % 256 := toNat_ofNat_lt _ (by omega)
          subst hx
          refine ⟨?_, by omega, _, _, rfl, by decide⟩
          simp only [deriveCbor, List.cons_append, List.nil_append, List.length_cons, hb1, hb2]
          have : (25 : UInt8).toNat % 32 = 25 := by decide
          rw [this]
          simp only [show ¬ ((25 : Nat) < 24) by omega, show ¬ ((25 : Nat) = 24) by omega, if_false, if_true]
          rw [if_neg (by omega)]
          have : n / 256 * 256 + n % 256 = n := by omega
          rw [this]
        · rw [if_neg h3] at h
          have hx : x = [26, 0, UInt8.ofNat (n / 65536), UInt8.ofNat ((n / 256) % 256), UInt8.ofNat (n % 256)] := by
            simpa using h.symm
          have hb1 : (UInt8.ofNat (n / 65536)).toNat = n / 65536 := toNat_ofNat_lt _ (by omega)
          have hb2 : (UInt8.ofNat ((n / 256) % 256)).toNat = (n / 256) % 256 := toNat_ofNat_lt _ (by omega)
          have hb3 : (UInt8.ofNat (n % 256)).toNat = n % 256 := toNat_ofNat_lt _ (by omega)
          subst hx
          refine ⟨?_, by omega, _, _, rfl, by decide⟩
          simp only [deriveCbor, List.cons_append, List.nil_append, List.length_cons, hb1, hb2, hb3]
          have : (26 : UInt8).toNat % 32 = 26 := by decide
          rw [this]
          have h00 : (0 : UInt8).toNat = 0 := by decide
          simp only [show ¬ ((26 : Nat) < 24) by omega, show ¬ ((26 : Nat) = 24) by omega, show ¬ ((26 : Nat) = 25) by omega,
            if_false, if_true, h00]
          rw [if_neg (by omega)]
          have : 0 * 16777216 + n / 65536 * 65536 + n / 256 % 256 * 256 + n % 256 = n := by omega
          rw [this]

/-- the message the client sends for block `n` of its body -/
def txOf (body : Bytes) (szx n : Nat) : QTx :=
  ⟨n, moreBit body.length n szx, (body.drop (blockOffset n szx)).take (2 ^ (szx + 4))⟩

theorem q408Loop_encode (body : Bytes) (szx : Nat) : ∀ (ns : List Nat) (k : Nat) (bs : Bytes) (acc : List QTx),
    encode408 ns = some bs → ns.length ≤ k → (∀ n, n ∈ ns → blockOffset n szx < body.length) →
    q408Loop body szx k bs acc = .ok ⟨acc.reverse ++ ns.map (txOf body szx), .done⟩
  | [], k, bs, acc, he, _, _ => by
    have : bs = [] := by simpa [encode408] using he.symm
    subst this
    cases k <;> simp [q408Loop]
  | n :: ns, 0, bs, acc, _, hk, _ => by simp at hk
  | n :: ns, k + 1, bs, acc, he, hk, hin => by
    unfold encode408 at he
    cases hx : add408Block n with
    | none => rw [hx] at he; simp at he
    | some x =>
      cases hy : encode408 ns with
      | none => rw [hx, hy] at he; simp at he
      | some y =>
        rw [hx, hy] at he
        have hbs : bs = x ++ y := by simpa using he.symm
        obtain ⟨hd, hn, b0, t, hxe, hb0⟩ := derive_add408 n x y hx
        subst hbs
        have hcons : x ++ y = b0 :: (t ++ y) := by rw [hxe]; rfl
        unfold q408Loop
        rw [hcons]
        simp only []
        rw [if_neg (by omega), ← hcons, hd]
        simp only []
        rw [if_neg (by omega)]
        have hoff := hin n (by simp)
        have hab : addBlock body n szx = some ((body.drop (blockOffset n szx)).take (2 ^ (szx + 4))) := by
          unfold addBlock; simp only []; rw [if_neg (by omega)]
        rw [hab]
        simp only []
        rw [q408Loop_encode body szx ns k y _ hy (by simp at hk; omega) (fun m hm => hin m (by simp [hm]))]
        simp [txOf]

/-! ## the gap walk of the missing-blocks loops -/

/-- On well-formed ranges (the invariant `rblock_represents` establishes) the walk lists exactly the numbers from `block + 1`
on that are not recorded and lie below a recorded block, and ends with `block` = the highest recorded number. -/
theorem gapLoop_spec : ∀ (rs : Ranges) (lo : Nat) (block : Option Nat) (acc : List Nat),
    WfFrom lo rs → nxt block ≤ lo →
    (∀ g, g ∈ (gapLoop rs block acc).2 ↔ g ∈ acc ∨ (nxt block ≤ g ∧ ¬ Covers rs g ∧ ∃ r, r ∈ rs ∧ g < r.1)) ∧
    (rs ≠ [] → ∃ r, rs.getLast? = some r ∧ (gapLoop rs block acc).1 = some r.2)
  | [], lo, block, acc, _, _ => by
    simp [gapLoop]
  | (b, e) :: rest, lo, block, acc, hw, hn => by
    obtain ⟨hlo, hbe, hw'⟩ := hw
    have hmem : ∀ g, (g ∈ (List.range (b - nxt block)).map (· + nxt block)) ↔ (nxt block ≤ g ∧ g < b) := by
      intro g
      simp only [List.mem_map, List.mem_range]
      constructor
      · rintro ⟨a, ha, rfl⟩; omega
      · intro hg; exact ⟨g - nxt block, by omega, by omega⟩
    -- the state after this range: block = some e, whichever arm
    have key : ∀ (blk1 : Option Nat) (acc1 : List Nat), blk1 = some e →
        (∀ g, g ∈ acc1 ↔ g ∈ acc ∨ (nxt block ≤ g ∧ g < b)) →
        (∀ g, g ∈ (gapLoop rest blk1 acc1).2 ↔
          g ∈ acc ∨ (nxt block ≤ g ∧ ¬ Covers ((b, e) :: rest) g ∧ ∃ r, r ∈ (b, e) :: rest ∧ g < r.1)) ∧
        (∃ r, ((b, e) :: rest).getLast? = some r ∧ (gapLoop rest blk1 acc1).1 = some r.2) := by
      intro blk1 acc1 hb1 hacc1
      subst hb1
      obtain ⟨ih1, ih2⟩ := gapLoop_spec rest (e + 2) (some e) acc1 hw' (show nxt (some e) ≤ e + 2 by show e + 1 ≤ e + 2; omega)
      constructor
      · intro g
        rw [ih1 g, hacc1 g, covers_cons]
        have hne : nxt (some e) = e + 1 := rfl
        rw [hne]
        simp only [List.mem_cons]
        constructor
        · rintro (h | h)
          · rcases h with h | ⟨h1, h2⟩
            · exact Or.inl h
            · exact Or.inr ⟨h1, by
                intro hc
                rcases hc with hc | hc
                · omega
                · have := WfFrom_lb rest (e + 2) g hw' hc; omega, (b, e), Or.inl rfl, h2⟩
          · obtain ⟨h1, h2, r, hr, hlt⟩ := h
            exact Or.inr ⟨by omega, by
              intro hc
              rcases hc with hc | hc
              · omega
              · exact h2 hc, r, Or.inr hr, hlt⟩
        · rintro (h | ⟨h1, h2, r, hr, hlt⟩)
          · exact Or.inl (Or.inl h)
          · by_cases hgb : g < b
            · exact Or.inl (Or.inr ⟨h1, hgb⟩)
            · refine Or.inr ⟨?_, fun hc => h2 (Or.inr hc), ?_⟩
              · have : ¬ (b ≤ g ∧ g ≤ e) := fun hc => h2 (Or.inl hc)
                omega
              · rcases hr with hr | hr
                · subst hr; simp at hlt; omega
                · exact ⟨r, hr, hlt⟩
      · cases rest with
        | nil => exact ⟨(b, e), rfl, by simp [gapLoop]⟩
        | cons x xs =>
          obtain ⟨r, hr1, hr2⟩ := ih2 (by simp)
          exact ⟨r, by simpa [List.getLast?_cons_cons] using hr1, hr2⟩
    have hres : (∀ g, g ∈ (gapLoop ((b, e) :: rest) block acc).2 ↔
          g ∈ acc ∨ (nxt block ≤ g ∧ ¬ Covers ((b, e) :: rest) g ∧ ∃ r, r ∈ (b, e) :: rest ∧ g < r.1)) ∧
        (∃ r, ((b, e) :: rest).getLast? = some r ∧ (gapLoop ((b, e) :: rest) block acc).1 = some r.2) := by
      unfold gapLoop
      simp only []
      by_cases hc : nxt block ≤ b ∧ b ≠ 0
      · rw [if_pos hc]
        refine key _ _ (by by_cases hbe' : b < e <;> simp [hbe']; omega) ?_
        intro g; rw [List.mem_append, hmem g]
      · rw [if_neg hc]
        have hb0 : b = 0 := by
          by_cases h0 : b = 0
          · exact h0
          · exact absurd ⟨by omega, h0⟩ hc
        refine key _ _ ?_ ?_
        · cases block with
          | none => rfl
          | some k => have : nxt (some k) = k + 1 := rfl; omega
        · intro g; constructor
          · intro h; exact Or.inl h
          · rintro (h | h)
            · exact h
            · omega
    exact ⟨hres.1, fun _ => hres.2⟩

end Coap.QBlock
