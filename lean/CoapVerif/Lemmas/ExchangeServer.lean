import CoapVerif.Lemmas.Exchange
/-
Helper lemmas for C07 about the scripted server personalities of Model/Exchange.lean (`Coap.Exch.Server`):
a server that starts quiet and (unless it piggybacks) de-duplicates requests at application level answers ALL the
copies of one Confirmable request, under every interleaving of request copies, ACK / RST datagrams, timer steps and
application timers, with copies of ONE response message `respFor s0 req` (and copies of the empty ACK).
-/
namespace Coap.Exch

/-- what can happen to the server -/
inductive SEvent where
  | rx (now : Nat) (d : Dgram)      -- a datagram arrives (coap_dispatch)
  | tick (now : Nat)                -- coap_io_prepare_io: asyncs that are due, then the retransmission loop
  | app (now : Nat)                 -- one due application timer (trigger of an async / delayed separate response)
  deriving Repr

def Server.step (s : Server) : SEvent → Server × List Out
  | .rx now d => s.rx now d
  | .tick now => s.tick now
  | .app now => (s.appTimer now).getD (s, [])

def Server.run (s : Server) : List SEvent → Server × List Out
  | [] => (s, [])
  | e :: es =>
    let (s1, o1) := s.step e
    let (s2, o2) := Server.run s1 es
    (s2, o1 ++ o2)

/-- THE response message the server in state `s` produces for the request `req` (D2) -/
def respFor (s : Server) (req : Dgram) : Dgram :=
  match s.pers with
  | .pb => { type := .ack, code := 69, mid := req.mid, token := req.token }
  | .ac | .tr | .dc => { type := .con, code := 69, mid := (s.txMid + 1) % 65536, token := req.token }
  | .dn => { type := .non, code := 69, mid := (s.txMid + 1) % 65536, token := req.token }
  | .da => { type := .ack, code := 69, mid := (s.txMid + 1) % 65536, token := req.token }

/-- the server's side of one exchange: copies of the request `req` arrive (any number, any time), ACK / RST datagrams
    arrive (any message id), time passes, application timers run — in any order -/
inductive SExEv (req : Dgram) : SEvent → Prop where
  | request (now : Nat) : SExEv req (.rx now req)
  | reply (now : Nat) (d : Dgram) (h : d.type = .ack ∨ d.type = .rst) : SExEv req (.rx now d)
  | tick (now : Nat) : SExEv req (.tick now)
  | app (now : Nat) : SExEv req (.app now)

/-- a Confirmable request -/
structure SReq (req : Dgram) : Prop where
  hcon : req.type = .con
  hcode : isRequest req.code = true

/-- the server is quiet and has not seen the request's token; it piggybacks or de-duplicates at application level -/
structure SQuiet (s : Server) (req : Dgram) : Prop where
  hL : s.L = Idle
  hasync : s.asyncs = []
  hpend : s.pend = []
  hnew : s.answered.contains req.token = false
  hdedup : s.pers = .pb ∨ s.dedup = true

/-! ### message layer: the single waiting node only ever retransmits its own datagram -/

namespace Layer

theorem tick_Wt_tx (now : Nat) :
    ∀ (fuel : Nat) (n : Node), n.d.type = .con →
      (∀ d, Out.tx d ∈ (tick now fuel (Wt n)).2 → d = n.d) ∧
      ((∃ n', (tick now fuel (Wt n)).1 = Wt n' ∧ n'.d = n.d) ∨ (tick now fuel (Wt n)).1 = Idle) := by
  intro fuel
  induction fuel with
  | zero => intro n _; exact ⟨by simp [tick], Or.inl ⟨n, by simp [tick]⟩⟩
  | succ f ih =>
    intro n hc
    by_cases hdue : n.due ≤ now
    · by_cases hcnt : n.cnt < maxRetransmit
      · have hret : retransmit { sendq := [], delayq := [], conActive := 1 } now n =
            (Wt { n with cnt := n.cnt + 1, due := now + n.timeout * 2 ^ (n.cnt + 1) }, [Out.tx n.d]) := by
          simp [retransmit, hcnt, insertNode, hc, nstart, Wt]
        have hstep : tick now (f + 1) (Wt n) =
            ((tick now f (Wt { n with cnt := n.cnt + 1, due := now + n.timeout * 2 ^ (n.cnt + 1) })).1,
             Out.tx n.d :: (tick now f (Wt { n with cnt := n.cnt + 1, due := now + n.timeout * 2 ^ (n.cnt + 1) })).2) := by
          conv => lhs; unfold tick
          simp only [Wt, hdue, if_true]
          rw [show ({ sendq := [], delayq := [], conActive := 1 } : Layer) = { sendq := [], delayq := [], conActive := 1 } from rfl]
          simp [hret, Wt]
        rw [hstep]
        obtain ⟨a1, a2⟩ := ih { n with cnt := n.cnt + 1, due := now + n.timeout * 2 ^ (n.cnt + 1) } hc
        refine ⟨?_, ?_⟩
        · intro d hd
          simp only [List.mem_cons] at hd
          rcases hd with hd | hd
          · injection hd
          · exact a1 d hd
        · rcases a2 with ⟨n', b1, b2⟩ | b1
          · exact Or.inl ⟨n', b1, b2⟩
          · exact Or.inr b1
      · have hret : retransmit { sendq := [], delayq := [], conActive := 1 } now n =
            (Idle, [Out.callNack .retries n.d.mid]) := by
          simp [retransmit, hcnt, release_Wt_removed, hc]
        have hstep : tick now (f + 1) (Wt n) = (Idle, [Out.callNack .retries n.d.mid]) := by
          conv => lhs; unfold tick
          simp [Wt, hdue, hret, tick_Idle]
        rw [hstep]
        simp
    · refine ⟨?_, Or.inl ⟨n, ?_, rfl⟩⟩ <;> simp [tick, Wt, hdue]

theorem tickAll_Idle (now : Nat) : tickAll now Idle = (Idle, []) := by
  simp [tickAll, tick_Idle]

theorem tickAll_Wt_tx (now : Nat) (n : Node) (hc : n.d.type = .con) :
    (∀ d, Out.tx d ∈ (tickAll now (Wt n)).2 → d = n.d) ∧
    ((∃ n', (tickAll now (Wt n)).1 = Wt n' ∧ n'.d = n.d) ∨ (tickAll now (Wt n)).1 = Idle) := by
  unfold tickAll
  exact tick_Wt_tx now _ n hc

end Layer

/-! ### the server's reactions, one lemma per (situation, event) -/

/-- an ACK / RST datagram on an idle layer matches nothing -/
theorem Server.rx_reply_Idle (s : Server) (now : Nat) (d : Dgram) (hL : s.L = Idle)
    (h : d.type = .ack ∨ d.type = .rst) :
    (s.rx now d).1 = s ∧ ∀ d', Out.tx d' ∉ (s.rx now d).2 := by
  cases s with
  | mk pers dedup D T txMid L asyncs pend answered =>
    simp only at hL; subst hL
    rcases h with h | h <;> simp [Server.rx, h, Idle, Layer.removeByMid]

/-- an ACK / RST datagram while one node waits: it stays, or it is removed -/
theorem Server.rx_reply_Wt (s : Server) (now : Nat) (d : Dgram) (n : Node) (hL : s.L = Wt n)
    (h : d.type = .ack ∨ d.type = .rst) :
    ((s.rx now d).1 = s ∨ (s.rx now d).1 = { s with L := Idle }) ∧ ∀ d', Out.tx d' ∉ (s.rx now d).2 := by
  cases s with
  | mk pers dedup D T txMid L asyncs pend answered =>
    simp only at hL; subst hL
    by_cases hm : n.d.mid = d.mid
    · rcases h with h | h
      · simp [Server.rx, h, Wt, Layer.removeByMid, hm, Layer.release_Wt_removed]
      · by_cases hc : n.d.type = .con <;>
          simp [Server.rx, h, Wt, Layer.removeByMid, hm, Layer.release_Wt_removed, Layer.cancelAll_Idle, hc]
    · rcases h with h | h <;> simp [Server.rx, h, Wt, Layer.removeByMid, hm]

theorem Server.tick_noasync (s : Server) (now : Nat) (ha : s.asyncs = []) :
    s.tick now = ({ s with L := (s.L.tickAll now).1 }, (s.L.tickAll now).2) := by
  cases s with
  | mk pers dedup D T txMid L asyncs pend answered =>
    simp only at ha; subst ha
    simp [Server.tick, Server.checkAsync]

theorem Server.tick_quiet (s : Server) (now : Nat) (ha : s.asyncs = []) (hL : s.L = Idle) : s.tick now = (s, []) := by
  cases s with
  | mk pers dedup D T txMid L asyncs pend answered =>
    simp only at ha hL; subst ha hL
    simp [Server.tick, Server.checkAsync, Layer.tickAll_Idle]

/-- one async that is not due -/
theorem Server.tick_async_wait (s : Server) (now : Nat) (a : Async) (ha : s.asyncs = [a]) (hL : s.L = Idle)
    (hd : a.due = none ∨ ∃ t, a.due = some t ∧ now < t) : s.tick now = (s, []) := by
  cases s with
  | mk pers dedup D T txMid L asyncs pend answered =>
    simp only at ha hL; subst ha hL
    cases a with
    | mk tok mid rt due =>
      simp only at hd
      rcases hd with hd | ⟨t, hd, hlt⟩
      · subst hd
        simp [Server.tick, Server.checkAsync, Layer.tickAll_Idle]
      · subst hd
        have hn : ¬ t ≤ now := by omega
        simp [Server.tick, Server.checkAsync, Layer.tickAll_Idle, hn]

/-- the node that carries the separate response -/
def rspNode (T now m : Nat) (tok : Bytes) : Node :=
  { d := { type := .con, code := 69, mid := m, token := tok }, timeout := T, cnt := 0, due := now + T * 2 ^ 0 }

/-- one async that is due: the stored request goes through the handler, the separate response is sent and the
    retransmission loop runs on it -/
theorem Server.tick_async_fire (pers : Pers) (dedup : Bool) (D T txMid : Nat) (pend : List Pend) (answered : List Bytes)
    (now m t : Nat) (tok : Bytes) (hp : pers = .ac ∨ pers = .tr) (ht : t ≤ now) :
    (Server.mk pers dedup D T txMid Idle [{ token := tok, mid := m, reqType := .con, due := some t }] pend answered).tick now =
      (Server.mk pers dedup D T txMid (Layer.tickAll now (Wt (rspNode T now m tok))).1 [] pend (answered ++ [tok]),
       Out.callRequest m tok :: Out.tx { type := .con, code := 69, mid := m, token := tok } ::
         (Layer.tickAll now (Wt (rspNode T now m tok))).2) := by
  have hn : ¬ now < t := by omega
  rcases hp with hp | hp <;> subst hp <;>
    simp [Server.tick, Server.checkAsync, ht, hn, Server.handleRequest, Server.findAsync, Server.handler, Layer.send, Idle,
      nstart, Layer.waitAck, Layer.insertNode, Wt, rspNode]

theorem Server.app_nopend (s : Server) (now : Nat) (h : s.pend = []) : s.appTimer now = none := by
  cases s with
  | mk pers dedup D T txMid L asyncs pend answered =>
    simp only at h; subst h
    simp [Server.appTimer]

theorem Server.app_wait (s : Server) (now : Nat) (p : Pend) (h : s.pend = [p]) (hd : now < p.due) :
    s.appTimer now = none := by
  cases s with
  | mk pers dedup D T txMid L asyncs pend answered =>
    simp only at h; subst h
    have hn : ¬ p.due ≤ now := by omega
    simp [Server.appTimer, hn]

theorem Server.app_fire_dc (dedup : Bool) (D T txMid : Nat) (answered : List Bytes) (now due : Nat) (tok : Bytes)
    (hd : due ≤ now) :
    (Server.mk .dc dedup D T txMid Idle [] [{ token := tok, due := due }] answered).appTimer now =
      some (Server.mk .dc dedup D T ((txMid + 1) % 65536) (Wt (rspNode T now ((txMid + 1) % 65536) tok)) [] []
              (answered ++ [tok]),
            [Out.tx { type := .con, code := 69, mid := (txMid + 1) % 65536, token := tok }]) := by
  simp [Server.appTimer, hd, Layer.send, Idle, nstart, Layer.waitAck, Layer.insertNode, Wt, rspNode]

theorem Server.app_fire_dn (dedup : Bool) (D T txMid : Nat) (answered : List Bytes) (now due : Nat) (tok : Bytes)
    (hd : due ≤ now) :
    (Server.mk .dn dedup D T txMid Idle [] [{ token := tok, due := due }] answered).appTimer now =
      some (Server.mk .dn dedup D T ((txMid + 1) % 65536) Idle [] [] (answered ++ [tok]),
            [Out.tx { type := .non, code := 69, mid := (txMid + 1) % 65536, token := tok }]) := by
  simp [Server.appTimer, hd, Layer.send, Idle]

theorem Server.app_fire_da (dedup : Bool) (D T txMid : Nat) (answered : List Bytes) (now due : Nat) (tok : Bytes)
    (hd : due ≤ now) :
    (Server.mk .da dedup D T txMid Idle [] [{ token := tok, due := due }] answered).appTimer now =
      some (Server.mk .da dedup D T ((txMid + 1) % 65536) Idle [] [] (answered ++ [tok]),
            [Out.tx { type := .ack, code := 69, mid := (txMid + 1) % 65536, token := tok }]) := by
  simp [Server.appTimer, hd, Layer.send, Idle]

theorem Server.app_fire_tr (dedup : Bool) (D T txMid : Nat) (answered : List Bytes) (now due m : Nat) (tok : Bytes)
    (hd : due ≤ now) :
    (Server.mk .tr dedup D T txMid Idle [{ token := tok, mid := m, reqType := .con, due := none }]
        [{ token := tok, due := due }] answered).appTimer now =
      some ((Server.mk .tr dedup D T txMid Idle [{ token := tok, mid := m, reqType := .con, due := some now }] []
              answered).tick now) := by
  simp [Server.appTimer, hd]

/-! requests -/

theorem ackFor_con {req : Dgram} (h : req.type = .con) : ackFor req = [Out.tx (emptyAck req.mid)] := by
  simp [ackFor, h, emptyAck]

/-- the piggybacking server -/
theorem Server.rx_req_pb (dedup : Bool) (D T txMid : Nat) (answered : List Bytes) (now : Nat) (req : Dgram)
    (hr : SReq req) :
    (Server.mk .pb dedup D T txMid Idle [] [] answered).rx now req =
      (Server.mk .pb dedup D T txMid Idle [] [] answered,
       [Out.callRequest req.mid req.token, Out.tx { type := .ack, code := 69, mid := req.mid, token := req.token }]) := by
  obtain ⟨hc, hk⟩ := hr
  simp [Server.rx, hc, hk, Server.handleRequest, Server.findAsync, Server.handler, Layer.send]

theorem Server.rx_req_fresh_ac (dedup : Bool) (D T txMid : Nat) (answered : List Bytes) (now : Nat) (req : Dgram)
    (hr : SReq req) (hnew : answered.contains req.token = false) :
    (Server.mk .ac dedup D T txMid Idle [] [] answered).rx now req =
      (Server.mk .ac dedup D T ((txMid + 1) % 65536) Idle
          [{ token := req.token, mid := (txMid + 1) % 65536, reqType := .con, due := some (now + D) }] [] answered,
       [Out.callRequest req.mid req.token, Out.tx (emptyAck req.mid)]) := by
  obtain ⟨hc, hk⟩ := hr
  have hnew' : req.token ∉ answered := by simpa using hnew
  simp [Server.rx, hc, hk, Server.handleRequest, Server.findAsync, Server.handler, hnew', ackFor, emptyAck]

theorem Server.rx_req_fresh_tr (dedup : Bool) (D T txMid : Nat) (answered : List Bytes) (now : Nat) (req : Dgram)
    (hr : SReq req) (hnew : answered.contains req.token = false) :
    (Server.mk .tr dedup D T txMid Idle [] [] answered).rx now req =
      (Server.mk .tr dedup D T ((txMid + 1) % 65536) Idle
          [{ token := req.token, mid := (txMid + 1) % 65536, reqType := .con, due := none }]
          [{ token := req.token, due := now + D }] answered,
       [Out.callRequest req.mid req.token, Out.tx (emptyAck req.mid)]) := by
  obtain ⟨hc, hk⟩ := hr
  have hnew' : req.token ∉ answered := by simpa using hnew
  simp [Server.rx, hc, hk, Server.handleRequest, Server.findAsync, Server.handler, hnew', ackFor, emptyAck]

theorem Server.rx_req_fresh_dcdn (pers : Pers) (dedup : Bool) (D T txMid : Nat) (answered : List Bytes) (now : Nat)
    (req : Dgram) (hp : pers = .dc ∨ pers = .dn ∨ pers = .da) (hr : SReq req) (hnew : answered.contains req.token = false) :
    (Server.mk pers dedup D T txMid Idle [] [] answered).rx now req =
      (Server.mk pers dedup D T txMid Idle [] [{ token := req.token, due := now + D }] answered,
       [Out.callRequest req.mid req.token, Out.tx (emptyAck req.mid)]) := by
  obtain ⟨hc, hk⟩ := hr
  have hnew' : req.token ∉ answered := by simpa using hnew
  rcases hp with hp | hp | hp <;> subst hp <;>
    simp [Server.rx, hc, hk, Server.handleRequest, Server.findAsync, Server.handler, hnew', ackFor, emptyAck]

/-- a copy of the request while its async is registered: only the empty ACK again -/
theorem Server.rx_req_async (s : Server) (now : Nat) (req : Dgram) (a : Async) (hr : SReq req)
    (ha : s.asyncs = [a]) (hat : a.token = req.token) :
    s.rx now req = (s, [Out.tx (emptyAck req.mid)]) := by
  obtain ⟨hc, hk⟩ := hr
  cases s with
  | mk pers dedup D T txMid L asyncs pend answered =>
    simp only at ha; subst ha
    simp [Server.rx, hc, hk, Server.handleRequest, Server.findAsync, hat, ackFor, emptyAck]

/-- a copy of the request while the delayed-response timer runs -/
theorem Server.rx_req_timer (s : Server) (now : Nat) (req : Dgram) (p : Pend) (hr : SReq req)
    (hp : s.pers = .dc ∨ s.pers = .dn ∨ s.pers = .da) (ha : s.asyncs = []) (hpe : s.pend = [p]) (hpt : p.token = req.token) :
    s.rx now req = (s, [Out.callRequest req.mid req.token, Out.tx (emptyAck req.mid)]) := by
  obtain ⟨hc, hk⟩ := hr
  cases s with
  | mk pers dedup D T txMid L asyncs pend answered =>
    simp only at ha hpe hp; subst ha hpe
    rcases hp with hp | hp | hp <;> subst hp <;>
      simp [Server.rx, hc, hk, Server.handleRequest, Server.findAsync, Server.handler, hpt, ackFor, emptyAck]

/-- a copy of the request after the response: application-level de-duplication -/
theorem Server.rx_req_answered (s : Server) (now : Nat) (req : Dgram) (hr : SReq req)
    (hp : s.pers ≠ .pb) (hd : s.dedup = true) (ha : s.asyncs = []) (hpe : s.pend = [])
    (hans : s.answered.contains req.token = true) :
    s.rx now req = (s, [Out.callRequest req.mid req.token, Out.tx (emptyAck req.mid)]) := by
  obtain ⟨hc, hk⟩ := hr
  cases s with
  | mk pers dedup D T txMid L asyncs pend answered =>
    simp only at ha hpe hp hd hans; subst ha hpe hd
    cases pers <;>
      simp_all [Server.rx, Server.handleRequest, Server.findAsync, Server.handler, ackFor, emptyAck]

/-! ### the invariant -/

/-- invariant of the server during the exchange: the state is one of five explicitly given phases; the static
    fields `pers`, `dedup`, `D`, `T` (and everything not mentioned) are those of `s0` -/
def SInv (s0 : Server) (req : Dgram) (s : Server) : Prop :=
  -- nothing seen yet (for the piggybacking server: always)
  s = s0 ∨
  -- `ac`: async registered, armed with a delay
  (s0.pers = .ac ∧ ∃ t, s =
    { s0 with
      txMid := (s0.txMid + 1) % 65536,
      asyncs := [{ token := req.token, mid := (s0.txMid + 1) % 65536, reqType := .con, due := some t }] }) ∨
  -- `tr`: async registered, delayed indefinitely, the application's trigger timer runs
  (s0.pers = .tr ∧ ∃ t, s =
    { s0 with
      txMid := (s0.txMid + 1) % 65536,
      asyncs := [{ token := req.token, mid := (s0.txMid + 1) % 65536, reqType := .con, due := none }],
      pend := [{ token := req.token, due := t }] }) ∨
  -- `dc` / `dn` / `da`: the application's delayed-response timer runs
  ((s0.pers = .dc ∨ s0.pers = .dn ∨ s0.pers = .da) ∧ ∃ t, s = { s0 with pend := [{ token := req.token, due := t }] }) ∨
  -- the response has been produced; a Confirmable one may still wait for its ACK
  (s0.pers ≠ .pb ∧ ∃ L, (L = Idle ∨ ∃ n, L = Wt n ∧ n.d = respFor s0 req ∧ (respFor s0 req).type = .con) ∧
    s = { s0 with txMid := (s0.txMid + 1) % 65536, answered := s0.answered ++ [req.token], L := L })

set_option linter.unusedVariables false in
theorem SInv_init {s0 : Server} {req : Dgram} (hq : SQuiet s0 req) : SInv s0 req s0 := Or.inl rfl

/-- the static configuration never changes -/
theorem SInv.static {s0 : Server} {req : Dgram} {s : Server} (h : SInv s0 req s) :
    s.pers = s0.pers ∧ s.dedup = s0.dedup ∧ s.D = s0.D ∧ s.T = s0.T := by
  rcases h with h | ⟨_, t, h⟩ | ⟨_, t, h⟩ | ⟨_, t, h⟩ | ⟨_, L, _, h⟩ <;> subst h <;> simp

/-- the message layer is idle, or exactly one node — the Confirmable response — waits for its ACK -/
theorem SInv.layer {s0 : Server} {req : Dgram} {s : Server} (hq : SQuiet s0 req) (h : SInv s0 req s) :
    s.L = Idle ∨ ∃ n, s.L = Wt n ∧ n.d = respFor s0 req ∧ (respFor s0 req).type = .con := by
  have hL := hq.hL
  rcases h with h | ⟨_, t, h⟩ | ⟨_, t, h⟩ | ⟨_, t, h⟩ | ⟨_, L, hL', h⟩ <;> subst h
  · exact Or.inl hL
  · exact Or.inl hL
  · exact Or.inl hL
  · exact Or.inl hL
  · exact hL'

/-- the retransmission loop on the waiting response keeps the "answered" phase and transmits only the response -/
theorem SInv_tickAll_Wt (pers : Pers) (dedup : Bool) (D T txMid : Nat) (answered : List Bytes) (req : Dgram)
    (hp : pers ≠ .pb) (now : Nat) (n : Node)
    (hn : n.d = respFor (Server.mk pers dedup D T txMid Idle [] [] answered) req)
    (hc : (respFor (Server.mk pers dedup D T txMid Idle [] [] answered) req).type = .con) :
    SInv (Server.mk pers dedup D T txMid Idle [] [] answered) req
      (Server.mk pers dedup D T ((txMid + 1) % 65536) (Layer.tickAll now (Wt n)).1 [] [] (answered ++ [req.token])) ∧
    ∀ d, Out.tx d ∈ (Layer.tickAll now (Wt n)).2 → d = respFor (Server.mk pers dedup D T txMid Idle [] [] answered) req := by
  obtain ⟨h1, h2⟩ := Layer.tickAll_Wt_tx now n (by rw [hn]; exact hc)
  refine ⟨?_, fun d hd => (h1 d hd).trans hn⟩
  refine Or.inr (Or.inr (Or.inr (Or.inr ⟨hp, _, ?_, rfl⟩)))
  rcases h2 with ⟨n', b1, b2⟩ | b1
  · exact Or.inr ⟨n', b1, b2.trans hn, hc⟩
  · exact Or.inl b1

theorem SInv_step {s0 : Server} {req : Dgram} (hr : SReq req) (hq : SQuiet s0 req) (s : Server) (hi : SInv s0 req s)
    (e : SEvent) (he : SExEv req e) :
    SInv s0 req (s.step e).1 ∧ ∀ d, Out.tx d ∈ (s.step e).2 → d = respFor s0 req ∨ d = emptyAck req.mid := by
  cases s0 with
  | mk pers dedup D T txMid L0 asyncs0 pend0 answered =>
    obtain ⟨hL, hasync, hpend, hnew, hdedup⟩ := hq
    simp only at hL hasync hpend hnew hdedup
    subst hL hasync hpend
    rcases hi with hi | ⟨hp, t, hi⟩ | ⟨hp, t, hi⟩ | ⟨hp, t, hi⟩ | ⟨hp, L, hL, hi⟩
    · -- nothing seen yet
      subst hi
      cases he with
      | request now =>
        simp only [Server.step]
        cases pers with
        | pb =>
          rw [Server.rx_req_pb _ _ _ _ _ _ _ hr]
          exact ⟨Or.inl rfl, by simp [respFor]⟩
        | ac =>
          rw [Server.rx_req_fresh_ac _ _ _ _ _ _ _ hr hnew]
          exact ⟨Or.inr (Or.inl ⟨rfl, _, rfl⟩), by simp⟩
        | tr =>
          rw [Server.rx_req_fresh_tr _ _ _ _ _ _ _ hr hnew]
          exact ⟨Or.inr (Or.inr (Or.inl ⟨rfl, _, rfl⟩)), by simp⟩
        | dc =>
          rw [Server.rx_req_fresh_dcdn _ _ _ _ _ _ _ _ (Or.inl rfl) hr hnew]
          exact ⟨Or.inr (Or.inr (Or.inr (Or.inl ⟨Or.inl rfl, _, rfl⟩))), by simp⟩
        | dn =>
          rw [Server.rx_req_fresh_dcdn _ _ _ _ _ _ _ _ (Or.inr (Or.inl rfl)) hr hnew]
          exact ⟨Or.inr (Or.inr (Or.inr (Or.inl ⟨Or.inr (Or.inl rfl), _, rfl⟩))), by simp⟩
        | da =>
          rw [Server.rx_req_fresh_dcdn _ _ _ _ _ _ _ _ (Or.inr (Or.inr rfl)) hr hnew]
          exact ⟨Or.inr (Or.inr (Or.inr (Or.inl ⟨Or.inr (Or.inr rfl), _, rfl⟩))), by simp⟩
      | reply now d h =>
        simp only [Server.step]
        obtain ⟨h1, h2⟩ := Server.rx_reply_Idle ⟨pers, dedup, D, T, txMid, Idle, [], [], answered⟩ now d rfl h
        rw [h1]
        exact ⟨Or.inl rfl, fun d' hd' => absurd hd' (h2 d')⟩
      | tick now =>
        simp only [Server.step]
        rw [Server.tick_quiet _ now rfl rfl]
        exact ⟨Or.inl rfl, by simp⟩
      | app now =>
        simp only [Server.step]
        rw [Server.app_nopend _ now rfl]
        exact ⟨Or.inl rfl, by simp⟩
    · -- ac: the async is armed
      simp only at hp hi
      subst hp hi
      cases he with
      | request now =>
        simp only [Server.step]
        rw [Server.rx_req_async _ now req _ hr rfl rfl]
        exact ⟨Or.inr (Or.inl ⟨rfl, _, rfl⟩), by simp⟩
      | reply now d h =>
        simp only [Server.step]
        obtain ⟨h1, h2⟩ := Server.rx_reply_Idle ⟨.ac, dedup, D, T, (txMid + 1) % 65536, Idle,
          [{ token := req.token, mid := (txMid + 1) % 65536, reqType := .con, due := some t }], [], answered⟩ now d rfl h
        rw [h1]
        exact ⟨Or.inr (Or.inl ⟨rfl, _, rfl⟩), fun d' hd' => absurd hd' (h2 d')⟩
      | tick now =>
        simp only [Server.step]
        by_cases ht : t ≤ now
        · rw [Server.tick_async_fire _ _ _ _ _ _ _ _ _ _ _ (Or.inl rfl) ht]
          obtain ⟨h1, h2⟩ := SInv_tickAll_Wt .ac dedup D T txMid answered req (by simp) now
            (rspNode T now ((txMid + 1) % 65536) req.token) (by simp [rspNode, respFor]) (by simp [respFor])
          refine ⟨h1, ?_⟩
          intro d hd
          simp only [List.mem_cons, Out.tx.injEq, reduceCtorEq, false_or] at hd
          rcases hd with hd | hd
          · left; rw [hd]; simp [respFor]
          · exact Or.inl (h2 d hd)
        · rw [Server.tick_async_wait _ now _ rfl rfl (Or.inr ⟨t, rfl, by omega⟩)]
          exact ⟨Or.inr (Or.inl ⟨rfl, _, rfl⟩), by simp⟩
      | app now =>
        simp only [Server.step]
        rw [Server.app_nopend _ now rfl]
        exact ⟨Or.inr (Or.inl ⟨rfl, _, rfl⟩), by simp⟩
    · -- tr: the async is delayed indefinitely, the trigger timer runs
      simp only at hp hi
      subst hp hi
      cases he with
      | request now =>
        simp only [Server.step]
        rw [Server.rx_req_async _ now req _ hr rfl rfl]
        exact ⟨Or.inr (Or.inr (Or.inl ⟨rfl, _, rfl⟩)), by simp⟩
      | reply now d h =>
        simp only [Server.step]
        obtain ⟨h1, h2⟩ := Server.rx_reply_Idle ⟨.tr, dedup, D, T, (txMid + 1) % 65536, Idle,
          [{ token := req.token, mid := (txMid + 1) % 65536, reqType := .con, due := none }],
          [{ token := req.token, due := t }], answered⟩ now d rfl h
        rw [h1]
        exact ⟨Or.inr (Or.inr (Or.inl ⟨rfl, _, rfl⟩)), fun d' hd' => absurd hd' (h2 d')⟩
      | tick now =>
        simp only [Server.step]
        rw [Server.tick_async_wait _ now _ rfl rfl (Or.inl rfl)]
        exact ⟨Or.inr (Or.inr (Or.inl ⟨rfl, _, rfl⟩)), by simp⟩
      | app now =>
        simp only [Server.step]
        by_cases ht : t ≤ now
        · rw [Server.app_fire_tr _ _ _ _ _ _ _ _ _ ht, Option.getD_some,
            Server.tick_async_fire _ _ _ _ _ _ _ _ _ _ _ (Or.inr rfl) (Nat.le_refl now)]
          obtain ⟨h1, h2⟩ := SInv_tickAll_Wt .tr dedup D T txMid answered req (by simp) now
            (rspNode T now ((txMid + 1) % 65536) req.token) (by simp [rspNode, respFor]) (by simp [respFor])
          refine ⟨h1, ?_⟩
          intro d hd
          simp only [List.mem_cons, Out.tx.injEq, reduceCtorEq, false_or] at hd
          rcases hd with hd | hd
          · left; rw [hd]; simp [respFor]
          · exact Or.inl (h2 d hd)
        · rw [Server.app_wait _ now _ rfl (by simp only; omega)]
          exact ⟨Or.inr (Or.inr (Or.inl ⟨rfl, _, rfl⟩)), by simp⟩
    · -- dc / dn: the delayed-response timer runs
      simp only at hp hi
      subst hi
      cases he with
      | request now =>
        simp only [Server.step]
        rw [Server.rx_req_timer _ now req _ hr hp rfl rfl rfl]
        exact ⟨Or.inr (Or.inr (Or.inr (Or.inl ⟨hp, _, rfl⟩))), by simp⟩
      | reply now d h =>
        simp only [Server.step]
        obtain ⟨h1, h2⟩ := Server.rx_reply_Idle ⟨pers, dedup, D, T, txMid, Idle, [],
          [{ token := req.token, due := t }], answered⟩ now d rfl h
        rw [h1]
        exact ⟨Or.inr (Or.inr (Or.inr (Or.inl ⟨hp, _, rfl⟩))), fun d' hd' => absurd hd' (h2 d')⟩
      | tick now =>
        simp only [Server.step]
        rw [Server.tick_quiet _ now rfl rfl]
        exact ⟨Or.inr (Or.inr (Or.inr (Or.inl ⟨hp, _, rfl⟩))), by simp⟩
      | app now =>
        simp only [Server.step]
        by_cases ht : t ≤ now
        · rcases hp with hp | hp | hp <;> subst hp
          · rw [Server.app_fire_dc _ _ _ _ _ _ _ _ ht, Option.getD_some]
            refine ⟨Or.inr (Or.inr (Or.inr (Or.inr ⟨by simp, _, Or.inr ⟨_, rfl, ?_, ?_⟩, rfl⟩))), ?_⟩ <;>
              simp [rspNode, respFor]
          · rw [Server.app_fire_dn _ _ _ _ _ _ _ _ ht, Option.getD_some]
            refine ⟨Or.inr (Or.inr (Or.inr (Or.inr ⟨by simp, _, Or.inl rfl, rfl⟩))), ?_⟩
            simp [respFor]
          · rw [Server.app_fire_da _ _ _ _ _ _ _ _ ht, Option.getD_some]
            refine ⟨Or.inr (Or.inr (Or.inr (Or.inr ⟨by simp, _, Or.inl rfl, rfl⟩))), ?_⟩
            simp [respFor]
        · rw [Server.app_wait _ now _ rfl (by simp only; omega)]
          exact ⟨Or.inr (Or.inr (Or.inr (Or.inl ⟨hp, _, rfl⟩))), by simp⟩
    · -- answered
      simp only at hp hi
      subst hi
      have hd : dedup = true := by
        rcases hdedup with h | h
        · exact absurd h hp
        · exact h
      have hans : (answered ++ [req.token]).contains req.token = true := by simp
      have hkeep : ∀ L', (L' = Idle ∨ ∃ n, L' = Wt n ∧ n.d = respFor ⟨pers, dedup, D, T, txMid, Idle, [], [], answered⟩ req ∧
            (respFor ⟨pers, dedup, D, T, txMid, Idle, [], [], answered⟩ req).type = .con) →
          SInv ⟨pers, dedup, D, T, txMid, Idle, [], [], answered⟩ req
            ⟨pers, dedup, D, T, (txMid + 1) % 65536, L', [], [], answered ++ [req.token]⟩ :=
        fun L' hL' => Or.inr (Or.inr (Or.inr (Or.inr ⟨hp, L', hL', rfl⟩)))
      cases he with
      | request now =>
        simp only [Server.step]
        rw [Server.rx_req_answered _ now req hr hp hd rfl rfl hans]
        exact ⟨hkeep L hL, by simp⟩
      | reply now d h =>
        simp only [Server.step]
        rcases hL with hL | ⟨n, hL, hn, hc⟩
        · subst hL
          obtain ⟨h1, h2⟩ := Server.rx_reply_Idle ⟨pers, dedup, D, T, (txMid + 1) % 65536, Idle, [], [],
            answered ++ [req.token]⟩ now d rfl h
          rw [h1]
          exact ⟨hkeep _ (Or.inl rfl), fun d' hd' => absurd hd' (h2 d')⟩
        · subst hL
          obtain ⟨h1, h2⟩ := Server.rx_reply_Wt ⟨pers, dedup, D, T, (txMid + 1) % 65536, Wt n, [], [],
            answered ++ [req.token]⟩ now d n rfl h
          refine ⟨?_, fun d' hd' => absurd hd' (h2 d')⟩
          rcases h1 with h1 | h1 <;> rw [h1]
          · exact hkeep _ (Or.inr ⟨n, rfl, hn, hc⟩)
          · exact hkeep _ (Or.inl rfl)
      | tick now =>
        simp only [Server.step]
        rw [Server.tick_noasync _ now rfl]
        rcases hL with hL | ⟨n, hL, hn, hc⟩
        · subst hL
          simp only [Layer.tickAll_Idle]
          exact ⟨hkeep _ (Or.inl rfl), by simp⟩
        · subst hL
          obtain ⟨h1, h2⟩ := SInv_tickAll_Wt pers dedup D T txMid answered req hp now n hn hc
          exact ⟨h1, fun d hd => Or.inl (h2 d hd)⟩
      | app now =>
        simp only [Server.step]
        rw [Server.app_nopend _ now rfl]
        exact ⟨hkeep L hL, by simp⟩

/-- the piggybacking server never leaves its initial state -/
theorem SInv_pb_const {s0 : Server} {req : Dgram} (hp : s0.pers = .pb) {s : Server} (hi : SInv s0 req s) : s = s0 := by
  rcases hi with hi | ⟨h, _⟩ | ⟨h, _⟩ | ⟨h, _⟩ | ⟨h, _⟩
  · exact hi
  · rw [hp] at h; cases h
  · rw [hp] at h; cases h
  · rw [hp] at h; rcases h with h | h | h <;> cases h
  · exact absurd hp h

/-- the piggybacking server never changes state and transmits only when a copy of the request arrives -/
theorem SInv_step_pb_state {s0 : Server} {req : Dgram} (hr : SReq req) (hq : SQuiet s0 req) (hp : s0.pers = .pb)
    (s : Server) (hi : SInv s0 req s) (e : SEvent) (he : SExEv req e) : (s.step e).1 = s0 :=
  SInv_pb_const hp (SInv_step hr hq s hi e he).1

set_option linter.unusedVariables false in
/-- the piggybacking server never changes state and transmits only when a copy of the request arrives -/
theorem SInv_step_pb {s0 : Server} {req : Dgram} (hr : SReq req) (hq : SQuiet s0 req) (hp : s0.pers = .pb) (s : Server)
    (hi : SInv s0 req s) (e : SEvent) (he : SExEv req e) :
    (∀ now, e ≠ .rx now req) → ∀ d, Out.tx d ∉ (s.step e).2 := by
  intro hne d
  have hs := SInv_pb_const hp hi
  subst hs
  cases he with
  | request now => exact absurd rfl (hne now)
  | reply now d' h => exact (Server.rx_reply_Idle s now d' hq.hL h).2 d
  | tick now =>
    simp only [Server.step]
    rw [Server.tick_quiet s now hq.hasync hq.hL]
    simp
  | app now =>
    simp only [Server.step]
    rw [Server.app_nopend s now hq.hpend]
    simp

/-- every copy of the request makes the piggybacking server call the handler and transmit THE response once -/
theorem SInv_step_pb_request {s0 : Server} {req : Dgram} (hr : SReq req) (hq : SQuiet s0 req) (hp : s0.pers = .pb)
    (s : Server) (hi : SInv s0 req s) (now : Nat) :
    s.step (.rx now req) = (s0, [Out.callRequest req.mid req.token, Out.tx (respFor s0 req)]) := by
  have hs := SInv_pb_const hp hi
  subst hs
  cases s with
  | mk pers dedup D T txMid L asyncs pend answered =>
    obtain ⟨hL, hasync, hpend, _, _⟩ := hq
    simp only at hL hasync hpend hp
    subst hL hasync hpend hp
    simp only [Server.step]
    rw [Server.rx_req_pb _ _ _ _ _ _ _ hr]
    simp [respFor]

/-- every run of exchange events keeps the invariant, and everything the server transmits is a copy of THE response
    or of the empty ACK of the request -/
theorem server_run_one_response {s0 : Server} {req : Dgram} (hr : SReq req) (hq : SQuiet s0 req) (es : List SEvent)
    (hes : ∀ e ∈ es, SExEv req e) :
    SInv s0 req (Server.run s0 es).1 ∧
    ∀ d, Out.tx d ∈ (Server.run s0 es).2 → d = respFor s0 req ∨ d = emptyAck req.mid := by
  suffices h : ∀ (es : List SEvent) (s : Server), SInv s0 req s → (∀ e ∈ es, SExEv req e) →
      SInv s0 req (Server.run s es).1 ∧
      ∀ d, Out.tx d ∈ (Server.run s es).2 → d = respFor s0 req ∨ d = emptyAck req.mid from
    h es s0 (SInv_init hq) hes
  intro es
  induction es with
  | nil => intro s hi _; exact ⟨hi, by simp [Server.run]⟩
  | cons e es ih =>
    intro s hi hes
    obtain ⟨h1, h2⟩ := SInv_step hr hq s hi e (hes e (by simp))
    obtain ⟨h3, h4⟩ := ih (s.step e).1 h1 (fun e' he' => hes e' (by simp [he']))
    simp only [Server.run]
    refine ⟨h3, ?_⟩
    intro d hd
    simp only [List.mem_append] at hd
    rcases hd with hd | hd
    · exact h2 d hd
    · exact h4 d hd

/-! ### the hypotheses are satisfiable and the response really goes out; without de-duplication it goes out twice -/

/-- extract the transmitted datagrams -/
def txOf (o : List Out) : List Dgram := o.filterMap (fun x => match x with | .tx d => some d | _ => none)

/-- a concrete exchange with the separate-response server `ac`: request, duplicate request, the async fires, a
    retransmitted request after the answer, the response is retransmitted.  The hypotheses of
    `server_run_one_response` hold, and the server transmits three empty ACKs and the ONE response twice. -/
example :
    let s0 : Server := { pers := .ac, dedup := true, D := 300, T := 2500, txMid := 5000 }
    let req : Dgram := { type := .con, code := 1, mid := 1001, token := [0xc0, 7] }
    let es : List SEvent := [.rx 1000 req, .rx 1200 req, .tick 1300, .rx 3100 req, .tick 3800]
    SReq req ∧ SQuiet s0 req ∧ (∀ e ∈ es, SExEv req e) ∧
    respFor s0 req = { type := .con, code := 69, mid := 5001, token := [0xc0, 7] } ∧
    txOf (Server.run s0 es).2 =
      [emptyAck 1001, emptyAck 1001, respFor s0 req, emptyAck 1001, respFor s0 req] := by
  intro s0 req es
  refine ⟨⟨by decide, by decide⟩, ⟨by decide, by decide, by decide, by decide, by decide⟩, ?_, by decide, by decide⟩
  intro e he
  simp only [es, List.mem_cons, List.not_mem_nil, or_false] at he
  rcases he with he | he | he | he | he <;> subst he
  · exact .request _
  · exact .request _
  · exact .tick _
  · exact .request _
  · exact .tick _

/-- KNOWN OPEN FINDING (why `SQuiet.hdedup` is needed): WITHOUT application-level de-duplication a copy of the
    request that arrives after the async has fired (here: after the response has even been acknowledged) registers a
    second async, and the server answers the one request with a SECOND response message carrying a different
    message id.  (While the first response still waits for its ACK the second one is only held back by NSTART = 1
    and goes out as soon as the slot is released.) -/
theorem server_without_dedup_two_responses_witness :
    let s0 : Server := { pers := .ac, dedup := false, D := 300, T := 2500, txMid := 5000 }
    let req : Dgram := { type := .con, code := 1, mid := 1001, token := [0xc0, 7] }
    let es : List SEvent := [.rx 1000 req, .tick 1300, .rx 1500 (emptyAck 5001), .rx 3100 req, .tick 3400]
    SReq req ∧ s0.L = Idle ∧ s0.asyncs = [] ∧ s0.pend = [] ∧ s0.answered.contains req.token = false ∧
    (∀ e ∈ es, SExEv req e) ∧
    txOf (Server.run s0 es).2 =
      [emptyAck 1001, { type := .con, code := 69, mid := 5001, token := [0xc0, 7] },
       emptyAck 1001, { type := .con, code := 69, mid := 5002, token := [0xc0, 7] }] ∧
    ¬ (∀ d, Out.tx d ∈ (Server.run s0 es).2 → d = respFor s0 req ∨ d = emptyAck req.mid) := by
  intro s0 req es
  refine ⟨⟨by decide, by decide⟩, by decide, by decide, by decide, by decide, ?_, by decide, ?_⟩
  · intro e he
    simp only [es, List.mem_cons, List.not_mem_nil, or_false] at he
    rcases he with he | he | he | he | he <;> subst he
    · exact .request _
    · exact .tick _
    · exact .reply _ _ (Or.inl rfl)
    · exact .request _
    · exact .tick _
  · intro h
    have := h { type := .con, code := 69, mid := 5002, token := [0xc0, 7] } (by decide)
    revert this
    decide

end Coap.Exch
