import CoapVerif.Model.Parse
/- Helper lemmas relating the index-based model of `coap_opt_parse` to the list-based specification. -/
namespace Coap
open Coap.M

theorem rd_cons_zero (b : UInt8) (r : Bytes) : rd (b :: r) 0 = R.ok b.toNat := by
  simp [rd]

theorem rd_cons_succ (b : UInt8) (r : Bytes) (i : Nat) : rd (b :: r) (i + 1) = rd r i := by
  simp [rd]

theorem rd_nil (i : Nat) : rd [] i = R.oob := by simp [rd]

theorem byte_lt (b : UInt8) : b.toNat < 256 := b.toNat_lt

/-- `Spec.ext` returns a suffix, at most two bytes shorter. -/
theorem ext_suffix {nib : Nat} {bs r : Bytes} {v : Nat} (h : Spec.ext nib bs = some (v, r)) :
    ∃ pre, bs = pre ++ r ∧ pre.length ≤ 2 ∧ v ≤ 65804 := by
  unfold Spec.ext at h
  split at h
  · simp at h; obtain ⟨rfl, rfl⟩ := h; exact ⟨[], by simp, by simp, by omega⟩
  · split at h
    · split at h
      · simp at h; obtain ⟨rfl, rfl⟩ := h
        rename_i b r'
        exact ⟨[b], by simp, by simp, by have := byte_lt b; omega⟩
      · simp at h
    · split at h
      · split at h
        · simp at h; obtain ⟨rfl, rfl⟩ := h
          rename_i b1 b2 r'
          exact ⟨[b1, b2], by simp, by simp, by have := byte_lt b1; have := byte_lt b2; omega⟩
        · simp at h
      · simp at h

end Coap

namespace Coap
open Coap.M

theorem rd_app0 (pre r : Bytes) : rd (pre ++ r) pre.length = rd r 0 := by
  simp [rd, List.getElem?_append_right]

theorem rd_app1 (pre r : Bytes) : rd (pre ++ r) (pre.length + 1) = rd r 1 := by
  simp [rd, List.getElem?_append_right]

theorem nib_cases (n : Nat) (h : n < 16) : n < 13 ∨ n = 13 ∨ n = 14 ∨ n = 15 := by omega

/-- The length-nibble extension of `coap_opt_parse`, positioned after a non-empty prefix `pre`
(its last byte is the option's first byte or the last delta-extension byte). -/
theorem lengthExt_eq (pre r : Bytes) (nib i : Nat) (hn : nib < 16) (hi : i + 1 = pre.length) :
    lengthExt (pre ++ r) nib i (r.length + 1) =
      match Spec.ext nib r with
      | none => R.rej
      | some (l, r') => R.ok (l, i + (r.length - r'.length), r'.length + 1) := by
  have e2 : i + 2 = pre.length + 1 := by omega
  rcases nib_cases nib hn with h | h | h | h
  · have h1 : ¬ nib = 15 := by omega
    have h2 : ¬ nib = 14 := by omega
    have h3 : ¬ nib = 13 := by omega
    simp [lengthExt, Spec.ext, h, h1, h2, h3]
  · subst h
    rcases r with _ | ⟨a, r'⟩
    · simp [lengthExt, Spec.ext]
    · simp [lengthExt, Spec.ext, hi, rd_app0, rd_cons_zero]
      omega
  · subst h
    rcases r with _ | ⟨a, _ | ⟨b, r'⟩⟩
    · simp [lengthExt, Spec.ext]
    · simp [lengthExt, Spec.ext, hi, rd_app0, rd_cons_zero]
    · simp [lengthExt, Spec.ext, hi, e2, rd_app0, rd_app1, rd_cons_zero, rd_cons_succ]
      omega
  · subst h
    simp [lengthExt, Spec.ext]

/-- The delta-nibble extension of `coap_opt_parse` (fixed version: a delta above 65535 is refused). -/
theorem deltaExt_eq (b0 : UInt8) (r : Bytes) (nib : Nat) (hn : nib < 16) :
    deltaExt (b0 :: r) nib 0 (r.length + 1) =
      match Spec.ext nib r with
      | none => R.rej
      | some (d, r') => if d > 65535 then R.rej else R.ok (d, r.length - r'.length, r'.length + 1) := by
  rcases nib_cases nib hn with h | h | h | h
  · have h1 : ¬ nib = 15 := by omega
    have h2 : ¬ nib = 14 := by omega
    have h3 : ¬ nib = 13 := by omega
    have h4 : ¬ nib > 65535 := by omega
    simp [deltaExt, Spec.ext, h, h1, h2, h3, h4]
  · subst h
    rcases r with _ | ⟨a, r'⟩
    · simp [deltaExt, Spec.ext]
    · have := byte_lt a
      have h4 : ¬ (a.toNat + 13 > 65535) := by omega
      have h5 : ¬ (13 + a.toNat > 65535) := by omega
      have h6 : (13 + a.toNat) % 65536 = a.toNat + 13 := by omega
      simp [deltaExt, Spec.ext, rd_cons_zero, rd_cons_succ, h4, h5, h6]
  · subst h
    rcases r with _ | ⟨a, _ | ⟨b, r'⟩⟩
    · simp [deltaExt, Spec.ext]
    · simp [deltaExt, Spec.ext, rd_cons_zero, rd_cons_succ]
    · have ha := byte_lt a
      have hb := byte_lt b
      simp only [deltaExt, Spec.ext, rd_cons_zero, rd_cons_succ]
      by_cases hw : (a.toNat * 256 + 269) % 65536 < 269
      · have h9 : a.toNat * 256 + b.toNat + 269 > 65535 := by omega
        simp [hw, h9]
      · have e : (a.toNat * 256 + 269) % 65536 = a.toNat * 256 + 269 := by omega
        by_cases hx : a.toNat * 256 + 269 + b.toNat > 65535
        · have h9 : a.toNat * 256 + b.toNat + 269 > 65535 := by omega
          simp [hw, e, hx, h9]
        · have h7 : ¬ (a.toNat * 256 + b.toNat + 269 > 65535) := by omega
          have h8 : (a.toNat * 256 + 269 + b.toNat) % 65536 = a.toNat * 256 + b.toNat + 269 := by
            rw [Nat.mod_eq_of_lt (by omega)]; omega
          have h10 : ¬ (a.toNat * 256 + 269 < 269) := by omega
          have h11 : r'.length + 1 + 1 - r'.length = 2 := by omega
          simp [hw, e, hx, h7, h8, h10, h11]
  · subst h
    simp [deltaExt, Spec.ext]

end Coap

namespace Coap
open Coap.M

/-- List-level description of what `coap_opt_parse(opt, length)` computes when `length` is the
number of bytes from `opt` to the end of the message. -/
def optSpec (b0 : UInt8) (r0 : Bytes) : R OptP :=
  match Spec.ext (b0.toNat / 16) r0 with
  | none => R.rej
  | some (d, r1) =>
    if d > 65535 then R.rej else
    match Spec.ext (b0.toNat % 16) r1 with
    | none => R.rej
    | some (l, r2) =>
      if l ≤ r2.length then
        R.ok ⟨d, l, r0.length + 1 - r2.length, r0.length + 1 - r2.length + l⟩
      else R.rej

theorem optParse_eq (b0 : UInt8) (r0 : Bytes) :
    optParse (b0 :: r0) (r0.length + 1) = optSpec b0 r0 := by
  have hb := byte_lt b0
  have hd : b0.toNat / 16 < 16 := by omega
  have hl : b0.toNat % 16 < 16 := by omega
  have h0 : ¬ (r0.length + 1 < 1) := by omega
  simp only [optParse, optSpec, h0, if_false, rd_cons_zero, R.bind_ok, deltaExt_eq b0 r0 _ hd]
  cases hE : Spec.ext (b0.toNat / 16) r0 with
  | none => simp
  | some p =>
    obtain ⟨d, r1⟩ := p
    obtain ⟨pre1, hpre1, _, _⟩ := ext_suffix hE
    by_cases hbig : d > 65535
    · simp [hbig]
    · simp only [hbig, if_false, R.bind_ok]
      have hlen1 : r0.length = pre1.length + r1.length := by rw [hpre1]; simp
      have hsplit : b0 :: r0 = (b0 :: pre1) ++ r1 := by rw [hpre1]; simp
      have hi : r0.length - r1.length + 1 = (b0 :: pre1).length := by simp; omega
      rw [hsplit, lengthExt_eq (b0 :: pre1) r1 _ _ hl hi]
      cases hL : Spec.ext (b0.toNat % 16) r1 with
      | none => simp
      | some q =>
        obtain ⟨l, r2⟩ := q
        obtain ⟨pre2, hpre2, _, _⟩ := ext_suffix hL
        have hlen2 : r1.length = pre2.length + r2.length := by rw [hpre2]; simp
        have h1 : ¬ (r2.length + 1 < 1) := by omega
        simp only [R.bind_ok, h1, if_false]
        by_cases hfit : l ≤ r2.length
        · have h2 : ¬ (r2.length + 1 - 1 < l) := by omega
          simp only [h2, hfit, if_false, if_true]
          have e1 : r0.length - r1.length + (r1.length - r2.length) + 1 = r0.length + 1 - r2.length := by omega
          simp only [e1]
        · have h2 : r2.length + 1 - 1 < l := by omega
          simp [h2, hfit]

end Coap

namespace Coap
open Coap.M

/-- The length table regenerated from libcoap's code (T1) is the RFCs' table. -/
theorem lenGroups_eq : Generated.lenGroups = Spec.lenGroups := by decide

/-- what the caller of the option loop keeps of its result: accepted only when `good` -/
def acceptW (w : R (Bool × List (Nat × Bytes) × Bytes)) : Option (List (Nat × Bytes) × Bytes) :=
  match w with
  | R.ok (true, os, rest) => some (os, rest)
  | _ => none

theorem drop_suffix (pre r : Bytes) (n : Nat) (h : n = pre.length) : (pre ++ r).drop n = r := by
  subst h; simp

theorem walk_eq_spec (code : Nat) : ∀ (fuel : Nat) (bs : Bytes) (maxOpt : Nat), maxOpt ≤ 65535 →
    acceptW (walk code fuel bs maxOpt) = Spec.opts code fuel maxOpt bs := by
  intro fuel
  induction fuel with
  | zero => intro bs maxOpt _; simp [walk, Spec.opts, acceptW]
  | succ fuel ih =>
    intro bs maxOpt hmax
    rcases bs with _ | ⟨b, r0⟩
    · simp [walk, Spec.opts, acceptW]
    · by_cases hff : b = 0xFF
      · simp [walk, Spec.opts, acceptW, hff]
      · simp only [walk, Spec.opts, hff, if_false, nextOptionSafe, List.length_cons, optParse_eq, optSpec]
        cases hE : Spec.ext (b.toNat / 16) r0 with
        | none => simp [acceptW]
        | some p =>
          obtain ⟨d, r1⟩ := p
          obtain ⟨pre1, hpre1, _, _⟩ := ext_suffix hE
          by_cases hbig : d > 65535
          · have : ¬ (maxOpt + d ≤ 65535) := by omega
            simp only [hbig, if_true, R.bind_rej, acceptW]
            cases hL : Spec.ext (b.toNat % 16) r1 with
            | none => rfl
            | some q => obtain ⟨l, r2⟩ := q; simp [this]
          · simp only [hbig, if_false]
            cases hL : Spec.ext (b.toNat % 16) r1 with
            | none => simp [acceptW]
            | some q =>
              obtain ⟨l, r2⟩ := q
              obtain ⟨pre2, hpre2, _, _⟩ := ext_suffix hL
              by_cases hfit : l ≤ r2.length
              · simp only [hfit, if_true, R.bind_ok]
                by_cases hnum : maxOpt + d > 65535
                · have : ¬ (maxOpt + d ≤ 65535) := by omega
                  simp [hnum, this, acceptW]
                · have hle : maxOpt + d ≤ 65535 := by omega
                  have hmod : (maxOpt + d) % 65536 = maxOpt + d := Nat.mod_eq_of_lt (by omega)
                  have hsplit : b :: r0 = (b :: pre1 ++ pre2) ++ r2 := by rw [hpre1, hpre2]; simp
                  have hlen : r0.length + 1 - r2.length = (b :: pre1 ++ pre2).length := by
                    rw [hpre1, hpre2]; simp; omega
                  have hdropv : (b :: r0).drop (r0.length + 1 - r2.length) = r2 := by
                    rw [hlen, hsplit]; exact drop_suffix _ _ _ rfl
                  have hdrops : (b :: r0).drop (r0.length + 1 - r2.length + l) = r2.drop l := by
                    rw [← List.drop_drop, hdropv]
                  simp only [hnum, if_false, hmod, hdropv, hdrops, hle, hfit, true_and]
                  have ihr := ih (r2.drop l) (maxOpt + d) hle
                  rw [lenGroups_eq]
                  show acceptW _ = _
                  unfold Spec.optLenOk
                  cases hg : Spec.lenOkIn Spec.lenGroups code (maxOpt + d) l with
                  | false =>
                    simp only [Bool.false_eq_true, if_false]
                    cases hw : walk code fuel (r2.drop l) (maxOpt + d) with
                    | ok v => obtain ⟨g', os, rest⟩ := v; simp [acceptW]
                    | rej => simp [acceptW]
                    | oob => simp [acceptW]
                  | true =>
                    simp only [if_true]
                    rw [← ihr]
                    cases hw : walk code fuel (r2.drop l) (maxOpt + d) with
                    | ok v =>
                      obtain ⟨g', os, rest⟩ := v
                      cases g' <;> simp [acceptW]
                    | rej => simp [acceptW]
                    | oob => simp [acceptW]
              · have : ¬ (maxOpt + d ≤ 65535 ∧ l ≤ r2.length ∧ Spec.optLenOk code (maxOpt + d) l = true) := by
                  intro h; exact hfit h.2.1
                simp [hfit, this, acceptW]

end Coap

namespace Coap
open Coap.M

theorem tokenHdr_eq (tkl : Nat) (tk : Bytes) (h : tkl < 16) :
    match Spec.ext tkl tk with
    | none => tokenHdr tkl tk = R.rej
    | some (n, r) => tokenHdr tkl tk = R.ok (n + (tk.length - r.length), tk.length - r.length) := by
  rcases nib_cases tkl h with h | h | h | h
  · have h3 : ¬ tkl = 13 := by omega
    have h2 : ¬ tkl = 14 := by omega
    simp [Spec.ext, tokenHdr, h, h2, h3]
  · subst h
    rcases tk with _ | ⟨a, r⟩
    · simp [Spec.ext, tokenHdr]
    · simp [Spec.ext, tokenHdr, rd_cons_zero]
  · subst h
    rcases tk with _ | ⟨a, _ | ⟨b, r⟩⟩
    · simp [Spec.ext, tokenHdr]
    · simp [Spec.ext, tokenHdr]
    · have := byte_lt a
      have e : a.toNat * 256 % 65536 = a.toNat * 256 := Nat.mod_eq_of_lt (by omega)
      have h1 : ¬ (r.length + 1 + 1 < 2) := by omega
      have h2 : r.length + 1 + 1 - r.length = 2 := by omega
      simp [Spec.ext, tokenHdr, rd_cons_zero, rd_cons_succ, e, h1, h2]
  · subst h
    simp [Spec.ext, tokenHdr]

theorem finish_eq (w : R (Bool × List (Nat × Bytes) × Bytes)) (mk : List (Nat × Bytes) → Bytes → Msg) :
    (w >>= fun (x : Bool × List (Nat × Bytes) × Bytes) =>
        match x.2.2 with
        | [] => if x.1 then R.ok (mk x.2.1 []) else R.rej
        | _ :: pl => if pl.length = 0 then R.rej else if x.1 then R.ok (mk x.2.1 pl) else R.rej).toOption
      = match acceptW w with
        | none => none
        | some (os, rest') =>
          match Spec.finish rest' with
          | none => none
          | some pl => some (mk os pl) := by
  rcases w with ⟨good, os, rest⟩ | _ | _
  · rcases rest with _ | ⟨m, pl⟩
    · cases good <;> simp [acceptW, Spec.finish, R.toOption]
    · rcases pl with _ | ⟨c, pl'⟩
      · cases good <;> simp [acceptW, Spec.finish, R.toOption]
      · cases good <;> simp [acceptW, Spec.finish, R.toOption]
  · simp [acceptW, R.toOption]
  · simp [acceptW, R.toOption]

end Coap

namespace Coap
open Coap.M

theorem parseBody_eq (type code mid tkl : Nat) (tk : Bytes) (h : tkl < 16) :
    (parseBody type code mid tkl tk).toOption = Spec.body type code mid tkl tk := by
  have ht := tokenHdr_eq tkl tk h
  unfold parseBody Spec.body
  cases hE : Spec.ext tkl tk with
  | none =>
    rw [hE] at ht
    simp [ht, R.toOption]
  | some p =>
    obtain ⟨n, r⟩ := p
    rw [hE] at ht
    obtain ⟨pre, hpre, hpl, _⟩ := ext_suffix hE
    have hlen : tk.length = pre.length + r.length := by rw [hpre]; simp
    have hdropv : tk.drop (tk.length - r.length) = r := by
      rw [hpre]; exact drop_suffix _ _ _ (by simp)
    simp only [ht, R.bind_ok]
    by_cases hc : code = 0
    · subst hc
      simp only [if_true]
      by_cases hz : tkl = 0 ∧ tk = []
      · obtain ⟨rfl, rfl⟩ := hz
        simp [Spec.ext] at hE
        obtain ⟨rfl, rfl⟩ := hE
        simp [R.toOption]
      · have : tk.length ≠ 0 ∨ n + (tk.length - r.length) ≠ 0 := by
          by_cases htk : tk = []
          · subst htk
            have : tkl ≠ 0 := fun h0 => hz ⟨h0, rfl⟩
            right
            have h13 : tkl < 13 := by
              rcases nib_cases tkl h with h | h | h | h
              · exact h
              all_goals (subst h; simp [Spec.ext] at hE)
            simp [Spec.ext, h13] at hE
            omega
          · left; simp [htk]
        simp only [this, if_true, hz, if_false, R.toOption]
        split <;> rfl
    · simp only [hc, if_false]
      by_cases hfit : n ≤ r.length
      · have h1 : ¬ (n + (tk.length - r.length) > tk.length) := by omega
        simp only [h1, hfit, if_false, if_true]
        have hdrop : tk.drop (n + (tk.length - r.length)) = r.drop n := by
          rw [Nat.add_comm, ← List.drop_drop, hdropv]
        have e : n + (tk.length - r.length) - (tk.length - r.length) = n := by omega
        rw [hdrop, hdropv, e]
        have key := finish_eq (walk code (tk.length + 1) (r.drop n) 0)
          (fun os pl => ⟨type, code, mid, r.take n, os, pl⟩)
        rw [walk_eq_spec code _ _ 0 (by omega)] at key
        exact key
      · have h1 : n + (tk.length - r.length) > tk.length := by omega
        simp [h1, hfit, R.toOption]

end Coap

namespace Coap
open Coap.M

theorem or_byte (a b : Nat) (hb : b < 256) : a * 256 ||| b = a * 256 + b := by
  have := Nat.shiftLeft_add_eq_or_of_lt (a := a) (i := 8) (b := b) (by omega)
  rw [Nat.shiftLeft_eq] at this
  simpa using this.symm

theorem parse_udp_eq (bs : Bytes) : (M.parse .udp bs).toOption = Spec.decode .udp bs := by
  rcases bs with _ | ⟨b0, _ | ⟨c, _ | ⟨m1, _ | ⟨m2, rest⟩⟩⟩⟩
  · simp [M.parse, Spec.decode, R.toOption]
  · simp [M.parse, Spec.decode, R.toOption]
  · simp [M.parse, Spec.decode, R.toOption]
  · simp [M.parse, Spec.decode, R.toOption]
  · have h1 := byte_lt m1
    have h2 := byte_lt m2
    have e : (m1.toNat * 256) % 65536 = m1.toNat * 256 := Nat.mod_eq_of_lt (by omega)
    have hl : ¬ (4 > rest.length + 1 + 1 + 1 + 1) := by omega
    simp only [M.parse, Spec.decode, List.length_cons, rd_cons_zero, rd_cons_succ, R.bind_ok, e,
      or_byte _ _ h2, List.drop_succ_cons, List.drop_zero, hl, if_false]
    by_cases hv : b0.toNat / 64 = 1
    · simp [hv, parseBody_eq _ _ _ _ _ (show b0.toNat % 16 < 16 by omega)]
    · simp [hv, R.toOption]

theorem parse_ws_eq (bs : Bytes) : (M.parse .ws bs).toOption = Spec.decode .ws bs := by
  rcases bs with _ | ⟨b0, _ | ⟨c, rest⟩⟩
  · simp [M.parse, Spec.decode, R.toOption]
  · simp [M.parse, Spec.decode, R.toOption]
  · have hl : ¬ (rest.length + 1 + 1 < 2) := by omega
    simp [M.parse, Spec.decode, rd_cons_zero, rd_cons_succ, hl,
      parseBody_eq _ _ _ _ _ (show b0.toNat % 16 < 16 by omega)]
end Coap

namespace Coap
open Coap.M

@[simp] theorem R.toOption_rej {α} : (R.rej : R α).toOption = none := rfl
@[simp] theorem R.toOption_oob {α} : (R.oob : R α).toOption = none := rfl

def tokExt (T : Nat) : Nat := if T = 13 then 1 else if T = 14 then 2 else 0

theorem tcpLenField_eq (b0 : UInt8) (r0 : Bytes) (L : Nat) (hL : L < 16) :
    match Spec.tcpLen L r0 with
    | none => r0.length + 2 < headerSize .tcp (L * 16)
    | some (len, r1) => ∃ pre, r0 = pre ++ r1 ∧ pre.length + 2 = headerSize .tcp (L * 16) ∧
        tcpLenField (b0 :: r0) L = R.ok (len, headerSize .tcp (L * 16)) := by
  have e : L * 16 / 16 = L := by omega
  rcases nib_cases L hL with h | h | h | h
  · have h1 : ¬ L = 13 := by omega
    have h2 : ¬ L = 14 := by omega
    simp only [Spec.tcpLen, headerSize, tcpLenField, e, h, if_true]
    exact ⟨[], by simp⟩
  · subst h
    rcases r0 with _ | ⟨a, r⟩
    · simp [Spec.tcpLen, headerSize]
    · simp only [Spec.tcpLen, headerSize, tcpLenField, rd_cons_zero, rd_cons_succ]
      exact ⟨[a], by simp⟩
  · subst h
    rcases r0 with _ | ⟨a, _ | ⟨b, r⟩⟩
    · simp [Spec.tcpLen, headerSize]
    · simp [Spec.tcpLen, headerSize]
    · simp only [Spec.tcpLen, headerSize, tcpLenField, rd_cons_zero, rd_cons_succ]
      exact ⟨[a, b], by simp⟩
  · subst h
    rcases r0 with _ | ⟨a, _ | ⟨b, _ | ⟨c, _ | ⟨d, r⟩⟩⟩⟩
    · simp [Spec.tcpLen, headerSize]
    · simp [Spec.tcpLen, headerSize]
    · simp [Spec.tcpLen, headerSize]
    · simp [Spec.tcpLen, headerSize]
    · simp only [Spec.tcpLen, headerSize, tcpLenField, rd_cons_zero, rd_cons_succ]
      exact ⟨[a, b, c, d], by simp⟩

theorem tcpTokField_eq (pre r2 : Bytes) (T : Nat) (hT : T < 16) :
    match Spec.tokenField T r2 with
    | none => T = 15 ∨ r2.length < tokExt T
    | some tf => tokExt T ≤ r2.length ∧ tcpTokField (pre ++ r2) T pre.length = R.ok tf := by
  rcases nib_cases T hT with h | h | h | h
  · have h1 : ¬ T = 13 := by omega
    have h2 : ¬ T = 14 := by omega
    simp [Spec.tokenField, Spec.ext, tcpTokField, tokExt, h, h1, h2]
  · subst h
    rcases r2 with _ | ⟨a, r⟩
    · simp [Spec.tokenField, Spec.ext, tokExt]
    · simp [Spec.tokenField, Spec.ext, tcpTokField, tokExt, rd_app0, rd_cons_zero]
  · subst h
    rcases r2 with _ | ⟨a, _ | ⟨b, r⟩⟩
    · simp [Spec.tokenField, Spec.ext, tokExt]
    · simp [Spec.tokenField, Spec.ext, tokExt]
    · have := byte_lt a
      have e : a.toNat * 256 % 65536 = a.toNat * 256 := Nat.mod_eq_of_lt (by omega)
      simp [Spec.tokenField, Spec.ext, tcpTokField, tokExt, rd_app0, rd_app1, rd_cons_zero, rd_cons_succ, e]; omega
  · subst h
    simp [Spec.tokenField, Spec.ext]

theorem toOption_ite {α} (c : Prop) [Decidable c] (a b : R α) :
    (if c then a else b).toOption = if c then a.toOption else b.toOption := by
  split <;> rfl

theorem parse_tcp_eq (bs : Bytes) : (M.parse .tcp bs).toOption = Spec.decode .tcp bs := by
  rcases bs with _ | ⟨b0, r0⟩
  · simp [M.parse, Spec.decode, R.toOption]
  have hb := byte_lt b0
  have hL : b0.toNat / 16 < 16 := by omega
  have hT : b0.toNat % 16 < 16 := by omega
  have key := fun c tk => parseBody_eq 0 c 0 (b0.toNat % 16) tk hT
  have hne : ¬ ((b0 :: r0).length = 0) := by simp
  have hhs : headerSize .tcp (b0.toNat / 16 * 16) = headerSize .tcp b0.toNat := by
    simp only [headerSize]; rw [show b0.toNat / 16 * 16 / 16 = b0.toNat / 16 by omega]
  have hlen := tcpLenField_eq b0 r0 _ hL
  rw [hhs] at hlen
  have htx : (if b0.toNat % 16 = 13 then 1 else if b0.toNat % 16 = 14 then 2 else 0) = tokExt (b0.toNat % 16) := rfl
  simp only [M.parse, Spec.decode, hne, if_false, rd_cons_zero, R.bind_ok, parseSizeTcp, htx]
  generalize hhsv : headerSize .tcp b0.toNat = hs at *
  cases hE : Spec.tcpLen (b0.toNat / 16) r0 with
  | none =>
    rw [hE] at hlen
    have : r0.length + 1 < hs + tokExt (b0.toNat % 16) := by omega
    simp [this]
  | some p =>
    obtain ⟨len, r1⟩ := p
    rw [hE] at hlen
    obtain ⟨pre, hpre, hpl, hfld⟩ := hlen
    rcases r1 with _ | ⟨c, r2⟩
    · have : r0.length + 1 < hs + tokExt (b0.toNat % 16) := by rw [hpre]; simp; omega
      simp [this]
    · have hsplit : b0 :: r0 = (b0 :: pre ++ [c]) ++ r2 := by rw [hpre]; simp
      have hplen : (b0 :: pre ++ [c]).length = hs := by simp; omega
      have htok := tcpTokField_eq (b0 :: pre ++ [c]) r2 _ hT
      rw [hplen, ← hsplit] at htok
      have hbl : r0.length + 1 = hs + r2.length := by
        have := congrArg List.length hsplit
        rw [List.length_append, hplen] at this; simpa using this
      simp only [List.length_cons]
      cases hF : Spec.tokenField (b0.toNat % 16) r2 with
      | none =>
        rw [hF] at htok
        simp only [hF]
        rcases htok with h15 | hshort
        · -- TKL 15: the token header is refused by parseBody
          have hx : tokExt (b0.toNat % 16) = 0 := by simp [tokExt, h15]
          have hb15 : ∀ c tk, (parseBody 0 c 0 (b0.toNat % 16) tk).toOption = none := by
            intro c tk; rw [key, h15]; simp [Spec.body, Spec.ext]
          simp only [hfld, R.bind_ok, toOption_ite, R.toOption_rej]
          split
          · rfl
          · simp only [tcpTokField, h15]
            simp only [show ¬ (15 < 13) by omega, show ¬ (15 = 13) by omega, show ¬ (15 = 14) by omega, if_false, R.bind_ok]
            split
            · rfl
            · cases hrd : rd (b0 :: r0) (hs - 1) with
              | ok cv => simp only [R.bind_ok]; rw [← h15]; exact hb15 _ _
              | rej => rfl
              | oob => rfl
        · have : r0.length + 1 < hs + tokExt (b0.toNat % 16) := by omega
          simp [this]
      | some tf =>
        rw [hF] at htok
        simp only [hF]
        obtain ⟨hext, htf⟩ := htok
        have h1 : ¬ (r0.length + 1 < hs + tokExt (b0.toNat % 16)) := by omega
        have hrd : rd (b0 :: r0) (hs - 1) = R.ok c.toNat := by
          have : b0 :: r0 = (b0 :: pre) ++ (c :: r2) := by rw [hpre]; simp
          rw [this, show hs - 1 = (b0 :: pre).length by simp; omega, rd_app0, rd_cons_zero]
        have hdrop : (b0 :: r0).drop hs = r2 := by
          rw [hsplit]; exact drop_suffix _ _ _ hplen.symm
        simp only [h1, if_false, hfld, R.bind_ok, htf, hbl, hrd, hdrop]
        by_cases hc : r2.length = tf + len
        · have a1 : ¬ (tf + len < tokExt (b0.toNat % 16)) := by omega
          have a2 : tf + len = len + tf := by omega
          have a3 : ¬ (len + tf < tokExt (b0.toNat % 16)) := by omega
          simp [hc, a1, a2, a3, key]
        · have a1 : ¬ (r2.length < tokExt (b0.toNat % 16)) := by omega
          have a2 : ¬ (r2.length = len + tf) := by omega
          simp [hc, a1, a2]
end Coap

namespace Coap
open Coap.M

theorem optSpec_ne_oob (b : UInt8) (r0 : Bytes) : optSpec b r0 ≠ R.oob := by
  unfold optSpec
  repeat' split
  all_goals simp

theorem walk_succ_cons (code fuel : Nat) (b : UInt8) (r0 : Bytes) (maxOpt : Nat) (hff : b ≠ 0xFF) :
    walk code (fuel + 1) (b :: r0) maxOpt =
      match optSpec b r0 with
      | R.oob => R.oob
      | R.rej => R.ok (false, [], b :: r0)
      | R.ok p =>
        if maxOpt + p.delta > 65535 then R.ok (false, [], b :: r0) else
        match walk code fuel ((b :: r0).drop p.size) ((maxOpt + p.delta) % 65536) with
        | R.ok (g', os, rest) =>
          R.ok (Spec.lenOkIn Generated.lenGroups code ((maxOpt + p.delta) % 65536) p.length && g',
                ((maxOpt + p.delta) % 65536, ((b :: r0).drop p.valOfs).take p.length) :: os, rest)
        | e => e := by
  simp only [walk, hff, if_false, nextOptionSafe, List.length_cons, optParse_eq]
  cases optSpec b r0 with
  | oob => rfl
  | rej => rfl
  | ok p =>
    simp only [R.bind_ok]
    by_cases hnum : maxOpt + p.delta > 65535
    · simp [hnum]
    · simp only [hnum, if_false]
      cases walk code fuel (List.drop p.size (b :: r0)) ((maxOpt + p.delta) % 65536) with
      | ok v => obtain ⟨g', os, rest⟩ := v; rfl
      | rej => rfl
      | oob => rfl

theorem iter_succ_cons (fuel : Nat) (b : UInt8) (r0 : Bytes) (number : Nat) (hff : b ≠ 0xFF) :
    iter (fuel + 1) (b :: r0) number =
      match optSpec b r0 with
      | R.oob => R.oob
      | R.rej => R.ok []
      | R.ok p =>
        match iter fuel ((b :: r0).drop p.size) ((number + p.delta) % 65536) with
        | R.ok os => R.ok (((number + p.delta) % 65536, ((b :: r0).drop p.valOfs).take p.length) :: os)
        | e => e := by
  simp only [iter, hff, if_false, List.length_cons, optParse_eq]
  cases optSpec b r0 with
  | oob => rfl
  | rej => rfl
  | ok p =>
    simp only []
    cases iter fuel (List.drop p.size (b :: r0)) ((number + p.delta) % 65536) <;> rfl

end Coap

namespace Coap
open Coap.M

theorem tokenHdr_ne_oob (tkl : Nat) (tk : Bytes) (h : tkl < 16) : tokenHdr tkl tk ≠ R.oob := by
  have := tokenHdr_eq tkl tk h
  cases hE : Spec.ext tkl tk with
  | none => rw [hE] at this; simp [this]
  | some p => obtain ⟨n, r⟩ := p; rw [hE] at this; simp [this]

theorem walk_ne_oob (code fuel : Nat) (bs : Bytes) (maxOpt : Nat) :
    walk code fuel bs maxOpt ≠ R.oob := by
  induction fuel generalizing bs maxOpt with
  | zero => simp [walk]
  | succ fuel ih =>
    rcases bs with _ | ⟨b, r0⟩
    · simp [walk]
    · by_cases hff : b = 0xFF
      · simp [walk, hff]
      · rw [walk_succ_cons _ _ _ _ _ hff]
        cases hO : optSpec b r0 with
        | oob => exact absurd hO (optSpec_ne_oob b r0)
        | rej => simp
        | ok p =>
          simp only []
          split
          · simp
          · have := ih (List.drop p.size (b :: r0)) ((maxOpt + p.delta) % 65536)
            cases hw : walk code fuel (List.drop p.size (b :: r0)) ((maxOpt + p.delta) % 65536) with
            | oob => exact absurd hw this
            | rej => simp
            | ok v => simp

theorem parseBody_ne_oob (type code mid tkl : Nat) (tk : Bytes) (h : tkl < 16) :
    parseBody type code mid tkl tk ≠ R.oob := by
  unfold parseBody
  have h1 := tokenHdr_ne_oob tkl tk h
  cases hT : tokenHdr tkl tk with
  | oob => exact absurd hT h1
  | rej => simp
  | ok v =>
    obtain ⟨etl, tofs⟩ := v
    simp only [R.bind_ok]
    split
    · split <;> simp
    · split
      · simp
      · have h2 := walk_ne_oob code (tk.length + 1) (List.drop etl tk) 0
        cases hw : walk code (tk.length + 1) (List.drop etl tk) 0 with
        | oob => exact absurd hw h2
        | rej => simp
        | ok w =>
          obtain ⟨good, os, rest⟩ := w
          simp only [R.bind_ok]
          split
          · split <;> simp
          · split
            · simp
            · split <;> simp

theorem rd_lt (bs : Bytes) (i : Nat) (h : i < bs.length) : ∃ v, rd bs i = R.ok v := by
  simp [rd, List.getElem?_eq_getElem h]

theorem parse_ne_oob (p : Proto) (bs : Bytes) : M.parse p bs ≠ R.oob := by
  cases p
  · -- udp
    rcases bs with _ | ⟨b0, _ | ⟨c, _ | ⟨m1, _ | ⟨m2, rest⟩⟩⟩⟩
    · simp [M.parse]
    · simp [M.parse]
    · simp [M.parse]
    · simp [M.parse]
    · have hl : ¬ (4 > rest.length + 1 + 1 + 1 + 1) := by omega
      have hb := byte_lt b0
      simp only [M.parse, List.length_cons, rd_cons_zero, rd_cons_succ, R.bind_ok, hl, if_false]
      split
      · simp
      · split
        · simp
        · exact parseBody_ne_oob _ _ _ _ _ (by omega)
  · -- tcp
    rcases bs with _ | ⟨b0, r0⟩
    · simp [M.parse]
    have hb := byte_lt b0
    have hL : b0.toNat / 16 < 16 := by omega
    have hT : b0.toNat % 16 < 16 := by omega
    have hne : ¬ ((b0 :: r0).length = 0) := by simp
    have hhs : headerSize .tcp (b0.toNat / 16 * 16) = headerSize .tcp b0.toNat := by
      simp only [headerSize]; rw [show b0.toNat / 16 * 16 / 16 = b0.toNat / 16 by omega]
    have hlen := tcpLenField_eq b0 r0 _ hL
    rw [hhs] at hlen
    have htx : (if b0.toNat % 16 = 13 then 1 else if b0.toNat % 16 = 14 then 2 else 0) = tokExt (b0.toNat % 16) := rfl
    simp only [M.parse, hne, if_false, rd_cons_zero, R.bind_ok, parseSizeTcp, htx]
    generalize hhsv : headerSize .tcp b0.toNat = hs at *
    split
    · simp
    · rename_i hlong
      simp only [List.length_cons] at hlong
      cases hE : Spec.tcpLen (b0.toNat / 16) r0 with
      | none => rw [hE] at hlen; exfalso; omega
      | some q =>
        obtain ⟨len, r1⟩ := q
        rw [hE] at hlen
        obtain ⟨pre, hpre, hpl, hfld⟩ := hlen
        rcases r1 with _ | ⟨c, r2⟩
        · exfalso; rw [hpre] at hlong; simp at hlong; omega
        · have hsplit : b0 :: r0 = (b0 :: pre ++ [c]) ++ r2 := by rw [hpre]; simp
          have hplen : (b0 :: pre ++ [c]).length = hs := by simp; omega
          have htok := tcpTokField_eq (b0 :: pre ++ [c]) r2 _ hT
          rw [hplen, ← hsplit] at htok
          have hrd : rd (b0 :: r0) (hs - 1) = R.ok c.toNat := by
            have : b0 :: r0 = (b0 :: pre) ++ (c :: r2) := by rw [hpre]; simp
            rw [this, show hs - 1 = (b0 :: pre).length by simp; omega, rd_app0, rd_cons_zero]
          simp only [hfld, R.bind_ok]
          have hfin : ∀ size : Nat, (if (b0 :: r0).length ≠ hs + size then (R.rej : R Msg) else do
                let c ← rd (b0 :: r0) (hs - 1)
                parseBody 0 c 0 (b0.toNat % 16) (List.drop hs (b0 :: r0))) ≠ R.oob := by
            intro size
            split
            · simp
            · rw [hrd]; simp only [R.bind_ok]; exact parseBody_ne_oob _ _ _ _ _ hT
          cases hF : Spec.tokenField (b0.toNat % 16) r2 with
          | none =>
            rw [hF] at htok
            rcases htok with h15 | hshort
            · simp only [tcpTokField, h15, show ¬ (15 < 13) by omega, show ¬ (15 = 13) by omega,
                show ¬ (15 = 14) by omega, if_false, R.bind_ok]
              rw [← h15]; exact hfin _
            · exfalso
              have := congrArg List.length hsplit
              rw [List.length_append, hplen] at this
              simp only [List.length_cons] at this
              omega
          | some tf =>
            rw [hF] at htok
            simp only [htok.2, R.bind_ok]
            exact hfin _
  · -- ws
    rcases bs with _ | ⟨b0, _ | ⟨c, rest⟩⟩
    · simp [M.parse]
    · simp [M.parse]
    · have hl : ¬ (2 > rest.length + 1 + 1) := by omega
      have hb := byte_lt b0
      simp only [M.parse, List.length_cons, rd_cons_zero, rd_cons_succ, R.bind_ok, hl, if_false]
      split
      · simp
      · exact parseBody_ne_oob _ _ _ _ _ (by omega)
end Coap
