import CoapVerif.Model.BlockNetTok
/- Tokens in the composed Block2 system (C09, round R09c): invariant `TInv` of `b2tStep` and the step lemma
   `b2tStep_shown`: a token shown to the response handler is the application's or belongs to an lg_crcv released before. -/
namespace Coap.Block

theorem toNat_ofNat_mod (x : Nat) : (UInt8.ofNat (x % 256)).toNat = x % 256 := by
  simp [UInt8.toNat_ofNat']

/-- `coap_decode_var_bytes8 ∘ coap_encode_var_safe8 = id` on uint64 -/
theorem decode_encode8 (n : Nat) (h : n < 2 ^ 64) : decodeVar8 (encodeVar8 n) = n := by
  unfold encodeVar8 len8 decodeVar8
  split
  · subst_vars; simp [encodeVarAux]
  repeat' split
  all_goals (simp [encodeVarAux, UInt8.toNat_ofNat', List.take]; omega)

theorem base_full (st r : Nat) (hr : r < 65536) : stateTokenBase (stateTokenFull st r) = stateTokenBase st := by
  have := hr
  unfold stateTokenFull stateTokenBase
  omega

theorem full_lt (st r : Nat) : stateTokenFull st r < 2 ^ 64 := by
  unfold stateTokenFull; omega

/-- the STATE_TOKEN_BASE read back from a token libcoap generated is the lg_crcv's -/
theorem base_wire (st r : Nat) (hr : r < 65536) :
    stateTokenBase (decodeVar8 (encodeVar8 (stateTokenFull st r))) = stateTokenBase st := by
  rw [decode_encode8 _ (full_lt st r), base_full st r hr]

def liveBases (c : CliT) : List Nat := c.crcvs.map fun e => stateTokenBase e.state

/-- a token on the wire: the application's, or generated from the state token of an lg_crcv that exists or existed -/
def TokOK (app : Bytes) (c : CliT) (t : Bytes) : Prop :=
  t = app ∨ stateTokenBase (decodeVar8 t) ∈ liveBases c ∨ stateTokenBase (decodeVar8 t) ∈ c.released

/-- the `app_token` of an lg_crcv: the application's, or (lg_crcv built from a late message) a token of a released one -/
def AppOK (app : Bytes) (rel : List Nat) (e : CrcvT) : Prop :=
  e.appTok = app ∨ stateTokenBase (decodeVar8 e.appTok) ∈ rel

structure TInv (app : Bytes) (s : B2TSys) : Prop where
  req : ∀ t ∈ s.reqToks, TokOK app s.cli t
  rsp : ∀ t ∈ s.rspToks, TokOK app s.cli t
  ent : ∀ e ∈ s.cli.crcvs, AppOK app s.cli.released e

/-- nothing is forgotten: bases stay live or move to `released` -/
def CliLe (c c' : CliT) : Prop :=
  (∀ b ∈ liveBases c, b ∈ liveBases c' ∨ b ∈ c'.released) ∧ (∀ b ∈ c.released, b ∈ c'.released)

theorem TokOK.mono {app c c' t} (h : TokOK app c t) (hle : CliLe c c') : TokOK app c' t := by
  rcases h with h | h | h
  · exact Or.inl h
  · exact Or.inr (hle.1 _ h)
  · exact Or.inr (Or.inr (hle.2 _ h))

theorem AppOK.mono {app rel rel' e} (h : AppOK app rel e) (hle : ∀ b ∈ rel, b ∈ rel') : AppOK app rel' e := by
  rcases h with h | h
  · exact Or.inl h
  · exact Or.inr (hle _ h)

/-- what the scan of the list does with the tokens -/
theorem crcvScanT_some (single : Bool) (cap : Nat) (junk : UInt8) (tok : Bytes) (r : Resp) :
    ∀ (l l' : List CrcvT) (rel : List Nat) (x : TRes),
      crcvScanT single cap junk tok r l = some (l', rel, x) →
      (∀ e' ∈ l', ∃ e ∈ l, e'.appTok = e.appTok ∧ e'.state = e.state) ∧
      (∀ e ∈ l, stateTokenBase e.state ∈ l'.map (fun e => stateTokenBase e.state) ∨ stateTokenBase e.state ∈ rel) ∧
      (callsHandler x.out = true → ∃ e ∈ l, x.shown = e.appTok) ∧
      (∀ t, x.reqTok = some t → ∃ e ∈ l, ∃ n, n < 65536 ∧ t = encodeVar8 (stateTokenFull e.state n)) ∧
      (nextReq x.out = none → x.reqTok = none) := by
  intro l
  induction l with
  | nil => intro l' rel x h; simp [crcvScanT] at h
  | cons e es ih =>
    intro l' rel x h
    unfold crcvScanT at h
    split at h
    · -- try out the next one
      split at h
      · rename_i y hy
        obtain ⟨y1, y2, y3⟩ := y
        simp only [Option.some.injEq, Prod.mk.injEq] at h
        obtain ⟨h1, h2, h3⟩ := h
        subst h1 h2 h3
        obtain ⟨a, b, c, d, f⟩ := ih y1 y2 y3 hy
        refine ⟨?_, ?_, ?_, ?_, f⟩
        · intro e' he'
          rcases List.mem_cons.1 he' with rfl | he'
          · exact ⟨e', List.mem_cons_self, rfl, rfl⟩
          · obtain ⟨e0, h0, h1⟩ := a e' he'
            exact ⟨e0, List.mem_cons_of_mem _ h0, h1⟩
        · intro e0 he0
          rcases List.mem_cons.1 he0 with rfl | he0
          · left; simp
          · rcases b e0 he0 with h | h
            · left; simp only [List.map_cons, List.mem_cons]; exact Or.inr h
            · exact Or.inr h
        · intro hc
          obtain ⟨e0, h0, h1⟩ := c hc
          exact ⟨e0, List.mem_cons_of_mem _ h0, h1⟩
        · intro t ht
          obtain ⟨e0, h0, h1⟩ := d t ht
          exact ⟨e0, List.mem_cons_of_mem _ h0, h1⟩
      · simp at h
    · -- lg_crcv found
      have hmod : (e.retry + 1) % 65536 < 65536 := Nat.mod_lt _ (by decide)
      dsimp only at h
      split at h
      · rename_i lg' hlg
        simp only [Option.some.injEq, Prod.mk.injEq] at h
        obtain ⟨h1, h2, h3⟩ := h
        subst h1 h2 h3
        refine ⟨?_, ?_, ?_, ?_, ?_⟩
        · intro e' he'
          rcases List.mem_cons.1 he' with rfl | he'
          · exact ⟨e, List.mem_cons_self, rfl, rfl⟩
          · exact ⟨e', List.mem_cons_of_mem _ he', rfl, rfl⟩
        · intro e0 he0
          left
          rcases List.mem_cons.1 he0 with rfl | he0
          · simp
          · simp only [List.map_cons, List.mem_cons, List.mem_map]
            exact Or.inr ⟨e0, he0, rfl⟩
        · intro hc
          exact ⟨e, List.mem_cons_self, by simp only [] at hc ⊢; rw [if_pos hc]⟩
        · intro t ht
          simp only [] at ht
          split at ht
          · rename_i hq
            refine ⟨_, List.mem_cons_self, (e.retry + 1) % 65536, hmod, ?_⟩
            simp only [Option.some.injEq] at ht
            rw [← ht]
          · simp at ht
        · intro hn
          simp only []
          rw [if_neg (by simp [hn])]
      · rename_i hlg
        simp only [Option.some.injEq, Prod.mk.injEq] at h
        obtain ⟨h1, h2, h3⟩ := h
        subst h1 h2 h3
        refine ⟨?_, ?_, ?_, ?_, ?_⟩
        · intro e' he'
          exact ⟨e', List.mem_cons_of_mem _ he', rfl, rfl⟩
        · intro e0 he0
          rcases List.mem_cons.1 he0 with rfl | he0
          · right; simp
          · left
            simp only [List.mem_map]
            exact ⟨e0, he0, rfl⟩
        · intro hc
          exact ⟨e, List.mem_cons_self, by simp only [] at hc ⊢; rw [if_pos hc]⟩
        · intro t ht
          simp only [] at ht
          split at ht
          · rename_i hq
            refine ⟨_, List.mem_cons_self, (e.retry + 1) % 65536, hmod, ?_⟩
            simp only [Option.some.injEq] at ht
            rw [← ht]
          · simp at ht
        · intro hn
          simp only []
          rw [if_neg (by simp [hn])]

theorem crcvScanT_none (single : Bool) (cap : Nat) (junk : UInt8) (tok : Bytes) (r : Resp) :
    ∀ l : List CrcvT, crcvScanT single cap junk tok r l = none →
      ∀ e ∈ l, stateTokenBase (decodeVar8 tok) ≠ stateTokenBase e.state ∧ tok ≠ e.appTok := by
  intro l
  induction l with
  | nil => intro _ e he; cases he
  | cons e es ih =>
    intro h e0 he0
    unfold crcvScanT at h
    split at h
    · rename_i hm
      split at h
      · simp at h
      · rename_i hn
        rcases List.mem_cons.1 he0 with rfl | he0
        · exact hm
        · exact ih hn e0 he0
    · dsimp only at h
      split at h <;> simp at h

theorem CliLe.refl (c : CliT) : CliLe c c := ⟨fun _ h => Or.inl h, fun _ h => h⟩

theorem CliLe.trans {a b c : CliT} (h1 : CliLe a b) (h2 : CliLe b c) : CliLe a c := by
  refine ⟨fun x hx => ?_, fun x hx => h2.2 _ (h1.2 _ hx)⟩
  rcases h1.1 x hx with h | h
  · exact h2.1 _ h
  · exact Or.inr (h2.2 _ h)

/-- a token that matched no lg_crcv is the application's or belongs to a released one -/
theorem raw_of_unmatched {app : Bytes} {c : CliT} {tok : Bytes} (ht : TokOK app c tok)
    (hn : ∀ e ∈ c.crcvs, stateTokenBase (decodeVar8 tok) ≠ stateTokenBase e.state ∧ tok ≠ e.appTok) :
    tok = app ∨ stateTokenBase (decodeVar8 tok) ∈ c.released := by
  rcases ht with h | h | h
  · exact Or.inl h
  · exfalso
    unfold liveBases at h
    obtain ⟨e, he, hb⟩ := List.mem_map.1 h
    exact (hn e he).1 hb.symm
  · exact Or.inr h

/-- ONE call of coap_handle_response_get_block in any session state -/
theorem crcvStepT_spec (single : Bool) (cap : Nat) (junk : UInt8) (app : Bytes) (c : CliT) (sentTok : Option Bytes)
    (tok : Bytes) (r : Resp)
    (hent : ∀ e ∈ c.crcvs, AppOK app c.released e) (htok : TokOK app c tok)
    (hs : ∀ st, sentTok = some st → st = tok ∨ st = app) :
    let res := crcvStepT single cap junk c sentTok tok r
    CliLe c res.1 ∧ (∀ e ∈ res.1.crcvs, AppOK app res.1.released e) ∧
    (callsHandler res.2.out = true → res.2.shown = app ∨ stateTokenBase (decodeVar8 res.2.shown) ∈ c.released) ∧
    (∀ t, res.2.reqTok = some t → TokOK app res.1 t) ∧
    (nextReq res.2.out = none → res.2.reqTok = none) := by
  intro res
  have hres : res = crcvStepT single cap junk c sentTok tok r := rfl
  unfold crcvStepT at hres
  split at hres
  · -- an lg_crcv matched
    rename_i x hx
    obtain ⟨l', rel, y⟩ := x
    obtain ⟨a, b, cc, d, f⟩ := crcvScanT_some single cap junk tok r _ _ _ _ hx
    have hle : CliLe c { c with crcvs := l', released := c.released ++ rel } := by
      refine ⟨fun x hx => ?_, fun x hx => List.mem_append_left _ hx⟩
      unfold liveBases at hx
      obtain ⟨e, he, rfl⟩ := List.mem_map.1 hx
      rcases b e he with h | h
      · exact Or.inl h
      · exact Or.inr (List.mem_append_right _ h)
    rw [hres]
    refine ⟨hle, ?_, ?_, ?_, f⟩
    · intro e' he'
      obtain ⟨e, he, h1, _⟩ := a e' he'
      rcases hent e he with h | h
      · exact Or.inl (h1.trans h)
      · exact Or.inr (List.mem_append_left _ (h1 ▸ h))
    · intro hc
      obtain ⟨e, he, h1⟩ := cc hc
      show y.shown = app ∨ _
      rw [h1]
      exact hent e he
    · intro t ht
      obtain ⟨e, he, n, hn, rfl⟩ := d t ht
      refine TokOK.mono (c := c) (Or.inr (Or.inl ?_)) hle
      rw [base_wire _ _ hn]
      exact List.mem_map.2 ⟨e, he, rfl⟩
  · -- no lg_crcv matched
    rename_i hx
    have hraw := raw_of_unmatched htok (crcvScanT_none single cap junk tok r _ hx)
    have triv : ∀ o : CrcvOut, nextReq o = none ∨ True := fun _ => Or.inr trivial
    split at hres
    · split at hres <;>
      · rw [hres]
        exact ⟨CliLe.refl c, hent, fun _ => hraw, fun t ht => by simp at ht, fun _ => rfl⟩
    · rename_i st
      have hst : st = app ∨ stateTokenBase (decodeVar8 st) ∈ c.released := by
        rcases hs st rfl with h | h
        · rw [h]; exact hraw
        · exact Or.inl h
      split at hres
      · split at hres
        · rw [hres]
          exact ⟨CliLe.refl c, hent, fun _ => hraw, fun t ht => by simp at ht, fun _ => rfl⟩
        · dsimp only at hres
          split at hres
          · rename_i x hx2
            obtain ⟨l', rel, y⟩ := x
            obtain ⟨a, b, cc, d, f⟩ := crcvScanT_some single cap junk tok r _ _ _ _ hx2
            have hle : CliLe c { c with crcvs := l' ++ c.crcvs, txTok := (c.txTok + 1) % 2 ^ 64,
                                        released := c.released ++ rel } := by
              refine ⟨fun x hx => Or.inl ?_, fun x hx => List.mem_append_left _ hx⟩
              unfold liveBases at hx ⊢
              simp only [List.map_append, List.mem_append]
              exact Or.inr hx
            rw [hres]
            refine ⟨hle, ?_, ?_, ?_, f⟩
            · intro e' he'
              rcases List.mem_append.1 he' with he' | he'
              · obtain ⟨e, he, h1, _⟩ := a e' he'
                simp only [List.mem_singleton] at he
                subst he
                rcases hst with h | h
                · exact Or.inl (h1.trans h)
                · exact Or.inr (List.mem_append_left _ (by rw [h1]; exact h))
              · exact (hent e' he').mono fun b hb => List.mem_append_left _ hb
            · intro hc
              obtain ⟨e, he, h1⟩ := cc hc
              simp only [List.mem_singleton] at he
              subst he
              show y.shown = app ∨ _
              rw [h1]
              exact hst
            · intro t ht
              obtain ⟨e, he, n, hn, rfl⟩ := d t ht
              unfold TokOK
              rw [base_wire _ _ hn]
              right
              rcases b e he with h | h
              · left
                unfold liveBases
                simp only [List.map_append, List.mem_append]
                exact Or.inl h
              · right; exact List.mem_append_right _ h
          · rw [hres]
            refine ⟨⟨fun x hx => Or.inl ?_, fun x hx => hx⟩, ?_, fun _ => hraw, fun t ht => by simp at ht, fun _ => rfl⟩
            · unfold liveBases at hx ⊢
              simp only [List.map_cons, List.mem_cons]
              exact Or.inr hx
            · intro e' he'
              rcases List.mem_cons.1 he' with rfl | he'
              · exact hst
              · exact hent e' he'
      · rw [hres]
        exact ⟨CliLe.refl c, hent, fun _ => hraw, fun t ht => by simp at ht, fun _ => rfl⟩

theorem dropApp_spec (tok : Bytes) : ∀ l : List CrcvT,
    (∀ e ∈ l, e ∈ (dropApp tok l).1 ∨ stateTokenBase e.state ∈ (dropApp tok l).2) ∧
    (∀ e ∈ (dropApp tok l).1, e ∈ l) := by
  intro l
  induction l with
  | nil => exact ⟨fun _ h => (by cases h), fun _ h => (by simp [dropApp] at h)⟩
  | cons a as ih =>
    unfold dropApp
    split
    · refine ⟨fun e he => ?_, fun e he => List.mem_cons_of_mem _ he⟩
      rcases List.mem_cons.1 he with rfl | he
      · right; simp
      · exact Or.inl he
    · refine ⟨fun e he => ?_, fun e he => ?_⟩
      · rcases List.mem_cons.1 he with rfl | he
        · left; simp
        · rcases ih.1 e he with h | h
          · left; exact List.mem_cons_of_mem _ h
          · exact Or.inr h
      · rcases List.mem_cons.1 he with rfl | he
        · exact List.mem_cons_self
        · exact List.mem_cons_of_mem _ (ih.2 e he)

theorem mem_eraseIdx_or {α : Type} : ∀ (l : List α) (i : Nat) (e : α), e ∈ l → e ∈ l.eraseIdx i ∨ l[i]? = some e := by
  intro l
  induction l with
  | nil => intro i e h; cases h
  | cons a as ih =>
    intro i e h
    cases i with
    | zero =>
      rcases List.mem_cons.1 h with rfl | h
      · right; rfl
      · left; simpa using h
    | succ i =>
      rcases List.mem_cons.1 h with rfl | h
      · left; simp
      · rcases ih i e h with h2 | h2
        · left; simp only [List.eraseIdx_cons_succ, List.mem_cons]; exact Or.inr h2
        · right; simpa using h2

theorem cliSendT_le (c : CliT) (tok : Bytes) : CliLe c (cliSendT c tok) := by
  refine ⟨fun b hb => ?_, fun b hb => List.mem_append_left _ hb⟩
  unfold liveBases at hb
  obtain ⟨e, he, rfl⟩ := List.mem_map.1 hb
  rcases (dropApp_spec tok c.crcvs).1 e he with h | h
  · left
    unfold liveBases cliSendT
    simp only [List.map_cons, List.mem_cons, List.mem_map]
    exact Or.inr ⟨e, h, rfl⟩
  · right; exact List.mem_append_right _ h

theorem cliExpireT_le (c : CliT) (i : Nat) : CliLe c (cliExpireT c i) := by
  unfold cliExpireT
  split
  · rename_i e0 h0
    refine ⟨fun b hb => ?_, fun b hb => List.mem_append_left _ hb⟩
    unfold liveBases at hb
    obtain ⟨e, he, rfl⟩ := List.mem_map.1 hb
    rcases mem_eraseIdx_or c.crcvs i e he with h | h
    · left; exact List.mem_map.2 ⟨e, h, rfl⟩
    · right
      rw [h0] at h
      cases h
      exact List.mem_append_right _ (by simp)
  · exact CliLe.refl c

/-- invariant of a run: `TInv`, and every handler call so far saw the application's token or one of an lg_crcv that had
been released BEFORE that call -/
structure RunInvT (app : Bytes) (s : B2TSys) : Prop where
  inv : TInv app s
  shown : ∀ x ∈ s.hToks, x.1 = app ∨ stateTokenBase (decodeVar8 x.1) ∈ x.2
  rel : ∀ x ∈ s.hToks, ∀ b ∈ x.2, b ∈ s.cli.released

theorem TInv.of_le {app : Bytes} {s : B2TSys} {c' : CliT} (h : TInv app s) (hle : CliLe s.cli c')
    (hent : ∀ e ∈ c'.crcvs, AppOK app c'.released e) : TInv app { s with cli := c' } :=
  ⟨fun t ht => (h.req t ht).mono hle, fun t ht => (h.rsp t ht).mono hle, hent⟩

theorem b2tStep_inv (P : B2Par) (app : Bytes) (s : B2TSys) (ev : B2TEvent) (h : RunInvT app s) :
    RunInvT app (b2tStep P app s ev) := by
  cases ev with
  | appGet szx =>
    refine ⟨⟨fun t ht => ?_, h.inv.rsp, h.inv.ent⟩, h.shown, h.rel⟩
    rcases List.mem_append.1 ht with ht | ht
    · exact h.inv.req t ht
    · simp only [List.mem_singleton] at ht
      exact Or.inl ht
  | reqArrives i =>
    simp only [b2tStep]
    split
    · rename_i num szx tok h1 h2
      refine ⟨⟨h.inv.req, fun t ht => ?_, h.inv.ent⟩, h.shown, h.rel⟩
      rcases List.mem_append.1 ht with ht | ht
      · exact h.inv.rsp t ht
      · rw [List.eq_of_mem_replicate ht]
        exact h.inv.req tok (List.mem_of_getElem? h2)
    · exact h
  | rspArrives j sent =>
    simp only [b2tStep]
    split
    · rename_i r tok h1 h2
      have htok : TokOK app s.cli tok := h.inv.rsp tok (List.mem_of_getElem? h2)
      obtain ⟨hle, hent, hshown, hreq, hnone⟩ :=
        crcvStepT_spec P.single P.cap P.junk app s.cli (if sent then some tok else none) tok r h.inv.ent htok
          (by intro st hst; split at hst <;> simp at hst; exact Or.inl hst.symm)
      generalize crcvStepT P.single P.cap P.junk s.cli (if sent then some tok else none) tok r = res at *
      refine ⟨⟨fun t ht => ?_, fun t ht => (h.inv.rsp t ht).mono hle, hent⟩, fun x hx => ?_, fun x hx b hb => ?_⟩
      · rcases List.mem_append.1 ht with ht | ht
        · exact (h.inv.req t ht).mono hle
        · split at ht
          · rename_i q t' hq ht'
            simp only [List.mem_singleton] at ht
            subst ht
            exact hreq _ ht'
          · simp at ht
      · rcases List.mem_append.1 hx with hx | hx
        · exact h.shown x hx
        · split at hx
          · rename_i hc
            simp only [List.mem_singleton] at hx
            subst hx
            exact hshown hc
          · simp at hx
      · rcases List.mem_append.1 hx with hx | hx
        · exact hle.2 _ (h.rel x hx b hb)
        · split at hx
          · simp only [List.mem_singleton] at hx
            subst hx
            exact hle.2 _ hb
          · simp at hx
    · exact h
  | srvExpire => exact ⟨⟨h.inv.req, h.inv.rsp, h.inv.ent⟩, h.shown, h.rel⟩
  | cliExpire i =>
    have hle := cliExpireT_le s.cli i
    refine ⟨h.inv.of_le hle ?_, h.shown, fun x hx b hb => hle.2 _ (h.rel x hx b hb)⟩
    intro e he
    unfold cliExpireT at he ⊢
    split at he
    · exact (h.inv.ent e (List.mem_of_mem_eraseIdx he)).mono fun b hb => List.mem_append_left _ hb
    · exact h.inv.ent e he
  | cliNew =>
    have hle := cliSendT_le s.cli app
    refine ⟨h.inv.of_le hle ?_, h.shown, fun x hx b hb => hle.2 _ (h.rel x hx b hb)⟩
    intro e he
    unfold cliSendT at he ⊢
    rcases List.mem_cons.1 he with rfl | he
    · exact Or.inl rfl
    · exact (h.inv.ent e ((dropApp_spec app s.cli.crcvs).2 e he)).mono fun b hb => List.mem_append_left _ hb

def b2tRun (P : B2Par) (app : Bytes) (s : B2TSys) (evs : List B2TEvent) : B2TSys := evs.foldl (b2tStep P app) s

theorem b2tRun_inv (P : B2Par) (app : Bytes) (evs : List B2TEvent) :
    ∀ s, RunInvT app s → RunInvT app (b2tRun P app s evs) := by
  induction evs with
  | nil => intro s h; exact h
  | cons ev evs ih => intro s h; exact ih _ (b2tStep_inv P app s ev h)

theorem runInvT_init (app : Bytes) : RunInvT app {} :=
  ⟨⟨fun _ h => (by cases h), fun _ h => (by cases h), fun _ h => (by cases h)⟩, fun _ h => (by cases h), fun _ h => (by cases h)⟩

end Coap.Block
