import CoapVerif.Model.BlockNetTok
import CoapVerif.Lemmas.BlockNet
/- Tokens in the composed Block2 system (C09, round R09c): invariant `TInv` of `b2tStep` and the step lemma
   `b2tStep_shown`: a token shown to the response handler is the application's or belongs to an lg_crcv released before. -/
namespace Coap.Block

theorem toNat_ofNat_mod (x : Nat) : (UInt8.ofNat (x % 256)).toNat = x % 256 := by
  simp [UInt8.toNat_ofNat']

/-- `coap_decode_var_bytes8 ∘ coap_encode_var_safe8 = id` on uint64 -/
theorem decode_encode8 (n : Nat) (h : n < 2 ^ 64) : decodeVar8 (encodeVar8 n) = n := by
  unfold encodeVar8 len8 decodeVar8
  split
  · subst_vars; simp [encodeVarAux]
  repeat' split
  all_goals (simp [encodeVarAux, UInt8.toNat_ofNat', List.take]; omega)

theorem base_full (st r : Nat) (hr : r < 65536) : stateTokenBase (stateTokenFull st r) = stateTokenBase st := by
  have := hr
  unfold stateTokenFull stateTokenBase
  omega

theorem full_lt (st r : Nat) : stateTokenFull st r < 2 ^ 64 := by
  unfold stateTokenFull; omega

/-- the STATE_TOKEN_BASE read back from a token libcoap generated is the lg_crcv's -/
theorem base_wire (st r : Nat) (hr : r < 65536) :
    stateTokenBase (decodeVar8 (encodeVar8 (stateTokenFull st r))) = stateTokenBase st := by
  rw [decode_encode8 _ (full_lt st r), base_full st r hr]

def liveBases (c : CliT) : List Nat := c.crcvs.map fun e => stateTokenBase e.state

/-- a token on the wire: the application's, or generated from the state token of an lg_crcv that exists or existed -/
def TokOK (app : Bytes) (c : CliT) (t : Bytes) : Prop :=
  t = app ∨ stateTokenBase (decodeVar8 t) ∈ liveBases c ∨ stateTokenBase (decodeVar8 t) ∈ c.released

/-- the `app_token` of an lg_crcv: the application's, or (lg_crcv built from a late message) a token of a released one -/
def AppOK (app : Bytes) (rel : List Nat) (e : CrcvT) : Prop :=
  e.appTok = app ∨ stateTokenBase (decodeVar8 e.appTok) ∈ rel

structure TInv (app : Bytes) (s : B2TSys) : Prop where
  req : ∀ t ∈ s.reqToks, TokOK app s.cli t
  rsp : ∀ t ∈ s.rspToks, TokOK app s.cli t
  ent : ∀ e ∈ s.cli.crcvs, AppOK app s.cli.released e

/-- nothing is forgotten: bases stay live or move to `released` -/
def CliLe (c c' : CliT) : Prop :=
  (∀ b ∈ liveBases c, b ∈ liveBases c' ∨ b ∈ c'.released) ∧ (∀ b ∈ c.released, b ∈ c'.released)

theorem TokOK.mono {app c c' t} (h : TokOK app c t) (hle : CliLe c c') : TokOK app c' t := by
  rcases h with h | h | h
  · exact Or.inl h
  · exact Or.inr (hle.1 _ h)
  · exact Or.inr (Or.inr (hle.2 _ h))

theorem AppOK.mono {app rel rel' e} (h : AppOK app rel e) (hle : ∀ b ∈ rel, b ∈ rel') : AppOK app rel' e := by
  rcases h with h | h
  · exact Or.inl h
  · exact Or.inr (hle _ h)

/-- what the scan of the list does with the tokens -/
theorem crcvScanT_some (single : Bool) (cap : Nat) (junk : UInt8) (tok : Bytes) (r : Resp) :
    ∀ (l l' : List CrcvT) (rel : List Nat) (x : TRes),
      crcvScanT single cap junk tok r l = some (l', rel, x) →
      (∀ e' ∈ l', ∃ e ∈ l, e'.appTok = e.appTok ∧ e'.state = e.state) ∧
      (∀ e ∈ l, stateTokenBase e.state ∈ l'.map (fun e => stateTokenBase e.state) ∨ stateTokenBase e.state ∈ rel) ∧
      (callsHandler x.out = true → ∃ e ∈ l, x.shown = e.appTok) ∧
      (∀ t, x.reqTok = some t → ∃ e ∈ l, ∃ n, n < 65536 ∧ t = encodeVar8 (stateTokenFull e.state n)) ∧
      (nextReq x.out = none → x.reqTok = none) := by
  intro l
  induction l with
  | nil => intro l' rel x h; simp [crcvScanT] at h
  | cons e es ih =>
    intro l' rel x h
    unfold crcvScanT at h
    split at h
    · -- try out the next one
      split at h
      · rename_i y hy
        obtain ⟨y1, y2, y3⟩ := y
        simp only [Option.some.injEq, Prod.mk.injEq] at h
        obtain ⟨h1, h2, h3⟩ := h
        subst h1 h2 h3
        obtain ⟨a, b, c, d, f⟩ := ih y1 y2 y3 hy
        refine ⟨?_, ?_, ?_, ?_, f⟩
        · intro e' he'
          rcases List.mem_cons.1 he' with rfl | he'
          · exact ⟨e', List.mem_cons_self, rfl, rfl⟩
          · obtain ⟨e0, h0, h1⟩ := a e' he'
            exact ⟨e0, List.mem_cons_of_mem _ h0, h1⟩
        · intro e0 he0
          rcases List.mem_cons.1 he0 with rfl | he0
          · left; simp
          · rcases b e0 he0 with h | h
            · left; simp only [List.map_cons, List.mem_cons]; exact Or.inr h
            · exact Or.inr h
        · intro hc
          obtain ⟨e0, h0, h1⟩ := c hc
          exact ⟨e0, List.mem_cons_of_mem _ h0, h1⟩
        · intro t ht
          obtain ⟨e0, h0, h1⟩ := d t ht
          exact ⟨e0, List.mem_cons_of_mem _ h0, h1⟩
      · simp at h
    · -- lg_crcv found
      have hmod : (e.retry + 1) % 65536 < 65536 := Nat.mod_lt _ (by decide)
      dsimp only at h
      split at h
      · rename_i lg' hlg
        simp only [Option.some.injEq, Prod.mk.injEq] at h
        obtain ⟨h1, h2, h3⟩ := h
        subst h1 h2 h3
        refine ⟨?_, ?_, ?_, ?_, ?_⟩
        · intro e' he'
          rcases List.mem_cons.1 he' with rfl | he'
          · exact ⟨e, List.mem_cons_self, rfl, rfl⟩
          · exact ⟨e', List.mem_cons_of_mem _ he', rfl, rfl⟩
        · intro e0 he0
          left
          rcases List.mem_cons.1 he0 with rfl | he0
          · simp
          · simp only [List.map_cons, List.mem_cons, List.mem_map]
            exact Or.inr ⟨e0, he0, rfl⟩
        · intro hc
          exact ⟨e, List.mem_cons_self, by simp only [] at hc ⊢; rw [if_pos hc]⟩
        · intro t ht
          simp only [] at ht
          split at ht
          · rename_i hq
            refine ⟨_, List.mem_cons_self, (e.retry + 1) % 65536, hmod, ?_⟩
            simp only [Option.some.injEq] at ht
            rw [← ht]
          · simp at ht
        · intro hn
          simp only []
          rw [if_neg (by simp [hn])]
      · rename_i hlg
        simp only [Option.some.injEq, Prod.mk.injEq] at h
        obtain ⟨h1, h2, h3⟩ := h
        subst h1 h2 h3
        refine ⟨?_, ?_, ?_, ?_, ?_⟩
        · intro e' he'
          exact ⟨e', List.mem_cons_of_mem _ he', rfl, rfl⟩
        · intro e0 he0
          rcases List.mem_cons.1 he0 with rfl | he0
          · right; simp
          · left
            simp only [List.mem_map]
            exact ⟨e0, he0, rfl⟩
        · intro hc
          exact ⟨e, List.mem_cons_self, by simp only [] at hc ⊢; rw [if_pos hc]⟩
        · intro t ht
          simp only [] at ht
          split at ht
          · rename_i hq
            refine ⟨_, List.mem_cons_self, (e.retry + 1) % 65536, hmod, ?_⟩
            simp only [Option.some.injEq] at ht
            rw [← ht]
          · simp at ht
        · intro hn
          simp only []
          rw [if_neg (by simp [hn])]

theorem crcvScanT_none (single : Bool) (cap : Nat) (junk : UInt8) (tok : Bytes) (r : Resp) :
    ∀ l : List CrcvT, crcvScanT single cap junk tok r l = none →
      ∀ e ∈ l, stateTokenBase (decodeVar8 tok) ≠ stateTokenBase e.state ∧ tok ≠ e.appTok := by
  intro l
  induction l with
  | nil => intro _ e he; cases he
  | cons e es ih =>
    intro h e0 he0
    unfold crcvScanT at h
    split at h
    · rename_i hm
      split at h
      · simp at h
      · rename_i hn
        rcases List.mem_cons.1 he0 with rfl | he0
        · exact hm
        · exact ih hn e0 he0
    · dsimp only at h
      split at h <;> simp at h

theorem CliLe.refl (c : CliT) : CliLe c c := ⟨fun _ h => Or.inl h, fun _ h => h⟩

theorem CliLe.trans {a b c : CliT} (h1 : CliLe a b) (h2 : CliLe b c) : CliLe a c := by
  refine ⟨fun x hx => ?_, fun x hx => h2.2 _ (h1.2 _ hx)⟩
  rcases h1.1 x hx with h | h
  · exact h2.1 _ h
  · exact Or.inr (h2.2 _ h)

/-- a token that matched no lg_crcv is the application's or belongs to a released one -/
theorem raw_of_unmatched {app : Bytes} {c : CliT} {tok : Bytes} (ht : TokOK app c tok)
    (hn : ∀ e ∈ c.crcvs, stateTokenBase (decodeVar8 tok) ≠ stateTokenBase e.state ∧ tok ≠ e.appTok) :
    tok = app ∨ stateTokenBase (decodeVar8 tok) ∈ c.released := by
  rcases ht with h | h | h
  · exact Or.inl h
  · exfalso
    unfold liveBases at h
    obtain ⟨e, he, hb⟩ := List.mem_map.1 h
    exact (hn e he).1 hb.symm
  · exact Or.inr h

/-- ONE call of coap_handle_response_get_block in any session state -/
theorem crcvStepT_spec (single : Bool) (cap : Nat) (junk : UInt8) (app : Bytes) (c : CliT) (sentTok : Option Bytes)
    (tok : Bytes) (r : Resp)
    (hent : ∀ e ∈ c.crcvs, AppOK app c.released e) (htok : TokOK app c tok)
    (hs : ∀ st, sentTok = some st → st = tok ∨ st = app) :
    let res := crcvStepT single cap junk c sentTok tok r
    CliLe c res.1 ∧ (∀ e ∈ res.1.crcvs, AppOK app res.1.released e) ∧
    (callsHandler res.2.out = true → res.2.shown = app ∨ stateTokenBase (decodeVar8 res.2.shown) ∈ c.released) ∧
    (∀ t, res.2.reqTok = some t → TokOK app res.1 t) ∧
    (nextReq res.2.out = none → res.2.reqTok = none) := by
  intro res
  have hres : res = crcvStepT single cap junk c sentTok tok r := rfl
  unfold crcvStepT at hres
  split at hres
  · -- an lg_crcv matched
    rename_i x hx
    obtain ⟨l', rel, y⟩ := x
    obtain ⟨a, b, cc, d, f⟩ := crcvScanT_some single cap junk tok r _ _ _ _ hx
    have hle : CliLe c { c with crcvs := l', released := c.released ++ rel } := by
      refine ⟨fun x hx => ?_, fun x hx => List.mem_append_left _ hx⟩
      unfold liveBases at hx
      obtain ⟨e, he, rfl⟩ := List.mem_map.1 hx
      rcases b e he with h | h
      · exact Or.inl h
      · exact Or.inr (List.mem_append_right _ h)
    rw [hres]
    refine ⟨hle, ?_, ?_, ?_, f⟩
    · intro e' he'
      obtain ⟨e, he, h1, _⟩ := a e' he'
      rcases hent e he with h | h
      · exact Or.inl (h1.trans h)
      · exact Or.inr (List.mem_append_left _ (h1 ▸ h))
    · intro hc
      obtain ⟨e, he, h1⟩ := cc hc
      show y.shown = app ∨ _
      rw [h1]
      exact hent e he
    · intro t ht
      obtain ⟨e, he, n, hn, rfl⟩ := d t ht
      refine TokOK.mono (c := c) (Or.inr (Or.inl ?_)) hle
      rw [base_wire _ _ hn]
      exact List.mem_map.2 ⟨e, he, rfl⟩
  · -- no lg_crcv matched
    rename_i hx
    have hraw := raw_of_unmatched htok (crcvScanT_none single cap junk tok r _ hx)
    have triv : ∀ o : CrcvOut, nextReq o = none ∨ True := fun _ => Or.inr trivial
    split at hres
    · split at hres <;>
      · rw [hres]
        exact ⟨CliLe.refl c, hent, fun _ => hraw, fun t ht => by simp at ht, fun _ => rfl⟩
    · rename_i st
      have hst : st = app ∨ stateTokenBase (decodeVar8 st) ∈ c.released := by
        rcases hs st rfl with h | h
        · rw [h]; exact hraw
        · exact Or.inl h
      split at hres
      · split at hres
        · rw [hres]
          exact ⟨CliLe.refl c, hent, fun _ => hraw, fun t ht => by simp at ht, fun _ => rfl⟩
        · dsimp only at hres
          split at hres
          · rename_i x hx2
            obtain ⟨l', rel, y⟩ := x
            obtain ⟨a, b, cc, d, f⟩ := crcvScanT_some single cap junk tok r _ _ _ _ hx2
            have hle : CliLe c { c with crcvs := l' ++ c.crcvs, txTok := (c.txTok + 1) % 2 ^ 64,
                                        released := c.released ++ rel } := by
              refine ⟨fun x hx => Or.inl ?_, fun x hx => List.mem_append_left _ hx⟩
              unfold liveBases at hx ⊢
              simp only [List.map_append, List.mem_append]
              exact Or.inr hx
            rw [hres]
            refine ⟨hle, ?_, ?_, ?_, f⟩
            · intro e' he'
              rcases List.mem_append.1 he' with he' | he'
              · obtain ⟨e, he, h1, _⟩ := a e' he'
                simp only [List.mem_singleton] at he
                subst he
                rcases hst with h | h
                · exact Or.inl (h1.trans h)
                · exact Or.inr (List.mem_append_left _ (by rw [h1]; exact h))
              · exact (hent e' he').mono fun b hb => List.mem_append_left _ hb
            · intro hc
              obtain ⟨e, he, h1⟩ := cc hc
              simp only [List.mem_singleton] at he
              subst he
              show y.shown = app ∨ _
              rw [h1]
              exact hst
            · intro t ht
              obtain ⟨e, he, n, hn, rfl⟩ := d t ht
              unfold TokOK
              rw [base_wire _ _ hn]
              right
              rcases b e he with h | h
              · left
                unfold liveBases
                simp only [List.map_append, List.mem_append]
                exact Or.inl h
              · right; exact List.mem_append_right _ h
          · rw [hres]
            refine ⟨⟨fun x hx => Or.inl ?_, fun x hx => hx⟩, ?_, fun _ => hraw, fun t ht => by simp at ht, fun _ => rfl⟩
            · unfold liveBases at hx ⊢
              simp only [List.map_cons, List.mem_cons]
              exact Or.inr hx
            · intro e' he'
              rcases List.mem_cons.1 he' with rfl | he'
              · exact hst
              · exact hent e' he'
      · rw [hres]
        exact ⟨CliLe.refl c, hent, fun _ => hraw, fun t ht => by simp at ht, fun _ => rfl⟩

theorem dropApp_spec (tok : Bytes) : ∀ l : List CrcvT,
    (∀ e ∈ l, e ∈ (dropApp tok l).1 ∨ stateTokenBase e.state ∈ (dropApp tok l).2) ∧
    (∀ e ∈ (dropApp tok l).1, e ∈ l) := by
  intro l
  induction l with
  | nil => exact ⟨fun _ h => (by cases h), fun _ h => (by simp [dropApp] at h)⟩
  | cons a as ih =>
    unfold dropApp
    split
    · refine ⟨fun e he => ?_, fun e he => List.mem_cons_of_mem _ he⟩
      rcases List.mem_cons.1 he with rfl | he
      · right; simp
      · exact Or.inl he
    · refine ⟨fun e he => ?_, fun e he => ?_⟩
      · rcases List.mem_cons.1 he with rfl | he
        · left; simp
        · rcases ih.1 e he with h | h
          · left; exact List.mem_cons_of_mem _ h
          · exact Or.inr h
      · rcases List.mem_cons.1 he with rfl | he
        · exact List.mem_cons_self
        · exact List.mem_cons_of_mem _ (ih.2 e he)

theorem mem_eraseIdx_or {α : Type} : ∀ (l : List α) (i : Nat) (e : α), e ∈ l → e ∈ l.eraseIdx i ∨ l[i]? = some e := by
  intro l
  induction l with
  | nil => intro i e h; cases h
  | cons a as ih =>
    intro i e h
    cases i with
    | zero =>
      rcases List.mem_cons.1 h with rfl | h
      · right; rfl
      · left; simpa using h
    | succ i =>
      rcases List.mem_cons.1 h with rfl | h
      · left; simp
      · rcases ih i e h with h2 | h2
        · left; simp only [List.eraseIdx_cons_succ, List.mem_cons]; exact Or.inr h2
        · right; simpa using h2

theorem cliSendT_le (c : CliT) (tok : Bytes) : CliLe c (cliSendT c tok) := by
  refine ⟨fun b hb => ?_, fun b hb => List.mem_append_left _ hb⟩
  unfold liveBases at hb
  obtain ⟨e, he, rfl⟩ := List.mem_map.1 hb
  rcases (dropApp_spec tok c.crcvs).1 e he with h | h
  · left
    unfold liveBases cliSendT
    simp only [List.map_cons, List.mem_cons, List.mem_map]
    exact Or.inr ⟨e, h, rfl⟩
  · right; exact List.mem_append_right _ h

theorem cliExpireT_le (c : CliT) (i : Nat) : CliLe c (cliExpireT c i) := by
  unfold cliExpireT
  split
  · rename_i e0 h0
    refine ⟨fun b hb => ?_, fun b hb => List.mem_append_left _ hb⟩
    unfold liveBases at hb
    obtain ⟨e, he, rfl⟩ := List.mem_map.1 hb
    rcases mem_eraseIdx_or c.crcvs i e he with h | h
    · left; exact List.mem_map.2 ⟨e, h, rfl⟩
    · right
      rw [h0] at h
      cases h
      exact List.mem_append_right _ (by simp)
  · exact CliLe.refl c

/-- invariant of a run: `TInv`, and every handler call so far saw the application's token or one of an lg_crcv that had
been released BEFORE that call -/
structure RunInvT (app : Bytes) (s : B2TSys) : Prop where
  inv : TInv app s
  shown : ∀ x ∈ s.hToks, x.1 = app ∨ stateTokenBase (decodeVar8 x.1) ∈ x.2
  rel : ∀ x ∈ s.hToks, ∀ b ∈ x.2, b ∈ s.cli.released

theorem TInv.of_le {app : Bytes} {s : B2TSys} {c' : CliT} (h : TInv app s) (hle : CliLe s.cli c')
    (hent : ∀ e ∈ c'.crcvs, AppOK app c'.released e) : TInv app { s with cli := c' } :=
  ⟨fun t ht => (h.req t ht).mono hle, fun t ht => (h.rsp t ht).mono hle, hent⟩

theorem b2tStep_inv (P : B2Par) (app : Bytes) (s : B2TSys) (ev : B2TEvent) (h : RunInvT app s) :
    RunInvT app (b2tStep P app s ev) := by
  cases ev with
  | appGet szx =>
    refine ⟨⟨fun t ht => ?_, h.inv.rsp, h.inv.ent⟩, h.shown, h.rel⟩
    rcases List.mem_append.1 ht with ht | ht
    · exact h.inv.req t ht
    · simp only [List.mem_singleton] at ht
      exact Or.inl ht
  | reqArrives i =>
    simp only [b2tStep]
    split
    · rename_i num szx tok h1 h2
      refine ⟨⟨h.inv.req, fun t ht => ?_, h.inv.ent⟩, h.shown, h.rel⟩
      rcases List.mem_append.1 ht with ht | ht
      · exact h.inv.rsp t ht
      · rw [List.eq_of_mem_replicate ht]
        exact h.inv.req tok (List.mem_of_getElem? h2)
    · exact h
  | rspArrives j sent =>
    simp only [b2tStep]
    split
    · rename_i r tok h1 h2
      have htok : TokOK app s.cli tok := h.inv.rsp tok (List.mem_of_getElem? h2)
      obtain ⟨hle, hent, hshown, hreq, hnone⟩ :=
        crcvStepT_spec P.single P.cap P.junk app s.cli (if sent then some tok else none) tok r h.inv.ent htok
          (by intro st hst; split at hst <;> simp at hst; exact Or.inl hst.symm)
      generalize crcvStepT P.single P.cap P.junk s.cli (if sent then some tok else none) tok r = res at *
      refine ⟨⟨fun t ht => ?_, fun t ht => (h.inv.rsp t ht).mono hle, hent⟩, fun x hx => ?_, fun x hx b hb => ?_⟩
      · rcases List.mem_append.1 ht with ht | ht
        · exact (h.inv.req t ht).mono hle
        · split at ht
          · rename_i q t' hq ht'
            simp only [List.mem_singleton] at ht
            subst ht
            exact hreq _ ht'
          · simp at ht
      · rcases List.mem_append.1 hx with hx | hx
        · exact h.shown x hx
        · split at hx
          · rename_i hc
            simp only [List.mem_singleton] at hx
            subst hx
            exact hshown hc
          · simp at hx
      · rcases List.mem_append.1 hx with hx | hx
        · exact hle.2 _ (h.rel x hx b hb)
        · split at hx
          · simp only [List.mem_singleton] at hx
            subst hx
            exact hle.2 _ hb
          · simp at hx
    · exact h
  | srvExpire => exact ⟨⟨h.inv.req, h.inv.rsp, h.inv.ent⟩, h.shown, h.rel⟩
  | cliExpire i =>
    have hle := cliExpireT_le s.cli i
    refine ⟨h.inv.of_le hle ?_, h.shown, fun x hx b hb => hle.2 _ (h.rel x hx b hb)⟩
    intro e he
    unfold cliExpireT at he ⊢
    split at he
    · exact (h.inv.ent e (List.mem_of_mem_eraseIdx he)).mono fun b hb => List.mem_append_left _ hb
    · exact h.inv.ent e he
  | cliNew =>
    have hle := cliSendT_le s.cli app
    refine ⟨h.inv.of_le hle ?_, h.shown, fun x hx b hb => hle.2 _ (h.rel x hx b hb)⟩
    intro e he
    unfold cliSendT at he ⊢
    rcases List.mem_cons.1 he with rfl | he
    · exact Or.inl rfl
    · exact (h.inv.ent e ((dropApp_spec app s.cli.crcvs).2 e he)).mono fun b hb => List.mem_append_left _ hb

def b2tRun (P : B2Par) (app : Bytes) (s : B2TSys) (evs : List B2TEvent) : B2TSys := evs.foldl (b2tStep P app) s

theorem b2tRun_inv (P : B2Par) (app : Bytes) (evs : List B2TEvent) :
    ∀ s, RunInvT app s → RunInvT app (b2tRun P app s evs) := by
  induction evs with
  | nil => intro s h; exact h
  | cons ev evs ih => intro s h; exact ih _ (b2tStep_inv P app s ev h)

theorem runInvT_init (app : Bytes) : RunInvT app {} :=
  ⟨⟨fun _ h => (by cases h), fun _ h => (by cases h), fun _ h => (by cases h)⟩, fun _ h => (by cases h), fun _ h => (by cases h)⟩

/-! ## the body theorems of `b2Step` carry over to the system with tokens and an lg_crcv LIST -/

/-- which lg_crcv the scan hands to `crcvFound`, and what the list looks like afterwards -/
theorem crcvScanT_lg (single : Bool) (cap : Nat) (junk : UInt8) (tok : Bytes) (r : Resp) :
    ∀ (l l' : List CrcvT) (rel : List Nat) (x : TRes),
      crcvScanT single cap junk tok r l = some (l', rel, x) →
      ∃ e ∈ l, x.out = (crcvFound single cap junk e.lg r).2 ∧
        ∀ e' ∈ l', (∃ e0 ∈ l, e'.lg = e0.lg) ∨ (crcvFound single cap junk e.lg r).1 = some e'.lg := by
  intro l
  induction l with
  | nil => intro l' rel x h; simp [crcvScanT] at h
  | cons e es ih =>
    intro l' rel x h
    unfold crcvScanT at h
    split at h
    · split at h
      · rename_i y hy
        obtain ⟨y1, y2, y3⟩ := y
        simp only [Option.some.injEq, Prod.mk.injEq] at h
        obtain ⟨h1, h2, h3⟩ := h
        subst h1 h2 h3
        obtain ⟨e1, he1, ho, hl⟩ := ih y1 y2 y3 hy
        refine ⟨e1, List.mem_cons_of_mem _ he1, ho, ?_⟩
        intro e' he'
        rcases List.mem_cons.1 he' with rfl | he'
        · exact Or.inl ⟨e', List.mem_cons_self, rfl⟩
        · rcases hl e' he' with ⟨e0, h0, h1⟩ | h
          · exact Or.inl ⟨e0, List.mem_cons_of_mem _ h0, h1⟩
          · exact Or.inr h
      · simp at h
    · dsimp only at h
      split at h
      · rename_i lg' hlg
        simp only [Option.some.injEq, Prod.mk.injEq] at h
        obtain ⟨h1, h2, h3⟩ := h
        subst h1 h2 h3
        refine ⟨e, List.mem_cons_self, rfl, ?_⟩
        intro e' he'
        rcases List.mem_cons.1 he' with rfl | he'
        · exact Or.inr hlg
        · exact Or.inl ⟨e', List.mem_cons_of_mem _ he', rfl⟩
      · simp only [Option.some.injEq, Prod.mk.injEq] at h
        obtain ⟨h1, h2, h3⟩ := h
        subst h1 h2 h3
        refine ⟨e, List.mem_cons_self, rfl, ?_⟩
        intro e' he'
        exact Or.inl ⟨e', List.mem_cons_of_mem _ he', rfl⟩

/-- ONE call, seen from `crcvStep`: the output is `crcvStep`'s on the matched lg_crcv (or on none), or the message was
dropped; every lg_crcv afterwards is an old one, a fresh one, or `crcvStep`'s result -/
theorem crcvStepT_lg (single : Bool) (cap : Nat) (junk : UInt8) (c : CliT) (sentTok : Option Bytes) (tok : Bytes) (r : Resp)
    (hs : ∀ st, sentTok = some st → st = tok) (hb : ∃ num m szx, r.blk = some (num, m, szx)) :
    let res := crcvStepT single cap junk c sentTok tok r
    (res.2.out = CrcvOut.skip ∧ res.1.crcvs = c.crcvs) ∨
    ∃ st, (st = none ∨ ∃ e ∈ c.crcvs, st = some e.lg) ∧ res.2.out = (crcvStep single cap junk st r).2 ∧
      ∀ e' ∈ res.1.crcvs, (∃ e0 ∈ c.crcvs, e'.lg = e0.lg) ∨ e'.lg.initial = true ∨
        (crcvStep single cap junk st r).1 = some e'.lg := by
  intro res
  obtain ⟨num, m, szx, hblk⟩ := hb
  have hres : res = crcvStepT single cap junk c sentTok tok r := rfl
  unfold crcvStepT at hres
  split at hres
  · rename_i x hx
    obtain ⟨l', rel, y⟩ := x
    obtain ⟨e, he, ho, hl⟩ := crcvScanT_lg single cap junk tok r _ _ _ _ hx
    right
    refine ⟨some e.lg, Or.inr ⟨e, he, rfl⟩, ?_, ?_⟩
    · rw [hres]; exact ho
    · intro e' he'
      rw [hres] at he'
      rcases hl e' he' with h | h
      · exact Or.inl h
      · exact Or.inr (Or.inr h)
  · rename_i hx
    split at hres
    · left
      rw [hblk] at hres
      rw [hres]
      exact ⟨rfl, rfl⟩
    · rename_i st
      have hst : st = tok := hs st rfl
      rw [hblk] at hres
      dsimp only at hres
      split at hres
      · rename_i hnum
        right
        refine ⟨none, Or.inl rfl, ?_, ?_⟩
        · rw [hres]; simp [crcvStep, hblk, hnum]
        · intro e' he'
          rw [hres] at he'
          exact Or.inl ⟨e', he', rfl⟩
      · rename_i hnum
        have hnum0 : num = 0 := by
          rcases Nat.eq_zero_or_pos num with h | h
          · exact h
          · exact absurd (Nat.pos_iff_ne_zero.1 h) hnum
        split at hres
        · rename_i x hx2
          obtain ⟨l', rel, y⟩ := x
          obtain ⟨e, he, ho, hl⟩ := crcvScanT_lg single cap junk tok r _ _ _ _ hx2
          simp only [List.mem_singleton] at he
          subst he
          have hstep : crcvStep single cap junk none r = crcvFound single cap junk {} r := by
            simp [crcvStep, hblk, hnum0]
          right
          refine ⟨none, Or.inl rfl, ?_, ?_⟩
          · rw [hres, hstep]; exact ho
          · intro e' he'
            rw [hres] at he'
            rcases List.mem_append.1 he' with he' | he'
            · rcases hl e' he' with ⟨e0, h0, h1⟩ | h
              · simp only [List.mem_singleton] at h0
                subst h0
                right; left
                rw [h1]
              · right; right
                rw [hstep]; exact h
            · exact Or.inl ⟨e', he', rfl⟩
        · rename_i hx2
          exfalso
          have := crcvScanT_none single cap junk tok r _ hx2 _ List.mem_cons_self
          exact this.2 hst.symm

/-- `srvOnReq` neither reads nor writes the client's state -/
theorem srvOnReq_withCli (P : B2Par) (n : B2Sys) (c : Option Crcv) (num szx : Nat) :
    srvOnReq P { n with cli := c } num szx = { srvOnReq P n num szx with cli := c } := by
  unfold srvOnReq
  dsimp only
  split
  · split
    · split
      · split <;> rfl
      · rfl
    · rfl
  · split <;> rfl

/-- `B2Inv` of the datagrams / server / outputs with EVERY lg_crcv of the list (and with none) in the client's place -/
def B2TInv (P : B2Par) (s : B2TSys) : Prop :=
  B2Inv P { s.net with cli := none } ∧ ∀ e ∈ s.cli.crcvs, B2Inv P { s.net with cli := some e.lg }

theorem b2Inv_fresh {P : B2Par} {n : B2Sys} {c : Option Crcv} (h : B2Inv P { n with cli := c }) (lg : Crcv)
    (hi : lg.initial = true) : B2Inv P { n with cli := some lg } :=
  { rsp := h.rsp, func := h.func, srv := h.srv, outs := h.outs,
    cli := (by intro c' hc' hi'; cases hc'; rw [hi] at hi'; cases hi') }

/-- another output / other requests do not disturb the invariant of an lg_crcv that was not touched -/
theorem b2Inv_out {P : B2Par} {n : B2Sys} {c : Option Crcv} (h : B2Inv P { n with cli := c }) (o : CrcvOut)
    (ho : GoodOut P.single P.body o) (q : List (Nat × Nat)) :
    B2Inv P { n with cli := c, outs := n.outs ++ [o], reqs := q } :=
  { rsp := h.rsp, func := h.func, srv := h.srv, cli := h.cli,
    outs := (by
      intro o' ho'
      have ho'' : o' ∈ n.outs ++ [o] := ho'
      rcases List.mem_append.1 ho'' with h1 | h1
      · exact h.outs o' h1
      · rw [List.mem_singleton] at h1; rw [h1]; exact ho) }

theorem goodOut_skip (single : Bool) (body : Bytes) : GoodOut single body CrcvOut.skip :=
  ⟨fun d l h => (by cases h), fun off p total nx h => (by cases h), fun off p total h => (by cases h),
    fun off p total h => (by cases h), fun p h => (by cases h)⟩

theorem b2tStep_body_inv (P : B2Par) (hP : B2ParOK P) (app : Bytes) (s : B2TSys) (ev : B2TEvent) (h : B2TInv P s) :
    B2TInv P (b2tStep P app s ev) := by
  cases ev with
  | appGet szx =>
    exact ⟨{ rsp := h.1.rsp, func := h.1.func, srv := h.1.srv, cli := h.1.cli, outs := h.1.outs },
      fun e he => { rsp := (h.2 e he).rsp, func := (h.2 e he).func, srv := (h.2 e he).srv, cli := (h.2 e he).cli,
                    outs := (h.2 e he).outs }⟩
  | reqArrives i =>
    simp only [b2tStep]
    split
    · rename_i num szx tok h1 h2
      refine ⟨?_, fun e he => ?_⟩
      · have := srvOnReq_inv P hP _ num szx h.1
        rw [srvOnReq_withCli] at this
        exact this
      · have := srvOnReq_inv P hP _ num szx (h.2 e he)
        rw [srvOnReq_withCli] at this
        exact this
    · exact h
  | rspArrives j sent =>
    simp only [b2tStep]
    split
    · rename_i r tok h1 h2
      have hr : r ∈ s.net.rsps := List.mem_of_getElem? h1
      have hb : ∃ num m szx, r.blk = some (num, m, szx) := by
        obtain ⟨num, szx, k, g1, _⟩ := h.1.rsp r hr
        exact ⟨_, _, _, g1⟩
      have hlg := crcvStepT_lg P.single P.cap P.junk s.cli (if sent then some tok else none) tok r
        (by intro st hst; split at hst <;> simp at hst; exact hst.symm) hb
      generalize crcvStepT P.single P.cap P.junk s.cli (if sent then some tok else none) tok r = res at *
      generalize (match nextReq res.2.out, res.2.reqTok with
               | some q, some t => ([q], [t])
               | _, _ => (([] : List (Nat × Nat)), ([] : List Bytes))) = q
      rcases hlg with ⟨ho, hl⟩ | ⟨st, hst, ho, hl⟩
      · -- dropped
        rw [ho]
        refine ⟨b2Inv_out h.1 _ (goodOut_skip _ _) _, fun e he => ?_⟩
        rw [hl] at he
        exact b2Inv_out (h.2 e he) _ (goodOut_skip _ _) _
      · -- `crcvStep` on the matched lg_crcv / on none
        have hbase : B2Inv P { s.net with cli := st } := by
          rcases hst with rfl | ⟨e, he, rfl⟩
          · exact h.1
          · exact h.2 e he
        have hstep := cliOnRsp_inv P { s.net with cli := st } r hr hbase
        have hgood : GoodOut P.single P.body res.2.out := by
          rw [ho]
          exact hstep.outs _ (List.mem_append_right _ List.mem_cons_self)
        refine ⟨b2Inv_out h.1 _ hgood _, fun e' he' => ?_⟩
        rcases hl e' he' with ⟨e0, h0, h1⟩ | hi | hnew
        · rw [h1]; exact b2Inv_out (h.2 e0 h0) _ hgood _
        · exact b2Inv_fresh (b2Inv_out h.1 _ hgood _) _ hi
        · rw [ho]
          exact { rsp := hstep.rsp, func := hstep.func, srv := hstep.srv, outs := hstep.outs,
                  cli := (by rw [← hnew]; exact hstep.cli) }
    · exact h
  | srvExpire =>
    exact ⟨{ rsp := h.1.rsp, func := h.1.func, srv := (by intro x hx; cases hx), cli := h.1.cli, outs := h.1.outs },
      fun e he => { rsp := (h.2 e he).rsp, func := (h.2 e he).func, srv := (by intro x hx; cases hx),
                    cli := (h.2 e he).cli, outs := (h.2 e he).outs }⟩
  | cliExpire i =>
    refine ⟨h.1, fun e he => ?_⟩
    have he' : e ∈ (cliExpireT s.cli i).crcvs := he
    unfold cliExpireT at he'
    split at he'
    · exact h.2 e (List.mem_of_mem_eraseIdx he')
    · exact h.2 e he'
  | cliNew =>
    refine ⟨h.1, fun e he => ?_⟩
    have he' : e ∈ (cliSendT s.cli app).crcvs := he
    unfold cliSendT at he'
    rcases List.mem_cons.1 he' with rfl | he'
    · exact b2Inv_fresh h.1 _ rfl
    · exact h.2 e ((dropApp_spec app s.cli.crcvs).2 e he')

theorem b2tRun_body_inv (P : B2Par) (hP : B2ParOK P) (app : Bytes) (evs : List B2TEvent) :
    ∀ s, B2TInv P s → B2TInv P (b2tRun P app s evs) := by
  induction evs with
  | nil => intro s h; exact h
  | cons ev evs ih => intro s h; exact ih _ (b2tStep_body_inv P hP app s ev h)

theorem b2TInv_init (P : B2Par) : B2TInv P {} :=
  ⟨{ rsp := (b2_init_inv P).rsp, func := (b2_init_inv P).func, srv := (b2_init_inv P).srv,
     cli := (by intro c hc; cases hc), outs := (b2_init_inv P).outs }, fun _ h => (by cases h)⟩

end Coap.Block
