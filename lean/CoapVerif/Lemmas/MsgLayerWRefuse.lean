import CoapVerif.Lemmas.MsgLayerW
/-
C06, socket-write failures, the branch the `w_*_partial` theorems exclude (`dev = true` because `coap_send` was refused):

* `submitW_refused`: when the write of a FIRST transmission fails inside `coap_send` (`coap_send_internal`:
  `bytes_written < 0` → `goto error`), the call reports COAP_INVALID_MID (`.sub none`) and NOTHING else changes: send
  queue, every session (`con_active`, delay queue), clock are what they were — only the write attempt and the result are
  in the output list, one oracle answer is consumed, `dev` is set.
* `rebase` / `*_rebase`: no function of the write-failure model ever READS the output list, the `failed` marks or `dev`:
  running any function on a state whose output list has older entries appended (`rebase`) is the same as appending them
  afterwards.  So the whole later run after a refused `coap_send` is, event for event, the run that would have happened
  had `coap_send` never been called (with the oracle one answer further): same queue, same deadlines, same sessions, the
  same new outputs — no NACK for the refused message, no later transmission of it (`runW_after_refused`).
Core Lean only.
-/
namespace Coap.MsgW
open Coap.SQ Coap.Msg

/-- older outputs `o` appended to the output list (it is newest-first) -/
def appOut (l : L) (o : List Out) : L := { l with out := l.out ++ o }

@[simp] theorem appOut_getS (l : L) (o : List Out) (s : Nat) : (appOut l o).getS s = l.getS s := rfl
@[simp] theorem appOut_setS (l : L) (o : List Out) (s : Nat) (se : Sess) : (appOut l o).setS s se = appOut (l.setS s se) o := rfl
@[simp] theorem appOut_emit (l : L) (o : List Out) (x : Out) : (appOut l o).emit x = appOut (l.emit x) o := rfl
@[simp] theorem appOut_waitAck (l : L) (o : List Out) (n : Node) : waitAck (appOut l o) n = appOut (waitAck l n) o := rfl
@[simp] theorem appOut_now (l : L) (o : List Out) : (appOut l o).now = l.now := rfl
@[simp] theorem appOut_q (l : L) (o : List Out) : (appOut l o).q = l.q := rfl
@[simp] theorem appOut_sess (l : L) (o : List Out) : (appOut l o).sess = l.sess := rfl
@[simp] theorem appOut_out (l : L) (o : List Out) : (appOut l o).out = l.out ++ o := rfl
@[simp] theorem appOut_setQ (l : L) (o : List Out) (q : Queue) : ({ appOut l o with q := q } : L) = appOut { l with q := q } o := rfl
theorem appOut_setQ' (l : L) (o : List Out) (q : Queue) :
    ({ now := l.now, q := q, sess := (appOut l o).sess, out := (appOut l o).out } : L) = appOut { l with q := q } o := rfl
@[simp] theorem appOut_setNow (l : L) (o : List Out) (t : Nat) : ({ appOut l o with now := t } : L) = appOut { l with now := t } o := rfl

/-- the same state with older outputs `o` under the output list: the positions of the failed attempts (counted from the
oldest output) move up by `o.length`, older marks `fl` and an older `dev` flag `d` are kept -/
def rebase (o : List Out) (fl : List Nat) (d : Bool) (lw : LW) : LW :=
  { l := appOut lw.l o, wf := lw.wf, failed := lw.failed.map (· + o.length) ++ fl, dev := lw.dev || d }

@[simp] theorem rebase_l (o : List Out) (fl : List Nat) (d : Bool) (lw : LW) : (rebase o fl d lw).l = appOut lw.l o := rfl
@[simp] theorem rebase_wf (o : List Out) (fl : List Nat) (d : Bool) (lw : LW) : (rebase o fl d lw).wf = lw.wf := rfl
@[simp] theorem rebase_setL (o : List Out) (fl : List Nat) (d : Bool) (lw : LW) (l : L) :
    ({ rebase o fl d lw with l := appOut l o } : LW) = rebase o fl d { lw with l := l } := rfl
@[simp] theorem rebase_setDev (o : List Out) (fl : List Nat) (d : Bool) (lw : LW) :
    ({ rebase o fl d lw with dev := true } : LW) = rebase o fl d { lw with dev := true } := by
  simp [rebase]

theorem write_rebase (o : List Out) (fl : List Nat) (d : Bool) (lw : LW) (s mid cnt : Nat) (con : Bool) :
    write (rebase o fl d lw) s mid cnt con = ((write lw s mid cnt con).1, rebase o fl d (write lw s mid cnt con).2) := by
  rcases lw with ⟨l, wf, failed, dev⟩
  rcases wf with _ | ⟨b, t⟩
  · simp [write, rebase, appOut, L.emit]
  · cases b <;> simp [write, rebase, appOut, L.emit, Nat.add_comm]

theorem drainRound_rebase (o : List Out) (fl : List Nat) (d : Bool) (lw : LW) (s : Nat) (n : Node) (rest : List Node) :
    drainRound (rebase o fl d lw) s n rest =
      ((drainRound lw s n rest).1, rebase o fl d (drainRound lw s n rest).2) := by
  unfold drainRound
  simp only [rebase_l, appOut_getS, appOut_setS, rebase_setL, write_rebase]
  cases n.con <;> rfl

theorem drainW_rebase (o : List Out) (fl : List Nat) (d : Bool) : ∀ (fuel : Nat) (lw : LW) (s : Nat),
    drainW fuel (rebase o fl d lw) s = rebase o fl d (drainW fuel lw s)
  | 0, _, _ => rfl
  | fuel + 1, lw, s => by
    have ih := drainW_rebase o fl d fuel
    unfold drainW
    simp only [rebase_l, appOut_getS, drainRound_rebase]
    cases (lw.l.getS s).delayq with
    | nil => rfl
    | cons n rest =>
      simp only [apply_ite (rebase o fl d)]
      refine ite_congr rfl (fun _ => rfl) (fun _ => ?_)
      refine ite_congr rfl (fun _ => rfl) (fun _ => ?_)
      refine ite_congr rfl (fun _ => ?_) (fun _ => ih _ _)
      simp [rebase]

theorem connectedW_rebase (o : List Out) (fl : List Nat) (d : Bool) (lw : LW) (s : Nat) :
    connectedW (rebase o fl d lw) s = rebase o fl d (connectedW lw s) := by
  unfold connectedW
  simp only [rebase_l, appOut_getS, appOut_setS, rebase_setL, drainW_rebase]

theorem releaseW_rebase (o : List Out) (fl : List Nat) (d : Bool) (lw : LW) (s : Nat) :
    releaseW (rebase o fl d lw) s = rebase o fl d (releaseW lw s) := by
  unfold releaseW
  simp only [rebase_l, appOut_getS, appOut_setS, rebase_setL, connectedW_rebase, apply_ite (rebase o fl d)]

theorem submitW_rebase (o : List Out) (fl : List Nat) (d : Bool) (lw : LW) (s : Nat) (con : Bool) (mid r : Nat) :
    submitW (rebase o fl d lw) s con mid r = rebase o fl d (submitW lw s con mid r) := by
  unfold submitW
  simp only [rebase_l, appOut_getS, appOut_setS, appOut_emit, rebase_setL, write_rebase, appOut_waitAck,
    apply_ite (rebase o fl d)]
  refine ite_congr rfl (fun _ => rfl) (fun _ => ?_)
  refine ite_congr rfl (fun _ => rfl) (fun _ => ?_)
  refine ite_congr rfl (fun _ => ?_) (fun _ => rfl)
  simp [rebase]

theorem retransmitW_rebase (o : List Out) (fl : List Nat) (d : Bool) (lw : LW) (n : Node) :
    retransmitW (rebase o fl d lw) n = rebase o fl d (retransmitW lw n) := by
  unfold retransmitW
  simp only [rebase_l, appOut_getS, appOut_setS, appOut_emit, appOut_now, appOut_q, appOut_setQ',
    rebase_setL, write_rebase, releaseW_rebase, apply_ite (rebase o fl d)]

theorem dueLoopW_rebase (o : List Out) (fl : List Nat) (d : Bool) : ∀ (fuel : Nat) (lw : LW),
    dueLoopW fuel (rebase o fl d lw) = rebase o fl d (dueLoopW fuel lw)
  | 0, _ => rfl
  | fuel + 1, lw => by
    have ih := dueLoopW_rebase o fl d fuel
    unfold dueLoopW
    simp only [rebase_l, appOut_q, appOut_now]
    cases lw.l.q.nodes with
    | nil => rfl
    | cons h t =>
      simp only [apply_ite (rebase o fl d)]
      refine ite_congr rfl (fun _ => ?_) (fun _ => rfl)
      cases popNext (h :: t) with
      | none => rfl
      | some p =>
        simp only [appOut_setQ, appOut_setQ', rebase_setL, retransmitW_rebase]
        exact ih _

theorem dueFuel_appOut (l : L) (o : List Out) : dueFuel (appOut l o) = dueFuel l := rfl

theorem prepareCoreW_rebase (o : List Out) (fl : List Nat) (d : Bool) (lw : LW) :
    prepareCoreW (rebase o fl d lw) = (rebase o fl d (prepareCoreW lw).1, (prepareCoreW lw).2) := by
  unfold prepareCoreW
  simp only [rebase_l, dueFuel_appOut, dueLoopW_rebase, appOut_q, appOut_now]
  cases (dueLoopW (dueFuel lw.l) lw).l.q.nodes <;> rfl

theorem prepareW_rebase (o : List Out) (fl : List Nat) (d : Bool) (lw : LW) :
    prepareW (rebase o fl d lw) = rebase o fl d (prepareW lw) := by
  unfold prepareW
  simp only [prepareCoreW_rebase, rebase_l, appOut_emit, appOut_now, rebase_setL]

theorem afterRxW_rebase (o : List Out) (fl : List Nat) (d : Bool) (lw : LW) :
    afterRxW (rebase o fl d lw) = rebase o fl d (afterRxW lw) := by
  unfold afterRxW
  rw [prepareCoreW_rebase]

theorem rxAckW_rebase (o : List Out) (fl : List Nat) (d : Bool) (lw : LW) (s mid : Nat) :
    rxAckW (rebase o fl d lw) s mid = rebase o fl d (rxAckW lw s mid) := by
  unfold rxAckW
  simp only [rebase_l, appOut_q]
  rcases removeNode lw.l.q.nodes s mid with ⟨sent, rest⟩
  cases sent with
  | none => rfl
  | some n => simp only [appOut_setQ, appOut_setQ', rebase_setL, releaseW_rebase]

theorem rxRstW_rebase (o : List Out) (fl : List Nat) (d : Bool) (lw : LW) (s mid : Nat) :
    rxRstW (rebase o fl d lw) s mid = rebase o fl d (rxRstW lw s mid) := by
  unfold rxRstW
  simp only [rebase_l, appOut_q]
  rcases removeNode lw.l.q.nodes s mid with ⟨sent, rest⟩
  cases sent with
  | none => rfl
  | some n =>
    simp only [appOut_setQ, appOut_setQ', rebase_setL, releaseW_rebase, apply_ite (rebase o fl d)]
    refine ite_congr rfl (fun _ => rfl) (fun _ => rfl)

theorem rxBadW_rebase (o : List Out) (fl : List Nat) (d : Bool) (lw : LW) (s mid : Nat) :
    rxBadW (rebase o fl d lw) s mid = rebase o fl d (rxBadW lw s mid) := by
  unfold rxBadW
  simp only [rebase_l, appOut_q]
  rcases removeNode lw.l.q.nodes s mid with ⟨sent, rest⟩
  cases sent with
  | none => rfl
  | some n =>
    simp only [appOut_setQ, appOut_setQ', rebase_setL, releaseW_rebase]
    rfl

theorem cancelTokenW_rebase (o : List Out) (fl : List Nat) (d : Bool) : ∀ (fuel : Nat) (lw : LW) (s tok : Nat),
    cancelTokenW fuel (rebase o fl d lw) s tok = rebase o fl d (cancelTokenW fuel lw s tok)
  | 0, _, _, _ => rfl
  | fuel + 1, lw, s, tok => by
    unfold cancelTokenW
    simp only [rebase_l, appOut_q, appOut_setQ, rebase_setL]
    rcases removeTok lw.l.q.nodes s tok with ⟨sent, rest⟩
    cases sent with
    | none => rfl
    | some n =>
      simp only []
      cases n.con
      · simp only [Bool.false_eq_true, if_false]; exact cancelTokenW_rebase o fl d fuel _ s tok
      · simp only [if_true, releaseW_rebase]; exact cancelTokenW_rebase o fl d fuel _ s tok

theorem rxNonW_rebase (o : List Out) (fl : List Nat) (d : Bool) (lw : LW) (s mid tok : Nat) :
    rxNonW (rebase o fl d lw) s mid tok = rebase o fl d (rxNonW lw s mid tok) := by
  unfold rxNonW
  simp only [rebase_l, appOut_q, cancelTokenW_rebase, appOut_emit, appOut_now, rebase_setL]

theorem nackAll_appOut (o : List Out) (s : Nat) (r : Reason) : ∀ (ns : List Node) (l : L),
    nackAll (appOut l o) s r ns = appOut (nackAll l s r ns) o
  | [], _ => rfl
  | n :: ns, l => by
    unfold nackAll
    cases n.con
    · simp only [Bool.false_eq_true, if_false]; exact nackAll_appOut o s r ns l
    · simp only [if_true, appOut_emit, appOut_now]; exact nackAll_appOut o s r ns _

/-- first half of `disconnect`: the NACKs for the first queued message and the delay queue, the session reset -/
def discA (l : L) (s : Nat) : L :=
  let se := l.getS s
  let first := l.q.nodes.find? (fun n => n.sess = s)
  let l := match first with
    | some n => l.emit (.nack l.now s .undeliv n.mid true)
    | none => l
  let l := nackAll l s .undeliv se.delayq
  let sentNack := first.isSome || se.delayq.any (·.con)
  let l := if sentNack then l else l.emit (.nack l.now s .undeliv 0 false)
  l.setS s { se with est := true, conActive := 0, delayq := [] }

/-- second half: `coap_cancel_session_messages`, the socket is closed -/
def discB (l : L) (s : Nat) : L :=
  let (gone, rest) := cancelSession l.q.nodes s
  let l := { l with q := { l.q with nodes := rest } }
  let l := nackAll l s .undeliv gone
  l.setS s { (l.getS s) with sockOpen := false }

theorem disconnect_eq (l : L) (s : Nat) : disconnect l s = discB (discA l s) s := rfl

theorem discA_appOut (o : List Out) (l : L) (s : Nat) : discA (appOut l o) s = appOut (discA l s) o := by
  unfold discA
  simp only [appOut_getS, appOut_q]
  rcases hf : l.q.nodes.find? (fun n => n.sess = s) with _ | n
  · simp only [hf, nackAll_appOut, appOut_emit, appOut_now]
    split <;> rfl
  · simp only [hf, nackAll_appOut, appOut_emit, appOut_now]
    split <;> rfl

theorem discB_appOut (o : List Out) (l : L) (s : Nat) : discB (appOut l o) s = appOut (discB l s) o := by
  unfold discB
  simp only [appOut_q]
  rcases hc : cancelSession l.q.nodes s with ⟨gone, rest⟩
  simp only [appOut_setQ, appOut_setQ', nackAll_appOut, appOut_getS, appOut_setS]

theorem disconnect_appOut (o : List Out) (l : L) (s : Nat) : disconnect (appOut l o) s = appOut (disconnect l s) o := by
  rw [disconnect_eq, disconnect_eq, discA_appOut, discB_appOut]

/-- **stepW_rebase**: every event does the same on a state with older outputs underneath -/
theorem stepW_rebase (o : List Out) (fl : List Nat) (d : Bool) (lw : LW) (ev : Ev) :
    stepW (rebase o fl d lw) ev = rebase o fl d (stepW lw ev) := by
  cases ev with
  | setNow t => rfl
  | submit s con mid r => exact submitW_rebase o fl d lw s con mid r
  | prepare => exact prepareW_rebase o fl d lw
  | rxAck s mid =>
    simp only [stepW, rebase_l, appOut_getS, rxAckW_rebase, afterRxW_rebase]; split <;> rfl
  | rxRst s mid =>
    simp only [stepW, rebase_l, appOut_getS, rxRstW_rebase, afterRxW_rebase]; split <;> rfl
  | rxNon s mid tok =>
    simp only [stepW, rebase_l, appOut_getS, rxNonW_rebase, afterRxW_rebase]; split <;> rfl
  | rxBad s mid =>
    simp only [stepW, rebase_l, appOut_getS, rxBadW_rebase, afterRxW_rebase]; split <;> rfl
  | hold s => rfl
  | connect s => exact connectedW_rebase o fl d lw s
  | disconnect s =>
    simp only [stepW, rebase_l, appOut_getS, disconnect_appOut, rebase_setL]; split <;> rfl

theorem runW_rebase (o : List Out) (fl : List Nat) (d : Bool) (evs : List Ev) : ∀ (lw : LW),
    runW (rebase o fl d lw) evs = rebase o fl d (runW lw evs) := by
  induction evs with
  | nil => intro lw; rfl
  | cons ev evs ih =>
    intro lw
    simp only [runW, List.foldl_cons] at ih ⊢
    rw [stepW_rebase]; exact ih _

/-- the state with an empty output list and no ghost marks: what the functions of the model can see -/
def bare (lw : LW) : LW := { l := { lw.l with out := [] }, wf := lw.wf, failed := [], dev := false }

theorem rebase_bare (lw : LW) : rebase lw.l.out lw.failed lw.dev (bare lw) = lw := by
  rcases lw with ⟨⟨now, q, sess, out⟩, wf, failed, dev⟩
  simp [rebase, bare, appOut]

/-- **submitW_refused**: `coap_send` of a message that passes the gate (socket open, session established, NSTART room for a
CON) whose socket write FAILS: the caller gets COAP_INVALID_MID, the attempt is on record (marked failed), one oracle
answer is consumed — and the send queue, every session record (`con_active`, delay queue) and the clock are unchanged:
nothing is queued, no NSTART slot is taken. -/
theorem submitW_refused (lw : LW) (s : Nat) (con : Bool) (mid r : Nat)
    (hopen : (lw.l.getS s).sockOpen = true) (hgate : gate (lw.l.getS s) con = false)
    (hfail : lw.wf.headD false = true) :
    submitW lw s con mid r =
      { l := { lw.l with out := .sub none :: .tx lw.l.now s mid 0 con :: lw.l.out },
        wf := lw.wf.tail, failed := lw.l.out.length :: lw.failed, dev := true } := by
  have hw : write lw s mid 0 con =
      (true, ({ l := lw.l.emit (.tx lw.l.now s mid 0 con), wf := lw.wf.tail,
                failed := lw.l.out.length :: lw.failed, dev := lw.dev } : LW)) := by
    unfold write
    simp only [hfail, if_true]
  unfold submitW
  simp only [hopen, hgate, Bool.not_true, Bool.false_eq_true, if_false, hw, if_true]
  rfl

/-- **runW_after_refused**: the WHOLE later run after a refused `coap_send` — every event list, every oracle — is the run
from the state before the call with the oracle one answer further, with the two outputs of the refused call (the failed
attempt, COAP_INVALID_MID) underneath: same send queue, same deadlines and counters, same sessions, same clock, the same
NEW outputs in the same order.  The refused message gets no NACK and is never transmitted later, because nothing that
happens later depends on the call having been made. -/
theorem runW_after_refused (lw : LW) (s : Nat) (con : Bool) (mid r : Nat) (evs : List Ev)
    (hopen : (lw.l.getS s).sockOpen = true) (hgate : gate (lw.l.getS s) con = false)
    (hfail : lw.wf.headD false = true) :
    runW (submitW lw s con mid r) evs =
      rebase (.sub none :: .tx lw.l.now s mid 0 con :: lw.l.out) (lw.l.out.length :: lw.failed) true
        (runW (bare { lw with wf := lw.wf.tail }) evs) ∧
    runW { lw with wf := lw.wf.tail } evs =
      rebase lw.l.out lw.failed lw.dev (runW (bare { lw with wf := lw.wf.tail }) evs) := by
  constructor
  · rw [← runW_rebase, submitW_refused lw s con mid r hopen hgate hfail]
    congr 1
  · rw [← runW_rebase, rebase_bare { lw with wf := lw.wf.tail }]

end Coap.MsgW
