import CoapVerif.Model.MsgLayer
import CoapVerif.Model.MsgLayerX
import CoapVerif.Model.MsgLayerW
import CoapVerif.Model.MsgLayerI
import CoapVerif.Spec.SendQueue
/- Line-protocol driver for the message-layer properties (C06, C08): interprets one scenario line with the model
`Coap.Msg` and a scripted peer, printing the same canonical trace as harness/msg.c.

  msg <sess,…> <fates|-> <ev> <ev> …
    sess   atI.atF.arfI.arfF.maxRtx.nstart[.proto]               (one per client session, `,` separated; proto 1 = UDP (default),
                                                                 2 = DTLS: `session->proto == COAP_PROTO_DTLS`, the record layer is the
                                                                 identity (harness/msg.c); a line with a DTLS session is interpreted
                                                                 with the extended model)
    fates  fate of the k-th datagram the endpoint transmits (`,` separated; beyond the list: dropped)
             d        lost (or its reply lost)
             a<D>     the peer's empty ACK arrives D ticks after the transmission   (CON only; a NON is not ACKed)
             r<D>     the peer's RST arrives D ticks after the transmission
             A<D>+<E> the ACK arrives twice, after D and after E ticks;   R<D>+<E> likewise for RST
             p<D>     the peer answers a CON with a PIGGY-BACKED response (ACK, code 2.05, the request's message id and token)
                      arriving D ticks after the transmission;  P<D>+<E>  the same arriving twice (the network duplicated it);
                      a line with such a fate is interpreted with the extended model
             q<D>     the peer answers a CON with an ACK that carries its message id but a REQUEST code (0.01 … 0.31, e.g. the bytes
                      60 01 <mid>) arriving D ticks after the transmission;  Q<D>+<E> the same arriving twice.  ACK branch of
                      `coap_dispatch`: the retransmission stops, then "Request using ACK": NACK BAD_RESPONSE (`Coap.Msg.rxAckReq`,
                      = `rxBad` by `Coap.C06.ack_request_code_is_bad_ack`)
             x        the socket write of this datagram FAILS (coap_socket_send returns -1: ECONNREFUSED, ENOBUFS, …); nothing
                      leaves; the attempt is printed as txf@T:S:C|N:MID:=.  A line with an `x` fate is interpreted with the
                      write-failure model `Coap.MsgW.stepW` (Model/MsgLayerW.lean); not together with S: / k: / p: events
    ev     s:S:c|n:MID:R   application sends CON/NON (token = MID, PRNG byte R)
           t:DT            let DT ticks pass (arrivals in between are delivered at their time), then run the timers
           n               run the timers, then sleep for the returned wait (again and again) until the earliest queued deadline
                           or the next arrival is reached; arrivals are delivered at their time; run the timers
           g:K             repeat `n` at most K times, stop when nothing is pending
           a:S:MID r:S:MID b:S:MID o:S:MID:TOK   an ACK / RST / invalid-code ACK / NON response (token TOK) arrives now
           q:S:MID:CODE    an ACK with message id MID whose code is the request method 0.CODE (CODE = 1 … 31) arrives now
           h:S u:S f:S     session no longer established / coap_session_connected / coap_session_disconnected(NOT_DELIVERABLE)
           S:S:c|n:MID:R:TOK   application sends CON/NON with the explicit (2-byte) token TOK
           i:S             an ICMP error is read from the socket of session S (coap_session_disconnected_lkd(ICMP_ISSUE)).  On a
                           line without S: / k: / p: events, piggy-backed fates and DTLS sessions it is the event `icmp S` of
                           `Coap.MsgI.stepI` (Model/MsgLayerI.lean: base model + ICMP; with `x` fates `Coap.MsgI.stepWI`)
           k:SECS          coap_context_set_keepalive(ctx, SECS)
           p:S:MID:TOK     a piggy-backed response (ACK with code 2.05, message id MID, token TOK) arrives now
         A line containing an S: / k: / p: event is interpreted with the extended model `Coap.MsgX.stepX`
         (Model/MsgLayerX.lean: keepalive state, `coap_cancel_all_messages` as a pointer walk); every other line with
         `Coap.Msg.step` exactly as before.
  sq <ops…>               raw queue operations (see `sqStep`)
  trace tokens: tx@T:S:C|N:MID:=  nack@T:S:reason:MID  nackx@… (sent = NULL)  rsp@T:S:MID  sub=MID|rej
                w@T=MS/E (wait returned by prepare / time to the earliest queued deadline)  [con_active,…;delayq len,…;s.mid.deadline.cnt,…]
-/
-- DRIVER-OPS: msg => Coap.Driver.Msg.msgStep
-- DRIVER-OPS: sq => Coap.Driver.Msg.sqStep
-- DRIVER-OPS: tmo => Coap.Driver.Msg.tmoStep
namespace Coap.Driver.Msg
open Coap Coap.SQ Coap.Msg Coap.MsgX Coap.MsgW

def T0 : Nat := 1000

inductive Fate where
  | drop
  | ack (d : List Nat)
  | rst (d : List Nat)
  | fail
  | piggy (d : List Nat)
  | req (d : List Nat)      -- ACK with a request code
  deriving Repr

structure Arrival where
  time : Nat
  seq : Nat
  s : Nat
  isRst : Bool
  mid : Nat
  piggy : Bool := false     -- an ACK that carries a response (its token is the request's: M does not look at it)
  req : Bool := false       -- an ACK that carries a request code (M does not look at which one)
  deriving Repr

structure Sim where
  l : L
  fates : List Fate
  pend : List Arrival       -- sorted by (time, seq)
  seq : Nat
  seen : Nat                -- number of outputs already scanned for transmissions
  lastWait : Nat
  es : List Nat := []       -- per logged wait (newest first): time from `now` to the earliest deadline in the queue (0: none)
  xmode : Bool := false     -- the line is interpreted with the extended model; then (l, pt, prng, ka, dtls) is its state
  pt : Nat := 0
  prng : Nat := 0
  ka : List KA := []
  dtls : List Bool := []
  wmode : Bool := false     -- the line has `x` fates: interpreted with the write-failure model; (l, wf, failed) is its state
  wf : List Bool := []
  failed : List Nat := []
  deriving Repr

def nats (s : String) (sep : Char) : Option (List Nat) := (s.split (· == sep)).toList.mapM (·.toString.toNat?)

def parseSess (w : String) : Option (List Sess) :=
  (w.split (· == ',')).toList.mapM fun p =>
    match nats p.toString '.' with
    | some [a, b, c, d, m, n] => some { atI := a, atF := b, arfI := c, arfF := d, maxRtx := m, nstart := n }
    | some [a, b, c, d, m, n, pr] =>
      if pr = 1 ∨ pr = 2 then some { atI := a, atF := b, arfI := c, arfF := d, maxRtx := m, nstart := n } else none
    | _ => none

/-- per session: is it a DTLS session (7th field = 2)? -/
def parseProto (w : String) : List Bool :=
  (w.split (· == ',')).toList.map fun p =>
    match nats p.toString '.' with
    | some [_, _, _, _, _, _, pr] => pr == 2
    | _ => false

def parseFate (w : String) : Option Fate :=
  if w = "d" then some .drop
  else if w = "x" then some .fail
  else match w.toList with
    | 'a' :: r => (String.ofList r).toNat?.map fun d => .ack [d]
    | 'r' :: r => (String.ofList r).toNat?.map fun d => .rst [d]
    | 'A' :: r => (nats (String.ofList r) '+').map .ack
    | 'R' :: r => (nats (String.ofList r) '+').map .rst
    | 'p' :: r => (String.ofList r).toNat?.map fun d => .piggy [d]
    | 'P' :: r => (nats (String.ofList r) '+').map .piggy
    | 'q' :: r => (String.ofList r).toNat?.map fun d => .req [d]
    | 'Q' :: r => (nats (String.ofList r) '+').map .req
    | _ => none

def parseFates (w : String) : Option (List Fate) :=
  if w = "-" then some [] else (w.split (· == ',')).toList.mapM fun p => parseFate p.toString

def insArr (a : Arrival) : List Arrival → List Arrival
  | [] => [a]
  | b :: r => if b.time ≤ a.time then b :: insArr a r else a :: b :: r

/-- the scripted peer looks at the transmissions the last step produced (oldest first) -/
def react (sm : Sim) : Sim :=
  let outs := sm.l.out.reverse.drop sm.seen
  let sm := { sm with seen := sm.l.out.length }
  outs.foldl (fun sm o =>
    match o with
    | .tx t s mid _ con =>
      let (f, rest) := match sm.fates with
        | [] => (Fate.drop, [])
        | f :: r => (f, r)
      let sm := { sm with fates := rest }
      let add (sm : Sim) (isRst : Bool) (ds : List Nat) (pg : Bool := false) (rq : Bool := false) : Sim :=
        ds.foldl (fun sm d => { sm with pend := insArr ⟨t + d, sm.seq, s, isRst, mid, pg, rq⟩ sm.pend, seq := sm.seq + 1 }) sm
      match f with
      | .drop => sm
      | .fail => sm          -- the write failed (the model consumed the same entry of its oracle): nothing reaches the peer
      | .ack ds => if con then add sm false ds else sm
      | .rst ds => add sm true ds
      | .piggy ds => if con then add sm false ds true else sm
      | .req ds => if con then add sm false ds false true else sm
    | _ => sm) sm

def evX (sm : Sim) (e : EvX) : Sim :=
  let lx := stepX { l := sm.l, pingTimeout := sm.pt, prng := sm.prng, ka := sm.ka, dtls := sm.dtls } e
  react { sm with l := lx.l, pt := lx.pingTimeout, prng := lx.prng, ka := lx.ka }

def evW (sm : Sim) (e : Ev) : Sim :=
  let lw := stepW { l := sm.l, wf := sm.wf, failed := sm.failed } e
  react { sm with l := lw.l, wf := lw.wf, failed := lw.failed }

/-- `i:S` on a line of the base / write-failure model: `Coap.MsgI.stepI` / `stepWI` -/
def evI (sm : Sim) (s : Nat) : Sim :=
  if sm.wmode then
    let lw := Coap.MsgI.stepWI { l := sm.l, wf := sm.wf, failed := sm.failed } (.icmp s)
    react { sm with l := lw.l, wf := lw.wf, failed := lw.failed }
  else react { sm with l := Coap.MsgI.stepI sm.l (.icmp s) }

def ev (sm : Sim) (e : Ev) : Sim :=
  if sm.xmode then evX sm (.base e) else if sm.wmode then evW sm e else react { sm with l := step sm.l e }

def doPrepare (sm : Sim) : Sim :=
  let sm := ev sm .prepare
  let e := match sm.l.q.nodes with
    | [] => 0
    | h :: _ => sm.l.q.base + h.t - sm.l.now
  match sm.l.out with
  | .wait _ w :: _ => { sm with lastWait := w, es := e :: sm.es }
  | _ => sm

/-- deliver, at their own time, the arrivals due up to `target` -/
def deliverUpTo : Nat → Sim → Nat → Sim
  | 0, sm, _ => sm
  | fuel + 1, sm, target =>
    match sm.pend with
    | [] => sm
    | a :: r =>
      if a.time ≤ target then
        let sm := { sm with pend := r }
        let sm := if a.time > sm.l.now then ev sm (.setNow a.time) else sm
        let sm := if a.req then ev sm (.rxBad a.s a.mid)     -- `rxAckReq` = `rxBad` (Coap.C06.ack_request_code_is_bad_ack)
                  else if a.piggy then evX sm (.rxAckP a.s a.mid 0)
                  else ev sm (if a.isRst then .rxRst a.s a.mid else .rxAck a.s a.mid)
        deliverUpTo fuel sm target
      else sm

def advance (sm : Sim) (target : Nat) : Sim :=
  let sm := deliverUpTo 100000 sm target
  let sm := if target > sm.l.now then ev sm (.setNow target) else sm
  doPrepare sm

def lastE (sm : Sim) : Nat := sm.es.headD 0

/-- `n`: run the timers, then sleep (for the returned wait, repeatedly) until the earliest queued deadline or the
next arrival has been reached.  Returns `none` when there was nothing to wait for. -/
def next (sm : Sim) : Option Sim :=
  let sm := doPrepare sm
  let byE := if lastE sm > 0 then some (sm.l.now + lastE sm) else none
  let byArr := sm.pend.head?.map (·.time)
  let goal := match byE, byArr with
    | some a, some b => some (min a b)
    | some a, none => some a
    | none, some b => some b
    | none, none => none
  match goal with
  | none => none
  | some goal =>
    let rec loop : Nat → Sim → Sim
      | 0, sm => sm
      | g + 1, sm =>
        if sm.l.now < goal then
          let nxt := if sm.lastWait > 0 then sm.l.now + sm.lastWait else goal
          let nxt := match sm.pend.head? with
            | some a => if a.time < nxt then a.time else nxt
            | none => nxt
          loop g (advance sm nxt)
        else sm
    some (loop 64 sm)

def go : Nat → Sim → Sim
  | 0, sm => sm
  | k + 1, sm => match next sm with
    | none => doPrepare sm
    | some sm' => go k sm'

def applyEv (sm : Sim) (w : String) : Option Sim :=
  match (w.split (· == ':')).toList.map (·.toString) with
  | ["s", s, c, mid, r] => do
    let s ← s.toNat?; let mid ← mid.toNat?; let r ← r.toNat?
    if c = "c" then some (ev sm (.submit s true mid r)) else if c = "n" then some (ev sm (.submit s false mid r)) else none
  | ["t", dt] => do let dt ← dt.toNat?; some (advance sm (sm.l.now + dt))
  | ["n"] => some ((next sm).getD (doPrepare sm))
  | ["g", k] => do let k ← k.toNat?; some (go k sm)
  | ["a", s, mid] => do let s ← s.toNat?; let mid ← mid.toNat?; some (ev sm (.rxAck s mid))
  | ["r", s, mid] => do let s ← s.toNat?; let mid ← mid.toNat?; some (ev sm (.rxRst s mid))
  | ["b", s, mid] => do let s ← s.toNat?; let mid ← mid.toNat?; some (ev sm (.rxBad s mid))
  | ["q", s, mid, code] => do
    let s ← s.toNat?; let mid ← mid.toNat?; let code ← code.toNat?
    if 1 ≤ code ∧ code ≤ 31 then some (ev sm (.rxBad s mid)) else none
  | ["o", s, mid, tok] => do let s ← s.toNat?; let mid ← mid.toNat?; let tok ← tok.toNat?; some (ev sm (.rxNon s mid tok))
  | ["h", s] => do let s ← s.toNat?; some (ev sm (.hold s))
  | ["u", s] => do let s ← s.toNat?; some (ev sm (.connect s))
  | ["f", s] => do let s ← s.toNat?; some (ev sm (.disconnect s))
  | ["S", s, c, mid, r, tok] => do
    let s ← s.toNat?; let mid ← mid.toNat?; let r ← r.toNat?; let tok ← tok.toNat?
    if !sm.xmode then none
    else if c = "c" then some (evX sm (.submitT s true mid r tok)) else if c = "n" then some (evX sm (.submitT s false mid r tok)) else none
  | ["i", s] => do let s ← s.toNat?; if sm.xmode then some (evX sm (.icmp s)) else some (evI sm s)
  | ["k", secs] => do let secs ← secs.toNat?; if sm.xmode then some (evX sm (.keepalive secs)) else none
  | ["p", s, mid, tok] => do
    let s ← s.toNat?; let mid ← mid.toNat?; let tok ← tok.toNat?
    if sm.xmode then some (evX sm (.rxAckP s mid tok)) else none
  | _ => none

def showReason : Reason → String
  | .retries => "retries" | .rst => "rst" | .undeliv => "undeliv" | .bad => "bad" | .icmp => "icmp"

def showOut : Out → String
  | .tx t s mid _ con => s!"tx@{t}:{s}:{if con then "C" else "N"}:{mid}:="
  | .nack t s r mid known => s!"{if known then "nack" else "nackx"}@{t}:{s}:{showReason r}:{mid}"
  | .rsp t s mid => s!"rsp@{t}:{s}:{mid}"
  | .wait t ms => s!"w@{t}={ms}"
  | .sub (some m) => s!"sub={m}"
  | .sub none => "sub=rej"

/-- a write attempt that failed -/
def showFailed : Out → String
  | .tx t s mid _ con => s!"txf@{t}:{s}:{if con then "C" else "N"}:{mid}:="
  | o => showOut o

def commas (l : List String) : String := if l.isEmpty then "-" else String.intercalate "," l

/-- internal counters: con_active per session; delay-queue length per session; the send queue with ABSOLUTE deadlines -/
def dump (l : L) : String :=
  let ca := commas (l.sess.map fun se => toString se.conActive)
  let dq := commas (l.sess.map fun se => toString se.delayq.length)
  let (_, qs) := l.q.nodes.foldl (fun (acc : Nat × List String) n =>
    let d := acc.1 + n.t
    (d, acc.2 ++ [s!"{n.sess}.{n.mid}.{d}.{n.cnt}"])) (l.q.base, [])
  s!"[{ca};{dq};{commas qs}]"

def msgStep (args : List String) : String :=
  match args with
  | sw :: fw :: evs =>
    match parseSess sw, parseFates fw with
    | some ss, some fs =>
      let isPiggy (f : Fate) : Bool := match f with | .piggy _ => true | _ => false
      let protos := parseProto sw
      let xmode := (evs.any fun w => w.startsWith "S:" || w.startsWith "k:" || w.startsWith "p:")
        || fs.any isPiggy || protos.any id
      let isFail (f : Fate) : Bool := match f with | .fail => true | _ => false
      let wmode := fs.any isFail
      if xmode && wmode then "bad-op" else
      let sm0 : Sim := { l := init T0 ss, fates := fs, pend := [], seq := 0, seen := 0, lastWait := 0,
                         xmode := xmode, ka := (initX T0 ss).ka, dtls := protos, wmode := wmode, wf := fs.map isFail }
      let rec loop (sm : Sim) (shown : Nat) (acc : List String) : List String → Option (List String)
        | [] => some acc
        | w :: ws =>
          match applyEv sm w with
          | none => none
          | some sm' =>
            let olds := sm'.l.out.reverse.take shown
            let nw0 := (olds.filter fun o => match o with | .wait .. => true | _ => false).length
            let es := sm'.es.reverse
            let (news, _, _) := (sm'.l.out.reverse.drop shown).foldl (fun (acc : List String × Nat × Nat) o =>
              match o with
              | .wait .. => (acc.1 ++ [showOut o ++ "/" ++ toString (es.getD acc.2.1 0)], acc.2.1 + 1, acc.2.2 + 1)
              | _ => (acc.1 ++ [if sm'.failed.contains acc.2.2 then showFailed o else showOut o], acc.2.1, acc.2.2 + 1))
              ([], nw0, shown)
            loop sm' sm'.l.out.length (acc ++ news ++ [dump sm'.l]) ws
      match loop sm0 0 [] evs with
      | some toks => "M " ++ String.intercalate " " toks
      | none => "bad-op"
    | _, _ => "bad-op"
  | _ => "bad-op"

/-! ### raw queue operations:  `sq <op> …`
   i:T:S:MID   coap_insert_node of a node with relative time T   p   coap_pop_next
   r:S:MID     coap_remove_from_queue                             j:NOW coap_adjust_basetime(ctx, NOW)
   c:S         coap_cancel_session_messages                       k:S:TOK coap_cancel_all_messages  (token TOK; a node's token is its MID)
   base time starts at 1000.  Output: result of each op, then the queue as base/s.mid.t,… -/
def showQ (q : Queue) : String :=
  s!"{q.base}/" ++ commas (q.nodes.map fun n => s!"{n.sess}.{n.mid}.{n.t}")

def sqApply (q : Queue) (w : String) : Option (Queue × String) :=
  match (w.split (· == ':')).toList.map (·.toString) with
  | ["i", t, s, mid] => do
    let t ← t.toNat?; let s ← s.toNat?; let mid ← mid.toNat?
    some ({ q with nodes := insertNode q.nodes { sess := s, mid := mid, t := t, timeout := 0, cnt := 0, tok := mid, con := true } }, "1")
  | ["p"] =>
    match popNext q.nodes with
    | none => some (q, "none")
    | some (n, r) => some ({ q with nodes := r }, s!"{n.sess}.{n.mid}.{n.t}")
  | ["r", s, mid] => do
    let s ← s.toNat?; let mid ← mid.toNat?
    match removeNode q.nodes s mid with
    | (none, r) => some ({ q with nodes := r }, "0")
    | (some n, r) => some ({ q with nodes := r }, s!"1:{n.sess}.{n.mid}.{n.t}")
  | ["j", now] => do
    let now ← now.toNat?
    let (k, q') := adjustBasetime q now
    some (q', toString k)
  | ["c", s] => do
    let s ← s.toNat?
    let (gone, rest) := cancelSession q.nodes s
    some ({ q with nodes := rest }, commas (gone.map fun n => toString n.mid))
  | ["k", s, tok] => do
    let s ← s.toNat?; let tok ← tok.toNat?
    let rec loop : Nat → List Node → List String → List Node × List String
      | 0, l, acc => (l, acc)
      | f + 1, l, acc => match removeTok l s tok with
        | (none, _) => (l, acc)
        | (some n, r) => loop f r (acc ++ [toString n.mid])
    let (rest, gone) := loop (q.nodes.length + 1) q.nodes []
    some ({ q with nodes := rest }, commas gone)
  | _ => none

/-- the same ops on S (absolute deadlines); the reference time only matters for `i` -/
def sqApplyS (st : Nat × List Spec.SQ.Entry) (w : String) : Option (Nat × List Spec.SQ.Entry) :=
  let (base, l) := st
  match (w.split (· == ':')).toList.map (·.toString) with
  | ["i", t, s, mid] => do
    let t ← t.toNat?; let s ← s.toNat?; let mid ← mid.toNat?
    some (base, Spec.SQ.insert l ⟨base + t, s, mid, mid⟩)
  | ["p"] => match Spec.SQ.pop l with
    | none => some (base, l)
    | some (_, r) => some (base, r)
  | ["r", s, mid] => do let s ← s.toNat?; let mid ← mid.toNat?; some (base, (Spec.SQ.remove l s mid).2)
  | ["j", now] => do let now ← now.toNat?; some (now, Spec.SQ.adjust l now)
  | ["c", s] => do let s ← s.toNat?; some (base, (Spec.SQ.cancelSession l s).2)
  | ["k", s, tok] => do let s ← s.toNat?; let tok ← tok.toNat?; some (base, l.filter fun e => ¬ (e.sess = s ∧ e.tok = tok))
  | _ => none

def sqStep (args : List String) : String :=
  let rec loop (q : Queue) (acc : List String) : List String → Option (List String)
    | [] => some (acc ++ [showQ q])
    | w :: ws => match sqApply q w with
      | none => none
      | some (q', r) => loop q' (acc ++ [r]) ws
  let rec loopS (st : Nat × List Spec.SQ.Entry) : List String → Option (List Spec.SQ.Entry)
    | [] => some st.2
    | w :: ws => match sqApplyS st w with
      | none => none
      | some st' => loopS st' ws
  match loop { base := 1000, nodes := [] } [] args, loopS (1000, []) args with
  | some toks, some es =>
    "M " ++ String.intercalate " " toks ++ " | S " ++ commas (es.map fun e => s!"{e.sess}.{e.mid}.{e.deadline}")
  | _, _ => "bad-op"

/-- `tmo atI atF arfI arfF r` → coap_calc_timeout -/
def tmoStep (args : List String) : String :=
  match args.mapM (·.toNat?) with
  | some [a, b, c, d, r] => s!"M {calcTimeout a b c d r}"
  | _ => "bad-op"

end Coap.Driver.Msg
