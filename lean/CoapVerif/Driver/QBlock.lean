import CoapVerif.Driver.Block
import CoapVerif.Driver.BlockXmit
import CoapVerif.Model.QBlock
/- Line-protocol driver for the Q-Block (RFC 9177) model of C02 (Model/QBlock.lean).  Output formats mirror harness/block.c
   (`do_q408`, `do_qenc`, `do_qmiss`). -/
-- DRIVER-OPS: q408 => Coap.Driver.QBlock.q408Line
-- DRIVER-OPS: qenc => Coap.Driver.QBlock.qencLine
-- DRIVER-OPS: qset => Coap.Driver.QBlock.qsetLine
-- DRIVER-OPS: qreq => Coap.Driver.QBlock.qreqLine
-- DRIVER-OPS: qsend => Coap.Driver.QBlock.qsendLine
namespace Coap.Driver.QBlock
open Coap Coap.Block Coap.QBlock Coap.Driver.Block

def showTx (szx : Nat) (t : QTx) : String := Coap.Driver.BlockXmit.showMsg t.num t.m szx t.payload

def showOut (szx : Nat) (o : Q408Out) : String :=
  let r := match o.fin with | .done => "i" | .failCbor => "f" | .failBody => "F"
  let tx := if o.sent.isEmpty then "-" else String.intercalate "+" (o.sent.map (showTx szx))
  r ++ ":" ++ tx ++ (if o.fin == .done then s!"/{szx}" else "/-")

/-- the items of a line: once the lg_xmit is gone (`f` / `F`) a further response finds none: `return 0`, nothing sent -/
def q408Run (maxPay : Nat) (body : Bytes) (szx : Nat) (fmt : Option Nat) (isNon : Bool) : List Bytes → Bool → List String → List String
  | [], _, acc => acc.reverse
  | p :: rest, alive, acc =>
    if !alive then q408Run maxPay body szx fmt isNon rest false ("f:-/-" :: acc)
    else
      match q408Branch maxPay body szx fmt isNon p with
      | .oob => ("oob" :: acc).reverse
      | .rej => ("rej" :: acc).reverse
      | .ok o => q408Run maxPay body szx fmt isNon rest (o.fin == .done) (showOut szx o :: acc)

/-- `q408 <szx> <bodyLen> <seed> <maxPayloads> <fmt|-> <type> <hex;hex;…>` -/
def q408Line (args : List String) : String :=
  match args with
  | [a, b, c, d, e, f, seq] =>
    match nat? a, nat? b, nat? c, nat? d, nat? f with
    | some szx, some bodyLen, some seed, some maxPay, some typ =>
      let fmt := if e = "-" then some none else (nat? e).map some
      match fmt with
      | none => "bad-op"
      | some fmt =>
      if szx > 6 ∨ bodyLen ≤ 2 ^ (szx + 4) ∨ maxPay < 1 ∨ maxPay > 255 ∨ typ > 3 then "bad-op" else
      match (if seq = "-" then some [] else (seq.split (· == ';')).toList.mapM (fun x => bytesOfHex x.toString)) with
      | none => "bad-op"
      | some its =>
        if its.any (fun p => p.length > 1024) then "bad-op" else
        let body := mkBody bodyLen seed
        -- the first payload set: blocks 0 .. min(MAX_PAYLOADS, number of blocks) - 1
        let nb := (bodyLen + 2 ^ (szx + 4) - 1) / 2 ^ (szx + 4)
        -- (coap_send_q_blocks tests `((num + 1) % MAX_PAYLOADS) + 1 != MAX_PAYLOADS` before it prepares block num + 1: with
        -- MAX_PAYLOADS ≤ 2 only block 0 goes out; not part of the model, printed so that the line says the transfer started)
        let first := if maxPay ≤ 2 then 1 else if nb < maxPay then nb else maxPay
        let items := q408Run maxPay body szx fmt (typ == 1) its true []
        s!"M tx={first} lg={szx}" ++ (if items.isEmpty then "" else " " ++ String.intercalate "," items) ++ " rel=1"
    | _, _, _, _, _ => "bad-op"
  | _ => "bad-op"

/-- `qenc <n,n,…>`: add_408_block for every number; the payload, or `rej@<k>` when the k-th is refused -/
def qencLine (args : List String) : String :=
  match args with
  | [seq] =>
    match splitNats seq ',' with
    | none => "bad-op"
    | some ns =>
      if ns.any (fun n => n ≥ 2 ^ 31) then "bad-op" else
      let rec go : List Nat → Nat → Bytes → String
        | [], _, acc => "M " ++ hexOrDash acc
        | n :: rest, k, acc =>
          match add408Block n with
          | none => s!"M {hexOrDash acc} rej@{k}"
          | some x => go rest (k + 1) (acc ++ x)
      go ns 0 []
  | _ => "bad-op"

/-- `qset <maxPayloads> <processing> <n,n,…>`: update_received_blocks for every number, then
check_all_blocks_in_for_payload_set / check_any_blocks_next_payload_set and the gap walk of the missing-blocks loops -/
def qsetLine (args : List String) : String :=
  match args with
  | [a, b, seq] =>
    match nat? a, nat? b, splitNats seq ',' with
    | some maxPay, some proc, some ns =>
      if maxPay < 1 ∨ maxPay > 65535 ∨ proc ≥ 2 ^ 31 ∨ ns.any (fun n => n ≥ 2 ^ 20) then "bad-op" else
      let cap := Coap.Generated.rblockCnt
      let rs := ns.foldl (fun (acc : Ranges) n => (updateReceived cap acc n).2) []
      let gaps := (gapLoop rs none []).2
      let gs := if gaps.isEmpty then "-" else String.intercalate "," (gaps.map toString)
      s!"M ranges={showRanges rs} all={bit (allInForPayloadSet maxPay rs proc)} next={bit (anyNextPayloadSet maxPay rs proc)} gaps={gs}"
    | _, _, _ => "bad-op"
  | _ => "bad-op"

/-- `qreq <maxPayloads> <useM> <szx> <totalLen> <n,n,…>`: one `coap_request_missing_q_block2` -/
def qreqLine (args : List String) : String :=
  match args with
  | [a, b, c, d, seq] =>
    match nat? a, nat? b, nat? c, nat? d, splitNats seq ',' with
    | some maxPay, some useM, some szx, some total, some ns =>
      if maxPay < 1 ∨ maxPay > 65535 ∨ szx > 6 ∨ total ≥ 2 ^ 31 ∨ ns.any (fun n => n ≥ 2 ^ 20) then "bad-op" else
      let cap := Coap.Generated.rblockCnt
      let rs := ns.foldl (fun (acc : Ranges) n => (updateReceived cap acc n).2) []
      let out := reqMissingQ2 maxPay (useM != 0) rs szx total
      let rq := if out.1.isEmpty then "-" else String.intercalate "," (out.1.map (fun q => s!"{q.1}.{q.2}"))
      let pps := match out.2 with | some s => toString s | none => "-"
      s!"M ranges={showRanges rs} req={rq} pps={pps}"
    | _, _, _, _, _ => "bad-op"
  | _ => "bad-op"

/-- `qsend <maxPayloads> <szx> <bodyLen> <num> <m>`: the first burst, then `coap_send_q_blocks` from block `num` -/
def qsendLine (args : List String) : String :=
  match args with
  | [a, b, c, d, e] =>
    match nat? a, nat? b, nat? c, nat? d, nat? e with
    | some maxPay, some szx, some bodyLen, some num, some m =>
      if szx > 6 ∨ bodyLen ≤ 2 ^ (szx + 4) ∨ bodyLen > 70000 ∨ maxPay < 1 ∨ maxPay > 255 ∨ num ≥ 2 ^ 20 ∨ m > 1 then "bad-op" else
      let chunk := 2 ^ (szx + 4)
      let sh (l : List (Nat × Nat)) : String :=
        if l.isEmpty then "-" else String.intercalate "+" (l.map (fun x => s!"{x.1}.{x.2}:{min chunk (bodyLen - x.1 * chunk)}"))
      let first := (0, moreBit bodyLen 0 szx) :: sendQNon maxPay bodyLen szx 0 (moreBit bodyLen 0 szx == 1)
      s!"M first={sh first} next={sh (sendQNon maxPay bodyLen szx num (m == 1))} rel=1"
    | _, _, _, _, _ => "bad-op"
  | _ => "bad-op"

end Coap.Driver.QBlock
