import CoapVerif.Model.WkBlock
import CoapVerif.Model.WkLive
/- Line-protocol driver for C20 (/.well-known/core).

   wk <table> <filter> <windows>     M: coap_print_wellknown_lkd per window | S: window of the listing
   match <text> <pattern> <pfx> <sub>  M: match() | S: matchSpec
   body <table> <filter>             M: hnd_get_wellknown_lkd's body | S: listing
   getx <table> <szx> <xfers>:<order>  interleaved transfers, see `getxStep`
   get <table> <queries> <szx>       M: body for the filter the GET handler takes, number of Block2 responses | S: listing, number
                                     <queries>: `N`/`-` none, else `+`-separated Uri-Query option values (hex, `-` = empty value)

   wklive <events>                   a live server, see `wkliveStep`: `/`-separated events on ONE context, in order
                                     `+<path>:<flags>:<attrs>` / `!<path>`   coap_add_resource / coap_delete_resource (as in <table>)
                                     `a<path>:<own 0|4>:<name>[=<value>]`    coap_add_attr on the resource registered for <path>
                                     `o<path>:<0|1>`                         coap_resource_set_get_observable on that resource
                                     `g<sid><szx>:<queries>`                 complete block-wise GET (one digit each; queries as for `get`)
                                     `p<filter>`                             coap_print_wellknown: size probe + full print
                                     output: one `<body hex|bad>:<responses>` per g/p event, `,`-joined (`.` if none)

   <table>   `-` or `,`-separated entries  `+<path>:<flags>:<attrs>`  (register)  /  `!<path>` (unregister)
             flags: 1 observable, 2 OSCORE only, 4 strings are caller-owned exact-size objects (harness only)
             <attrs> `.` or `;`-separated  `<name>=<value>` / `<name>`      (all strings hex, `-` = empty)
   <filter>  hex, `-` = empty string, `N` = NULL
   <windows> `,`-separated `<offset>/<buflen>`
   output: F<own full listing hex>;<window>,…  with <window> = <bytes>:<t|-|e>:<total>, <bytes> = `=<n>` when the n bytes
           equal full[offset..offset+n) and `x<hex>` otherwise
-/
-- DRIVER-OPS: wk => Coap.Driver.LinkFormat.wkStep
-- DRIVER-OPS: match => Coap.Driver.LinkFormat.matchStep
-- DRIVER-OPS: body => Coap.Driver.LinkFormat.bodyStep
-- DRIVER-OPS: get => Coap.Driver.LinkFormat.getStep
-- DRIVER-OPS: getx => Coap.Driver.LinkFormat.getxStep
-- DRIVER-OPS: wklive => Coap.Driver.LinkFormat.wkliveStep
-- DRIVER-OPS: wkev => Coap.Driver.LinkFormat.wkevStep
namespace Coap.Driver.LinkFormat
open Coap Coap.LF Coap.M.LF

def parseAttr (s : String) : Option Attr :=
  match s.splitOn "=" with
  | [n] => do let n ← bytesOfHex n; pure ⟨n, none⟩
  | [n, v] => do let n ← bytesOfHex n; let v ← bytesOfHex v; pure ⟨n, some v⟩
  | _ => none

def parseAttrs (s : String) : Option (List Attr) :=
  if s = "." then some [] else (s.splitOn ";").mapM parseAttr

/-- attributes are given in the order of the `coap_add_attr` calls -/
def mkResource (path : Bytes) (flags : Nat) (as : List Attr) : Resource :=
  as.foldl addAttr ⟨path, [], flags % 2 == 1, flags / 2 % 2 == 1⟩

def applyEntry (t : Table) (e : String) : Option Table :=
  if e.startsWith "+" then
    match (e.drop 1).toString.splitOn ":" with
    | [p, f, a] => do
      let p ← bytesOfHex p
      let f ← f.toNat?
      let a ← parseAttrs a
      pure (register t (mkResource p f a))
    | _ => none
  else if e.startsWith "!" then do
    let p ← bytesOfHex (e.drop 1).toString
    pure (unregister t p)
  else none

def parseTable (s : String) : Option Table :=
  if s = "-" then some [] else (s.splitOn ",").foldlM applyEntry []

def parseFilterArg (s : String) : Option (Option Bytes) :=
  if s = "N" then some none else (bytesOfHex s).map some

def parseWindow (s : String) : Option (Nat × Nat) :=
  match s.splitOn "/" with
  | [a, b] => do let a ← a.toNat?; let b ← b.toNat?; pure (a, b)
  | _ => none

def flag (st : Status) : String := if st.error then "e" else if st.trunc then "t" else "-"

/-- a window whose bytes equal `full[off .. off+n)` is printed as `=<n>`, any other as `x<hex>` -/
def showBytes (full : Bytes) (off : Nat) (b : Bytes) : String :=
  if b.isEmpty || window full off b.length == b then "=" ++ toString b.length else "x" ++ hexOrDash b

def showOut (full : Bytes) (off : Nat) (r : R Out) : String :=
  match r with
  | .ok o => (if o.status.error then "=0" else showBytes full off o.out) ++ ":" ++ flag o.status ++ ":" ++ toString o.total
  | .rej => "rej"
  | .oob => "oob"

def specWindow (l : Bytes) (off n : Nat) : String :=
  let wdw := window l off n
  -- the property fixes the flag only for a non-empty buffer
  let f := if n = 0 then "?" else if off + wdw.length < l.length then "t" else "-"
  showBytes l off wdw ++ ":" ++ f ++ ":" ++ toString l.length

def showFull (r : R Bytes) : String :=
  match r with
  | .ok b => hexOrDash b
  | .rej => "rej"
  | .oob => "oob"

def showB (b : Bool) : String := if b then "1" else "0"

def showRB (r : R Bool) : String :=
  match r with
  | .ok b => showB b
  | .rej => "rej"
  | .oob => "oob"

def showRBytes (r : R Bytes) : String :=
  match r with
  | .ok b => hexOrDash b
  | .rej => "rej"
  | .oob => "oob"

def wkStep (args : List String) : String :=
  match args with
  | [t, f, ws] =>
    match parseTable t, parseFilterArg f, (ws.splitOn ",").mapM parseWindow with
    | some t, some qf, some ws =>
      let l := listing t (qf.getD [])
      let mf := hndBody t qf           -- M's own full listing: size probe + full print
      let mfull := match mf with | .ok b => b | _ => []
      "M F" ++ showFull mf ++ ";" ++ String.intercalate "," (ws.map fun (o, n) => showOut mfull o (wellknown t qf n o)) ++
      " | S F" ++ hexOrDash l ++ ";" ++ String.intercalate "," (ws.map fun (o, n) => specWindow l o n)
    | _, _, _ => "bad-op"
  | _ => "bad-op"

def matchStep (args : List String) : String :=
  match args with
  | [tx, p, pfx, sub] =>
    match bytesOfHex tx, bytesOfHex p with
    | some tx, some p =>
      let pfx := pfx == "1"; let sub := sub == "1"
      "M " ++ showRB (matchM tx tx.length (some p) p.length pfx sub) ++ " | S " ++ showB (matchSpec pfx sub p tx)
    | _, _ => "bad-op"
  | _ => "bad-op"

def bodyStep (args : List String) : String :=
  match args with
  | [t, f] =>
    match parseTable t, parseFilterArg f with
    | some t, some qf => "M " ++ showRBytes (hndBody t qf) ++ " | S " ++ hexOrDash (listing t (qf.getD []))
    | _, _ => "bad-op"
  | _ => "bad-op"

/-- `N` / `-`: no Uri-Query option; otherwise `+`-separated option values (hex, `-` = empty option) -/
def parseOpts (s : String) : Option (List Bytes) :=
  if s = "N" || s = "-" then some [] else (s.splitOn "+").mapM bytesOfHex

def getStep (args : List String) : String :=
  match args with
  | [t, f, szx] =>
    match parseTable t, parseOpts f, szx.toNat? with
    | some t, some opts, some szx =>
      let sz := 2 ^ (szx + 4)
      let l := getListing t opts
      (match getBody t opts with
       | .ok b => "M " ++ hexOrDash b ++ ":" ++ toString (nblocks b.length sz)
       | .rej => "M rej"
       | .oob => "M oob") ++ " | S " ++ hexOrDash l ++ ":" ++ toString (nblocks l.length sz)
    | _, _, _ => "bad-op"
  | _ => "bad-op"

/-- `<session>@<queries>` -/
def parseXfer (s : String) : Option Xfer :=
  match s.splitOn "@" with
  | [sid, q] => do let sid ← sid.toNat?; let o ← parseOpts q; pure ⟨sid, o⟩
  | _ => none

def parseOrder (s : String) : Option (List Nat) :=
  s.toList.mapM fun c => if '0' ≤ c ∧ c ≤ '9' then some (c.toNat - 48) else none

/-- `getx <table> <szx> <xfers>:<order>`: interleaved block-wise GETs.  M: the model of the Block2 response cache
(`runX`, then every unfinished transfer is completed) | S: per transfer its own listing and block count -/
def getxStep (args : List String) : String :=
  match args with
  | [t, szx, script] =>
    match parseTable t, szx.toNat?, script.splitOn ":" with
    | some t, some szx, [xw, ow] =>
      match (xw.splitOn "/").mapM parseXfer, parseOrder ow with
      | some xs, some order =>
        let st := runX t szx xs SState.init order
        let st := (List.range xs.length).foldl (fun st i => drainX t szx xs 5001 st i) st
        let sz := 2 ^ (szx + 4)
        "M " ++ String.intercalate "," ((List.range xs.length).map fun i =>
            let x := st.x i
            (if x.failed then "bad" else hexOrDash x.buf) ++ ":" ++ toString x.next) ++
        " | S " ++ String.intercalate "," (xs.map fun xf =>
            let l := getListing t xf.opts
            hexOrDash l ++ ":" ++ toString (nblocks l.length sz))
      | _, _ => "bad-op"
    | _, _, _ => "bad-op"
  | _ => "bad-op"

/-- one event of a `wklive` line -/
def parseEv (e : String) : Option LiveEv :=
  let rest := (e.drop 1).toString
  if e.startsWith "+" then
    match rest.splitOn ":" with
    | [p, f, a] => do
      let p ← bytesOfHex p
      let f ← f.toNat?
      let a ← parseAttrs a
      pure (.op (.reg (mkResource p f a)))
    | _ => none
  else if e.startsWith "!" then do
    let p ← bytesOfHex rest
    pure (.op (.unreg p))
  else if e.startsWith "a" then
    match rest.splitOn ":" with
    | [p, _, a] => do
      let p ← bytesOfHex p
      let a ← parseAttr a
      pure (.op (.attr p a))
    | _ => none
  else if e.startsWith "o" then
    match rest.splitOn ":" with
    | [p, b] => do
      let p ← bytesOfHex p
      let b ← b.toNat?
      pure (.op (.obs p (b != 0)))
    | _ => none
  else if e.startsWith "g" then
    match rest.splitOn ":" with
    | [ds, q] =>
      match ds.toList with
      | [sid, szx] =>
        if '0' ≤ sid ∧ sid ≤ '3' ∧ '0' ≤ szx ∧ szx ≤ '6' then do
          let o ← parseOpts q
          pure (.get (sid.toNat - 48) (szx.toNat - 48) o)
        else none
      | _ => none
    | _ => none
  else if e.startsWith "p" then do
    let qf ← parseFilterArg rest
    pure (.print qf)
  else none

def showLive (rs : List LiveRes) : String :=
  if rs.isEmpty then "." else
  String.intercalate "," (rs.map fun r => (if r.failed then "bad" else hexOrDash r.buf) ++ ":" ++ toString r.nresp)

/-- `wklive <events>`: M: `liveRun` (the GET handler on the table as it is + the Block2 response cache, the client of the
harness gives up after 5001 blocks) | S: `liveSpec` (the listing of the table as it is when the request arrives) -/
def wkliveStep (args : List String) : String :=
  match args with
  | [evs] =>
    match (evs.splitOn "/").mapM parseEv with
    | some evs => "M " ++ showLive (liveRun 5001 LState.init evs) ++ " | S " ++ showLive (liveSpec [] evs)
    | none => "bad-op"
  | _ => "bad-op"

/-- one event of a `wkev` line: the table events of `wklive`, `b<sid><szx>:<num>:<rtag|N>:<queries>` (ONE block request),
`t<sid>` (every lg_xmit of the session times out) -/
def parseBEv (e : String) : Option BEv :=
  let rest := (e.drop 1).toString
  if e.startsWith "b" then
    match rest.splitOn ":" with
    | [ds, num, rt, q] =>
      match ds.toList with
      | [sid, szx] =>
        if '0' ≤ sid ∧ sid ≤ '3' ∧ '0' ≤ szx ∧ szx ≤ '6' then do
          let num ← num.toNat?
          let rt ← if rt = "N" then some none else (bytesOfHex rt).map some
          let o ← parseOpts q
          pure (.get ⟨sid.toNat - 48, num, szx.toNat - 48, o, rt⟩)
        else none
      | _ => none
    | _ => none
  else if e.startsWith "t" then
    match rest.toList with
    | [sid] => if '0' ≤ sid ∧ sid ≤ '3' then some (.expire (sid.toNat - 48) []) else none
    | _ => none
  else
    match parseEv e with
    | some (.op o) => some (.op o)
    | _ => none

/-- ETags are shown as `E<k>`, k = rank of first appearance in the line (`context->etag` starts at a random value) -/
def showObs (tr : List Obs) : String :=
  let step := fun (acc : List Nat × List String) (o : Obs) =>
    match o.resp with
    | .err c => (acc.1, acc.2 ++ ["e" ++ toString c])
    | .blk p m none => (acc.1, acc.2 ++ [hexOrDash p ++ ":" ++ (if m then "1" else "0") ++ ":-"])
    | .blk p m (some e) =>
      let seen := if acc.1.contains e then acc.1 else acc.1 ++ [e]
      (seen, acc.2 ++ [hexOrDash p ++ ":" ++ (if m then "1" else "0") ++ ":E" ++ toString (seen.idxOf e)])
  let r := tr.foldl step ([], [])
  if r.2.isEmpty then "." else String.intercalate "," r.2

/-- `wkev <events>`: M: `runB` (block-level: cache keyed by session / query / Request-Tag, ETag of the body, timeouts, table
changes while transfers are under way) | S: per block request the listing of the table AS IT IS at that moment for the
request's filter (the judge groups the responses by ETag and compares with the listing at the ETag's block 0) -/
def wkevStep (args : List String) : String :=
  match args with
  | [evs] =>
    match (evs.splitOn "/").mapM parseBEv with
    | some evs =>
      let tr := runB (BState.init [] 0) evs
      "M " ++ showObs tr ++ " | S " ++
        (if tr.isEmpty then "." else String.intercalate "," (tr.map fun o => hexOrDash (getListing o.table o.req.opts)))
    | none => "bad-op"
  | _ => "bad-op"

end Coap.Driver.LinkFormat
