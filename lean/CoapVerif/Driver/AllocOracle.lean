import CoapVerif.Model.AllocOracle
import CoapVerif.Util
/- Line-protocol driver for C18: `ahelp <k1> <k2> <op>…` replays a helper-layer script through the allocation-oracle
   model M (Model/AllocOracle.lean) under the oracle that fails exactly requests k1 and k2, and prints the canonical
   line of harness/allocfail.c (without the allocation tags) followed by the verdict of the verified monitor on M's own
   whole trace after clean-up.  `alloc …` (catalogue scenarios) is fault ENUMERATION on the implementation only: no model. -/
-- DRIVER-OPS: ahelp => Coap.Driver.AllocOracle.helpStep
-- DRIVER-OPS: alloc => Coap.Driver.AllocOracle.enumStep
namespace Coap.Driver.AllocOracle
open Coap Coap.AllocOracle Coap.Sessions

def parse2 (s : String) : Option (Nat × Nat) :=
  match s.splitOn ":" with
  | [a, b] => match a.toNat?, b.toNat? with
    | some x, some y => some (x, y)
    | _, _ => none
  | _ => none

def parseOp (tok : String) : Option HOp :=
  match tok.toList with
  | [] => none
  | c :: rest =>
    let arg := String.ofList rest
    if c = 'I' then arg.toNat?.map .init
    else if c = 'T' then arg.toNat?.map .token
    else if c = 'O' then (parse2 arg).map fun (a, b) => .option a b
    else if c = 'D' then arg.toNat?.map .data
    else if c = 'R' then arg.toNat?.map .resize
    else if c = 'C' then arg.toNat?.map .check
    else if c = 'K' then (if arg = "" then some .del else none)
    else if c = 'L' then (parse2 arg).map fun (a, b) => .olAdd a b
    else if c = 'P' then (if arg = "" then some .olPdu else none)
    else if c = 'X' then (if arg = "" then some .olDel else none)
    else if c = 'S' ∨ c = 's' ∨ c = 'b' then arg.toNat?.map .str
    else if c = 'F' then (if arg = "" then some .strFree else none)
    else if c = 'V' then (if arg = "c" then some (.send true) else if arg = "n" then some (.send false) else none)
    else if c = 'W' then (if arg = "0" then some (.write true) else if arg = "1" then some (.write false) else none)
    else if c = 'E' then (if arg = "0" then some (.estab false) else if arg = "1" then some (.estab true) else none)
    else if c = 'A' then arg.toNat?.map .obsAdd
    else if c = 'B' then arg.toNat?.map .obsDel
    else none

def showSend : SendRes → String
  | .sentFreed => "okf"
  | .queued => "okq"
  | .delayed => "okq"
  | .error => "invf"

def showOut : Out → String
  | .num n => toString n
  | .skip => "-"
  | .sent r => showSend r
  | .unmodelled => "unmodelled"

def showEvent : AllocEvent → String
  | .alloc i => "a" ++ toString i
  | .free i => "f" ++ toString i

def showTrace (t : List AllocEvent) : String :=
  if t.isEmpty then "-" else String.intercalate " " (t.map showEvent)

def showPdu : Option OPdu → String
  | none => "none"
  | some p => toString p.allocSize ++ "/" ++ toString p.maxSize ++ "/" ++ toString p.maxOpt ++ "/" ++
      (match p.data with | some d => toString d | none => "-") ++ "/" ++ (if p.buf.isEmpty then "-" else hexOfBytes p.buf)

def helpStep (args : List String) : String :=
  match args with
  | k1 :: k2 :: ops =>
    match k1.toNat?, k2.toNat?, ops.mapM parseOp with
    | some k1, some k2, some ops =>
      let st0 := St.init (oracleFailing k1 k2 (max k1 k2))
      let (outs, st) := st0.run ops
      let fin := st.cleanup
      "M rc=" ++ (if outs.isEmpty then "-" else String.intercalate "," (outs.map showOut)) ++
      " n=" ++ toString st.heap.reqs ++ " pdu=" ++ showPdu st.pdu ++
      " ol=" ++ (if st.ol.isEmpty then "-" else String.intercalate "," (st.ol.map fun o => toString o.num ++ ":" ++ toString o.val.length)) ++
      " str=" ++ toString st.strs.length ++
      " q=" ++ toString st.sess.sendq.length ++ "/" ++ toString st.sess.delayq.length ++ "/" ++ toString st.sess.conActive ++
      -- session->ref / token lengths of the subscriptions (list order) / the request kept with the first one
      " obs=" ++ toString st.obs.ref ++ "/" ++
        (if st.obs.subs.isEmpty then "-" else String.intercalate "," (st.obs.subs.map fun x => toString x.tok.length)) ++
      " sp=" ++ showPdu (st.obs.subs.head?.map (·.pdu)) ++
      " T " ++ showTrace st.heap.trace ++
      " | ledger=" ++ ledgerVerdict fin.heap.trace ++ (if ledgerOk fin.heap.trace && fin.heap.ok && fin.heap.live.isEmpty then "" else " MONITOR-REJECTS")
    | _, _, _ => "bad-op"
  | _ => "bad-op"

/-- catalogue scenarios: fault enumeration on the implementation only -/
def enumStep (args : List String) : String :=
  match args with
  | [_, k] => if k.toNat?.isSome then "M enum" else "bad-op"
  | [_, k, k2] => if k.toNat?.isSome && k2.toNat?.isSome then "M enum" else "bad-op"
  | _ => "bad-op"

end Coap.Driver.AllocOracle
