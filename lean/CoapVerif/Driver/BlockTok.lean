import CoapVerif.Driver.Block
import CoapVerif.Model.BlockTok
import CoapVerif.Model.BlockNetTok
/- Line-protocol driver for Model/BlockTok.lean (C09): the client's Block2 receive path with `sent` possibly NULL (`crcvs`)
   and `coap_check_update_token` (`ctok`).  Output formats mirror harness/block.c (`do_crcv_x`, `do_ctok`). -/
-- DRIVER-OPS: crcvs => Coap.Driver.BlockTok.crcvsLine
-- DRIVER-OPS: ctok => Coap.Driver.BlockTok.ctokLine
-- DRIVER-OPS: crcvt => Coap.Driver.BlockTok.crcvtLine
namespace Coap.Driver.BlockTok
open Coap Coap.Block Coap.Driver.Block

/-- as `crcvRun`, every item with a leading field u (1 = `sent` is NULL) -/
def crcvsRun (single : Bool) (body : Bytes) (size2 : Option Nat) :
    List (List Nat) → Option Crcv → List String → List String
  | [], _, acc => acc.reverse
  | it :: rest, st, acc =>
    match it with
    | u :: num :: m :: szx :: etag :: fmt :: tl =>
      if u > 1 ∨ szx > 6 ∨ m > 1 ∨ etag > 255 ∨ fmt > 255 ∨ tl.length > 2 then ("bad-op" :: acc).reverse else
      let chunk := 2 ^ (szx + 4)
      let off := if num * chunk > body.length then body.length else num * chunk
      let plen0 := if body.length - off < chunk then body.length - off else chunk
      let plen := match tl with
        | l :: _ => if l ≤ body.length - off then l else plen0
        | _ => plen0
      let sz2 := match tl with
        | [_, s2] => if s2 = 0 then none else some (s2 - 1)
        | _ => size2
      let r : Resp := { blk := some (num, m, szx), payload := (body.drop off).take plen, size2 := sz2,
                        etag := if etag = 0 then none else some [UInt8.ofNat etag], fmt := fmt }
      let (st', o) := crcvStepS (u == 0) single Coap.Generated.rblockCnt 0 st r
      crcvsRun single body size2 rest st' ((showCrcvOut o ++ "/" ++ showCrcvState st') :: acc)
    | _ => ("bad-op" :: acc).reverse

def crcvsLine (args : List String) : String :=
  match args with
  | [a, b, c, d, e, seq] =>
    match nat? a, nat? b, nat? c, nat? e with
    | some single, some bodyLen, some seed, some init =>
      match (seq.split (· == ',')).toList.mapM (fun x => splitNats x.toString '.') with
      | none => "bad-op"
      | some its => "M " ++ String.intercalate ","
          (crcvsRun (single != 0) (mkBody bodyLen seed) (if d = "-" then none else nat? d) its
            (if init != 0 then some {} else none) [])
    | _, _, _, _ => "bad-op"
  | _ => "bad-op"

/-- list of entries `<apphex or dash>/<state>` separated by commas, or a single dash -/
def tokEnts (s : String) : Option (List TokEnt) :=
  if s = "-" then some [] else
  (s.split (· == ',')).toList.mapM fun x =>
    match x.toString.splitOn "/" with
    | [a, st] =>
      match bytesOfHex a, st.toNat? with
      | some app, some n => if app.length ≤ 8 ∧ n < 2 ^ 64 then some { appTok := app, state := n } else none
      | _, _ => none
    | _ => none

def ctokLine (args : List String) : String :=
  match args with
  | [r, t, cs, xs] =>
    match nat? r, bytesOfHex t, tokEnts cs, tokEnts xs with
    | some isReq, some tok, some crcvs, some xmits =>
      if tok.length > 8 ∨ crcvs.length > 8 ∨ xmits.length > 8 then "bad-op"
      else "M " ++ hexOrDash (checkUpdateToken crcvs xmits (isReq != 0) tok)
    | _, _, _, _ => "bad-op"
  | _ => "bad-op"

/-! ## `crcvt`: the same with tokens (Model/BlockNetTok.lean); output format of `do_crcvt` -/

def showCliT (c : CliT) : String :=
  if c.crcvs.isEmpty then "/-" else
  "/" ++ String.intercalate "|" (c.crcvs.map fun e =>
    s!"{hexOrDash e.appTok}.{stateTokenBase e.state}.{e.retry}.{showCrcvState (some e.lg)}")

def appTokT : Bytes := [0xa1, 0xa1, 0xa1, 0xa1]

def crcvtRun (single : Bool) (body : Bytes) (size2 : Option Nat) (tx0 : Nat) :
    List String → CliT → Bytes → List String → List String
  | [], _, _, acc => acc.reverse
  | it :: rest, c, last, acc =>
    if it = "n" then
      let c' := cliSendT c appTokT
      crcvtRun single body size2 tx0 rest c' appTokT (("n+q?t" ++ hexOrDash appTokT ++ showCliT c') :: acc)
    else if it.startsWith "x" then
      match (it.drop 1).toString.toNat? with
      | some i =>
        let c' := cliExpireT c i
        crcvtRun single body size2 tx0 rest c' last (("x" ++ showCliT c') :: acc)
      | none => ("bad-op" :: acc).reverse
    else
    match splitNats it '.' with
    | some [t, u, num, m, szx, etag, fmt] =>
      if t > 2 ∨ u > 2 ∨ szx > 6 ∨ m > 1 ∨ etag > 255 ∨ fmt > 255 then ("bad-op" :: acc).reverse else
      let tok : Bytes := if t = 0 then appTokT else if t = 1 then last
                         else encodeVar8 (stateTokenFull ((tx0 + 1000) % 2 ^ 64) 3)
      let chunk := 2 ^ (szx + 4)
      let off := if num * chunk > body.length then body.length else num * chunk
      let plen := if body.length - off < chunk then body.length - off else chunk
      let r : Resp := { blk := some (num, m, szx), payload := (body.drop off).take plen, size2 := size2,
                        etag := if etag = 0 then none else some [UInt8.ofNat etag], fmt := fmt }
      let sentTok : Option Bytes := if u = 1 then none else if u = 2 then some tok else some appTokT
      let res := crcvStepT single Coap.Generated.rblockCnt 0 c sentTok tok r
      let x := res.2
      let line := showCrcvOut x.out ++ (match x.reqTok with | some t => "t" ++ hexOrDash t | none => "") ++
        (if callsHandler x.out then "T" ++ hexOrDash x.shown else "") ++ showCliT res.1
      crcvtRun single body size2 tx0 rest res.1 (match x.reqTok with | some t => t | none => last) (line :: acc)
    | _ => ("bad-op" :: acc).reverse

def crcvtLine (args : List String) : String :=
  match args with
  | [a, b, c, d, e, f, seq] =>
    match nat? a, nat? b, nat? c, nat? e, nat? f with
    | some single, some bodyLen, some seed, some init, some tx0 =>
      if tx0 ≥ 2 ^ 64 then "bad-op" else
      let c0 : CliT := { txTok := tx0 }
      "M " ++ String.intercalate ","
        (crcvtRun (single != 0) (mkBody bodyLen seed) (if d = "-" then none else nat? d) tx0
          ((seq.split (· == ',')).toList.map (·.toString))
          (if init != 0 then cliSendT c0 appTokT else c0) appTokT [])
    | _, _, _, _, _ => "bad-op"
  | _ => "bad-op"

end Coap.Driver.BlockTok
