import CoapVerif.Driver.Block
import CoapVerif.Model.BlockTok
import CoapVerif.Model.BlockNetTok
import CoapVerif.Model.BlockNetTok1
import CoapVerif.Driver.BlockXmit
/- Line-protocol driver for Model/BlockTok.lean (C09): the client's Block2 receive path with `sent` possibly NULL (`crcvs`)
   and `coap_check_update_token` (`ctok`).  Output formats mirror harness/block.c (`do_crcv_x`, `do_ctok`). -/
-- DRIVER-OPS: crcvs => Coap.Driver.BlockTok.crcvsLine
-- DRIVER-OPS: crcvo => Coap.Driver.BlockTok.crcvoLine
-- DRIVER-OPS: ctok => Coap.Driver.BlockTok.ctokLine
-- DRIVER-OPS: crcvt => Coap.Driver.BlockTok.crcvtLine
-- DRIVER-OPS: xmit1t => Coap.Driver.BlockTok.xmit1tLine
namespace Coap.Driver.BlockTok
open Coap Coap.Block Coap.Driver.Block

/-- as `crcvRun`, every item with a leading field u (1 = `sent` is NULL).  `noff` (op `crcvo`): the Block2 option on the wire
carries NUM = num + noff while the payload is still the slice of the (small) body at num -/
def crcvsRun (noff : Nat) (single : Bool) (body : Bytes) (size2 : Option Nat) :
    List (List Nat) → Option Crcv → List String → List String
  | [], _, acc => acc.reverse
  | it :: rest, st, acc =>
    match it with
    | u :: num :: m :: szx :: etag :: fmt :: tl =>
      if u > 1 ∨ szx > 6 ∨ m > 1 ∨ etag > 255 ∨ fmt > 255 ∨ tl.length > 2 ∨ (noff ≠ 0 ∧ num + noff > 0xFFFFF) then
        ("bad-op" :: acc).reverse else
      let chunk := 2 ^ (szx + 4)
      let off := if num * chunk > body.length then body.length else num * chunk
      let plen0 := if body.length - off < chunk then body.length - off else chunk
      let plen := match tl with
        | l :: _ => if l ≤ body.length - off then l else plen0
        | _ => plen0
      let sz2 := match tl with
        | [_, s2] => if s2 = 0 then none else some (s2 - 1)
        | _ => size2
      let r : Resp := { blk := some (num + noff, m, szx), payload := (body.drop off).take plen, size2 := sz2,
                        etag := if etag = 0 then none else some [UInt8.ofNat etag], fmt := fmt }
      let (st', o) := crcvStepS (u == 0) single Coap.Generated.rblockCnt 0 st r
      crcvsRun noff single body size2 rest st' ((showCrcvOut o ++ "/" ++ showCrcvState st') :: acc)
    | _ => ("bad-op" :: acc).reverse

def crcvsLine (args : List String) : String :=
  match args with
  | [a, b, c, d, e, seq] =>
    match nat? a, nat? b, nat? c, nat? e with
    | some single, some bodyLen, some seed, some init =>
      match (seq.split (· == ',')).toList.mapM (fun x => splitNats x.toString '.') with
      | none => "bad-op"
      | some its => "M " ++ String.intercalate ","
          (crcvsRun 0 (single != 0) (mkBody bodyLen seed) (if d = "-" then none else nat? d) its
            (if init != 0 then some {} else none) [])
    | _, _, _, _ => "bad-op"
  | _ => "bad-op"

/-- `crcvo <single> <bodyLen> <seed> <size2|-> <init> <noff> <items>`: `crcvs` with the NUM offset (harness `do_crcv_x`, numoff).
In single-body mode a block that reaches `coap_block_build_body` at NUM + noff would need a buffer of (NUM + noff) * chunk bytes:
the generator keeps single-body lines off that path (responses refused before the store, random access once the lg_crcv is gone) -/
def crcvoLine (args : List String) : String :=
  match args with
  | [a, b, c, d, e, f, seq] =>
    match nat? a, nat? b, nat? c, nat? e, nat? f with
    | some single, some bodyLen, some seed, some init, some noff =>
      match (seq.split (· == ',')).toList.mapM (fun x => splitNats x.toString '.') with
      | none => "bad-op"
      | some its =>
        if noff > 0xFFFFF ∨ bodyLen > 65536 then "bad-op" else
        "M " ++ String.intercalate ","
          (crcvsRun noff (single != 0) (mkBody bodyLen seed) (if d = "-" then none else nat? d) its
            (if init != 0 then some {} else none) [])
    | _, _, _, _, _ => "bad-op"
  | _ => "bad-op"

/-- list of entries `<apphex or dash>/<state>` separated by commas, or a single dash -/
def tokEnts (s : String) : Option (List TokEnt) :=
  if s = "-" then some [] else
  (s.split (· == ',')).toList.mapM fun x =>
    match x.toString.splitOn "/" with
    | [a, st] =>
      match bytesOfHex a, st.toNat? with
      | some app, some n => if app.length ≤ 8 ∧ n < 2 ^ 64 then some { appTok := app, state := n } else none
      | _, _ => none
    | _ => none

def ctokLine (args : List String) : String :=
  match args with
  | [r, t, cs, xs] =>
    match nat? r, bytesOfHex t, tokEnts cs, tokEnts xs with
    | some isReq, some tok, some crcvs, some xmits =>
      if tok.length > 8 ∨ crcvs.length > 8 ∨ xmits.length > 8 then "bad-op"
      else "M " ++ hexOrDash (checkUpdateToken crcvs xmits (isReq != 0) tok)
    | _, _, _, _ => "bad-op"
  | _ => "bad-op"

/-! ## `crcvt`: the same with tokens (Model/BlockNetTok.lean); output format of `do_crcvt` -/

def showCliT (c : CliT) : String :=
  if c.crcvs.isEmpty then "/-" else
  "/" ++ String.intercalate "|" (c.crcvs.map fun e =>
    s!"{hexOrDash e.appTok}.{stateTokenBase e.state}.{e.retry}.{showCrcvState (some e.lg)}")

def appTokT : Bytes := [0xa1, 0xa1, 0xa1, 0xa1]

def crcvtRun (single : Bool) (body : Bytes) (size2 : Option Nat) (tx0 : Nat) :
    List String → CliT → Bytes → List String → List String
  | [], _, _, acc => acc.reverse
  | it :: rest, c, last, acc =>
    if it = "n" then
      let c' := cliSendT c appTokT
      crcvtRun single body size2 tx0 rest c' appTokT (("n+q?t" ++ hexOrDash appTokT ++ showCliT c') :: acc)
    else if it.startsWith "x" then
      match (it.drop 1).toString.toNat? with
      | some i =>
        let c' := cliExpireT c i
        crcvtRun single body size2 tx0 rest c' last (("x" ++ showCliT c') :: acc)
      | none => ("bad-op" :: acc).reverse
    else
    match splitNats it '.' with
    | some [t, u, num, m, szx, etag, fmt] =>
      if t > 2 ∨ u > 2 ∨ szx > 6 ∨ m > 1 ∨ etag > 255 ∨ fmt > 255 then ("bad-op" :: acc).reverse else
      let tok : Bytes := if t = 0 then appTokT else if t = 1 then last
                         else encodeVar8 (stateTokenFull ((tx0 + 1000) % 2 ^ 64) 3)
      let chunk := 2 ^ (szx + 4)
      let off := if num * chunk > body.length then body.length else num * chunk
      let plen := if body.length - off < chunk then body.length - off else chunk
      let r : Resp := { blk := some (num, m, szx), payload := (body.drop off).take plen, size2 := size2,
                        etag := if etag = 0 then none else some [UInt8.ofNat etag], fmt := fmt }
      let sentTok : Option Bytes := if u = 1 then none else if u = 2 then some tok else some appTokT
      let res := crcvStepT single Coap.Generated.rblockCnt 0 c sentTok tok r
      let x := res.2
      let line := showCrcvOut x.out ++ (match x.reqTok with | some t => "t" ++ hexOrDash t | none => "") ++
        (if callsHandler x.out then "T" ++ hexOrDash x.shown else "") ++ showCliT res.1
      crcvtRun single body size2 tx0 rest res.1 (match x.reqTok with | some t => t | none => last) (line :: acc)
    | _ => ("bad-op" :: acc).reverse

def crcvtLine (args : List String) : String :=
  match args with
  | [a, b, c, d, e, f, seq] =>
    match nat? a, nat? b, nat? c, nat? e, nat? f with
    | some single, some bodyLen, some seed, some init, some tx0 =>
      if tx0 ≥ 2 ^ 64 then "bad-op" else
      let c0 : CliT := { txTok := tx0 }
      "M " ++ String.intercalate ","
        (crcvtRun (single != 0) (mkBody bodyLen seed) (if d = "-" then none else nat? d) tx0
          ((seq.split (· == ',')).toList.map (·.toString))
          (if init != 0 then cliSendT c0 appTokT else c0) appTokT [])
    | _, _, _, _, _ => "bad-op"
  | _ => "bad-op"

/-! ## `xmit1t`: the client's Block1 path with tokens (Model/BlockNetTok1.lean); output format of `do_xmit1t` -/

open Coap.Driver.BlockXmit in
def showCli1T (c : Cli1T) : String :=
  (match c.xmit with
   | some xm => s!"/X1:{xm.x.blkSize}.{xm.x.offset}." ++ (match xm.x.lastBlock with | some n => toString n | none => "-1") ++
       s!".{xm.count}.{stateTokenBase xm.state}.{if xm.link then 1 else 0}"
   | none => "/X0") ++
  (match c.crcv with
   | some cr => s!"C1:{hexOrDash cr.appTok}.{stateTokenBase cr.state}.{cr.retry}"
   | none => "C0")

open Coap.Driver.BlockXmit in
def xmit1tRun (blk : Option Nat) (body : Bytes) (mtu : Nat) (non : Bool) (tx0 : Nat) :
    List String → Cli1T → Bytes → List String → List String
  | [], _, _, acc => acc.reverse
  | it :: rest, c, last, acc =>
    if it = "p" then
      match addDataLarge (mtu - 4) 4 2 11 blk 0 body.length 1 with
      | none =>
        -- refused: the supersede search has run, nothing is sent
        let c' : Cli1T := match c.xmit with
          | some xm => if appTokT = xm.appTok then { c with xmit := none, released := c.released ++ [stateTokenBase xm.state] } else c
          | none => c
        xmit1tRun blk body mtu non tx0 rest c' last (("pfail" ++ showCli1T c') :: acc)
      | some r =>
        let first := match r.blockVal with
          | some v => showMsg (v / 16) ((v / 8) % 2) (v % 8) (body.take r.payload)
          | none => s!"n:{r.payload}:{hex8 (fnv (body.take r.payload))}"
        let lgx : Option LgXmit := if r.lgXmit then some { data := body, blkSize := r.blkSize } else none
        let c' := putStep1T c appTokT lgx (r.lgXmit || non || r.blockVal.isSome) (r.lgXmit || r.blockVal.isSome)
        xmit1tRun blk body mtu non tx0 rest c' appTokT (("p" ++ first ++ "t" ++ hexOrDash appTokT ++ showCli1T c') :: acc)
    else if it = "x" then
      let c' : Cli1T := match c.xmit with
        | some xm => { c with xmit := none, released := c.released ++ [stateTokenBase xm.state] }
        | none => c
      xmit1tRun blk body mtu non tx0 rest c' last (("x" ++ showCli1T c') :: acc)
    else if it = "y" then
      let c' : Cli1T := match c.crcv with
        | some cr => { c with crcv := none, xmit := unlinkXmit c.xmit, released := c.released ++ [stateTokenBase cr.state] }
        | none => c
      xmit1tRun blk body mtu non tx0 rest c' last (("y" ++ showCli1T c') :: acc)
    else
    match splitNats it '.' with
    | some (t :: code :: tl) =>
      if t > 2 ∨ code > 255 ∨ (tl.length ≠ 0 ∧ tl.length ≠ 2) then ("bad-op" :: acc).reverse else
      let bopt := match tl with | [num, szx] => some (num, szx) | _ => none
      if (match bopt with | some (num, szx) => decide (szx > 6 ∨ num > 0xFFFFF) | none => false) then ("bad-op" :: acc).reverse else
      let tok : Bytes := if t = 0 then appTokT else if t = 1 then last
                         else encodeVar8 (stateTokenFull ((tx0 + 1000) % 2 ^ 64) 3)
      let ok := code / 32 == 2
      let used := match c.xmit with
        | some xm => (match (xmitB1Step xm.x (2 ^ 40) ok bopt).2 with
                      | .sendNext n m s _ => b1Used n m s xm.x.data.length
                      | _ => 0)
        | none => 0
      let res := rspStep1T (mtu - 4 - used) c tok ok bopt
      let x := res.2
      let so := match x.req, x.out with
        | some ((n, m, sx, p), t), _ => showMsg n m sx p ++ "t" ++ hexOrDash t
        | none, some .dupIgnored => "i"
        | none, some .fail500 => "F"
        | none, _ => "f"
      let line := so ++ (if x.handler then "T" ++ hexOrDash x.shown else "") ++ showCli1T res.1
      xmit1tRun blk body mtu non tx0 rest res.1 (match x.req with | some (_, t) => t | none => last) (line :: acc)
    | _ => ("bad-op" :: acc).reverse

def xmit1tLine (args : List String) : String :=
  match args with
  | [a, b, c, d, e, f, seq] =>
    match nat? b, nat? c, nat? d, nat? e, nat? f with
    | some bodyLen, some seed, some mtu, some non, some tx0 =>
      if tx0 ≥ 2 ^ 64 then "bad-op" else
      "M " ++ String.intercalate ","
        (xmit1tRun (if a = "-" then none else nat? a) (mkBody bodyLen seed) mtu (non != 0) tx0
          ((seq.split (· == ',')).toList.map (·.toString)) { txTok := tx0 } appTokT [])
    | _, _, _, _, _ => "bad-op"
  | _ => "bad-op"

end Coap.Driver.BlockTok
