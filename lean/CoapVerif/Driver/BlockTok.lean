import CoapVerif.Driver.Block
import CoapVerif.Model.BlockTok
/- Line-protocol driver for Model/BlockTok.lean (C09): the client's Block2 receive path with `sent` possibly NULL (`crcvs`)
   and `coap_check_update_token` (`ctok`).  Output formats mirror harness/block.c (`do_crcv_x`, `do_ctok`). -/
-- DRIVER-OPS: crcvs => Coap.Driver.BlockTok.crcvsLine
-- DRIVER-OPS: ctok => Coap.Driver.BlockTok.ctokLine
namespace Coap.Driver.BlockTok
open Coap Coap.Block Coap.Driver.Block

/-- as `crcvRun`, every item with a leading field u (1 = `sent` is NULL) -/
def crcvsRun (single : Bool) (body : Bytes) (size2 : Option Nat) :
    List (List Nat) → Option Crcv → List String → List String
  | [], _, acc => acc.reverse
  | it :: rest, st, acc =>
    match it with
    | u :: num :: m :: szx :: etag :: fmt :: tl =>
      if u > 1 ∨ szx > 6 ∨ m > 1 ∨ etag > 255 ∨ fmt > 255 ∨ tl.length > 2 then ("bad-op" :: acc).reverse else
      let chunk := 2 ^ (szx + 4)
      let off := if num * chunk > body.length then body.length else num * chunk
      let plen0 := if body.length - off < chunk then body.length - off else chunk
      let plen := match tl with
        | l :: _ => if l ≤ body.length - off then l else plen0
        | _ => plen0
      let sz2 := match tl with
        | [_, s2] => if s2 = 0 then none else some (s2 - 1)
        | _ => size2
      let r : Resp := { blk := some (num, m, szx), payload := (body.drop off).take plen, size2 := sz2,
                        etag := if etag = 0 then none else some [UInt8.ofNat etag], fmt := fmt }
      let (st', o) := crcvStepS (u == 0) single Coap.Generated.rblockCnt 0 st r
      crcvsRun single body size2 rest st' ((showCrcvOut o ++ "/" ++ showCrcvState st') :: acc)
    | _ => ("bad-op" :: acc).reverse

def crcvsLine (args : List String) : String :=
  match args with
  | [a, b, c, d, e, seq] =>
    match nat? a, nat? b, nat? c, nat? e with
    | some single, some bodyLen, some seed, some init =>
      match (seq.split (· == ',')).toList.mapM (fun x => splitNats x.toString '.') with
      | none => "bad-op"
      | some its => "M " ++ String.intercalate ","
          (crcvsRun (single != 0) (mkBody bodyLen seed) (if d = "-" then none else nat? d) its
            (if init != 0 then some {} else none) [])
    | _, _, _, _ => "bad-op"
  | _ => "bad-op"

/-- list of entries `<apphex or dash>/<state>` separated by commas, or a single dash -/
def tokEnts (s : String) : Option (List TokEnt) :=
  if s = "-" then some [] else
  (s.split (· == ',')).toList.mapM fun x =>
    match x.toString.splitOn "/" with
    | [a, st] =>
      match bytesOfHex a, st.toNat? with
      | some app, some n => if app.length ≤ 8 ∧ n < 2 ^ 64 then some { appTok := app, state := n } else none
      | _, _ => none
    | _ => none

def ctokLine (args : List String) : String :=
  match args with
  | [r, t, cs, xs] =>
    match nat? r, bytesOfHex t, tokEnts cs, tokEnts xs with
    | some isReq, some tok, some crcvs, some xmits =>
      if tok.length > 8 ∨ crcvs.length > 8 ∨ xmits.length > 8 then "bad-op"
      else "M " ++ hexOrDash (checkUpdateToken crcvs xmits (isReq != 0) tok)
    | _, _, _, _ => "bad-op"
  | _ => "bad-op"

end Coap.Driver.BlockTok
