import CoapVerif.Model.StreamReader
import CoapVerif.Model.WsReader
import CoapVerif.Driver.Codec
/- Line-protocol driver for the stream property C05:
     tcp <csm-max|0> <stream-hex> <cut,cut,…|->     → `M <reader on that segmentation> | S <frames of the stream>`
     consts                                          → the constants M depends on -/
-- DRIVER-OPS: tcp consts => Coap.Driver.Stream.step
-- DRIVER-OPS: ws => Coap.Driver.Stream.wsStep
-- DRIVER-OPS: wsclose => Coap.Driver.Stream.wsCloseStep
-- DRIVER-OPS: wsself => Coap.Driver.Stream.wsSelfStep
namespace Coap.Driver.Stream
open Coap Coap.M.Stream Coap.Spec.Stream

def showMsgs (ms : List Msg) : String :=
  "n=" ++ toString ms.length ++ String.join (ms.map fun m => " [" ++ Coap.Driver.showMsg m ++ "]")

/-- what the harness observes when the session is disconnected by the TCP reader:
`coap_session_disconnected_lkd(session, COAP_NACK_NOT_DELIVERABLE)` on an established session -/
def closedTcp : String := " end=closed nack=1 ev=1002,2002"
def openEnd : String := " end=open nack=- ev=-"

def showOut (o : Out) : String :=
  match o with
  | .cont _ => openEnd
  | .closed => closedTcp
  | .oob => " end=oob"

def showEnd (e : End) : String :=
  match e with
  | .open _ => openEnd
  | .closed => closedTcp

def parseCuts (s : String) : Option (List Nat) :=
  if s = "-" then some [] else
  (s.splitOn ",").mapM fun w => w.toNat?

/-- cut offsets → chunks -/
def chunksAt : Bytes → Nat → List Nat → List Bytes
  | bs, _, [] => [bs]
  | bs, pos, c :: cs => bs.take (c - pos) :: chunksAt (bs.drop (c - pos)) c cs

def leftoverLen (o : Out) : String :=
  match o with
  | .cont st => " pend=" ++ toString st.partialRead
  | _ => ""

def step (args : List String) : String :=
  match args with
  | [] =>
    "M maxrx=" ++ toString maxRx ++ " rxbuf=" ++ toString rxBuf ++ " rh=" ++ toString rhCap ++ " fs=" ++ toString Coap.M.Ws.fsCap ++
      " httphdr=" ++ toString Coap.M.Ws.httpCap
  | [m, h, c] =>
    match m.toNat?, bytesOfHex h, parseCuts c with
    | some m, some bs, some cuts =>
      let csm := if m = 0 then maxRx else m
      let maxRcv := maxPduSizeInternal csm
      let r := feed maxRcv St.init (chunksAt bs 0 cuts)
      let s := framesOf maxRcv bs
      "M " ++ showMsgs r.1 ++ showOut r.2 ++ " | S " ++ showMsgs s.1 ++ showEnd s.2
    | _, _, _ => "bad-op"
  | _ => "bad-op"


/-! ### WebSocket:  ws <c|s> <stream-hex> <cuts> -/
open Coap.Spec.Stream.Ws in
/-- the Sec-WebSocket-Accept value for the key 00 01 … 0f the harness forces (SHA-1 / base64 are oracles) -/
def acceptConst : Bytes := Coap.M.Ws.asc "Bz3qJYTGdOe8gUSpLosEdiLKDrk="

def wsStep (args : List String) : String :=
  match args with
  | [m, h, c] =>
    let mode? : Option Coap.Spec.Stream.Ws.Mode :=
      if m = "c" then some .client else if m = "s" then some .server else none
    match mode?, bytesOfHex h, parseCuts c with
    | some mode, some bs, some cuts =>
      let r := Coap.M.Ws.feed mode acceptConst {} (chunksAt bs 0 cuts)
      let (e, up) : String × Bool := match r.2.1 with
        | .open st => (if r.2.2 then "stuck" else "open", st.up)
        | .closed => ("closed", true)
        | .oob => ("oob", true)
      let s := Coap.Spec.Stream.Ws.run (Coap.M.Ws.validator mode acceptConst) mode bs
      "M " ++ showMsgs r.1 ++ " end=" ++ e ++ (if e = "closed" then "" else " up=" ++ (if up then "1" else "0")) ++
      " | S " ++ showMsgs s.msgs ++ " end=" ++ (if s.closed then "closed" else "open") ++
        (if s.closed then "" else " up=" ++ (if s.up then "1" else "0"))
    | _, _, _ => "bad-op"
  | _ => "bad-op"

/-- `wsclose <c|s> <stream-hex> <cut>`: stream[0..cut) received in one chunk, then the application closes the
session with stream[cut..) available: what `coap_ws_close`'s draining leaves (model only, S does not speak about it) -/
def wsCloseStep (args : List String) : String :=
  match args with
  | [m, h, c] =>
    let mode? : Option Coap.Spec.Stream.Ws.Mode :=
      if m = "c" then some .client else if m = "s" then some .server else none
    match mode?, bytesOfHex h, c.toNat? with
    | some mode, some bs, some cut =>
      if cut > bs.length then "bad-op" else
      let r := Coap.M.Ws.feed mode acceptConst {} [bs.take cut]
      match r.2.1, r.2.2 with
      | .open st, false =>
        if st.up then
          let d := Coap.M.Ws.wsClose mode st (bs.drop cut)
          "M " ++ showMsgs r.1 ++ " drain rc=" ++ (if d.1 then "1" else "0") ++ " left=" ++ toString d.2.2.1.length ++
            " rounds=" ++ toString (Coap.M.Ws.drainRounds mode Coap.M.Ws.drainCount st (bs.drop cut)) ++ " calls=" ++ toString d.2.2.2
        else "M " ++ showMsgs r.1 ++ " noclose"
      | _, _ => "M " ++ showMsgs r.1 ++ " noclose"
    | _, _, _ => "bad-op"
  | _ => "bad-op"

/-- `wsself <c|s> <stream-hex>`: the whole stream is received in one chunk; if the reader closes the session by itself
(refusal or Close frame) what the `coap_ws_close` it runs from inside `coap_ws_read` leaves: recv_close, bytes of the
chunk never read (model only) -/
def wsSelfStep (args : List String) : String :=
  match args with
  | [m, h] =>
    let mode? : Option Coap.Spec.Stream.Ws.Mode :=
      if m = "c" then some .client else if m = "s" then some .server else none
    match mode?, bytesOfHex h with
    | some mode, some bs =>
      let r := Coap.M.Ws.feed mode acceptConst {} [bs]
      match Coap.M.Ws.selfClose mode acceptConst {} bs with
      | some d => "M " ++ showMsgs r.1 ++ " self rc=" ++ (if d.1 then "1" else "0") ++ " left=" ++ toString d.2.2.1.length ++
          " rounds=" ++ toString (Coap.M.Ws.selfCloseRounds mode acceptConst {} bs) ++ " calls=" ++ toString d.2.2.2
      | none => "M " ++ showMsgs r.1 ++ " noself"
    | _, _ => "bad-op"
  | _ => "bad-op"

end Coap.Driver.Stream
