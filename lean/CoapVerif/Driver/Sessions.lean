import CoapVerif.Model.Sessions
import CoapVerif.Util
/- Line-protocol driver for C12: replays a history through the Sessions model M and prints the canonical line of
   harness/sessions.c; `ledger` runs the VERIFIED monitor `ledgerOk` on an allocation trace (the real one). -/
-- DRIVER-OPS: sess => Coap.Driver.Sessions.sessStep
-- DRIVER-OPS: ledger => Coap.Driver.Sessions.ledgerStep
namespace Coap.Driver.Sessions
open Coap Coap.Sessions

/-- datagram peers 0..49 on the two UDP endpoints (local ports 0, 1), stream peers 50..57 on the TCP endpoint (local port 2) -/
def NDGRAM : Nat := 50
def NPEER : Nat := 58
def peerOf (p : Nat) : Peer := if p < NDGRAM then ⟨p % 25, p / 25, COAP_PROTO_UDP⟩ else ⟨p, 2, COAP_PROTO_TCP⟩

def parsePK (s : String) : Option (Nat × Nat) :=
  match s.splitOn "." with
  | [a] => a.toNat?.bind fun p => if p < NPEER then some (p, 0) else none
  | [a, b] =>
    match a.toNat?, b.toNat? with
    | some p, some k => if p < NPEER && k < 2 then some (p, k) else none
    | _, _ => none
  | _ => none

/-- `P` of a datagram peer -/
def parseDgram (s : String) : Option Nat := (parsePK s).bind fun (p, _) => if p < NDGRAM then some p else none
/-- `S` of a stream peer (no suffix) -/
def parseStream (s : String) : Option Nat :=
  if s.contains '.' then none else s.toNat?.bind fun p => if NDGRAM ≤ p && p < NPEER then some p else none
/-- `S.C`: stream peer, number of bytes sent first (1 .. PART_LEN-1) -/
def parsePart (s : String) : Option (Nat × Nat) :=
  match (s.splitOn ".").mapM String.toNat? with
  | some [p, c] => if NDGRAM ≤ p && p < NPEER && 0 < c && c < PART_LEN then some (p, c) else none
  | _ => none

/-- `P.K[.V[.Q]]`: peer, resource, token variant (0..2), query variant (0..1) -/
def parseObs (s : String) : Option (Nat × Nat × Nat × Nat) :=
  match (s.splitOn ".").mapM String.toNat? with
  | some [p, k] => if p < NPEER && k < 2 then some (p, k, 0, 0) else none
  | some [p, k, v] => if p < NPEER && k < 2 && v < 3 then some (p, k, v, 0) else none
  | some [p, k, v, q] => if p < NPEER && k < 2 && v < 3 && q < 2 then some (p, k, v, q) else none
  | _ => none

/-- `P.J`: peer, how many notifications back (0 = the latest, .. 3) -/
def parsePJ (s : String) : Option (Nat × Nat) :=
  match (s.splitOn ".").mapM String.toNat? with
  | some [p, j] => if p < NDGRAM && j < 4 then some (p, j) else none
  | _ => none

/-- `P.D.H`: peer, delay of the async response (ticks, 0 = never), time the handler takes when re-invoked (ticks) -/
def parseSlow (s : String) : Option (Nat × Nat × Nat) :=
  match (s.splitOn ".").mapM String.toNat? with
  | some [p, d, h] => if p < NPEER && d < 10000000 && h < 10000000 then some (p, d, h) else none
  | _ => none

/-- `P.V`: datagram peer, kind of ACK (0 = empty, 1 = request code 0.01, 2 = invalid code class 1.00) -/
def parseAck (s : String) : Option (Nat × Nat) :=
  match (s.splitOn ".").mapM String.toNat? with
  | some [p, v] => if p < NDGRAM && v < 3 then some (p, v) else none
  | _ => none

def parseEvent (tok : String) : Option Event :=
  match tok.toList with
  | [] => none
  | c :: rest =>
    let arg := String.ofList rest
    if c = 'r' then (parsePK arg).map fun (p, _) => .rx (peerOf p) .plain
    else if c = 'o' then (parseObs arg).map fun (p, k, v, q) => .rx (peerOf p) (.obsReg k q v)
    else if c = 'd' then (parseObs arg).map fun (p, k, v, q) => .rx (peerOf p) (.obsDereg k q v)
    else if c = 'c' then (if arg = "0" then some (.changed 0) else if arg = "1" then some (.changed 1) else none)
    else if c = 't' then (parsePJ arg).map fun (p, j) => .noteRst (peerOf p) j
    else if c = 'y' then (parsePJ arg).map fun (p, j) => .noteAck (peerOf p) j
    else if c = 'a' then (parsePK arg).map fun (p, _) => .rx (peerOf p) .async
    else if c = 'b' then (parseSlow arg).map fun (p, d, h) => .rx (peerOf p) (.slow d h)
    else if c = 'I' then arg.toNat?.bind fun d => if d < 10000000 then some (.ioStale d) else none
    else if c = 'f' then (parsePK arg).map fun (p, _) => .asyncFree (peerOf p)
    else if c = 'q' then (parseDgram arg).map fun p => .ping (peerOf p)
    else if c = 'k' then (parseDgram arg).map fun p => .rst (peerOf p)
    else if c = 'u' then (if arg.contains '.' then none else (parseDgram arg).map fun p => .sendCon (peerOf p))
    else if c = 'g' then (parseAck arg).map fun (p, v) => .ack (peerOf p) (v != 0)
    else if c = 'n' then (parseStream arg).map fun p => .connect (peerOf p)
    else if c = 'z' then (parseStream arg).map fun p => .peerClose (peerOf p)
    else if c = 'e' then (parseStream arg).map fun p => .restRx (peerOf p)
    else if c = 'p' then (parsePart arg).map fun (p, n) => .partialRx (peerOf p) n
    else if c = '+' then (parsePK arg).map fun (p, _) => .appRef (peerOf p)
    else if c = '-' then (parsePK arg).map fun (p, _) => .appRelease (peerOf p)
    else if c = 'x' then (parsePK arg).map fun (p, _) => .disconnect (peerOf p)
    else if c = 'h' then (if arg.contains '.' then none else (parseDgram arg).map fun p => .callHome (peerOf p))
    else if c = 'j' then (if arg.contains '.' then none else (parseDgram arg).map fun p => .endCallHome (peerOf p))
    else if c = 'D' then (if arg = "0" then some (.delResource 0) else if arg = "1" then some (.delResource 1) else none)
    else if c = 'T' then arg.toNat?.map .advance
    else if c = 'm' then arg.toNat?.map .setMaxIdle
    else if c = 's' then arg.toNat?.map .setTimeout
    else if c = 'i' then (if arg = "" then some .io else none)
    else if c = 'w' then arg.toNat?.bind fun k => if k < 3 then some (.ownClient k) else none
    else if c = 'F' then (if arg = "" then some .freeContext else none)
    else none

/-- index of the NEW event of session `sid` -/
def idxOf (evs : List SEvent) (sid : Nat) : Option Nat :=
  let news := evs.filterMap fun e => match e with | .new s => some s | _ => none
  let i := news.idxOf sid
  if i < news.length then some i else none

def showIdx (evs : List SEvent) (sid : Nat) : String :=
  match idxOf evs sid with
  | some i => toString i
  | none => "?"

def showEvents (all : List SEvent) (fresh : List SEvent) : String :=
  if fresh.isEmpty then "-" else
  String.intercalate "," (fresh.map fun e => match e with
    | .new s => "N" ++ showIdx all s
    | .del s => "D" ++ showIdx all s
    | .handed s => "X" ++ showIdx all s)

def showState (st : St) : String :=
  if st.freed then "R- I0/0/0" else
  -- M's `ref`; S's holder count is printed next to it only if it differs (by `ref_eq_holders` it never does), so the
  -- reference counts the implementation is compared with ARE the numbers of holders
  let rs := st.sessions.map fun s => toString s.idx ++ "=" ++ toString s.ref ++
    (if s.ref = st.holds s.sid then "" else "!holds" ++ toString (st.holds s.sid)) ++ "@" ++ toString s.last ++
    "#" ++ toString s.notes ++ (if s.pend = 0 then "" else "~" ++ toString s.pend) ++
    -- `^n`: n nodes in session->delayqueue (datagram sessions); marked if M's counter and M's node objects disagree
    (if s.delayq = 0 then "" else "^" ++ toString s.delayq) ++
    (if !s.peer.reliable && s.delayq ≠ (st.partials.filter fun x => x.2 == s.sid).length then "!dq" else "") ++
    (if s.peer.reliable && st.partials.any (fun x => x.2 == s.sid) then "*" else "") ++ (if s.closed then "z" else "") ++
    (if s.client then "c" else "")
  "R" ++ (if rs.isEmpty then "-" else String.intercalate "," rs) ++
  " I" ++ toString (st.idleOn 0 COAP_PROTO_UDP).length ++ "/" ++ toString (st.idleOn 1 COAP_PROTO_UDP).length ++
  "/" ++ toString (st.idleOn 2 COAP_PROTO_TCP).length

def showLive (st : St) : String :=
  -- live coap_session_t objects: the endpoints' tables and the client sessions of context->sessions
  "L" ++ toString (st.sessions.length + (if st.freed then 0 else st.nown)) ++ "/" ++ toString (st.holders.filter fun h => isAnyObs h.kind).length ++ "/" ++
  -- coap_queue_t objects alive: the queued messages (holders) and the nodes waiting in the sessions' delay queues
  toString ((st.holders.filter fun h => isNode h.kind).length +
    (st.partials.filter fun x => st.sessions.any fun s => s.sid == x.2 && !s.peer.reliable).length) ++ "/" ++
  toString (st.holders.filter fun h => isAsync h.kind).length ++ "/" ++
  -- references the application holds: coap_session_reference() and coap_session_set_type_client()
  toString (st.holders.filter fun h => isApp h.kind || isHome h.kind).length ++ " C" ++ toString st.now

def showOutcome (st : St) : Outcome → String
  | .handled sid => "h" ++ showIdx st.events sid
  | .ok => "ok"
  | .skip => "skip"

def initSt : St := St.init [(0, COAP_PROTO_UDP), (1, COAP_PROTO_UDP), (2, COAP_PROTO_TCP)] 5

def runTokens : List (String × Event) → St → List String → St × List String
  | [], st, acc => (st, acc.reverse)
  | (tok, e) :: rest, st, acc =>
    if st.freed then (st, acc.reverse) else
    let (st1, o) := st.step e
    let fresh := st1.events.drop st.events.length
    let seg := tok ++ " " ++ showOutcome st1 o ++ " E" ++ showEvents st1.events fresh ++ " " ++ showState st1 ++ " " ++ showLive st1
    runTokens rest st1 (seg :: acc)

def sessStep (args : List String) : String :=
  match args.mapM fun t => (parseEvent t).map fun e => (t, e) with
  | none => "bad-op"
  | some evs =>
    let (st, segs) := runTokens evs initSt []
    let (st, segs) := if st.freed then (st, segs) else
      let (st2, more) := runTokens [("F.", .freeContext)] st []
      (st2, segs ++ more)
    "M " ++ String.intercalate " ; " segs ++ " | ledger=" ++ ledgerVerdict st.ledger ++
      (if ledgerOk st.ledger then "" else " MONITOR-REJECTS")

def parseAlloc (tok : String) : Option AllocEvent :=
  match tok.toList with
  | 'a' :: rest => ((String.ofList rest).splitOn ":").head?.bind String.toNat? |>.map .alloc
  | 'f' :: rest => (String.ofList rest).toNat?.map .free
  | _ => none

/-- `ledger <a<serial>:<tag> | f<serial>>…` (or `-` for the empty trace) → `M <ledgerOk> <diagnostic>` -/
def ledgerStep (args : List String) : String :=
  let args := if args = ["-"] then [] else args
  match args.mapM parseAlloc with
  | none => "bad-op"
  | some tr => "M " ++ toString (ledgerOk tr) ++ " " ++ ledgerVerdict tr

end Coap.Driver.Sessions
