import CoapVerif.Model.WsWriter
import CoapVerif.Spec.WsFrame
import CoapVerif.Driver.Build
/- Line-protocol driver for the WebSocket write side (C01):

     wsw <c|s> <item>;<item>;…      item = W<key8hex>:<val>:<accs>     the caller's loop around coap_ws_write
                                           C<key8hex>:<reason>:<accs>  coap_ws_close with ws->close_reason = reason
                                    accs = `,`-separated, one per l_write call, then `a`:
                                           a (takes everything) | <k> (takes at most k bytes) | -1 (error)

   output: `M up0=<r> rets=<ret>/<offered>/<accepted>[+…],… wire=<digest> | S <the frames of the wire under RFC 6455>`
   (see harness/codec.c, do_wsw). -/
-- DRIVER-OPS: wsw => Coap.Driver.WsWriter.step
namespace Coap.Driver.WsWriter
open Coap Coap.M.WsW Coap.Driver.Build

/-- one scripted behaviour of the lower layer -/
inductive Acc where
  | all | upTo (k : Nat) | err

def accOf (s : String) : Option Acc :=
  if s = "a" then some .all
  else if s = "-1" then some .err
  else s.toNat?.map .upTo

def lwOf : Acc → Nat → Int
  | .all => lwAll
  | .upTo k => fun n => ((min n k : Nat) : Int)
  | .err => fun _ => -1

/-- `a` must be last -/
def accsOf (s : String) : Option (List Acc) :=
  let ws := s.splitOn ","
  match ws.mapM accOf with
  | none => none
  | some as =>
    if (as.dropLast.any fun a => match a with | .all => true | _ => false) then none else some as

inductive Item where
  | write (key data : Bytes) (accs : List Acc)
  | close (key : Bytes) (reason : Nat) (accs : List Acc)

def itemOf (s : String) : Option Item :=
  let kind := s.front
  match ((s.drop 1).toString).splitOn ":" with
  | [k, v, a] =>
    match bytesOfHex k, accsOf a with
    | some key, some accs =>
      if k.length ≠ 8 then none
      else if kind = 'W' then (valOf (if v = "-" then "" else v)).map fun d => Item.write key d accs
      else if kind = 'C' then
        match v.toNat? with
        | some r => if r ≤ 65535 then some (Item.close key r accs) else none
        | none => none
      else none
    | _, _ => none
  | _ => none

def called (st : St) : Bool := st.up && !st.sentClose

def showCall (ret : String) (offered : Option Nat) (acc : Acc) (taken : Nat) : String :=
  match offered with
  | none => ret ++ "/-/-"
  | some o => ret ++ "/" ++ toString o ++ "/" ++ (match acc with | .err => "-1" | _ => toString taken)

/-- the harness's caller loop: at most `fuel` calls -/
def writeLoop (key : Bytes) : (fuel : Nat) → St → Bytes → List Acc → List String × St × Bytes × List Acc
  | 0, st, _, accs => ([], st, [], accs)
  | fuel + 1, st, rest, accs =>
    let acc := accs.headD .all
    let accs' := accs.drop 1
    let offered := if called st then some (wsWrite st key rest lwAll).2.2.length else none
    let r := wsWrite st key rest (lwOf acc)
    let shown := showCall (toString r.1) offered acc r.2.2.length
    if r.1 < 0 || !called st then ([shown], r.2.1, r.2.2, accs')
    else if r.1.toNat ≥ rest.length then ([shown], r.2.1, r.2.2, accs')
    else
      let q := writeLoop key fuel r.2.1 (rest.drop r.1.toNat) accs'
      (shown :: q.1, q.2.1, r.2.2 ++ q.2.2.1, q.2.2.2)

def runItems : St → List Item → List String × Bytes
  | _, [] => ([], [])
  | st, .write key data accs :: rest =>
    let q := writeLoop key 64 st data accs
    let r := runItems q.2.1 rest
    (String.intercalate "+" q.1 :: r.1, q.2.2.1 ++ r.2)
  | st, .close key reason accs :: rest =>
    let acc := accs.headD .all
    let st0 := { st with closeReason := reason }
    let offered := if called st0 then some (wsClose st0 key lwAll).2.length else none
    let q := wsClose st0 key (lwOf acc)
    let r := runItems q.1 rest
    (showCall "c" offered acc q.2.length :: r.1, q.2 ++ r.2)

def showFrame (f : Spec.WsFrame.Frame) : String :=
  (if f.fin then "F" else "f") ++ toString f.rsv ++ "." ++ toString f.opcode ++ "." ++ (if f.masked then "m" else "u") ++
  "." ++ hexOrDash f.key ++ "." ++ dg f.payload

def step (args : List String) : String :=
  match args with
  | [role, items] =>
    let r : Option Role := if role = "c" then some .client else if role = "s" then some .server else none
    match r, (items.splitOn ";").mapM itemOf with
    | some role, some its =>
      let up0 := wsWrite { up := false, role := role } [] [1] lwAll
      let out := runItems { role := role } its
      let m := "up0=" ++ toString up0.1 ++ (if up0.2.2.isEmpty then "" else "!written") ++ " rets=" ++
               String.intercalate "," out.1 ++ " wire=" ++ dg out.2
      let s := match Spec.WsFrame.decodeAll (out.2.length + 1) out.2 with
        | some fs => "frames=" ++ (if fs.isEmpty then "-" else String.intercalate "," (fs.map showFrame))
        | none => "not-frames"
      "M " ++ m ++ " | S " ++ s
    | _, _ => "M bad-op"
  | _ => "M bad-op"

end Coap.Driver.WsWriter
