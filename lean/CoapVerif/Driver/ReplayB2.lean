import CoapVerif.Model.ReplayB2
-- DRIVER-OPS: b2c => Coap.Driver.ReplayB2.b2cStep
-- DRIVER-OPS: b2s => Coap.Driver.ReplayB2.b2sStep
namespace Coap.Driver.ReplayB2
open Coap.Replay Coap.ReplayB2

def hexDigit (n : Nat) : Char := if n < 10 then Char.ofNat (48 + n) else Char.ofNat (87 + n)
def hexBytes (l : List Nat) : String :=
  if l.isEmpty then "-" else String.mk (l.foldr (fun b acc => hexDigit (b / 16 % 16) :: hexDigit (b % 16) :: acc) [])

/-- the ID Context the harness configures (ID1) -/
def id1 : List Nat := [0x11, 0x22, 0x33, 0x44, 0x55, 0x66, 0x77, 0x88]

/-- the kid context field of the event (`none` of the outer option: the event is refused) -/
def evField (s : B2) (ev : String) : Option (Option (List Nat)) :=
  match ev.toList with
  | ['z'] => some none
  | ['e'] => some (some [])
  | ['u'] => some (some [0x5f, 0x01])
  | ['i'] => if s.idctx.length > 23 then none else some (some ((0x40 + s.idctx.length) :: s.idctx))
  | 'f' :: ds =>
    match (String.mk ds).toNat? with
    | some k => if k > 23 then none else some (some ((0x40 + k) :: (List.range k).map (fun j => 0xc0 + j)))
    | none => none
  | _ => none

def showV : Verdict → String
  | .acc => "acc" | .drop => "drop" | _ => "other"

def loop : B2 → List String → List String
  | _, [] => []
  | s, ev :: r =>
    match evField s ev with
    | none => "bad-ev" :: loop s r
    | some kc =>
      let x := recvForged s kc
      (showV x.2 ++ ":" ++ toString x.1.step ++ "," ++ hexBytes x.1.idctx) :: loop x.1 r

def b2cStep (args : List String) : String :=
  if args.isEmpty then "bad-op" else "M " ++ String.intercalate " " (loop { step := 1, idctx := id1 } args)

def r2v : List Nat := [1, 2, 3, 4, 5, 6, 7, 8]

def showSrv (s : Srv) : String :=
  toString s.step ++ "," ++ (if s.r2.isSome then "1" else "0") ++ "," ++ toString s.ctxs.length ++
    String.join (s.ctxs.map (fun c => "," ++ (match c with | some i => hexBytes i | none => "-")))

def showSV : Verdict → String
  | .rej401 => "rej401" | .rej400 => "rej400" | .acc => "acc" | .drop => "drop" | _ => "other"

def sevField (ev : String) : Option (List Nat) :=
  match ev.toList with
  | c :: ds =>
    if c = 'x' ∨ c = 'X' then
      match (String.mk ds).toNat? with
      | some k => if k > 23 then none else some ((0x40 + k) :: (List.range k).map (fun j => (if c = 'x' then 0xc0 else 0xd0) + j))
      | none => none
    else none
  | _ => none

def sloop : Srv → List String → List String
  | _, [] => []
  | s, ev :: r =>
    if ev = "R" then
      -- set-up: oscore_r2 = R2, oscore_update_ctx(first context, R2 || ID1)
      let s' : Srv := { s with r2 := some r2v, ctxs := s.ctxs.set 0 (some (r2v ++ id1)) }
      ("set:" ++ showSrv s') :: sloop s' r
    else
      match sevField ev with
      | none => "bad-ev" :: sloop s r
      | some w =>
        let x := recvForgedReq s w
        (showSV x.2 ++ ":" ++ showSrv x.1) :: sloop x.1 r

def b2sStep (args : List String) : String :=
  if args.isEmpty then "bad-op" else "M " ++ String.intercalate " " (sloop { step := 0, r2 := none, ctxs := [none] } args)

end Coap.Driver.ReplayB2
