import CoapVerif.Spec.Oscore
import CoapVerif.Spec.OscoreSeq
import CoapVerif.Spec.OscoreCtx
import CoapVerif.Spec.OscoreCtxSeq
import CoapVerif.Model.Oscore
import CoapVerif.Model.OscoreAssoc
import CoapVerif.Model.OscoreCtx
import CoapVerif.Model.OscoreSrv
import CoapVerif.Model.OscoreDispatch
import CoapVerif.Driver.Codec
/- Line-protocol driver for the OSCORE property C14: S's protected bytes / verdicts for the same
   inputs the C harness gets (harness/oscore.c), and M's helper outputs. -/
-- DRIVER-OPS: osc => Coap.Driver.Oscore.oscStep
-- DRIVER-OPS: tamper => Coap.Driver.Oscore.tamperStep
-- DRIVER-OPS: oseq => Coap.Driver.Oscore.oseqStep
-- DRIVER-OPS: oscm => Coap.Driver.Oscore.oscmStep
-- DRIVER-OPS: findctx => Coap.Driver.Oscore.findctxStep
-- DRIVER-OPS: oinj => Coap.Driver.Oscore.oinjStep
-- DRIVER-OPS: oscx => Coap.Driver.Oscore.oscxStep
-- DRIVER-OPS: olen => Coap.Driver.Oscore.olenStep
-- DRIVER-OPS: odisp => Coap.Driver.Oscore.odispStep
-- DRIVER-OPS: oend => Coap.Driver.Oscore.oendStep
-- DRIVER-OPS: optenc => Coap.Driver.Oscore.optencStep
-- DRIVER-OPS: optdec => Coap.Driver.Oscore.optdecStep
-- DRIVER-OPS: aad => Coap.Driver.Oscore.aadStep
-- DRIVER-OPS: nonce => Coap.Driver.Oscore.nonceStep
-- DRIVER-OPS: derive => Coap.Driver.Oscore.deriveStep
-- DRIVER-OPS: sha256 => Coap.Driver.Oscore.shaStep
-- DRIVER-OPS: hmac => Coap.Driver.Oscore.hmacStep
-- DRIVER-OPS: hkdf => Coap.Driver.Oscore.hkdfStep
-- DRIVER-OPS: ccm => Coap.Driver.Oscore.ccmStep
namespace Coap.Driver.Oscore
open Coap Coap.Spec.Crypto Coap.Spec.Oscore

def optBytes (s : String) : Option (Option Bytes) :=
  if s = "none" then some none else (bytesOfHex s).map some

def paramsOf (w : List String) : Option Params :=
  match w with
  | [secret, salt, idctx, sid, rid] => do
    let secret ← bytesOfHex secret
    let salt ← if salt = "none" then some [] else bytesOfHex salt
    let idctx ← optBytes idctx
    let sid ← bytesOfHex sid
    let rid ← bytesOfHex rid
    pure ⟨secret, salt, idctx, sid, rid⟩
  | _ => none

/-- the UDP wire form of a message (RFC 7252 §3), used to print S's protected datagram -/
def encodeUdp (m : Msg) : Bytes :=
  let tk := m.token.length
  UInt8.ofNat (64 + m.type * 16 + extNib tk) :: UInt8.ofNat m.code :: UInt8.ofNat (m.mid / 256) :: UInt8.ofNat (m.mid % 256) ::
    (extBytes tk ++ m.token ++ encOpts 0 m.opts ++ (if m.payload = [] then [] else 0xFF :: m.payload))

def showVerdict (v : Verdict) : String :=
  match v with
  | .ok m _ => Coap.Driver.showMsg m
  | .rej => "rej"
  | .plain => "plain"

/-- a datagram arriving at an endpoint: requests are verified against the context (§8.2), anything
else against the binding recorded for its token (§8.4) -/
def deliver (c : Ctx) (bind : Option (Bytes × Binding)) (dg : Bytes) : Option Verdict :=
  match Spec.decode .udp dg with
  | none => none
  | some m =>
    if isRequest m.code then some (unprotectRequest aes128 c m)
    else some (unprotectResponse aes128 c (match bind with
                                          | some (tok, b) => if tok = m.token then some b else none
                                          | none => none) m)

def showDelivery (v : Option Verdict) : String :=
  match v with
  | none => "unparsable"
  | some v => showVerdict v

def sepMidOf (s : String) : Option Nat := if s.startsWith "-" then none else s.toNat?

/-- responses of one exchange; the server's binding disappears after a response without Observe
registration (the request carried no Observe) -/
def responses (cl sv : Ctx) (observe : Bool) (newmid : Option Nat) :
    (sb : Option Binding) → (cbind : Option (Bytes × Binding)) → (seq : Nat) → List String → String
  | sb, cbind, seq, r :: f :: rest =>
    match bytesOfHex r with
    | none => " resp=bad-input"
    | some rb =>
      match Spec.decode .udp rb, sb with
      | none, _ => " resp=bad-input"
      | some _, none => " resp=fail" ++ responses cl sv observe newmid sb cbind seq rest
      | some rm, some b =>
        let fresh := ownPiv (f = "1") observe rm          -- D14.5: `observe` = the request carried Observe
        match protectResponseFor aes128 sv b observe rm (f = "1") seq newmid with
        | none => " resp=fail" ++ responses cl sv observe newmid sb cbind seq rest
        | some pm =>
          let dg := encodeUdp pm
          let v := deliver cl cbind dg
          let keepC := match v with
            | some (.ok _ _) => observe
            | _ => true
          " resp=" ++ hexOrDash dg ++ " uresp=" ++ showDelivery v ++
            responses cl sv observe newmid (if observe then sb else none) (if keepC then cbind else none)
              (if fresh then seq + 1 else seq) rest
  | _, _, _, _ => ""

def oscStep (w : List String) : String :=
  match paramsOf (w.take 5), paramsOf ((w.drop 5).take 5), w.drop 10 with
  | some pc, some ps, cseq :: sseq :: newmid :: req :: rest =>
    match cseq.toNat?, sseq.toNat?, (bytesOfHex req).bind (Spec.decode .udp) with
    | some cseq, some sseq, some rm =>
      let cl := derive pc
      let sv := derive ps
      match protectRequest aes128 cl rm cseq with
      | none => "M req=fail"
      | some (pm, cb) =>
        let dg := encodeUdp pm
        let v := deliver sv none dg
        let sb := match v with
          | some (.ok _ b) => some b
          | _ => none
        -- both ends keep the binding for further responses iff the request carries Observe
        "M req=" ++ hexOrDash dg ++ " ureq=" ++ showDelivery v ++
          (if sb.isNone then "" else   -- no response to a request that was not accepted
           responses cl sv (hasObserve rm.opts) (sepMidOf newmid) sb (some (rm.token, cb)) sseq rest)
    | _, _, _ => "bad-input"
  | _, _, _ => "bad-op"

/-! ### `oseq`: a sequence of exchanges on one client / server pair (S: Spec/OscoreSeq.lean, transcript;
M: Model/OscoreAssoc.lean, trace of the client's association store) -/

structure SeqSt where
  cseq : Nat
  sseq : Nat
  cst : Store                      -- S: the client's bindings
  sst : Store                      -- S: the server's bindings
  held : List Bytes
  mas : List M.Oscore.Assoc        -- M: the client's `session->associations`
  out : String
  tr : String

def showAssoc (full : Bool) (a : Option M.Oscore.Assoc) : String :=
  match a with
  | none => "none"
  | some a =>
    hexOrDash a.piv ++ (if full then "," ++ hexOrDash a.nonce ++ "," ++ hexOrDash a.aad else "") ++
      "," ++ (if a.isObserve then "1" else "0")

/-- M: does `coap_oscore_decrypt_pdu` accept response `m` under the association of its token?
(AES-CCM is the oracle GnuTLS is on the implementation side) -/
def mVerifies (cl : Ctx) (mas : List M.Oscore.Assoc) (m : Msg) : Bool :=
  match M.Oscore.findAssoc mas m.token, oscoreValue m.opts with
  | some a, some ov =>
    match M.Oscore.decodeOptionValue ov with
    | .ok cose =>
      match M.Oscore.responseInputs cl.alg cl.commonIV cl.sid cl.rid a cose.piv with
      | .ok (n, ad) =>
        match aeadOpen aes128 cl.recipientKey n ad m.payload with
        | some pt => (decPlain pt).isSome
        | none => false
      | _ => false
    | _ => false
  | _, _ => false

/-- a datagram arrives at the client -/
def seqDeliverC (cl : Ctx) (st : SeqSt) (tag : String) (dg : Bytes) : SeqSt :=
  match Spec.decode .udp dg with
  | none => { st with out := st.out ++ " " ++ tag ++ "=unparsable", tr := st.tr ++ " d:unparsable" }
  | some m =>
    let (v, cst') := clientRecv aes128 cl st.cst m
    let mas' := if (oscoreValue m.opts).isSome then M.Oscore.decryptAssoc st.mas m.token (mVerifies cl st.mas m) else st.mas
    { st with cst := cst', mas := mas', out := st.out ++ " " ++ tag ++ "=" ++ showVerdict v,
              tr := st.tr ++ " d:" ++ showAssoc false (M.Oscore.findAssoc mas' m.token) }

def oseqSteps (cl sv : Ctx) (newmid : Option Nat) : (fuel : Nat) → SeqSt → List String → SeqSt
  | 0, st, _ => st
  | _, st, [] => st
  | fuel + 1, st, "q" :: req :: how :: rest =>
    match (bytesOfHex req).bind (Spec.decode .udp) with
    | none => { st with out := st.out ++ " req=bad-input" }
    | some rm =>
      match clientSend aes128 cl st.cst rm st.cseq with
      | none =>
        oseqSteps cl sv newmid fuel
          { st with out := st.out ++ " req=fail", tr := st.tr ++ " q:" ++ showAssoc true (M.Oscore.findAssoc st.mas rm.token) } rest
      | some (pm, cst') =>
        let dg := encodeUdp pm
        let piv := pivBytes st.cseq
        -- M: what `cose` holds after protecting: nonce, aad, partial_iv through libcoap's own helpers
        let obsVal := match rm.opts.filter (fun o => o.1 = optObserve) |>.getLast? with
          | some o => uintVal o.2
          | none => 0
        let (mas', trq) := match M.Oscore.generateNonce cl.commonIV cl.sid piv with
          | .ok n =>
            let mas' := M.Oscore.protectAssoc st.mas rm.token (M.Oscore.prepareAad (M.Oscore.prepareEAad cl.alg cl.sid piv)) n piv
                          (hasObserve rm.opts) obsVal
            (mas', showAssoc true (M.Oscore.findAssoc mas' rm.token))
          | _ => (st.mas, "oob")
        let st1 := { st with cseq := st.cseq + 1, cst := cst', mas := mas', out := st.out ++ " req=" ++ hexOrDash dg,
                             tr := st.tr ++ " q:" ++ trq }
        let st2 :=
          if how.startsWith "d" then
            match Spec.decode .udp dg with
            | none => { st1 with out := st1.out ++ " ureq=unparsable" }
            | some m =>
              let (v, sst') := serverRecv aes128 sv st1.sst m
              { st1 with sst := sst', out := st1.out ++ " ureq=" ++ showVerdict v }
          else st1
        oseqSteps cl sv newmid fuel st2 rest
  | fuel + 1, st, "r" :: resp :: f :: how :: rest =>
    match (bytesOfHex resp).bind (Spec.decode .udp) with
    | none => { st with out := st.out ++ " resp=bad-input" }
    | some rm =>
      let fresh := serverOwnPiv st.sst rm (f = "1")
      match serverSend aes128 sv st.sst rm (f = "1") st.sseq newmid with
      | none => oseqSteps cl sv newmid fuel { st with out := st.out ++ " resp=fail" } rest
      | some (pm, sst') =>
        let dg := encodeUdp pm
        let st1 := { st with sseq := if fresh then st.sseq + 1 else st.sseq, sst := sst', out := st.out ++ " resp=" ++ hexOrDash dg }
        let st2 :=
          if how = "d" then seqDeliverC cl st1 "uresp" dg
          else if how = "dd" then seqDeliverC cl (seqDeliverC cl st1 "uresp" dg) "uresp2" dg
          else if how = "h" ∧ st1.held.length < 8 then { st1 with held := st1.held ++ [dg], out := st1.out ++ " held" }
          else st1
        oseqSteps cl sv newmid fuel st2 rest
  | fuel + 1, st, "f" :: idx :: rest =>
    let st1 := match idx.toNat?.bind (fun i => st.held[i]?) with
      | some dg => seqDeliverC cl st "late" dg
      | none => { st with out := st.out ++ " late=none" }
    oseqSteps cl sv newmid fuel st1 rest
  | _, st, _ => { st with out := st.out ++ " bad-step" }

/-- `oseq <C: 5> <S: 5> <cseq> <sseq> <newmid|-1> { q <req> <d|l> | r <resp> <piv 0|1> <d|l|h|dd> | f <idx> }*` -/
def oseqStep (w : List String) : String :=
  match paramsOf (w.take 5), paramsOf ((w.drop 5).take 5), w.drop 10 with
  | some pc, some ps, cseq :: sseq :: newmid :: steps =>
    match cseq.toNat?, sseq.toNat? with
    | some cseq, some sseq =>
      let st := oseqSteps (derive pc) (derive ps) (sepMidOf newmid) (steps.length + 1) ⟨cseq, sseq, [], [], [], [], "", ""⟩ steps
      "M" ++ st.tr ++ " | S seq" ++ st.out
    | _, _ => "bad-input"
  | _, _, _ => "bad-op"

/-! ### several security contexts at the server: `oscm` (one exchange, S: Spec/OscoreCtx.lean) and `findctx`
(store operations and lookups, M: Model/OscoreCtx.lean) -/

/-- `-,01,0203`: a list of ids -/
def idsOf (s : String) : Option (List Bytes) := (s.splitOn ",").mapM bytesOfHex

def showPos (o : Option (Nat × Nat)) : String :=
  match o with
  | some (i, j) => toString i ++ "." ++ toString j
  | none => "none"

/-- one server context of an `oscm` line: `<secret> <salt> <idctx> <sid> <rid[,rid]*>` -/
def serverEntryOf (w : List String) : Option (Params × List Bytes) :=
  match w with
  | [secret, salt, idctx, sid, rids] => do
    let p ← paramsOf [secret, salt, idctx, sid, "-"]
    let rs ← idsOf rids
    pure (p, rs)
  | _ => none

def serverEntries : Nat → List String → Option (List (Params × List Bytes) × List String)
  | 0, w => some ([], w)
  | n + 1, w => do
    let e ← serverEntryOf (w.take 5)
    if w.length < 5 then none else
    let (es, rest) ← serverEntries n (w.drop 5)
    pure (e :: es, rest)

/-- `oscm <C: 5> <cseq> <sseq> <newmid|-1> <nS> {<secret> <salt> <idctx> <sid> <rid[,rid]*>}*nS <req> [<resp> <piv 0|1>]*`:
one exchange with a server that holds nS security contexts (each with one or more Recipient IDs).
S: the server's contexts are the derived (context, Recipient ID) pairs; the request is handled by the one it names
(D14.18) and the responses are protected with that context.  M: the position `oscore_find_context` returns in the
store libcoap builds (`deriveCtx` per context). -/
def oscmStep (w : List String) : String :=
  match paramsOf (w.take 5), w.drop 5 with
  | some pc, cseq :: sseq :: newmid :: ns :: rest0 =>
    match cseq.toNat?, sseq.toNat?, ns.toNat?.bind (fun n => serverEntries n rest0) with
    | some cseq, some sseq, some (es, req :: rest) =>
      match (bytesOfHex req).bind (Spec.decode .udp) with
      | none => "bad-input"
      | some rm =>
        let cl := derive pc
        let svs : List Ctx := es.flatMap fun e => e.2.map fun rid => derive { e.1 with rid := rid }
        let store : Option M.Oscore.CtxStore :=
          es.foldl (fun st e => st.bind fun cs => M.Oscore.deriveCtx cs e.1.idctx e.2) (some [])
        match protectRequest aes128 cl rm cseq with
        | none => "M sel=none | S req=fail"
        | some (pm, cb) =>
          let dg := encodeUdp pm
          let parsed := Spec.decode .udp dg
          let v : Option Verdict := parsed.map (unprotectRequestAny aes128 svs)
          let sv : Option Ctx := parsed.bind (selectFor svs)
          let msel : String :=
            match store, parsed.bind (fun m => oscoreValue m.opts) with
            | some cs, some ov =>
              (match M.Oscore.decodeOptionValue ov with
               | .ok cose =>
                 (match cose.kid with
                  | some kid => showPos (M.Oscore.findContext cs kid (some (cose.kidctx.getD [])) none)
                  | none => "none")
               | _ => "none")
            | none, _ => "bad-store"
            | _, none => "none"
          let sb := match v with
            | some (.ok _ b) => some b
            | _ => none
          "M sel=" ++ msel ++ " | S req=" ++ hexOrDash dg ++ " ureq=" ++ showDelivery v ++
            (match sb, sv with
             | some _, some svc => responses cl svc (hasObserve rm.opts) (sepMidOf newmid) sb (some (rm.token, cb)) sseq rest
             | _, _ => "")
    | _, _, _ => "bad-input"
  | _, _ => "bad-op"

def showStore (cs : M.Oscore.CtxStore) : String :=
  if cs.isEmpty then "-" else
  ";".intercalate (cs.map fun c =>
    (match c.idctx with | some x => hexOrDash x | none => "none") ++ ":" ++
      (if c.rcps.isEmpty then "" else ",".intercalate (c.rcps.map hexOrDash)))

def unambiguousB (ps : List Pos) : Bool :=
  match ps with
  | [] => true
  | p :: rest => rest.all (fun q => !(decide (p.rid = q.rid) && decide (p.idctx.getD [] = q.idctx.getD []))) && unambiguousB rest

/-- the steps of a `findctx` line; `m` = M's outputs, `s` = S's answers to the lookups of `coap_oscore_decrypt_pdu`'s
kind (kid context given, no `oscore_r2`): the first pair the request names (D14.18), `-` for everything else -/
def findctxSteps : (fuel : Nat) → M.Oscore.CtxStore → String → String → List String → String × String × M.Oscore.CtxStore
  | 0, cs, m, s, _ => (m, s, cs)
  | _, cs, m, s, [] => (m, s, cs)
  | fuel + 1, cs, m, s, "c" :: idctx :: rids :: rest =>
    match optBytes idctx, idsOf rids with
    | some ic, some rs =>
      (match M.Oscore.deriveCtx cs ic rs with
       | some cs' => findctxSteps fuel cs' (m ++ " c:1") (s ++ " -") rest
       | none => findctxSteps fuel cs (m ++ " c:0") (s ++ " -") rest)
    | _, _ => (m ++ " bad-step", s, cs)
  | fuel + 1, cs, m, s, "a" :: rid :: rest =>
    match bytesOfHex rid with
    | some r =>
      (match M.Oscore.newRecipient cs r with
       | some cs' => findctxSteps fuel cs' (m ++ " a:1") (s ++ " -") rest
       | none => findctxSteps fuel cs (m ++ " a:0") (s ++ " -") rest)
    | none => (m ++ " bad-step", s, cs)
  | fuel + 1, cs, m, s, "d" :: rid :: rest =>
    match bytesOfHex rid with
    | some r =>
      (match M.Oscore.deleteRecipient cs r with
       | some cs' => findctxSteps fuel cs' (m ++ " d:1") (s ++ " -") rest
       | none => findctxSteps fuel cs (m ++ " d:0") (s ++ " -") rest)
    | none => (m ++ " bad-step", s, cs)
  | fuel + 1, cs, m, s, "f" :: kid :: kc :: r2 :: rest =>
    match bytesOfHex kid, (if kc = "null" then some none else (bytesOfHex kc).map some), optBytes r2 with
    | some kid, some kc, some r2 =>
      let sAns := match kc, r2 with
        | some k, none =>
          "f:" ++ showPos (((positions cs).find? fun p => namesId ⟨[], some k, some kid⟩ p.rid p.idctx).map fun p => (p.i, p.j)) ++
            (if unambiguousB (positions cs) then "" else "~")
        | _, _ => "-"
      findctxSteps fuel cs (m ++ " f:" ++ showPos (M.Oscore.findContext cs kid kc r2)) (s ++ " " ++ sAns) rest
    | _, _, _ => (m ++ " bad-step", s, cs)
  | _, cs, m, s, _ => (m ++ " bad-step", s, cs)

/-- `findctx { c <idctx|none> <rid[,rid]*> | a <rid> | d <rid> | f <kid> <kidctx|null> <r2|none> }*`: a context store built
through libcoap's API (`c` = coap_context_oscore_server, `a` / `d` = coap_new / coap_delete_oscore_recipient) and lookups
with `oscore_find_context` -/
def findctxStep (w : List String) : String :=
  let (m, s, cs) := findctxSteps (w.length + 1) [] "" "" w
  "M fc" ++ m ++ " store=" ++ showStore cs ++ " | S fc" ++ s

/-! ### `oinj`: outer options added to a protected datagram on the path (S: §8.2 / §8.4 step 1 — class E outer options are
discarded, `mergeOpts`; M: the first loop of `coap_oscore_decrypt_pdu`, `decryptSkips` / `decryptMerge`) -/

/-- `60:7fff,12:-,2048:01` -/
def injsOf (s : String) : Option (List (Nat × Bytes)) :=
  (s.splitOn ",").mapM fun it =>
    match it.splitOn ":" with
    | [n, v] => do
      let n ← n.toNat?
      let v ← bytesOfHex (if v = "" then "-" else v)
      pure (n, v)
    | _ => none

/-- `oinj <C: 5> <S: 5> <cseq> <sseq> <newmid|-1> <req> <resp|-> <piv 0|1> <q|r> <num:hex[,num:hex]*>` -/
def oinjStep (w : List String) : String :=
  match paramsOf (w.take 5), paramsOf ((w.drop 5).take 5), w.drop 10 with
  | some pc, some ps, [cseq, sseq, newmid, req, resp, f, which, inj] =>
    match cseq.toNat?, sseq.toNat?, (bytesOfHex req).bind (Spec.decode .udp), injsOf inj with
    | some cseq, some sseq, some rm, some injs =>
      let cl := derive pc
      let sv := derive ps
      match protectRequest aes128 cl rm cseq with
      | none => "setup-fail"
      | some (pm, cb) =>
        -- (protected message, recipient's context, its binding, the original message, Partial IV the Observe value comes from)
        let target : Option (Msg × Ctx × Option (Bytes × Binding) × Msg × Bytes) :=
          if which = "q" then some (pm, sv, none, rm, []) else
          match deliver sv none (encodeUdp pm), (bytesOfHex resp).bind (Spec.decode .udp) with
          | some (.ok _ b), some rsp =>
            let fresh := ownPiv (f = "1") (hasObserve rm.opts) rsp
            (protectResponseFor aes128 sv b (hasObserve rm.opts) rsp (f = "1") sseq (sepMidOf newmid)).map
              fun p => (p, cl, some (rm.token, cb), rsp, if fresh then pivBytes sseq else pivBytes cseq)
          | _, _ => none
        match target with
        | none => "setup-fail"
        | some (tm, c, bind, orig, pivObs) =>
          let opts' := injs.foldl M.Oscore.insertOpt tm.opts
          let dg := encodeUdp { tm with opts := opts' }
          let isReq := which = "q"
          let mopts := M.Oscore.decryptMerge isReq pivObs opts' (innerOpts isReq orig.opts)
          "M opts=" ++ Coap.Driver.showOpts mopts ++ " | S dg=" ++ hexOrDash dg ++ " u=" ++ showDelivery (deliver c bind dg)
    | _, _, _, _ => "bad-input"
  | _, _, _ => "bad-op"

/-! ### `olen`: the value of the OSCORE option made longer on the path (S: §2 — the option is 0..255 bytes long, `optDecode`;
libcoap: `coap_pdu_parse()` refuses an OSCORE option of more than 255 bytes, so `coap_oscore_decrypt_pdu`'s `uint8_t osc_size`
never sees one) -/

/-- `olen <C: 5> <S: 5> <cseq> <sseq> <newmid|-1> <req> <resp|-> <piv 0|1> <q|r> <extra> <fill>` -/
def olenStep (w : List String) : String :=
  match paramsOf (w.take 5), paramsOf ((w.drop 5).take 5), w.drop 10 with
  | some pc, some ps, [cseq, sseq, newmid, req, resp, f, which, extra, fill] =>
    match cseq.toNat?, sseq.toNat?, (bytesOfHex req).bind (Spec.decode .udp), extra.toNat?, bytesOfHex fill with
    | some cseq, some sseq, some rm, some extra, some [fb] =>
      let cl := derive pc
      let sv := derive ps
      match protectRequest aes128 cl rm cseq with
      | none => "setup-fail"
      | some (pm, cb) =>
        let target : Option (Msg × Ctx × Option (Bytes × Binding)) :=
          if which = "q" then some (pm, sv, none) else
          match deliver sv none (encodeUdp pm), (bytesOfHex resp).bind (Spec.decode .udp) with
          | some (.ok _ b), some rsp =>
            (protectResponseFor aes128 sv b (hasObserve rm.opts) rsp (f = "1") sseq (sepMidOf newmid)).map
              fun p => (p, cl, some (rm.token, cb))
          | _, _ => none
        match target with
        | none => "setup-fail"
        | some (tm, c, bind) =>
          let opts' := tm.opts.map fun o => if o.1 = optOscore then (o.1, o.2 ++ List.replicate extra fb) else o
          let m' := { tm with opts := opts' }
          let ov := (oscoreValue opts').getD []
          -- M: `oscore_decode_option_value` on the whole value (the caller hands the length on unchanged)
          let md := match M.Oscore.decodeOptionValue ov with | .ok _ => "ok" | .rej => "rej" | .oob => "oob"
          let v := if isRequest m'.code then unprotectRequest aes128 c m'
                   else unprotectResponse aes128 c (match bind with
                                                    | some (tok, b) => if tok = m'.token then some b else none
                                                    | none => none) m'
          "M len=" ++ toString ov.length ++ " dec=" ++ md ++ " | S len=" ++ toString ov.length ++ " u=" ++ showVerdict v
    | _, _, _, _, _ => "bad-input"
  | _, _, _ => "bad-op"

/-! ### `odisp`: protected and plain requests through `coap_dispatch()` on ONE server session (M: Model/OscoreDispatch.lean;
S: the property — a request that is not protected with the context is rejected without the handler running when the resource
is OSCORE only) -/

def showDOut : M.Oscore.DOut → String
  | .nothing => "-"
  | .protectedResp => "68E"
  | .clear c => toString c ++ "C"

/-- the Uri-Path of the request is `o` (OSCORE only resource) / `p` -/
def resourceOnly (m : Msg) : Option Bool :=
  match m.opts.filter fun o => o.1 = 11 with
  | [(_, [111])] => some true
  | [(_, [112])] => some false
  | _ => none

def odispSteps (cl sv : Ctx) : Nat → M.Oscore.DSess → String → String → List String → String × String
  | seq, s, m, sp, k :: req :: rest =>
    match (bytesOfHex req).bind (Spec.decode .udp) with
    | none => (m ++ " bad-input", sp)
    | some rm =>
      match resourceOnly rm with
      | none => (m ++ " bad-input", sp)
      | some only =>
        if k = "o" then
          match protectRequest aes128 cl rm seq with
          | none => odispSteps cl sv seq s (m ++ " o:fail") (sp ++ " o:fail") rest
          | some (pm, _) =>
            let verified := match unprotectRequest aes128 sv pm with | .ok _ _ => true | _ => false
            let r := M.Oscore.dispatch 68 s (.osc verified only)
            odispSteps cl sv (seq + 1) r.sess (m ++ " o:h" ++ (if r.handler then "1" else "0") ++ "," ++ showDOut r.out)
              (sp ++ " o:h" ++ (if verified then "1" else "0")) rest
        else
          let r := M.Oscore.dispatch 68 s (.plain only)
          -- S / the property: a plain request reaches the handler of a resource that is not OSCORE only, and no other
          odispSteps cl sv seq r.sess (m ++ " p:h" ++ (if r.handler then "1" else "0") ++ "," ++ showDOut r.out)
            (sp ++ " p:h" ++ (if only then "0" else "1")) rest
  | _, _, m, sp, _ => (m, sp)

/-- `odisp <C: 5> <S: 5> <cseq> <sseq> { o <req> | p <req> }*` -/
def odispStep (w : List String) : String :=
  match paramsOf (w.take 5), paramsOf ((w.drop 5).take 5), w.drop 10 with
  | some pc, some ps, cseq :: _sseq :: steps =>
    match cseq.toNat? with
    | some cseq =>
      let (m, s) := odispSteps (derive pc) (derive ps) cseq ⟨false⟩ "" "" steps
      "M disp" ++ m ++ " | S disp" ++ s
    | none => "bad-input"
  | _, _, _ => "bad-op"

/-! ### `oscx`: several clients (contexts) behind ONE server session (S: Spec/OscoreCtxSeq.lean, transcript; M:
Model/OscoreSrv.lean + Model/OscoreCtx.lean, trace of the server session) -/

structure XSt where
  cseqs : List Nat                 -- Sender Sequence Number per client
  sseqs : List Nat                 -- Sender Sequence Number per server context
  csts : List Store                -- S: the clients' bindings
  sst : CStore                     -- S: the server's token ↦ (binding, context)
  srv : M.Oscore.Srv               -- M: session->recipient_ctx and session->associations of the server
  out : String
  tr : String

def showSAssoc (a : Option M.Oscore.SAssoc) : String :=
  match a with
  | none => "none"
  | some a => showPos (some a.rcp) ++ "," ++ hexOrDash a.piv ++ "," ++ (if a.isObserve then "1" else "0")

def clientPairs : Nat → List String → Option (List (Nat × Nat × Nat) × List String)
  | 0, w => some ([], w)
  | n + 1, ij :: cseq :: rest => do
    let (i, j) ← match ij.splitOn "." with
      | [i, j] => do pure ((← i.toNat?), (← j.toNat?))
      | _ => none
    let cseq ← cseq.toNat?
    let (cs, rest') ← clientPairs n rest
    pure ((i, j, cseq) :: cs, rest')
  | _, _ => none

def oscxSteps (cls : List Ctx) (pairs : List (Nat × Nat × Ctx)) (store : M.Oscore.CtxStore) (newmid : Option Nat) :
    (fuel : Nat) → XSt → List String → XSt
  | 0, st, _ => st
  | _, st, [] => st
  | fuel + 1, st, "q" :: k :: req :: how :: rest =>
    match k.toNat?.bind (fun k => (cls[k]?).map fun c => (k, c)), (bytesOfHex req).bind (Spec.decode .udp) with
    | some (k, cl), some rm =>
      match clientSend aes128 cl (st.csts.getD k []) rm (st.cseqs.getD k 0) with
      | none => oscxSteps cls pairs store newmid fuel { st with out := st.out ++ " req=fail" } rest
      | some (pm, cst') =>
        let dg := encodeUdp pm
        let st1 := { st with cseqs := st.cseqs.set k (st.cseqs.getD k 0 + 1), csts := st.csts.set k cst',
                             out := st.out ++ " req=" ++ hexOrDash dg }
        let st2 :=
          if how.startsWith "d" then
            match Spec.decode .udp dg with
            | none => { st1 with out := st1.out ++ " ureq=unparsable",
                                 tr := st1.tr ++ " s:" ++ showPos st1.srv.rcp ++ " a:" ++ showSAssoc (M.Oscore.findSAssoc st1.srv.as rm.token) }
            | some m =>
              let (v, sst') := serverRecvAny aes128 (pairs.map (·.2.2)) st1.sst m
              -- M: the position `oscore_find_context` returns, then the association part of coap_oscore_decrypt_pdu
              let cose := (oscoreValue m.opts).bind fun ov => match M.Oscore.decodeOptionValue ov with | .ok c => some c | _ => none
              let pos := cose.bind fun c => c.kid.bind fun kid => M.Oscore.findContext store kid (some (c.kidctx.getD [])) none
              let (verified, observe) := match v with
                | .ok x _ => (true, hasObserve x.opts)
                | _ => (false, false)
              let srv' := match cose, pos with
                | some c, some p => M.Oscore.srvDecrypt st1.srv m.token p [] [] c.piv verified observe
                | _, _ => st1.srv
              { st1 with sst := sst', srv := srv', out := st1.out ++ " ureq=" ++ showVerdict v,
                         tr := st1.tr ++ " s:" ++ showPos srv'.rcp ++ " a:" ++ showSAssoc (M.Oscore.findSAssoc srv'.as m.token) }
          else st1
        oscxSteps cls pairs store newmid fuel st2 rest
    | some _, none => { st with out := st.out ++ " req=bad-input" }
    | none, _ => { st with out := st.out ++ " bad-step" }
  | fuel + 1, st, "r" :: k :: resp :: f :: how :: rest =>
    match k.toNat?.bind (fun k => (cls[k]?).map fun c => (k, c)), (bytesOfHex resp).bind (Spec.decode .udp) with
    | some (k, cl), some rm =>
      let fresh := serverOwnPivAny st.sst rm (f = "1")     -- S, D14.5
      -- S: the context bound to the token (D14.19) and ITS Sender Sequence Number
      let ci : Option Nat := (cFind st.sst rm.token).bind fun e => (pairs.find? fun p => p.2.2 = e.ctx).map (·.1)
      let seq := ci.map fun i => st.sseqs.getD i 0
      -- M: association->recipient_ctx selects the Sender Context; the association goes unless is_observe
      let mctx := M.Oscore.srvResponseCtx st.srv rm.token
      -- M: does the response take a Sender Sequence Number (association->is_observe forces it, fix 155f0b4)
      let mfresh := (M.Oscore.srvOwnPiv st.srv rm.token (hasObserve rm.opts) (f = "1")).getD false
      match serverSendAny aes128 st.sst rm (f = "1") (seq.getD 0) newmid with
      | none =>
        oscxSteps cls pairs store newmid fuel
          { st with out := st.out ++ " resp=fail",
                    tr := st.tr ++ " p:- a:" ++ showSAssoc (M.Oscore.findSAssoc st.srv.as rm.token) } rest
      | some (pm, sst') =>
        let dg := encodeUdp pm
        let srv' := M.Oscore.srvProtect st.srv rm.token
        let st1 := { st with sseqs := (match ci with
                                        | some i => if fresh then st.sseqs.set i (st.sseqs.getD i 0 + 1) else st.sseqs
                                        | none => st.sseqs),
                             sst := sst', srv := srv', out := st.out ++ " resp=" ++ hexOrDash dg,
                             tr := st.tr ++ " p:" ++ (match mctx with
                                                      | some p => if mfresh then toString p.1 else "-"
                                                      | none => "-") ++
                                   " a:" ++ showSAssoc (M.Oscore.findSAssoc srv'.as rm.token) }
        let st2 :=
          if how = "d" then
            match Spec.decode .udp dg with
            | none => { st1 with out := st1.out ++ " uresp=unparsable" }
            | some m =>
              let (v, cst') := clientRecv aes128 cl (st1.csts.getD k []) m
              { st1 with csts := st1.csts.set k cst', out := st1.out ++ " uresp=" ++ showVerdict v }
          else st1
        oscxSteps cls pairs store newmid fuel st2 rest
    | some _, none => { st with out := st.out ++ " resp=bad-input" }
    | none, _ => { st with out := st.out ++ " bad-step" }
  | _, st, _ => { st with out := st.out ++ " bad-step" }

/-- `oscx <sseq> <newmid|-1> <nS> {<secret> <salt> <idctx> <sid> <rid[,rid]*>}*nS <nC> {<i>.<j> <cseq>}*nC
{ q <k> <req> <d|l> | r <k> <resp> <piv 0|1> <d|l> }*` -/
def oscxStep (w : List String) : String :=
  match w with
  | sseq :: newmid :: ns :: rest0 =>
    match sseq.toNat?, ns.toNat?.bind (fun n => serverEntries n rest0) with
    | some sseq, some (es, nc :: rest1) =>
      match nc.toNat?.bind (fun n => clientPairs n rest1) with
      | some (cps, steps) =>
        let pairs : List (Nat × Nat × Ctx) :=
          (es.zipIdx.flatMap fun (e, i) => e.2.zipIdx.map fun (rid, j) => (i, j, derive { e.1 with rid := rid }))
        let store : Option M.Oscore.CtxStore :=
          es.foldl (fun st e => st.bind fun cs => M.Oscore.deriveCtx cs e.1.idctx e.2) (some [])
        let cls : Option (List Ctx) := cps.mapM fun (i, j, _) =>
          (es[i]?).bind fun e => (e.2[j]?).map fun rid => derive { e.1 with sid := rid, rid := e.1.sid }
        match store, cls with
        | some store, some cls =>
          let st := oscxSteps cls pairs store (sepMidOf newmid) (steps.length + 1)
            ⟨cps.map (·.2.2), es.map (fun _ => sseq), cps.map (fun _ => []), [], ⟨none, []⟩, "", ""⟩ steps
          "M" ++ st.tr ++ " | S seq" ++ st.out
        | _, _ => "bad-input"
      | none => "bad-input"
    | _, _ => "bad-input"
  | _ => "bad-op"

/-! ### `oend`: two endpoints that are each client AND server on ONE session (fix 48ee5dc, `is_client`).
S: Spec/OscoreSeq.lean with a client store and a server store per endpoint (token spaces per direction, D14.20).
M: Model/OscoreSrv.lean — ONE table per endpoint (`srvRequest`, `srvDecrypt`, `srvResponseAssoc`, `srvProtect`, `srvRespIn`);
the transcript "L" is what libcoap produces when that table decides (RFC 8613 functions of S as the AEAD / codec oracle). -/

structure EndW where
  seq : Nat
  cst : Store                 -- S: bindings of the requests this endpoint sent
  sst : Store                 -- S: bindings of the requests it received
  mseq : Nat
  mt : M.Oscore.Srv           -- M: session->recipient_ctx, session->associations

structure EndSt where
  e0 : EndW
  e1 : EndW
  outS : String
  outL : String
  tr : String

def EndSt.get (st : EndSt) (e : Nat) : EndW := if e = 0 then st.e0 else st.e1
def EndSt.set (st : EndSt) (e : Nat) (w : EndW) : EndSt := if e = 0 then { st with e0 := w } else { st with e1 := w }

def showEAssoc (a : Option M.Oscore.SAssoc) : String :=
  match a with
  | none => "none"
  | some a => hexOrDash a.piv ++ "," ++ hexOrDash a.nonce ++ "," ++ hexOrDash a.aad ++ "," ++ (if a.isObserve then "1" else "0") ++
      "," ++ (if a.isClient then "1" else "0")

def isOk (v : Verdict) : Bool := match v with | .ok _ _ => true | _ => false

def oendSteps (c0 c1 : Ctx) (newmid : Option Nat) : (fuel : Nat) → EndSt → List String → EndSt
  | 0, st, _ => st
  | _, st, [] => st
  | fuel + 1, st, "q" :: es :: req :: how :: rest =>
    match (bytesOfHex req).bind (Spec.decode .udp) with
    | none => { st with outS := st.outS ++ " req=bad-input", outL := st.outL ++ " req=bad-input" }
    | some rm =>
      let e := if es = "0" then 0 else 1
      let ce := if e = 0 then c0 else c1
      let cp := if e = 0 then c1 else c0
      -- S
      let stS :=
        let w := st.get e
        match clientSend aes128 ce w.cst rm w.seq with
        | none => { st with outS := st.outS ++ " req=fail" }
        | some (pm, cst') =>
          let dg := encodeUdp pm
          let st1 := { (st.set e { w with seq := w.seq + 1, cst := cst' }) with outS := st.outS ++ " req=" ++ hexOrDash dg }
          if how.startsWith "d" then
            let p := st1.get (1 - e)
            let (v, sst') := serverRecv aes128 cp p.sst pm
            { (st1.set (1 - e) { p with sst := sst' }) with outS := st1.outS ++ " ureq=" ++ showVerdict v }
          else st1
      -- M / L
      let w := stS.get e
      let stM :=
        match protectRequest aes128 ce rm w.mseq with
        | none => { stS with outL := stS.outL ++ " req=fail", tr := stS.tr ++ " q:" ++ showEAssoc (M.Oscore.findSAssoc w.mt.as rm.token) }
        | some (pm, _) =>
          let dg := encodeUdp pm
          let piv := pivBytes w.mseq
          let obsVal := match rm.opts.filter (fun o => o.1 = optObserve) |>.getLast? with
            | some o => uintVal o.2
            | none => 0
          let aad := M.Oscore.prepareAad (M.Oscore.prepareEAad ce.alg ce.sid piv)
          match M.Oscore.generateNonce ce.commonIV ce.sid piv with
          | .ok n =>
            let mt' := M.Oscore.srvRequest w.mt rm.token (w.mt.rcp.getD (0, 0)) aad n piv (hasObserve rm.opts) obsVal
            let st1 := { (stS.set e { w with mseq := w.mseq + 1, mt := mt' }) with
                           outL := stS.outL ++ " req=" ++ hexOrDash dg,
                           tr := stS.tr ++ " q:" ++ showEAssoc (M.Oscore.findSAssoc mt'.as rm.token) }
            if how.startsWith "d" then
              let p := st1.get (1 - e)
              let v := unprotectRequest aes128 cp pm
              let obs := match v with | .ok m _ => hasObserve m.opts | _ => false
              let aadR := M.Oscore.prepareAad (M.Oscore.prepareEAad cp.alg cp.rid piv)
              let nR := match M.Oscore.generateNonce cp.commonIV cp.rid piv with | .ok x => x | _ => []
              let mtp := M.Oscore.srvDecrypt p.mt rm.token (0, 0) aadR nR piv (isOk v) obs
              { (st1.set (1 - e) { p with mt := mtp }) with
                  outL := st1.outL ++ " ureq=" ++ showVerdict v,
                  tr := st1.tr ++ " u:" ++ showEAssoc (M.Oscore.findSAssoc mtp.as rm.token) }
            else st1
          | _ => { stS with outL := stS.outL ++ " req=oob" }
      oendSteps c0 c1 newmid fuel stM rest
  | fuel + 1, st, "r" :: es :: resp :: f :: how :: rest =>
    match (bytesOfHex resp).bind (Spec.decode .udp) with
    | none => { st with outS := st.outS ++ " resp=bad-input", outL := st.outL ++ " resp=bad-input" }
    | some rm =>
      let e := if es = "0" then 0 else 1
      let ce := if e = 0 then c0 else c1
      let cp := if e = 0 then c1 else c0
      let ask := f = "1"
      -- S
      let stS :=
        let w := st.get e
        let fresh := serverOwnPiv w.sst rm ask
        match serverSend aes128 ce w.sst rm ask w.seq newmid with
        | none => { st with outS := st.outS ++ " resp=fail" }
        | some (pm, sst') =>
          let dg := encodeUdp pm
          let st1 := { (st.set e { w with seq := if fresh then w.seq + 1 else w.seq, sst := sst' }) with
                         outS := st.outS ++ " resp=" ++ hexOrDash dg }
          if how.startsWith "d" then
            let p := st1.get (1 - e)
            let (v, cst') := clientRecv aes128 cp p.cst pm
            { (st1.set (1 - e) { p with cst := cst' }) with outS := st1.outS ++ " uresp=" ++ showVerdict v }
          else st1
      -- M / L
      let w := stS.get e
      let failM : EndSt := { stS with outL := stS.outL ++ " resp=fail",
                                      tr := stS.tr ++ " p:" ++ showEAssoc (M.Oscore.findSAssoc w.mt.as rm.token) }
      let stM :=
        match M.Oscore.srvResponseAssoc w.mt rm.token with
        | none => failM
        | some a =>
          let own := (M.Oscore.srvOwnPiv w.mt rm.token (hasObserve rm.opts) ask).getD false
          match protectResponse aes128 ce ⟨ce.rid, a.piv, a.nonce⟩ rm (if own then some w.mseq else none) newmid with
          | none => failM
          | some pm =>
            let dg := encodeUdp pm
            let mt' := M.Oscore.srvProtect w.mt rm.token
            let st1 := { (stS.set e { w with mseq := if own then w.mseq + 1 else w.mseq, mt := mt' }) with
                           outL := stS.outL ++ " resp=" ++ hexOrDash dg,
                           tr := stS.tr ++ " p:" ++ showEAssoc (M.Oscore.findSAssoc mt'.as rm.token) }
            if how.startsWith "d" then
              let p := st1.get (1 - e)
              let v := match M.Oscore.findSAssoc p.mt.as rm.token with
                | none => unprotectResponse aes128 cp none pm
                | some a' => unprotectResponse aes128 cp (some ⟨cp.sid, a'.piv, a'.nonce⟩) pm
              let mtp := M.Oscore.srvRespIn p.mt rm.token (isOk v)
              { (st1.set (1 - e) { p with mt := mtp }) with
                  outL := st1.outL ++ " uresp=" ++ showVerdict v,
                  tr := st1.tr ++ " d:" ++ showEAssoc (M.Oscore.findSAssoc mtp.as rm.token) }
            else st1
      oendSteps c0 c1 newmid fuel stM rest
  | _, st, _ => { st with outS := st.outS ++ " bad-step", outL := st.outL ++ " bad-step" }

/-- `oend <E0: 5> <E1: 5> <seq0> <seq1> <newmid|-1> { q <e> <req> <d|l> | r <e> <resp> <piv 0|1> <d|l> }*` -/
def oendStep (w : List String) : String :=
  match paramsOf (w.take 5), paramsOf ((w.drop 5).take 5), w.drop 10 with
  | some p0, some p1, seq0 :: seq1 :: newmid :: steps =>
    match seq0.toNat?, seq1.toNat? with
    | some seq0, some seq1 =>
      let st := oendSteps (derive p0) (derive p1) (sepMidOf newmid) (steps.length + 1)
        ⟨⟨seq0, [], [], seq0, ⟨some (0, 0), []⟩⟩, ⟨seq1, [], [], seq1, ⟨some (0, 0), []⟩⟩, "", "", ""⟩ steps
      "M" ++ st.outL ++ " ;" ++ st.tr ++ " | S end" ++ st.outS
    | _, _ => "bad-input"
  | _, _, _ => "bad-op"


def fnv (s : String) : UInt32 :=
  s.toUTF8.toList.foldl (fun h b => (h ^^^ b.toUInt32) * 16777619) 2166136261

def hex8 (x : UInt32) : String :=
  hexOfBytes [(x >>> 24).toUInt8, (x >>> 16).toUInt8, (x >>> 8).toUInt8, x.toUInt8]

def tok (v : Option Verdict) : String :=
  match v with
  | none => "u"
  | some .rej => "r"
  | some .plain => "p"
  | some (.ok m _) => "[" ++ hex8 (fnv (Coap.Driver.showMsg m)) ++ "]"

def flipBit (bs : Bytes) (i : Nat) : Bytes :=
  bs.mapIdx fun k b => if k = i / 8 then b ^^^ (UInt8.ofNat (128 >>> (i % 8))) else b

/-- where a bit of the protected datagram lives: h header, k token, o outer option (not OSCORE),
O the OSCORE option's header, V its value (K: the k flag of a response, D14.12), m payload marker, c ciphertext -/
def classOf (m : Msg) (i : Nat) : Char :=
  let tkEnd := 4 + (extBytes m.token.length).length + m.token.length
  let before := (m.opts.filter fun o => o.1 < optOscore)
  let oStart := tkEnd + (encOpts 0 before).length
  let prevNum := match before.getLast? with | some o => o.1 | none => 0
  let oEnd := oStart + (encOpts prevNum (m.opts.filter fun o => o.1 = optOscore)).length
  let optEnd := tkEnd + (encOpts 0 m.opts).length
  let b := i / 8
  let vLen := match oscoreValue m.opts with | some v => v.length | none => 0
  if b < 4 then 'h' else if b < tkEnd then 'k' else if b < oStart then 'o'
  else if b < oEnd - vLen then 'O'
  else if b < oEnd then (if ¬ isRequest m.code ∧ b = oEnd - vLen ∧ i % 8 = 4 then 'K' else 'V')   -- D14.12
  else if b < optEnd then 'o' else if b = optEnd then 'm' else 'c'

def range (lo hi : Nat) : List Nat := (List.range (hi - lo)).map (· + lo)

def tamperStep (w : List String) : String :=
  match paramsOf (w.take 5), paramsOf ((w.drop 5).take 5), w.drop 10 with
  | some pc, some ps, [cseq, sseq, newmid, req, resp, f, which, flo, fhi, tlo, thi] =>
    match cseq.toNat?, sseq.toNat?, (bytesOfHex req).bind (Spec.decode .udp), flo.toNat?, fhi.toNat?, tlo.toNat?, thi.toNat? with
    | some cseq, some sseq, some rm, some flo, some fhi, some tlo, some thi =>
      let cl := derive pc
      let sv := derive ps
      match protectRequest aes128 cl rm cseq with
      | none => "setup-fail"
      | some (pm, cb) =>
        let target : Option (Msg × Ctx × Option (Bytes × Binding)) :=
          if which = "q" then some (pm, sv, none) else
          match deliver sv none (encodeUdp pm), (bytesOfHex resp).bind (Spec.decode .udp) with
          | some (.ok _ b), some rsp =>
            (protectResponseFor aes128 sv b (hasObserve rm.opts) rsp (f = "1") sseq (sepMidOf newmid)).map
              fun p => (p, cl, some (rm.token, cb))
          | _, _ => none
        match target with
        | none => "setup-fail"
        | some (tm, c, bind) =>
          let dg := encodeUdp tm
          let fl := range flo (min fhi (dg.length * 8))
          let tr := range tlo (min thi dg.length)
          "M n=" ++ toString dg.length ++
          " f=" ++ String.join (fl.map fun i => tok (deliver c bind (flipBit dg i))) ++
          " t=" ++ String.join (tr.map fun i => tok (deliver c bind (dg.take i))) ++
          " | S " ++ String.ofList (fl.map (classOf tm))
    | _, _, _, _, _, _, _ => "bad-input"
  | _, _, _ => "bad-op"

def showR (r : R Bytes) : String :=
  match r with
  | .ok b => toString b.length ++ " " ++ hexOrDash b
  | .rej => "0 -"
  | .oob => "oob"

def showOB (o : Option Bytes) : String :=
  match o with
  | some b => hexOrDash b
  | none => "none"

/-- `optenc <piv> <kidctx|none> <kid|none> <b2>` -/
def optencStep (w : List String) : String :=
  match w with
  | [piv, kc, kid, b2] =>
    match bytesOfHex piv, optBytes kc, optBytes kid with
    | some piv, some kc, some kid =>
      if b2 ≠ "0" then "bad-op" else
      let kcS := match kc with | some [] => none | x => x     -- D14.10
      let s := optEncode ⟨piv, kcS, kid⟩
      "M " ++ showR (M.Oscore.encodeOptionValue (1 + piv.length + 3 + (kc.getD []).length + (kid.getD []).length) piv kc kid) ++
        " | S " ++ (if piv.length > 5 then "0 -" else toString s.length ++ " " ++ hexOrDash s)
    | _, _, _ => "bad-op"
  | _ => "bad-op"

def optdecStep (w : List String) : String :=
  match w with
  | [h] =>
    match bytesOfHex h with
    | some v =>
      "M " ++ (match M.Oscore.decodeOptionValue v with
               | .ok c => "ok piv=" ++ hexOrDash c.piv ++ " kc=" ++ showOB c.kidctx ++ " kid=" ++ showOB c.kid
               | .rej => "rej"
               | .oob => "oob") ++
      " | S " ++ (match optDecode v with
                  | some c => "ok piv=" ++ hexOrDash c.piv ++ " kc=" ++ showOB c.kidctx ++ " kid=" ++ showOB c.kid
                  | none => "rej")
    | none => "bad-op"
  | _ => "bad-op"

def aadStep (w : List String) : String :=
  match w with
  | [alg, kid, piv] =>
    match alg.toInt?, bytesOfHex kid, bytesOfHex piv with
    | some alg, some kid, some piv =>
      let e := M.Oscore.prepareEAad alg kid piv
      "M " ++ hexOrDash e ++ " " ++ hexOrDash (M.Oscore.prepareAad e) ++
      " | S " ++ hexOrDash (aadArray alg kid piv) ++ " " ++ hexOrDash (aad alg kid piv)
    | _, _, _ => "bad-op"
  | _ => "bad-op"

def nonceStep (w : List String) : String :=
  match w with
  | [civ, kid, piv] =>
    match bytesOfHex civ, bytesOfHex kid, bytesOfHex piv with
    | some civ, some kid, some piv =>
      "M " ++ (match M.Oscore.generateNonce civ kid piv with
               | .ok b => hexOrDash b
               | .rej => "rej"
               | .oob => "oob") ++ " | S " ++ hexOrDash (nonce civ kid piv)
    | _, _, _ => "bad-op"
  | _ => "bad-op"

def showKeys (sk rk iv : Bytes) : String := "sk=" ++ hexOrDash sk ++ " rk=" ++ hexOrDash rk ++ " iv=" ++ hexOrDash iv

/-- `derive <secret> <salt> <idctx> <sid> <rid>`: M = HKDF over libcoap's `compose_info`, S = §3.2.1 -/
def deriveStep (w : List String) : String :=
  match paramsOf w with
  | some p =>
    let c := derive p
    let k (id : Bytes) (t : String) (n : Nat) := hkdf p.salt p.secret (M.Oscore.composeInfo 10 id p.idctx (ascii t) n) n
    "M " ++ showKeys (k p.sid "Key" 16) (k p.rid "Key" 16) (k [] "IV" 13) ++
    " | S " ++ showKeys c.senderKey c.recipientKey c.commonIV
  | none => "bad-op"

/-- the primitives of S on their own (known-answer tests and cross-check of GnuTLS) -/
def shaStep (w : List String) : String :=
  match w.mapM bytesOfHex with
  | some [m] => "M " ++ hexOrDash (sha256 m)
  | _ => "bad-op"
def hmacStep (w : List String) : String :=
  match w.mapM bytesOfHex with
  | some [k, m] => "M " ++ hexOrDash (hmacSha256 k m)
  | _ => "bad-op"
def ccmStep (w : List String) : String :=
  match w.mapM bytesOfHex with
  | some [k, n, a, p] => "M " ++ hexOrDash (ccmEncrypt (aes128 k) 8 n a p)
  | _ => "bad-op"
def hkdfStep (w : List String) : String :=
  match w with
  | [salt, ikm, inf, len] =>
    match bytesOfHex salt, bytesOfHex ikm, bytesOfHex inf, len.toNat? with
    | some salt, some ikm, some inf, some len => "M " ++ hexOrDash (hkdf salt ikm inf len)
    | _, _, _, _ => "bad-op"
  | _ => "bad-op"

end Coap.Driver.Oscore
