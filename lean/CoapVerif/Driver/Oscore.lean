import CoapVerif.Spec.Oscore
import CoapVerif.Model.Oscore
import CoapVerif.Driver.Codec
/- Line-protocol driver for the OSCORE property C14: S's protected bytes / verdicts for the same
   inputs the C harness gets (harness/oscore.c), and M's helper outputs. -/
-- DRIVER-OPS: osc => Coap.Driver.Oscore.oscStep
-- DRIVER-OPS: tamper => Coap.Driver.Oscore.tamperStep
-- DRIVER-OPS: optenc => Coap.Driver.Oscore.optencStep
-- DRIVER-OPS: optdec => Coap.Driver.Oscore.optdecStep
-- DRIVER-OPS: aad => Coap.Driver.Oscore.aadStep
-- DRIVER-OPS: nonce => Coap.Driver.Oscore.nonceStep
-- DRIVER-OPS: derive => Coap.Driver.Oscore.deriveStep
-- DRIVER-OPS: sha256 => Coap.Driver.Oscore.shaStep
-- DRIVER-OPS: hmac => Coap.Driver.Oscore.hmacStep
-- DRIVER-OPS: hkdf => Coap.Driver.Oscore.hkdfStep
-- DRIVER-OPS: ccm => Coap.Driver.Oscore.ccmStep
namespace Coap.Driver.Oscore
open Coap Coap.Spec.Crypto Coap.Spec.Oscore

def optBytes (s : String) : Option (Option Bytes) :=
  if s = "none" then some none else (bytesOfHex s).map some

def paramsOf (w : List String) : Option Params :=
  match w with
  | [secret, salt, idctx, sid, rid] => do
    let secret ← bytesOfHex secret
    let salt ← if salt = "none" then some [] else bytesOfHex salt
    let idctx ← optBytes idctx
    let sid ← bytesOfHex sid
    let rid ← bytesOfHex rid
    pure ⟨secret, salt, idctx, sid, rid⟩
  | _ => none

/-- the UDP wire form of a message (RFC 7252 §3), used to print S's protected datagram -/
def encodeUdp (m : Msg) : Bytes :=
  let tk := m.token.length
  UInt8.ofNat (64 + m.type * 16 + extNib tk) :: UInt8.ofNat m.code :: UInt8.ofNat (m.mid / 256) :: UInt8.ofNat (m.mid % 256) ::
    (extBytes tk ++ m.token ++ encOpts 0 m.opts ++ (if m.payload = [] then [] else 0xFF :: m.payload))

def showVerdict (v : Verdict) : String :=
  match v with
  | .ok m _ => Coap.Driver.showMsg m
  | .rej => "rej"
  | .plain => "plain"

/-- a datagram arriving at an endpoint: requests are verified against the context (§8.2), anything
else against the binding recorded for its token (§8.4) -/
def deliver (c : Ctx) (bind : Option (Bytes × Binding)) (dg : Bytes) : Option Verdict :=
  match Spec.decode .udp dg with
  | none => none
  | some m =>
    if isRequest m.code then some (unprotectRequest aes128 c m)
    else some (unprotectResponse aes128 c (match bind with
                                          | some (tok, b) => if tok = m.token then some b else none
                                          | none => none) m)

def showDelivery (v : Option Verdict) : String :=
  match v with
  | none => "unparsable"
  | some v => showVerdict v

def sepMidOf (s : String) : Option Nat := if s.startsWith "-" then none else s.toNat?

/-- responses of one exchange; the server's binding disappears after a response without Observe
registration (the request carried no Observe) -/
def responses (cl sv : Ctx) (observe : Bool) (newmid : Option Nat) :
    (sb : Option Binding) → (cbind : Option (Bytes × Binding)) → (seq : Nat) → List String → String
  | sb, cbind, seq, r :: f :: rest =>
    match bytesOfHex r with
    | none => " resp=bad-input"
    | some rb =>
      match Spec.decode .udp rb, sb with
      | none, _ => " resp=bad-input"
      | some _, none => " resp=fail" ++ responses cl sv observe newmid sb cbind seq rest
      | some rm, some b =>
        let fresh := f = "1" || hasObserve rm.opts
        match protectResponse aes128 sv b rm (if fresh then some seq else none) newmid with
        | none => " resp=fail" ++ responses cl sv observe newmid sb cbind seq rest
        | some pm =>
          let dg := encodeUdp pm
          let v := deliver cl cbind dg
          let keepC := match v with
            | some (.ok _ _) => observe
            | _ => true
          " resp=" ++ hexOrDash dg ++ " uresp=" ++ showDelivery v ++
            responses cl sv observe newmid (if observe then sb else none) (if keepC then cbind else none)
              (if fresh then seq + 1 else seq) rest
  | _, _, _, _ => ""

def oscStep (w : List String) : String :=
  match paramsOf (w.take 5), paramsOf ((w.drop 5).take 5), w.drop 10 with
  | some pc, some ps, cseq :: sseq :: newmid :: req :: rest =>
    match cseq.toNat?, sseq.toNat?, (bytesOfHex req).bind (Spec.decode .udp) with
    | some cseq, some sseq, some rm =>
      let cl := derive pc
      let sv := derive ps
      match protectRequest aes128 cl rm cseq with
      | none => "M req=fail"
      | some (pm, cb) =>
        let dg := encodeUdp pm
        let v := deliver sv none dg
        let sb := match v with
          | some (.ok _ b) => some b
          | _ => none
        -- both ends keep the binding for further responses iff the request carries Observe
        "M req=" ++ hexOrDash dg ++ " ureq=" ++ showDelivery v ++
          (if sb.isNone then "" else   -- no response to a request that was not accepted
           responses cl sv (hasObserve rm.opts) (sepMidOf newmid) sb (some (rm.token, cb)) sseq rest)
    | _, _, _ => "bad-input"
  | _, _, _ => "bad-op"

def fnv (s : String) : UInt32 :=
  s.toUTF8.toList.foldl (fun h b => (h ^^^ b.toUInt32) * 16777619) 2166136261

def hex8 (x : UInt32) : String :=
  hexOfBytes [(x >>> 24).toUInt8, (x >>> 16).toUInt8, (x >>> 8).toUInt8, x.toUInt8]

def tok (v : Option Verdict) : String :=
  match v with
  | none => "u"
  | some .rej => "r"
  | some .plain => "p"
  | some (.ok m _) => "[" ++ hex8 (fnv (Coap.Driver.showMsg m)) ++ "]"

def flipBit (bs : Bytes) (i : Nat) : Bytes :=
  bs.mapIdx fun k b => if k = i / 8 then b ^^^ (UInt8.ofNat (128 >>> (i % 8))) else b

/-- where a bit of the protected datagram lives: h header, k token, o outer option (not OSCORE),
O the OSCORE option's header, V its value (K: the k flag of a response, D14.12), m payload marker, c ciphertext -/
def classOf (m : Msg) (i : Nat) : Char :=
  let tkEnd := 4 + (extBytes m.token.length).length + m.token.length
  let before := (m.opts.filter fun o => o.1 < optOscore)
  let oStart := tkEnd + (encOpts 0 before).length
  let prevNum := match before.getLast? with | some o => o.1 | none => 0
  let oEnd := oStart + (encOpts prevNum (m.opts.filter fun o => o.1 = optOscore)).length
  let optEnd := tkEnd + (encOpts 0 m.opts).length
  let b := i / 8
  let vLen := match oscoreValue m.opts with | some v => v.length | none => 0
  if b < 4 then 'h' else if b < tkEnd then 'k' else if b < oStart then 'o'
  else if b < oEnd - vLen then 'O'
  else if b < oEnd then (if ¬ isRequest m.code ∧ b = oEnd - vLen ∧ i % 8 = 4 then 'K' else 'V')   -- D14.12
  else if b < optEnd then 'o' else if b = optEnd then 'm' else 'c'

def range (lo hi : Nat) : List Nat := (List.range (hi - lo)).map (· + lo)

def tamperStep (w : List String) : String :=
  match paramsOf (w.take 5), paramsOf ((w.drop 5).take 5), w.drop 10 with
  | some pc, some ps, [cseq, sseq, newmid, req, resp, f, which, flo, fhi, tlo, thi] =>
    match cseq.toNat?, sseq.toNat?, (bytesOfHex req).bind (Spec.decode .udp), flo.toNat?, fhi.toNat?, tlo.toNat?, thi.toNat? with
    | some cseq, some sseq, some rm, some flo, some fhi, some tlo, some thi =>
      let cl := derive pc
      let sv := derive ps
      match protectRequest aes128 cl rm cseq with
      | none => "setup-fail"
      | some (pm, cb) =>
        let target : Option (Msg × Ctx × Option (Bytes × Binding)) :=
          if which = "q" then some (pm, sv, none) else
          match deliver sv none (encodeUdp pm), (bytesOfHex resp).bind (Spec.decode .udp) with
          | some (.ok _ b), some rsp =>
            (protectResponse aes128 sv b rsp (if f = "1" || hasObserve rsp.opts then some sseq else none) (sepMidOf newmid)).map
              fun p => (p, cl, some (rm.token, cb))
          | _, _ => none
        match target with
        | none => "setup-fail"
        | some (tm, c, bind) =>
          let dg := encodeUdp tm
          let fl := range flo (min fhi (dg.length * 8))
          let tr := range tlo (min thi dg.length)
          "M n=" ++ toString dg.length ++
          " f=" ++ String.join (fl.map fun i => tok (deliver c bind (flipBit dg i))) ++
          " t=" ++ String.join (tr.map fun i => tok (deliver c bind (dg.take i))) ++
          " | S " ++ String.ofList (fl.map (classOf tm))
    | _, _, _, _, _, _, _ => "bad-input"
  | _, _, _ => "bad-op"

def showR (r : R Bytes) : String :=
  match r with
  | .ok b => toString b.length ++ " " ++ hexOrDash b
  | .rej => "0 -"
  | .oob => "oob"

def showOB (o : Option Bytes) : String :=
  match o with
  | some b => hexOrDash b
  | none => "none"

/-- `optenc <piv> <kidctx|none> <kid|none> <b2>` -/
def optencStep (w : List String) : String :=
  match w with
  | [piv, kc, kid, b2] =>
    match bytesOfHex piv, optBytes kc, optBytes kid with
    | some piv, some kc, some kid =>
      if b2 ≠ "0" then "bad-op" else
      let kcS := match kc with | some [] => none | x => x     -- D14.10
      let s := optEncode ⟨piv, kcS, kid⟩
      "M " ++ showR (M.Oscore.encodeOptionValue (1 + piv.length + 3 + (kc.getD []).length + (kid.getD []).length) piv kc kid) ++
        " | S " ++ (if piv.length > 5 then "0 -" else toString s.length ++ " " ++ hexOrDash s)
    | _, _, _ => "bad-op"
  | _ => "bad-op"

def optdecStep (w : List String) : String :=
  match w with
  | [h] =>
    match bytesOfHex h with
    | some v =>
      "M " ++ (match M.Oscore.decodeOptionValue v with
               | .ok c => "ok piv=" ++ hexOrDash c.piv ++ " kc=" ++ showOB c.kidctx ++ " kid=" ++ showOB c.kid
               | .rej => "rej"
               | .oob => "oob") ++
      " | S " ++ (match optDecode v with
                  | some c => "ok piv=" ++ hexOrDash c.piv ++ " kc=" ++ showOB c.kidctx ++ " kid=" ++ showOB c.kid
                  | none => "rej")
    | none => "bad-op"
  | _ => "bad-op"

def aadStep (w : List String) : String :=
  match w with
  | [alg, kid, piv] =>
    match alg.toInt?, bytesOfHex kid, bytesOfHex piv with
    | some alg, some kid, some piv =>
      let e := M.Oscore.prepareEAad alg kid piv
      "M " ++ hexOrDash e ++ " " ++ hexOrDash (M.Oscore.prepareAad e) ++
      " | S " ++ hexOrDash (aadArray alg kid piv) ++ " " ++ hexOrDash (aad alg kid piv)
    | _, _, _ => "bad-op"
  | _ => "bad-op"

def nonceStep (w : List String) : String :=
  match w with
  | [civ, kid, piv] =>
    match bytesOfHex civ, bytesOfHex kid, bytesOfHex piv with
    | some civ, some kid, some piv =>
      "M " ++ (match M.Oscore.generateNonce civ kid piv with
               | .ok b => hexOrDash b
               | .rej => "rej"
               | .oob => "oob") ++ " | S " ++ hexOrDash (nonce civ kid piv)
    | _, _, _ => "bad-op"
  | _ => "bad-op"

def showKeys (sk rk iv : Bytes) : String := "sk=" ++ hexOrDash sk ++ " rk=" ++ hexOrDash rk ++ " iv=" ++ hexOrDash iv

/-- `derive <secret> <salt> <idctx> <sid> <rid>`: M = HKDF over libcoap's `compose_info`, S = §3.2.1 -/
def deriveStep (w : List String) : String :=
  match paramsOf w with
  | some p =>
    let c := derive p
    let k (id : Bytes) (t : String) (n : Nat) := hkdf p.salt p.secret (M.Oscore.composeInfo 10 id p.idctx (ascii t) n) n
    "M " ++ showKeys (k p.sid "Key" 16) (k p.rid "Key" 16) (k [] "IV" 13) ++
    " | S " ++ showKeys c.senderKey c.recipientKey c.commonIV
  | none => "bad-op"

/-- the primitives of S on their own (known-answer tests and cross-check of GnuTLS) -/
def shaStep (w : List String) : String :=
  match w.mapM bytesOfHex with
  | some [m] => "M " ++ hexOrDash (sha256 m)
  | _ => "bad-op"
def hmacStep (w : List String) : String :=
  match w.mapM bytesOfHex with
  | some [k, m] => "M " ++ hexOrDash (hmacSha256 k m)
  | _ => "bad-op"
def ccmStep (w : List String) : String :=
  match w.mapM bytesOfHex with
  | some [k, n, a, p] => "M " ++ hexOrDash (ccmEncrypt (aes128 k) 8 n a p)
  | _ => "bad-op"
def hkdfStep (w : List String) : String :=
  match w with
  | [salt, ikm, inf, len] =>
    match bytesOfHex salt, bytesOfHex ikm, bytesOfHex inf, len.toNat? with
    | some salt, some ikm, some inf, some len => "M " ++ hexOrDash (hkdf salt ikm inf len)
    | _, _, _, _ => "bad-op"
  | _ => "bad-op"

end Coap.Driver.Oscore
