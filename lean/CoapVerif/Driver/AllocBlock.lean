import CoapVerif.Model.AllocBlock
import CoapVerif.Driver.AllocOracle
import CoapVerif.Generated.BlockConst
/- Line-protocol driver for C18, Block-layer containers (Model/AllocBlock.lean):
   `atrack <k1> <k2> <step>…`                              the client's lg_crcv and its list of Observe tokens
   `asrcv <k1> <k2> <szx> <bodylen> <tl> <size1|-> <step>…` the server's lg_srcv (Block1 reassembly)
   `asrcvu …` the same for a transfer to the UNKNOWN resource (the lg_srcv keeps a copy of the URI path; `lg=` has a sixth
   component `p` / `-`)
   under the oracle that fails exactly requests k1 and k2; prints the canonical line of harness/allocfail.c (without the
   allocation tags) followed by the verdict of the verified monitor on M's own whole trace after clean-up. -/
-- DRIVER-OPS: atrack => Coap.Driver.AllocBlock.trackStep
-- DRIVER-OPS: asrcv => Coap.Driver.AllocBlock.srcvStep
-- DRIVER-OPS: asrcvu => Coap.Driver.AllocBlock.srcvStepU
namespace Coap.Driver.AllocBlock
open Coap Coap.AllocOracle Coap.AllocBlock Coap.Sessions
open Coap.Driver.AllocOracle (showTrace)

def parseAct (s : String) : Option (Option Nat) :=
  if s = "e" then some (some 0) else if s = "c" then some (some 1) else if s = "x" then some (some 2)
  else if s = "n" then some none else none

def parseCEv (tok : String) : Option CEv :=
  if tok = "d" then some .del else
  match tok.toList with
  | 'n' :: rest =>
    match (String.ofList rest).splitOn ":" with
    | [f, o, tl, dl] =>
      match parseAct o, tl.toNat?, dl.toNat? with
      | some a, some tl, some dl =>
        if (f = "f" ∨ f = "g") ∧ tl ≤ 8 ∧ dl ≤ 60 then some (.new (f = "f") a tl) else none
      | _, _, _ => none
    | _ => none
  | 't' :: rest =>
    match (String.ofList rest).splitOn ":" with
    | [o, bn, tl] =>
      match parseAct o, bn.toNat?, tl.toNat? with
      | some a, some bn, some tl => if bn ≤ 4000 ∧ tl ≤ 8 then some (.track a bn tl) else none
      | _, _, _ => none
    | _ => none
  | _ => none

def showCOut : COut → String
  | .num n => toString n
  | .skip => "-"
  | .null => "N"
  | .tok l => "r" ++ toString l
  | .invalid => "INVALID-ACCESS"

def showTab (st : Option Crcv) : String :=
  match st with
  | none => "none"
  | some c =>
    toString c.cnt ++ "/" ++
      (if c.cnt = 0 then "-"
       else if c.tabId.isNone then "NULL!"
       else String.intercalate "," ((List.range c.cnt).map fun i =>
         match c.tab[i]? with
         | some (some (_, l)) => toString l
         | some none => "N"
         | none => "OUTSIDE"))

def verdict (h : Option Heap) : String :=
  match h with
  | none => "invalid-access MONITOR-REJECTS"
  | some h => ledgerVerdict h.trace ++ (if ledgerOk h.trace && h.ok && h.live.isEmpty then "" else " MONITOR-REJECTS")

def trackStep (args : List String) : String :=
  match args with
  | k1 :: k2 :: evs =>
    match k1.toNat?, k2.toNat?, evs.mapM parseCEv with
    | some k1, some k2, some evs =>
      -- outside the callers' discipline (block numbers of one lg_crcv only go up): the ledger theorem does not apply
      if !feasible 0 evs then "M rc=infeasible" else
      let h0 : Heap := { orc := oracleFailing k1 k2 (max k1 k2) }
      let (outs, st, h) := crcvRun none h0 evs
      "M rc=" ++ (if outs.isEmpty then "-" else String.intercalate "," (outs.map showCOut)) ++
      " n=" ++ toString h.reqs ++ " tab=" ++ showTab st ++ " T " ++ showTrace h.trace ++
      " | ledger=" ++ verdict (crcvCleanup st h)
    | _, _, _ => "bad-op"
  | _ => "bad-op"

def parseSEv (chunk blen : Nat) (tok : String) : Option SEv :=
  if tok = "x" then some .drop else
  match tok.toList with
  | 'p' :: rest =>
    let mk (num m : Nat) (len : Option Nat) : Option SEv :=
      if m ≤ 1 ∧ num < 100000 then
        let off := min (num * chunk) blen
        let plen := min (blen - off) chunk
        let plen := match len with | some l => if l ≤ blen - off then l else plen | none => plen
        some (.block num m plen)
      else none
    match (String.ofList rest).splitOn ":" with
    | [a, b] => match a.toNat?, b.toNat? with
      | some num, some m => mk num m none
      | _, _ => none
    | [a, b, c] => match a.toNat?, b.toNat?, c.toNat? with
      | some num, some m, some l => mk num m (some l)
      | _, _, _ => none
    | _ => none
  | _ => none

def showSOut : SOut → String
  | .app l => "d" ++ toString l ++ ":1"
  | .deliver l => "d" ++ toString l ++ ":1"
  | .code 1 => "1"
  | .code c => "s" ++ toString c
  | .unmodelled => "unmodelled"

def showLg (st : Option ASrcv) : String :=
  match st with
  | none => "none"
  | some lg =>
    (if lg.recv.isEmpty then "-" else String.intercalate ";" (lg.recv.map fun r => toString r.1 ++ "-" ++ toString r.2)) ++
    "/" ++ toString lg.totalLen ++ "/" ++ (match lg.body with | some (_, l) => toString l | none => "-") ++
    "/" ++ (if lg.noMoreSeen then "1" else "0") ++ "/" ++ (match lg.lastTok with | some (_, l) => toString l | none => "-")

def srcvStepG (unk : Bool) (args : List String) : String :=
  match args with
  | k1 :: k2 :: szx :: blen :: tl :: s1 :: evs =>
    match k1.toNat?, k2.toNat?, szx.toNat?, blen.toNat?, tl.toNat? with
    | some k1, some k2, some szx, some blen, some tl =>
      let size1 : Option (Option Nat) := if s1 = "-" then some none else s1.toNat?.map some
      if szx > 6 ∨ blen > 2500 ∨ tl > 8 then "bad-op" else
      match size1, evs.mapM (parseSEv (2 ^ (szx + 4)) blen) with
      | some size1, some evs =>
        let h0 : Heap := { orc := oracleFailing k1 k2 (max k1 k2) }
        let cfg : SCfg := { cap := Coap.Generated.rblockCnt, szx := szx, tokLen := tl, size1 := size1, unk := unk }
        let (outs, st, h) := srcvRun cfg none h0 evs
        "M rc=" ++ (if outs.isEmpty then "-" else String.intercalate "," (outs.map showSOut)) ++
        " n=" ++ toString h.reqs ++ " lg=" ++ showLg st ++
          (if unk then (match st with | some lg => (if lg.uriPath.isSome then "/p" else "/-") | none => "") else "") ++ " T " ++ showTrace h.trace ++
        " | ledger=" ++ verdict (some (srcvCleanup st h))
      | _, _ => "bad-op"
    | _, _, _, _, _ => "bad-op"
  | _ => "bad-op"

def srcvStep (args : List String) : String := srcvStepG false args
def srcvStepU (args : List String) : String := srcvStepG true args

end Coap.Driver.AllocBlock
