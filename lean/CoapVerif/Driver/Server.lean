import CoapVerif.Model.Server
import CoapVerif.Model.Parse
/- Line-protocol driver for C10 (see harness/server.c for the line format). -/
-- DRIVER-OPS: srv => Coap.Driver.Server.step
namespace Coap.Driver.Server
open Coap Coap.Server

def showOpts (os : Opts) : String :=
  if os.isEmpty then "-" else String.intercalate "," (os.map fun o => toString o.1 ++ "=" ++ hexOrDash o.2)

def kindChar (t : Nat) : String := if t = 0 then "C" else if t = 1 then "N" else if t = 2 then "A" else "R"

def showReply (r : Reply) : String :=
  kindChar r.type ++ ":" ++ toString r.code ++ ":" ++ toString r.mid ++ ":" ++ hexOrDash r.token ++ ":" ++
  showOpts r.opts ++ ":" ++ (match r.body with | .bytes b => hexOrDash b | .wellknown => "<wk>")

/-- S leaves options and diagnostic payload of library-generated replies open (SPEC DECISION D4): printed as `*` -/
def showReplyS (r : Reply) : String :=
  match r.src with
  | .app => showReply r
  | .lib => kindChar r.type ++ ":" ++ toString r.code ++ ":" ++ toString r.mid ++ ":" ++ hexOrDash r.token ++ ":*:*"

def showWho : Who → String
  | .res i => "r" ++ toString i
  | .unk => "unk"
  | .prx => "prx"

def showCall (c : Call) : String :=
  showWho c.who ++ ":" ++ toString c.code ++ ":" ++ hexOrDash c.path ++ ":" ++ hexOrDash c.query ++ ":" ++
  showOpts c.opts ++ ":" ++ hexOrDash c.payload

def showOutcome (o : Outcome) (sr : Reply → String := showReply) : String :=
  if ¬ o.inScope then "oos" else
  "tx=" ++ (if o.replies.isEmpty then "-" else String.intercalate "/" (o.replies.map sr)) ++
  " h=" ++ (match o.call with | some c => showCall c | none => "-")

def natList (s : String) : Option (List Nat) :=
  if s = "-" then some [] else (s.splitOn ",").mapM String.toNat?

def parseSpecial (s : String) : Option (Option Special) :=
  if s = "-" then some none else
  match s.splitOn ":" with
  | [m, f] => do let m ← m.toNat?; let f ← f.toNat?; pure (some ⟨m, f⟩)
  | _ => none

def parseProxy (s : String) : Option (Option Proxy) :=
  if s = "-" then some none else
  match s.splitOn ":" with
  | [m, f, n] => do let m ← m.toNat?; let f ← f.toNat?; let n ← bytesOfHex n; pure (some ⟨m, f, n⟩)
  | _ => none

def parseRes (s : String) : Option (List Res) :=
  if s = "-" then some [] else
  (s.splitOn ";").mapM fun r =>
    match r.splitOn ":" with
    | [p, m, f, o] => do
      let p ← bytesOfHex p; let m ← m.toNat?; let f ← f.toNat?; let o ← o.toNat?
      pure ⟨p, m, f % 2 ^ 32 / 2 * 2, o != 0⟩   -- COAP_RESOURCE_FLAGS_RELEASE_URI (bit 0) is masked by the harness
    | _ => none

def parseVerdict (s : String) : Option Verdict :=
  match s.splitOn ":" with
  | [c, p] => do let c ← c.toNat?; let p ← bytesOfHex p; pure ⟨c, p⟩
  | _ => none

def parsePU (s : String) : Option PU :=
  if s = "-" then some .absent else if s = "bad" then some .bad else
  match s.splitOn "/" with
  | [h, p] => do let h ← bytesOfHex h; let p ← bytesOfHex p; pure (.ok h p)
  | _ => none

def parseLine (args : List String) : Option (Cfg × Table × Bool × Verdict × PU × Bytes) :=
  match args with
  | [mpr, mts, known, unk, prx, res, verdict, pu, dst, hex] => do
    let mpr ← mpr.toNat?
    let mts ← mts.toNat?
    let known ← natList known
    let unk ← parseSpecial unk
    let prx ← parseProxy prx
    let res ← parseRes res
    let v ← parseVerdict verdict
    let pu ← parsePU pu
    let mc ← (if dst = "u" then some false else if dst = "m" then some true else none)
    let bs ← bytesOfHex hex
    if mts < 8 then none else
    pure (⟨mpr != 0, mts, known⟩, ⟨unk, prx, res⟩, mc, v, pu, bs)
  | _ => none

def step (args : List String) : String :=
  match parseLine args with
  | none => "bad-op"
  | some (cfg, tbl, mc, v, pu, bs) =>
    match Coap.M.parse .udp bs with
    | .ok msg =>
      let rq : Request := ⟨mc, msg, v, pu⟩
      "M " ++ showOutcome (M.serverDecision cfg tbl rq) ++ " | S " ++
        showOutcome (S.serverSpec ⟨Generated.Server.unescPath, Generated.Server.unescQuery⟩ cfg tbl rq) showReplyS
    | _ => "M malformed"

end Coap.Driver.Server
