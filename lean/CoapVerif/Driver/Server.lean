import CoapVerif.Model.Server
import CoapVerif.Model.Parse
/- Line-protocol driver for C10 (see harness/server.c for the line format). -/
-- DRIVER-OPS: srv => Coap.Driver.Server.step
-- DRIVER-OPS: srvq => Coap.Driver.Server.stepq
namespace Coap.Driver.Server
open Coap Coap.Server

def showOpts (os : Opts) : String :=
  if os.isEmpty then "-" else String.intercalate "," (os.map fun o => toString o.1 ++ "=" ++ hexOrDash o.2)

def kindChar (t : Nat) : String := if t = 0 then "C" else if t = 1 then "N" else if t = 2 then "A" else "R"

def showReply (r : Reply) : String :=
  kindChar r.type ++ ":" ++ toString r.code ++ ":" ++ toString r.mid ++ ":" ++ hexOrDash r.token ++ ":" ++
  showOpts r.opts ++ ":" ++ (match r.body with | .bytes b => hexOrDash b | .wellknown => "<wk>")

/-- S leaves options and diagnostic payload of library-generated replies open (SPEC DECISION D4): printed as `*` -/
def showReplyS (r : Reply) : String :=
  match r.src with
  | .app => showReply r
  | .lib => kindChar r.type ++ ":" ++ toString r.code ++ ":" ++ toString r.mid ++ ":" ++ hexOrDash r.token ++ ":*:*"

def showWho : Who → String
  | .res i => "r" ++ toString i
  | .unk => "unk"
  | .prx => "prx"

def showCall (c : Call) : String :=
  showWho c.who ++ ":" ++ toString c.code ++ ":" ++ hexOrDash c.path ++ ":" ++ hexOrDash c.query ++ ":" ++
  showOpts c.opts ++ ":" ++ hexOrDash c.payload

def showOutcome (o : Outcome) (sr : Reply → String := showReply) : String :=
  if ¬ o.inScope then "oos" else
  "tx=" ++ (if o.replies.isEmpty then "-" else String.intercalate "/" (o.replies.map sr)) ++
  " h=" ++ (match o.call with | some c => showCall c | none => "-")

def natList (s : String) : Option (List Nat) :=
  if s = "-" then some [] else (s.splitOn ",").mapM String.toNat?

def parseSpecial (s : String) : Option (Option Special) :=
  if s = "-" then some none else
  match s.splitOn ":" with
  | [m, f] => do let m ← m.toNat?; let f ← f.toNat?; if m ≥ 128 then none else pure (some ⟨m, f⟩)
  | _ => none

def parseProxy (s : String) : Option (Option Proxy) :=
  if s = "-" then some none else
  match s.splitOn ":" with
  | [m, f, n] => do let m ← m.toNat?; let f ← f.toNat?; let n ← bytesOfHex n; if m ≥ 128 then none else pure (some ⟨m, f, n⟩)
  | _ => none

def parseRes (s : String) : Option (List Res) :=
  if s = "-" then some [] else
  (s.splitOn ";").mapM fun r =>
    match r.splitOn ":" with
    | [p, m, f, o] => do
      let p ← bytesOfHex p; let m ← m.toNat?; let f ← f.toNat?; let o ← o.toNat?
      if m ≥ 128 then none else
      pure ⟨p, m, f % 2 ^ 32 / 2 * 2, o != 0⟩   -- COAP_RESOURCE_FLAGS_RELEASE_URI (bit 0) is masked by the harness
    | _ => none

/-- the implementation's escape choice cut down to what RFC 3986 allows (= the choice itself when it is legal:
C10.escape_restrict_id) -/
def specEsc : S.Esc := S.Esc.restrict ⟨Generated.Server.unescPath, Generated.Server.unescQuery⟩

def parseVerdict (s : String) : Option Verdict :=
  match s.splitOn ":" with
  | [c, p] => do let c ← c.toNat?; let p ← bytesOfHex p; pure ⟨c, p⟩
  | _ => none

def parsePU (s : String) : Option PU :=
  if s = "-" then some .absent else if s = "bad" then some .bad else
  match s.splitOn "/" with
  | [h, p] => do let h ← bytesOfHex h; let p ← bytesOfHex p; pure (.ok h p)
  | _ => none

def parseLine (args : List String) : Option (Cfg × Table × Bool × Verdict × PU × Bytes) :=
  match args with
  | [mpr, mts, known, unk, prx, res, verdict, pu, dst, hex] => do
    let mpr ← mpr.toNat?
    let mts ← mts.toNat?
    let known ← natList known
    let unk ← parseSpecial unk
    let prx ← parseProxy prx
    let res ← parseRes res
    let v ← parseVerdict verdict
    let pu ← parsePU pu
    let mc ← (if dst = "u" then some false else if dst = "m" then some true else none)
    let bs ← bytesOfHex hex
    if mts < 8 then none else
    pure (⟨mpr != 0, mts, known⟩, ⟨unk, prx, res⟩, mc, v, pu, bs)
  | _ => none

def step (args : List String) : String :=
  match parseLine args with
  | none => "bad-op"
  | some (cfg, tbl, mc, v, pu, bs) =>
    match Coap.M.parse .udp bs with
    | .ok msg =>
      let rq : Request := ⟨mc, msg, v, pu⟩
      "M " ++ showOutcome (M.serverDecision cfg (M.implTable tbl) rq) ++ " | S " ++
        showOutcome (S.serverSpec specEsc cfg tbl rq) showReplyS
    | _ => "M malformed"

/-! ### `srvq`: a sequence of datagrams from several peers at one context (see harness/server.c, stepq) -/
def parseCfg (mpr mts known unk prx res : String) : Option (Cfg × Table) := do
  let mpr ← mpr.toNat?
  let mts ← mts.toNat?
  let known ← natList known
  let unk ← parseSpecial unk
  let prx ← parseProxy prx
  let res ← parseRes res
  if mts < 8 then none else pure (⟨mpr != 0, mts, known⟩, ⟨unk, prx, res⟩)

/-- none: a malformed word; some none: a datagram that does not parse -/
def parseSteps : List String → Option (Option (List Ev))
  | [] => some (some [])
  | peer :: verdict :: pu :: dst :: hex :: rest => do
    let peer ← peer.toNat?
    if peer > 15 then none else
    let (defer, v) ← (if verdict = "defer" then some (true, (⟨0, []⟩ : Verdict)) else (parseVerdict verdict).map fun v => (false, v))
    let pu ← parsePU pu
    let mc ← (if dst = "u" then some false else if dst = "m" then some true else none)
    let bs ← bytesOfHex hex
    let more ← parseSteps rest
    match Coap.M.parse .udp bs, more with
    | .ok msg, some evs => pure (some (⟨peer, defer, ⟨mc, msg, v, pu⟩⟩ :: evs))
    | _, _ => pure none
  | _ => none

def stepq (args : List String) : String :=
  match args with
  | mpr :: mts :: known :: unk :: prx :: res :: steps =>
    if steps.isEmpty ∨ steps.length > 40 then "bad-op" else
    match parseCfg mpr mts known unk prx res, parseSteps steps with
    | some (cfg, tbl), some (some evs) =>
      "M " ++ String.intercalate " ;; " ((M.serverSeq cfg (M.implTable tbl) Hist.empty evs).map (showOutcome ·)) ++ " | S " ++
        String.intercalate " ;; " ((S.seqSpec specEsc cfg tbl Hist.empty evs).map (showOutcome · showReplyS))
    | some _, some none => "M malformed"
    | _, _ => "bad-op"
  | _ => "bad-op"

end Coap.Driver.Server
