import CoapVerif.Model.Uri
import CoapVerif.Spec.Uri
/- Line-protocol driver for C16 (URI ↔ options): M = Coap.MU, S = Coap.Spec.Uri.  See harness/uri.c for the ops. -/
-- DRIVER-OPS: splitpath => Coap.Driver.Uri.op_splitpath
-- DRIVER-OPS: splitquery => Coap.Driver.Uri.op_splitquery
-- DRIVER-OPS: pathopts => Coap.Driver.Uri.op_pathopts
-- DRIVER-OPS: queryopts => Coap.Driver.Uri.op_queryopts
-- DRIVER-OPS: getpath => Coap.Driver.Uri.op_getpath
-- DRIVER-OPS: getquery => Coap.Driver.Uri.op_getquery
-- DRIVER-OPS: rtpath => Coap.Driver.Uri.op_rtpath
-- DRIVER-OPS: rtquery => Coap.Driver.Uri.op_rtquery
-- DRIVER-OPS: splituri => Coap.Driver.Uri.op_splituri
-- DRIVER-OPS: splitproxy => Coap.Driver.Uri.op_splitproxy
-- DRIVER-OPS: uri2opts => Coap.Driver.Uri.op_uri2opts
namespace Coap.Driver.Uri
open Coap

def showList (l : List Bytes) : String :=
  if l.isEmpty then "-" else String.intercalate "," (l.map fun s => if s.isEmpty then "e" else hexOfBytes s)

def parseList (w : String) : Option (List Bytes) :=
  if w = "-" then some [] else
  (w.splitOn ",").mapM fun x => if x = "e" then some [] else
    match bytesOfHex x with
    | some [] => none
    | r => r

def showBuf (r : R (List Bytes)) : String :=
  match r with
  | .ok segs => "n=" ++ toString segs.length ++ " used=" ++ toString (MU.usedBy segs) ++ " segs=" ++ showList segs
  | .rej => "rej"
  | .oob => "oob"

def showOpts (r : R (List Bytes)) : String :=
  match r with
  | .ok segs => "ok " ++ showList segs
  | .rej => "fail"
  | .oob => "oob"

def showSpecList (o : Option (List Bytes)) : String :=
  match o with
  | some l => showList l
  | none => "none"

def showStr (r : R (Option Bytes)) : String :=
  match r with
  | .ok (some b) => "ok " ++ hexOrDash b
  | .ok none => "null"
  | .rej => "rej"
  | .oob => "oob"

def bigBuf (b : Bytes) : Nat :=
  b.length + 3 * ((b.filter fun c => c == 0x2f || c == 0x26).length + 1) + 1

def showUri (u : MU.Uri) : String :=
  "ok scheme=" ++ toString u.scheme ++ " host=" ++ hexOrDash u.host ++ " port=" ++ toString u.port ++
  " path=" ++ hexOrDash u.path ++ " query=" ++ hexOrDash u.query

def specSchemes : List (Bytes × Nat × Bool × Nat) := Generated.Uri.schemes

def showSpecUri (o : Option Spec.Uri.UriParts) : String :=
  match o with
  | some u => "ok scheme=" ++ toString u.scheme ++ " host=" ++ hexOrDash u.host ++ " port=" ++ toString u.port ++
              " path=" ++ hexOrDash u.path ++ " query=" ++ hexOrDash u.query
  | none => "rej"

def showNumOpts (l : List (Nat × Bytes)) : String :=
  if l.isEmpty then "-" else String.intercalate "," (l.map fun o => toString o.1 ++ ":" ++ hexOrDash o.2)

def dstText : Bytes := "192.0.2.1".toUTF8.toList

/-- S for uri2opts: RFC 7252 §6.4 steps 5–9 as `Spec.Uri.uriOptions` composes them (the definition the theorems
`uri_into_optlist_eq_spec` / `uri_to_options_eq_spec` are about): Uri-Host (only where S defines its value; the judge
does not compare it, D4), Uri-Port iff not the scheme's default, the Uri-Path and Uri-Query values. -/
def specUri2Opts (s : Bytes) : String :=
  match Spec.Uri.splitUri specSchemes false s with
  | none => "rej"
  | some u =>
    match Spec.Uri.pathOptions u.path, Spec.Uri.queryOptions u.query with
    | some ps, some qs =>
      let host : List (Nat × Bytes) := (Spec.Uri.hostOption dstText u.host).getD []
      "ok " ++ showNumOpts (host ++ Spec.Uri.portOption specSchemes u.scheme u.port ++
                            ps.map (fun v => (11, v)) ++ qs.map (fun v => (15, v)))
    | _, _ => "rej"

def step (op : String) (args : List String) : String :=
  if op = "getpath" || op = "getquery" || op = "rtpath" || op = "rtquery" then
    match args with
    | [w] =>
      match parseList w with
      | none => "bad-op"
      | some segs =>
        if op = "getpath" then
          "M " ++ showStr ((MU.getUriPath segs) >>= fun b => R.ok (some b)) ++ " | S ok " ++ hexOrDash (Spec.Uri.composePath segs)
        else if op = "getquery" then
          let sq := Spec.Uri.composeQuery segs
          "M " ++ showStr (MU.getQuery segs) ++ " | S " ++ (if sq.isEmpty then "null" else "ok " ++ hexOfBytes sq)
        else if op = "rtpath" then
          let m := match MU.getUriPath segs with
            | .ok str => "ok str=" ++ hexOrDash str ++ " a=" ++
                (match MU.splitPath str (bigBuf str) with | .ok l => showList l | _ => "!") ++ " b=" ++
                (match MU.pathOpts str with | .ok l => showList l | _ => "!")
            | .rej => "rej"
            | .oob => "oob"
          let str := Spec.Uri.composePath segs
          let l := showSpecList (Spec.Uri.splitPath str)
          "M " ++ m ++ " | S ok str=" ++ hexOrDash str ++ " a=" ++ l ++ " b=" ++ l
        else
          let m := match MU.getQuery segs with
            | .ok (some str) => "ok str=" ++ hexOrDash str ++ " a=" ++
                (match MU.splitQuery str (bigBuf str) with | .ok l => showList l | _ => "!") ++ " b=" ++
                (match MU.queryOpts str with | .ok l => showList l | _ => "!")
            | .ok none => "null"
            | .rej => "rej"
            | .oob => "oob"
          let str := Spec.Uri.composeQuery segs
          let l := showSpecList (Spec.Uri.splitQuery str)
          "M " ++ m ++ " | S " ++ (if str.isEmpty then "null" else "ok str=" ++ hexOfBytes str ++ " a=" ++ l ++ " b=" ++ l)
    | _ => "bad-op"
  else
    match args with
    | h :: rest =>
      match bytesOfHex h with
      | none => "bad-op"
      | some b =>
        if op = "splitpath" || op = "splitquery" then
          let buflen : Option Nat := match rest with
            | [] => some (bigBuf b)
            | [n] => n.toNat?
            | _ => none
          match buflen with
          | none => "bad-op"
          | some bl =>
            if op = "splitpath" then "M " ++ showBuf (MU.splitPath b bl) ++ " | S " ++ showSpecList (Spec.Uri.splitPath b)
            else "M " ++ showBuf (MU.splitQuery b bl) ++ " | S " ++ showSpecList (Spec.Uri.splitQuery b)
        else if rest ≠ [] then "bad-op"
        else if op = "pathopts" then "M " ++ showOpts (MU.pathOpts b) ++ " | S " ++ showSpecList (Spec.Uri.splitPath b)
        else if op = "queryopts" then "M " ++ showOpts (MU.queryOpts b) ++ " | S " ++ showSpecList (Spec.Uri.splitQuery b)
        else if op = "splituri" || op = "splitproxy" then
          let proxy := op = "splitproxy"
          "M " ++ (match MU.splitUriSub proxy b with | .ok u => showUri u | .rej => "rej" | .oob => "oob") ++
          " | S " ++ showSpecUri (Spec.Uri.splitUri specSchemes proxy b)
        else if op = "uri2opts" then
          "M " ++ (match MU.splitUriSub false b with
                   | .ok u => (match MU.uriIntoOptlist dstText u with
                               | .ok l => "ok " ++ showNumOpts l | .rej => "fail" | .oob => "oob")
                   | .rej => "rej" | .oob => "oob") ++
          " | S " ++ specUri2Opts b
        else "bad-op"
    | [] => "bad-op"

def op_splitpath (args : List String) : String := step "splitpath" args
def op_splitquery (args : List String) : String := step "splitquery" args
def op_pathopts (args : List String) : String := step "pathopts" args
def op_queryopts (args : List String) : String := step "queryopts" args
def op_getpath (args : List String) : String := step "getpath" args
def op_getquery (args : List String) : String := step "getquery" args
def op_rtpath (args : List String) : String := step "rtpath" args
def op_rtquery (args : List String) : String := step "rtquery" args
def op_splituri (args : List String) : String := step "splituri" args
def op_splitproxy (args : List String) : String := step "splitproxy" args
def op_uri2opts (args : List String) : String := step "uri2opts" args

end Coap.Driver.Uri
