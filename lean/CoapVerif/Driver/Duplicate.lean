import CoapVerif.Driver.Build
import CoapVerif.Model.Duplicate
import CoapVerif.Spec.Duplicate
/- Line-protocol driver for coap_pdu_duplicate() (C04): the PDU reached by <ops1> is duplicated, <ops2> run on the copy.

   dupb <proto> <maxsize> <type> <code> <mid> <ops1> <smax> <newmid> <tok> <flt> <ops2>
   dupe <proto> <maxsize> <wire> <ops1> <smax> <newmid> <tok> <flt> <ops2>

   <smax> / <newmid> = results of coap_session_max_pdu_size_lkd / coap_new_message_id_lkd; <tok> = <val>;
   <flt> = N (drop_options NULL) | - (empty filter) | n,n,… (coap_option_filter_set calls on a cleared filter).

   output:  [start=…] steps=… flt=<N | - | rc of each set> dup=null old=<used>.<fnv32>
          | [start=…] steps=… flt=… dup=ok old=<used>.<fnv32> copy=<used>.<fnv32> steps2=… hdr=… bytes=… built=… reparse=…
   S:       rcs=<pattern of ops1>/<pattern of ops2> msg=… bytes=… || …   (the admissible abstract copies after <ops2>) -/
-- DRIVER-OPS: dupb dupe => Coap.Driver.Duplicate.step
namespace Coap.Driver.Duplicate
open Coap Coap.M Coap.Driver.Build

/-- `N` → none (NULL); `-` → no set call; else the numbers of the set calls -/
def fltOf (s : String) : Option (Option (List Nat)) :=
  if s = "N" then some none
  else if s = "-" then some (some [])
  else
    match (s.splitOn ",").mapM (fun w => match w.toNat? with
                                          | some n => if n < 65536 then some n else none
                                          | none => none) with
    | some ns => if ns.length ≤ 64 then some (some ns) else none
    | none => none

def dg2 (bs : Bytes) : String := toString bs.length ++ "." ++ hex8 (fnv32 bs)

def stepsStr (label : String) (steps : List String) : String :=
  label ++ "=" ++ (if steps.isEmpty then "-" else String.intercalate "," steps)

/-- ` hdr=… bytes=… built=… reparse=…` of a PDU -/
def tailM (p : Proto) (pdu : Pdu) : String :=
  let b := built pdu
  match serialise p pdu with
  | none => " hdr=0 bytes=- built=" ++ b ++ " reparse=rej"
  | some bytes =>
    let rp := match M.parse p bytes with
              | R.ok m => "ok " ++ showMsgD m
              | R.rej => "rej"
              | R.oob => "oob"
    " hdr=" ++ toString (bytes.length - pdu.buf.length) ++ " bytes=" ++ dg bytes ++ " built=" ++ b ++ " reparse=" ++ rp

def pat (rcs : List Nat) : String :=
  let s := String.ofList (rcs.map fun rc => if rc = 0 then '0' else '1')
  if s.isEmpty then "-" else s

/-- the admissible abstract copies (D16, D13) of each admissible original -/
def absDup (origs : List Msg) (mid : Nat) (tok : Bytes) (flt : Option (List Nat)) : List Msg :=
  match flt with
  | none => origs.map fun a => Spec.duplicate false a mid tok (fun _ => false)
  | some f =>
    (origs.flatMap fun a =>
      Spec.duplicate false a mid tok (filterGet f) ::
        (if Spec.dupHopOk a.code (Spec.keep (filterGet f) a.opts) then [Spec.duplicate true a mid tok (filterGet f)] else [])).eraseDups

/-- the S column under CLAIMED return codes (D17: those of removals are prescribed, see Build.rcOk): admissible abstract
results of <ops1>, duplication, <ops2>.  `acc2 = none`: the copy was refused (D14: admissible), only <ops1> is judged. -/
def specUnder2 (p : Proto) (m0 : Option Msg) (calls1 : List Call) (acc1 : List Bool) (mid : Nat) (tok : Bytes)
    (f : Option (List Nat)) (calls2 : List Call) (acc2 : Option (List Bool)) : String :=
  match m0 with
  | none => "skip"
  | some m0 =>
    let hd := "rcs=" ++ Build.patStr acc1 ++ "/" ++ (match acc2 with | some a => Build.patStr a | none => "N") ++ " "
    match Build.absRunRc [m0] calls1 acc1 0 with
    | .error k => hd ++ Build.norunStr calls1 acc1 k
    | .ok origs =>
      match acc2 with
      | none => hd ++ "null"
      | some acc2 =>
        match Build.absRunRc (absDup origs mid tok f) calls2 acc2 0 with
        | .error k => hd ++ "copy " ++ Build.norunStr calls2 acc2 k
        | .ok all =>
          let alts := all.filter fun a => decide (Spec.WF p a)
          if origs.length > 16 || alts.isEmpty || alts.length > 16 then "skip" else hd ++ Build.altsStr p alts

def specStr (p : Proto) (m0 : Option Msg) (calls1 : List Call) (rcs1 : List Nat) (mid : Nat) (tok : Bytes)
    (f : Option (List Nat)) (calls2 : List Call) (rcs2 : List Nat) : String :=
  specUnder2 p m0 calls1 (rcs1.map fun rc => rc != 0) mid tok f calls2 (some (rcs2.map fun rc => rc != 0))

/-- everything after <ops1>: `pre` = what was printed so far for M, `m0` = abstract start message (none: no S) -/
def dupRest (p : Proto) (pre : String) (start : Pdu) (m0 : Option Msg) (calls1 : List Call)
    (smax mid : Nat) (tok : Bytes) (flt : Option (List Nat)) (calls2 : List Call) : String :=
  let (steps1, rcs1, r1) := runSteps start calls1
  let st1 := pre ++ stepsStr "steps" steps1
  match r1 with
  | none => "M " ++ st1 ++ " | S skip"
  | some old =>
    let (frcs, f) := match flt with
      | none => ([], none)
      | some ns => ((filterOf [] ns).1, some (filterOf [] ns).2)
    let fs := match flt with
      | none => "N"
      | some ns => if ns.isEmpty then "-" else String.ofList (frcs.map fun rc => if rc = 0 then '0' else '1')
    let st2 := st1 ++ " flt=" ++ fs
    match duplicate old mid smax tok (f.map filterGet) with
    | R.rej => "M " ++ st2 ++ " dup=rej | S skip"
    | R.oob => "M " ++ st2 ++ " dup=oob | S skip"
    | R.ok none =>
      -- S does not depend on M's refusal: what a copy would have to be, had one been returned (nothing runs on it)
      "M " ++ st2 ++ " dup=null old=" ++ dg2 old.buf ++ " | S " ++
        (if calls2.isEmpty then specStr p m0 calls1 rcs1 mid tok f [] [] else "skip")
    | R.ok (some copy) =>
      let (steps2, rcs2, r2) := runSteps copy calls2
      let st3 := st2 ++ " dup=ok old=" ++ dg2 old.buf ++ " copy=" ++ dg2 copy.buf ++ " " ++ stepsStr "steps2" steps2
      match r2 with
      | none => "M " ++ st3 ++ " | S skip"
      | some fin => "M " ++ st3 ++ tailM p fin ++ " | S " ++ specStr p m0 calls1 rcs1 mid tok f calls2 rcs2

def step (args : List String) : String :=
  match args with
  | [p, ms, t, c, m, ops1, smax, mid, tok, flt, ops2] =>     -- dupb
    match protoOf p, ms.toNat?, t.toNat?, c.toNat?, m.toNat?, callsOf ops1 with
    | some p, some ms, some t, some c, some m, some calls1 =>
      match smax.toNat?, mid.toNat?, valOf tok, fltOf flt, callsOf ops2 with
      | some smax, some mid, some tok, some flt, some calls2 =>
        if t > 3 ∨ c > 255 ∨ m > 65535 ∨ smax > 8388864 ∨ mid > 65535 then "bad-op" else
        match pduInit t c m ms with
        | none => "M fail | S skip"
        | some pdu => dupRest p "" pdu (some ⟨t, c, m, [], [], []⟩) calls1 smax mid tok flt calls2
      | _, _, _, _, _ => "bad-op"
    | _, _, _, _, _, _ => "bad-op"
  | [p, ms, w, ops1, smax, mid, tok, flt, ops2] =>           -- dupe
    match protoOf p, ms.toNat?, valOf w, callsOf ops1 with
    | some p, some ms, some wire, some calls1 =>
      match smax.toNat?, mid.toNat?, valOf tok, fltOf flt, callsOf ops2 with
      | some smax, some mid, some tok, some flt, some calls2 =>
        if smax > 8388864 ∨ mid > 65535 then "bad-op" else
        let body := wire.drop (hdrLen p wire)
        if ms > 8388864 - 6 then "M fail | S skip" else
        match M.parse p wire with
        | R.ok m0 =>
          if ms ≠ 0 ∧ body.length > ms then "M rej | S skip" else
          dupRest p ("start=" ++ dg2 body ++ " ") (ofParsed ms m0 body) (Spec.decode p wire) calls1 smax mid tok flt calls2
        | R.rej => "M rej | S skip"
        | R.oob => "M oob | S skip"
      | _, _, _, _, _ => "bad-op"
    | _, _, _, _ => "bad-op"
  | _ => "bad-op"

end Coap.Driver.Duplicate
