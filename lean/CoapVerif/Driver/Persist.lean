import CoapVerif.Model.Persist
/- Line-protocol driver for C17: predicts, for one history, the op log of every event, the canonical contents of the
three persistence files at every crash point and the state a restarted server reaches from there.
Mirrors harness/persist.c (same event words, same request packets, same canonical strings). -/
-- DRIVER-OPS: persist => Coap.Driver.Persist.step
-- DRIVER-OPS: persistep => Coap.Driver.Persist.stepEp
namespace Coap.Driver.Persist
open Coap Coap.Persist Coap.Persist.Op Coap.Persist.Name

def resNames : List Bytes := ["a", "bb", "dyn/c", "a0", "sensors/temp/1", ""].map fun (s : String) => s.toUTF8.toList
def nRes : Nat := 6
def nCli : Nat := 3

def nameOf (i : Nat) : Bytes := resNames.getD i []
def idxOf (nm : Bytes) : Int :=
  match resNames.findIdx? (· = nm) with
  | some i => i
  | none => -1

/-- the request datagram harness/persist.c builds: NON, token, [Observe], Uri-Path segments, [payload] -/
def splitSlash (bs : Bytes) : List Bytes :=
  if bs.isEmpty then [] else
  (bs.foldr (fun b (acc : List Bytes) => if b = 47 then [] :: acc else
      match acc with
      | [] => [[b]]
      | h :: t => (b :: h) :: t) [[]])

def pathOpts (prev : Nat) : List Bytes → Bytes
  | [] => []
  | s :: r => UInt8.ofNat ((11 - prev) * 16 + s.length) :: s ++ pathOpts 11 r

def mkReq (code mid : Nat) (tok : Bytes) (path : Bytes) (observe : Option Nat) (payload : Bytes) : Bytes :=
  [UInt8.ofNat (0x50 + tok.length), UInt8.ofNat code, UInt8.ofNat (mid / 256), UInt8.ofNat (mid % 256)] ++ tok ++
  (match observe with
   | none => pathOpts 0 (splitSlash path)
   | some 0 => [0x60] ++ pathOpts 6 (splitSlash path)
   | some v => [0x61, UInt8.ofNat v] ++ pathOpts 6 (splitSlash path)) ++
  (if payload.isEmpty then [] else 0xFF :: payload)

/-- the oracle for `coap_persist_observe_add`: the harness' observe tokens are {client, resource, version, 0xAA} -/
def pktInfo : PktInfo := fun pkt =>
  match pkt with
  | _ :: _ :: _ :: _ :: c :: i :: v :: 0xAA :: _ => if i.toNat < nRes then some (nameOf i.toNat, c.toNat, v.toNat) else none
  | _ => none

/-- the server configuration of a case: the kinds of the UDP endpoints in creation order (`persist`: one endpoint of kind 0;
`persistep <f> <kinds>`: 1–3 distinct kinds) and the number of clients.  Client `c` talks to the endpoint at position
`(c / 3) % #endpoints` (so a client = a session belongs to one endpoint, as in libcoap). -/
structure Cfg where
  kinds : List Nat
  nCli : Nat

/-- `bind_addr` of an endpoint of kind `k` as `coap_address_t` bytes (x86-64: socklen_t size = 16, sockaddr_in, zero padding):
0 = 127.0.0.1:45683, 1 = 127.0.0.1:45685, 2 = 127.0.0.2:45683 -/
def epAddr (k : Nat) : Bytes :=
  let port := if k = 1 then 45685 else 45683
  let host : Nat := if k = 2 then 2 else 1
  le 4 16 ++ [2, 0, UInt8.ofNat (port / 256), UInt8.ofNat (port % 256), 127, 0, 0, UInt8.ofNat host] ++ List.replicate 20 0

def Cfg.epOf (cfg : Cfg) (client : Nat) : Ep := ⟨protoUdp, epAddr (cfg.kinds.getD ((client / 3) % cfg.kinds.length) 0)⟩

/-- `context->endpoint`: coap_new_endpoint() prepends -/
def Cfg.eps (cfg : Cfg) : List Ep := (cfg.kinds.map fun k => (⟨protoUdp, epAddr k⟩ : Ep)).reverse

def mkRec (cfg : Cfg) (client : Nat) (pkt : Bytes) (key : Nat) : ObsRec :=
  ⟨key, protoUdp, (cfg.epOf client).addr, le szTuple client, pkt, none⟩

/-! ### canonical strings -/

def fileStr : Name → String
  | main .dyn => "dyn" | main .obs => "obs" | main .cnt => "cnt"
  | tmp .dyn => "dyn.tmp" | tmp .obs => "obs.tmp" | tmp .cnt => "cnt.tmp"

def modeStr : Mode → String
  | .r => "r" | .w => "w" | .wp => "w+" | .a => "a"

def b2s (b : Bool) : String := if b then "1" else "0"

/-- one op-log word, with the result the call returns in state `fs` -/
def opStr (fs : FS) : Op → String
  | fopen n m => "o:" ++ fileStr n ++ ":" ++ modeStr m ++ ":" ++ b2s (m != .r || (fs.disk n).isSome)
  | fread n sz => "R:" ++ fileStr n ++ ":" ++ toString sz ++ ":" ++
      (match fs.rd n with
       | some rest => b2s (!(sz = 0 || rest.length < sz))
       | none => "0")
  | fgets n cap => "G:" ++ fileStr n ++ ":" ++
      (match fs.rd n with
       | some [] => "eof"
       | some rest => toString (lineOf (cap - 1) rest).length
       | none => "eof")
  | fwrite n bs => "W:" ++ fileStr n ++ ":" ++ toString bs.length
  | fflush n => "F:" ++ fileStr n
  | fclose n => "c:" ++ fileStr n
  | rename a b => "mv:" ++ fileStr a ++ ":" ++ fileStr b ++ ":" ++ b2s (fs.disk a).isSome
  | remove a => "rm:" ++ fileStr a ++ ":" ++ b2s (fs.disk a).isSome

def opLog (fs : FS) (ops : List Op) : List String :=
  (ops.foldl (fun (st : FS × List String) op => (Persist.step st.1 op, opStr st.1 op :: st.2)) (fs, [])).2.reverse

def joinOr (sep : String) (xs : List String) (emptyS : String) : String :=
  if xs.isEmpty then emptyS else sep.intercalate xs

/-- decode as many records as possible, return them and whether undecodable bytes are left -/
def scanDyn : Nat → Bytes → List DynRec × Bool
  | 0, bs => ([], !bs.isEmpty)
  | fuel+1, bs => if bs.isEmpty then ([], false) else
    match (dynRead bs).2 with
    | none => ([], true)
    | some (r, rest) => let (l, t) := scanDyn fuel rest; (r :: l, t)

def scanObs : Nat → Bytes → List ObsRec × Bool
  | 0, bs => ([], !bs.isEmpty)
  | fuel+1, bs => if bs.isEmpty then ([], false) else
    match (obsRead bs).2 with
    | none => ([], true)
    | some (r, rest) => let (l, t) := scanObs fuel rest; (r :: l, t)

/-- canonical reading of the counter file (independent of the C parser, as in the harness): `name SP digits LF`,
the value being what follows the LAST space -/
def scanCnt : Nat → Bytes → List (Bytes × Bytes) × Bool
  | 0, bs => ([], !bs.isEmpty)
  | fuel+1, bs => if bs.isEmpty then ([], false) else
    let line := bs.takeWhile (· ≠ 10)
    if line.length = bs.length then ([], true) else
    let rev := line.reverse
    let digs := (rev.takeWhile (· ≠ 32)).reverse
    if digs.length = line.length || digs.isEmpty || !digs.all isDigit then ([], true) else
    let nm := line.take (line.length - digs.length - 1)
    let (l, t) := scanCnt fuel (bs.drop (line.length + 1))
    ((nm, digs) :: l, t)

def tornS (t : Bool) (body : String) : String := if t then body ++ "+torn" else if body.isEmpty then "-" else body

def dynStr (d : Option Bytes) : String :=
  match d with
  | none => "~"
  | some bs =>
    let (l, t) := scanDyn (bs.length + 1) bs
    tornS t (",".intercalate (l.map fun r => toString (idxOf r.name)))

def subStr (c i v : Nat) : String := toString c ++ "." ++ toString i ++ "." ++ toString v

def obsStr (d : Option Bytes) : String :=
  match d with
  | none => "~"
  | some bs =>
    let (l, t) := scanObs (bs.length + 1) bs
    tornS t (",".intercalate (l.map fun r =>
      match pktInfo r.pkt with
      | some (nm, c, v) => toString c ++ "." ++ toString (idxOf nm) ++ "." ++ toString v
      | none => "-1.-1.-1!"))

def cntStr (d : Option Bytes) : String :=
  match d with
  | none => "~"
  | some bs =>
    let (l, t) := scanCnt (bs.length + 1) bs
    tornS t (",".intercalate (l.map fun (nm, digs) => toString (idxOf nm) ++ "=" ++ String.ofList (digs.map fun b => Char.ofNat b.toNat)))

def tmpStr (disk : Name → Option Bytes) : String :=
  let s := (if (disk (tmp .dyn)).isSome then "d" else "") ++ (if (disk (tmp .obs)).isSome then "o" else "") ++
           (if (disk (tmp .cnt)).isSome then "c" else "")
  if s.isEmpty then "-" else s

def insertSorted (x : Nat × Nat × Nat) : List (Nat × Nat × Nat) → List (Nat × Nat × Nat)
  | [] => [x]
  | y :: r => if x.1 < y.1 || (x.1 = y.1 && (x.2.1 < y.2.1 || (x.2.1 = y.2.1 && x.2.2 ≤ y.2.2))) then x :: y :: r
              else y :: insertSorted x r

abbrev Sent := List (Nat × List Nat)      -- resource index ↦ Observe values put on the wire (last 12)

def sentAdd (s : Sent) (i : Nat) (vs : List Nat) : Sent :=
  s.map fun (j, l) => if j = i then (j, let l' := l ++ vs; l'.drop (l'.length - 12)) else (j, l)

def sentStr (s : Sent) : String :=
  joinOr "," ((s.filter (fun p => !p.2.isEmpty)).map fun (i, l) => toString i ++ "=" ++ "/".intercalate (l.map toString)) "-"

/-- `D:…;O:…;C:…;T:…;R:…;S:…;N:…;P:…` for the disk a killed process leaves behind -/
def stateStr (cfg : Cfg) (disk : Name → Option Bytes) (f nextKey : Nat) (sent : Sent) : String :=
  let fs : FS := ⟨disk, fun _ => none, fun _ => none⟩
  let (srv, _, _) := startup pktInfo cfg.eps fs f nextKey
  let byIdx := (List.range nRes).filterMap fun i => (srv.find (nameOf i)).map fun r => (i, r)
  let rS := joinOr "," (byIdx.map fun (i, r) => toString i ++ "@" ++ toString r.observe) "-"
  let subs := byIdx.foldl (fun acc (i, r) => r.subs.foldl (fun acc s => insertSorted (s.client, i, s.ver) acc) acc) []
  let sS := joinOr "," (subs.map fun (c, i, v) => subStr c i v) "-"
  let nS := joinOr "," ((byIdx.filter fun (_, r) => !r.subs.isEmpty).map fun (i, r) => toString i ++ "=" ++ toString (nextObs r.observe)) "-"
  "D:" ++ dynStr (disk (main .dyn)) ++ ";O:" ++ obsStr (disk (main .obs)) ++ ";C:" ++ cntStr (disk (main .cnt)) ++
  ";T:" ++ tmpStr disk ++ ";R:" ++ rS ++ ";S:" ++ sS ++ ";N:" ++ nS ++ ";P:" ++ sentStr sent

/-! ### events -/

structure St where
  srv : Srv
  fs : FS
  mid : Nat
  sent : Sent

def parseNat? (s : String) : Option Nat := s.toNat?

/-- (new state, ops of the event, values sent at its end); `none` = malformed event word -/
def runEvent (cfg : Cfg) (st : St) (ev : String) : Option (St × List Op × Sent) :=
  let kind := ev.take 1
  let args := ((ev.drop 1).toString.splitOn ".").map parseNat?
  let kind := kind.toString
  if ev = "r" then
    let (srv, fs, ops) := startup pktInfo cfg.eps ⟨st.fs.disk, fun _ => none, fun _ => none⟩ st.srv.f st.srv.nextKey
    some ({ st with srv := srv, fs := fs }, ops, st.sent)
  else match kind, args with
  | "c", [some i] => if i < nRes then
      let pkt := mkReq 3 st.mid [0xC0, UInt8.ofNat i] (nameOf i) none [118]
      let (srv, fs, ops) := evCreate st.srv st.fs (nameOf i) pkt 1
      some ({ st with srv := srv, fs := fs, mid := st.mid + 1 }, ops, st.sent) else none
  | "d", [some i] => if i < nRes then
      let (srv, fs, ops) := evDelete st.srv st.fs (nameOf i)
      -- a resource created later under the same name is a new resource: the record of sent values starts afresh
      some ({ st with srv := srv, fs := fs, mid := st.mid + 1 }, ops,
            st.sent.map fun (j, l) => if j = i then (j, []) else (j, l)) else none
  | "a", [some c, some i, some v] => if c < cfg.nCli ∧ i < nRes ∧ v < 10 then
      let pkt := mkReq 1 st.mid [UInt8.ofNat c, UInt8.ofNat i, UInt8.ofNat v, 0xAA] (nameOf i) (some 0) []
      let (srv, fs, ops) := evObserve st.srv st.fs (nameOf i) c v (mkRec cfg c pkt)
      some ({ st with srv := srv, fs := fs, mid := st.mid + 1 }, ops, st.sent) else none
  | "x", [some c, some i, some v] => if c < cfg.nCli ∧ i < nRes ∧ v < 10 then
      let (srv, fs, ops) := evCancel st.srv st.fs (nameOf i) c
      some ({ st with srv := srv, fs := fs, mid := st.mid + 1 }, ops, st.sent) else none
  | "n", [some i] => if i < nRes then
      let (srv, fs, ops, vals) := evNotify st.srv st.fs (nameOf i)
      some ({ st with srv := srv, fs := fs }, ops, sentAdd st.sent i vals) else none
  | "j", [some i, some v] => if i < nRes then
      let (srv, fs, ops) := evJump st.srv st.fs (nameOf i) v
      let sent := if (st.srv.find (nameOf i)).isSome then st.sent.map fun (j, l) => if j = i then (j, []) else (j, l) else st.sent
      some ({ st with srv := srv, fs := fs, sent := sent }, ops, sent) else none
  | _, _ => none

/-- the `k-range{state}` list: state for "killed immediately before the k-th op", k = 1 … K+1 -/
def crashStates (cfg : Cfg) (st : St) (ops : List Op) (sentAfter : Sent) (sentDuring : Sent) : List String :=
  let K := ops.length
  -- walk through the ops keeping the current file system
  let (_, _, acc) := (List.range (K + 1)).foldl (fun (s : FS × List Op × List String) k =>
      let (fs, rest, acc) := s
      let disk := crashDisk fs (fun _ => 0)
      let str := stateStr cfg disk st.srv.f st.srv.nextKey (if k = K then sentAfter else sentDuring)
      match rest with
      | [] => (fs, [], str :: acc)
      | op :: r => (Persist.step fs op, r, str :: acc)) (st.fs, ops, [])
  acc.reverse

def ranges (xs : List String) : List String :=
  -- run-length compression with 1-based indices
  let rec go (from_ k : Nat) (cur : String) : List String → List String
    | [] => [rangeS from_ (k - 1) cur]
    | x :: r => if x = cur then go from_ (k + 1) cur r else rangeS from_ (k - 1) cur :: go k (k + 1) x r
  match xs with
  | [] => []
  | x :: r => go 1 2 x r
where rangeS (a b : Nat) (s : String) : String :=
  (if a = b then toString a else toString a ++ "-" ++ toString b) ++ "{" ++ s ++ "}"

def stepCfg (cfg : Cfg) (args : List String) : String :=
  match args with
  | fS :: evs =>
    match fS.toNat? with
    | none => "bad-op"
    | some f =>
      if f < 1 ∨ f > 1000 then "bad-op" else
      let st0 : St := ⟨⟨[], 1000, f, cfg.eps⟩, FS.empty, 100, (List.range nRes).map fun i => (i, [])⟩
      -- the initial server start-up on the empty directory performs three failing fopen()s: no effect
      let (out, _, _) := evs.foldl (fun (acc : String × St × Bool) ev =>
          let (out, st, bad) := acc
          if bad then acc else
          match runEvent cfg st ev with
          | none => (out ++ " bad-op", st, true)
          | some (st', ops, sentAfter) =>
            let sentDuring := if ev.take 1 == "j" then sentAfter else st.sent
            let log := opLog st.fs ops
            let states := ranges (crashStates cfg st ops sentAfter sentDuring)
            (out ++ " [" ++ ev ++ " L=" ++ joinOr " " log "-" ++ " K=" ++ toString ops.length ++
              String.join (states.map (" " ++ ·)) ++ "]", { st' with sent := sentAfter }, false))
        ("M f=" ++ toString f, st0, false)
      out
  | _ => "bad-op"

/-- `persist <f> ev…`: one endpoint (127.0.0.1:45683), clients 0..2 -/
def step (args : List String) : String := stepCfg ⟨[0], nCli⟩ args

/-- `persistep <f> <kinds> ev…`: `<kinds>` = 1..3 distinct digits of 0..2, the endpoints in creation order; clients 0..8 -/
def stepEp (args : List String) : String :=
  match args with
  | fS :: kS :: evs =>
    let ks := kS.toList.map fun ch => ch.toNat - 48
    if ks.isEmpty ∨ ks.length > 3 ∨ !(kS.toList.all fun ch => ch = '0' ∨ ch = '1' ∨ ch = '2') ∨ !ks.Nodup then "bad-op"
    else stepCfg ⟨ks, 3 * nCli⟩ (fS :: evs)
  | _ => "bad-op"

end Coap.Driver.Persist
