import CoapVerif.Model.TlsGate
import CoapVerif.Model.PskSelect
import CoapVerif.Spec.TlsCreds
import CoapVerif.Util
/- Line-protocol driver for C19.
   `tlsgate <who>:<event>/<oracle answers> …`  replays the entry points and oracle answers OBSERVED by harness/dtls.c
        through M (Coap.TlsGate) and prints the harness' canonical segments.
   `dtls|tls <configuration words>`           S: may this credential configuration complete a handshake
        (Coap.TlsCreds.accepts) — the spec-level expectation the observed verdict is judged against. -/
-- DRIVER-OPS: tlsgate => Coap.Driver.TlsGate.replayStep
-- DRIVER-OPS: dtls tls => Coap.Driver.TlsGate.specStep
-- DRIVER-OPS: pskreplay => Coap.Driver.TlsGate.pskReplayStep
/- `pskreplay <configuration words> :: <ses | pch:<name> | psk:<identity>> …`  replays the server-side credential callbacks
        OBSERVED by harness/dtls.c (trampolines around libcoap's post_client_hello_gnutls_psk / psk_server_callback) through M
        (Coap.PskSelect, the SNI cache threaded through the whole scenario) and prints, next to it, what S says for each. -/
namespace Coap.Driver.TlsGate
open Coap Coap.TlsGate

def kindChar : Nat → String
  | 0 => "C" | 1 => "N" | 2 => "A" | _ => "R"

def showView (v : View) : String :=
  s!"{kindChar v.kind}.{v.code}.{v.mid}.{v.tok}"

def showNack : Nack → String
  | .retries => "retries" | .undeliv => "undeliv" | .rst => "rst" | .tls => "tls" | .icmp => "icmp" | .bad => "bad"
  | .tlslayer => "tlslayer"

def showOut : Out → Option String
  | .tx _ v _ _ => some ("tx:" ++ showView v)
  | .req t p => some s!"req:{t}:{p}"
  | .rsp t c => some s!"rsp:{t}:{c}"
  | .nack r t _ => some s!"nack:{showNack r}:{t.getD "-"}"
  | .ev .closed => some "ev:closed"
  | .ev .connected => some "ev:connected"
  | .ev .error => some "ev:error"
  | .evTcp .connected => some "ev:tcp-connected"
  | .evTcp .closed => some "ev:tcp-closed"
  | .evTcp .failed => some "ev:tcp-failed"
  | .evTcp .sessConnected => some "ev:sess-connected"
  | .evTcp .sessClosed => some "ev:sess-closed"
  | .evTcp .sessFailed => some "ev:sess-failed"
  | .evNew => some "ev:new"
  | .evDel => some "ev:del"
  | .evRtx => some "ev:rtx"
  | .bye => some "bye"
  | .alert => some "alert"
  | .cookie => some "cookie"
  | .sendfail => some "sendfail"
  | .hsOkMark => none
  | .orcMissing => some "!orc"
  | .unmodelled w => some ("!unmodelled:" ++ w)

def b01 (b : Bool) : String := if b then "1" else "0"

def showState : Option Sess → String
  | none => "gone"
  | some s =>
    if s.freed then "gone"
    else s!"st={s.state.toNat},tls={b01 s.tls},dq={s.delayq.length},ca={s.conActive},if={s.inflight.length}" ++
      (if s.proto = .tls then s!",df={b01 s.doingFirst}" else "") ++
      (if s.blockMode then ",lg=" ++ (if s.lgCrcv.isEmpty then "-" else String.intercalate "." (s.lgCrcv.map (·.tok))) else "")

def parseKind : String → Option Nat
  | "C" => some 0 | "N" => some 1 | "A" => some 2 | "R" => some 3 | _ => none

def parseView (s : String) : Option RecRes :=
  if s.startsWith "junk" then some .junk else
  match s.splitOn "." with
  | [k, code, mid, tok] => do
    let k ← parseKind k; let code ← code.toNat?; let mid ← mid.toNat?
    pure (.data ⟨k, code, mid, tok, "-"⟩)
  | [k, code, mid, tok, pl] => do
    let k ← parseKind k; let code ← code.toNat?; let mid ← mid.toNat?
    pure (.data ⟨k, code, mid, tok, pl⟩)
  | _ => none

def parseHs : String → Option HsRes
  | "ok" => some .ok | "again" => some .again | "insuff" => some .insuff | "fatalrx" => some .fatalrx
  | "unexp" => some .unexp | "warn" => some .warn | "nocert" => some .nocert | "decrypt" => some .decrypt
  | "certerr" => some .certerr | "cipher" => some .cipher | "eof" => some .eof | "other" => some .other
  | _ => none

def parseOrc (s : String) : Option Orc :=
  match s.splitOn "=" with
  | ["env", "ok"] => some (.env true)
  | ["env", "fail"] => some (.env false)
  | ["ck", "ok"] => some (.ck true)
  | ["ck", "bad"] => some (.ck false)
  | ["hs", r] => (parseHs r).map .hs
  | ["snd", "ok"] => some (.snd .ok)
  | ["snd", "again"] => some (.snd .again)
  | ["snd", "fatalrx"] => some (.snd .fatalrx)
  | ["snd", "err"] => some (.snd .err)
  | ["snd", "push"] => some (.snd .push)
  | ["snd", "part"] => some (.snd .part)
  | ["rec", "again"] => some (.recv .again)
  | ["rec", "pull"] => some (.recv .pull)
  | ["rec", "zero"] => some (.recv .zero)
  | ["rec", "fatalrx"] => some (.recv .fatalrx)
  | ["rec", "warn"] => some (.recv .warn)
  | ["rec", "err"] => some (.recv .err)
  | ["rec", d] => if d.startsWith "data:" then (parseView (String.ofList (d.toList.drop 5))).map .recv else none
  | _ => none

def parseOrcs (s : String) : Option (List Orc) :=
  if s = "-" then some [] else (s.splitOn ",").mapM parseOrc

/-- the sessions of a scenario: c = the client session, s = the server session for it, t = the server session for the
other (injecting) address; p / r = an EARLIER client session against the same server context and its server session
(`pre=` scenarios: one at a time, each gone before the next is made) -/
structure Tab where
  c : Option Sess := none
  s : Option Sess := none
  t : Option Sess := none
  p : Option Sess := none
  r : Option Sess := none

def Tab.get (tb : Tab) : String → Option Sess
  | "c" => tb.c | "s" => tb.s | "p" => tb.p | "r" => tb.r | _ => tb.t
def Tab.set (tb : Tab) (w : String) (x : Option Sess) : Tab :=
  match w with
  | "c" => { tb with c := x } | "s" => { tb with s := x } | "p" => { tb with p := x } | "r" => { tb with r := x }
  | _ => { tb with t := x }

def parseDgKind : String → Option DgKind
  | "hello" => some .hello | "short" => some .short | "cid" => some .cid | "other" => some .other | _ => none

/-- run one observed entry point; returns the session afterwards, the outputs, leftover oracle answers -/
def runEvent (tb : Tab) (who : String) (ev : List String) (orc : List Orc) : Option (Option Sess × List Out × Nat × List String) :=
  let live : Option Sess := (tb.get who).bind fun s => if s.freed then none else some s
  let viaStep (e : Ev) : Option (Option Sess × List Out × Nat × List String) :=
    match live with
    | some s => let c := s.stepCtx e orc; some (some c.s, c.out, c.orc.length, [])
    | none => some (none, [], orc.length, [])
  match ev with
  | ["new"] => let c := newClientCtx orc; some (some c.s, c.out, c.orc.length, [])
  | ["newb"] => let c := newClientCtx orc true; some (some c.s, c.out, c.orc.length, [])      -- context with COAP_BLOCK_USE_LIBCOAP
  | ["new", "fail"] => some (none, [], orc.length, [])
  | ["send", km, tok] =>
    -- C / N: Confirmable / Non-confirmable GET; O / M: the same with an Observe option
    match km.toList with
    | k :: m =>
      match (String.ofList m).toNat? with
      | some mid =>
        if k = 'C' ∨ k = 'N' ∨ k = 'O' ∨ k = 'M' then viaStep (.appSendL (k = 'C' ∨ k = 'O') (k = 'O' ∨ k = 'M') 1 mid tok) else none
      | none => none
    | [] => none
  | ["lgx", keep] => viaStep (.lgExpire (if keep = "-" then [] else keep.splitOn "."))
  | ["dg"] => viaStep .dgram
  -- TLS over TCP (harness/tls.c)
  | ["tnew", "now"] => let c := newClientTlsCtx true orc; some (some c.s, c.out, c.orc.length, [])
  | ["tnew", "prog"] => let c := newClientTlsCtx false orc; some (some c.s, c.out, c.orc.length, [])
  | ["tnewb", "now"] => let c := newClientTlsCtx true orc true; some (some c.s, c.out, c.orc.length, [])
  | ["tnewb", "prog"] => let c := newClientTlsCtx false orc true; some (some c.s, c.out, c.orc.length, [])
  | ["tnew", "fail"] => some (none, [], orc.length, [])
  | ["tsend", km, tok] =>
    match (String.ofList (km.toList.drop 1)).toNat? with
    | some mid => viaStep (.appSendStrm false 1 mid tok)
    | none => none
  | ["tsendw", km, tok] =>
    match (String.ofList (km.toList.drop 1)).toNat? with
    | some mid => viaStep (.appSendStrm true 1 mid tok)
    | none => none
  | ["acc"] =>
    match live with
    | none => let c := acceptCtx orc; some (some c.s, c.out, c.orc.length, [])
    | some _ => some (live, [], orc.length, ["!second-accept"])
  | ["tick"] => some (live, [], orc.length, [])
  | ["io", flags] =>
    -- coap_io_do_epoll_lkd for one event: connect, read, write — in this order, on the same session
    let evOf : Char → Option Ev
      | 'c' => some (.tcpConnect true) | 'r' => some .strmRead | 'w' => some .strmWrite | _ => none
    match live with
    | none => some (none, [], orc.length, [])
    | some s0 =>
      let r := flags.toList.foldl (fun (acc : Option (Sess × List Out × List Orc)) ch =>
        match acc, evOf ch with
        | some (s, outs, o), some e => let c := s.stepCtx e o; some (c.s, outs ++ c.out, c.orc)
        | some a, none => if ch = 'n' then some a else none
        | none, _ => none) (some (s0, [], orc))
      r.map fun (s, outs, o) => (some s, outs, o.length, [])
  | ["tmo"] => viaStep .tlsTimeout
  | ["rtx", mid] => mid.toNat?.bind fun m => viaStep (.retransmit m)
  | ["rel"] => viaStep .release
  | ["icmp"] => viaStep (.appDisconnect .icmp)      -- coap_session_disconnected(session, COAP_NACK_ICMP_ISSUE)
  | ["del"] => viaStep .del
  | ["free"] =>
    -- coap_free_context: queue nodes go first (no NACK), then every session
    match live with
    | some s =>
      if s.typ = .client then
        let c := ({ s with inflight := [], appRef := false } : Sess).stepCtx .release orc
        some (some c.s, c.out, c.orc.length, [])
      else viaStep .del
    | none => some (none, [], orc.length, [])
  | ["ep", _src, kind] =>
    if kind = "known" then
      match live with
      | some _ => viaStep .dgram
      | none => some (none, [], orc.length, ["!known"])
    else
      match parseDgKind kind, live with
      | some k, none =>
        if prefilterCreates k then
          let c := endpointRxUnknownCtx orc
          some (some c.s, c.out, c.orc.length, [])
        else some (none, [], orc.length, [])
      | some _, some _ => some (live, [], orc.length, ["!unknown"])
      | none, _ => none
  | _ => none

def replayAll : List String → Tab → List String → Option (List String)
  | [], _, acc => some acc.reverse
  | w :: rest, tb, acc =>
    match w.splitOn "/" with
    | [head, orcS] =>
      match head.splitOn ":", parseOrcs orcS with
      | who :: ev, some orc =>
        if who ≠ "c" ∧ who ≠ "s" ∧ who ≠ "t" ∧ who ≠ "p" ∧ who ≠ "r" then none else
        match runEvent tb who ev orc with
        | some (s', outs, left, notes) =>
          let os := outs.filterMap showOut ++ notes ++ (if left > 0 then ["!unused" ++ toString left] else [])
          let seg := head ++ "/" ++ orcS ++ ">" ++ (if os.isEmpty then "-" else String.intercalate "," os) ++ "|" ++ showState s'
          let tb' := tb.set who (match s' with | some s => if s.freed then none else some s | none => none)
          replayAll rest tb' (seg :: acc)
        | none => none
      | _, _ => none
    | _ => none

def replayStep (args : List String) : String :=
  match replayAll args {} [] with
  | some segs => "M " ++ String.intercalate " ; " segs
  | none => "bad-op"

/-! ### S: the credential verdict -/
open Coap.TlsCreds in
def parseCfg : List String → Cfg → Option Cfg
  | [], cfg => some cfg
  | w :: rest, cfg =>
    if w.startsWith "pre=" then parseCfg rest cfg else       -- (its value contains '=': read by `parsePre`)
    match w.splitOn "=" with
    | [k, v] =>
      let hx (s : String) : String := if s = "-" ∨ s = "e" then "" else s
      let pairs (s : String) : Option (List (String × String)) :=
        (s.splitOn ",").mapM fun e => match e.splitOn ":" with | [a, b] => some (hx a, hx b) | _ => none
      let triples (s : String) : Option (List (String × String × String)) :=
        (s.splitOn ",").mapM fun e => match e.splitOn ":" with | [a, b, c] => some (hx a, hx b, hx c) | _ => none
      match k with
      | "ci" => parseCfg rest { cfg with ci := hx v }
      | "ck" => parseCfg rest { cfg with ck := hx v }
      | "sk" => parseCfg rest { cfg with sk := hx v }
      | "sh" => parseCfg rest { cfg with sh := if v = "-" then none else some (hx v) }
      | "st" => if v = "-" then parseCfg rest { cfg with st := none } else (pairs v).bind fun t => parseCfg rest { cfg with st := some t }
      | "ss" => if v = "-" then parseCfg rest { cfg with ss := none } else (triples v).bind fun t => parseCfg rest { cfg with ss := some t }
      | "ih" => parseCfg rest { cfg with ih := if v = "-" then .none else if v = "*" then .any else .list ((v.splitOn ",").map hx) }
      | "sni" => parseCfg rest { cfg with sni := if v = "-" then none else some v }
      | "q" => parseCfg rest cfg
      | "f" => parseCfg rest cfg
      | "inj" => parseCfg rest cfg
      | "rel" => parseCfg rest cfg
      | "icmp" => parseCfg rest cfg
      | "idle" => parseCfg rest cfg
      | "conn" => parseCfg rest cfg
      | "acc" => parseCfg rest cfg
      | "wait" => parseCfg rest cfg
      | "bm" => parseCfg rest cfg
      | "tt" => parseCfg rest cfg
      | "b" => parseCfg rest cfg          -- (C08) burst submitted once the session is established: no credential matter
      | _ => none
    | _ => none

/-- `pre=<K>:<I>:<S>,…`: the credentials of the EARLIER clients ('=' = as the main client; S '-' = no server name) -/
def parsePre (args : List String) (cfg : Coap.TlsCreds.Cfg) : Option (List Coap.TlsCreds.Cfg) :=
  match args.find? (·.startsWith "pre=") with
  | none => some []
  | some w =>
    let v := String.ofList (w.toList.drop 4)
    if v = "-" then some [] else
    (v.splitOn ",").mapM fun e =>
      match e.splitOn ":" with
      | [k, i, s] =>
        some { cfg with ck := if k = "=" then cfg.ck else (if k = "-" ∨ k = "e" then "" else k),
                        ci := if i = "=" then cfg.ci else (if i = "-" ∨ i = "e" then "" else i),
                        sni := if s = "=" then cfg.sni else if s = "-" then none else some s }
      | _ => none

def showVerdict : Coap.TlsCreds.Verdict → String
  | .ok => "ok" | .fail => "fail" | .nosession => "nosession"

def specStep (args : List String) : String :=
  match parseCfg args {} with
  | some cfg =>
    match parsePre args cfg with
    | some [] => "M expect=" ++ showVerdict (Coap.TlsCreds.accepts cfg)
    | some pres => "M expect=" ++ showVerdict (Coap.TlsCreds.accepts cfg) ++ " pre=" ++
        String.intercalate "," (pres.map fun c => showVerdict (Coap.TlsCreds.accepts c))
    | none => "bad-op"
  | none => "bad-op"

/-! ### M / S: the server-side credential callbacks -/
open Coap.PskSelect in
def pskReplay (cfg : Coap.TlsCreds.Cfg) : List String → Cache → SessPsk → String → List String → List String → Option (List String × List String)
  | [], _, _, _, am, as => some (am.reverse, as.reverse)
  | e :: rest, cache, sp, name, am, as =>
    let srv : SrvCfg := { defKey := cfg.sk, defHint := cfg.sh, idTab := cfg.st, sniTab := cfg.ss }
    match e.splitOn ":" with
    | ["ses"] => pskReplay cfg rest cache {} "" ("ses" :: am) ("ses" :: as)
    | ["pch", n] =>
      let nm := if n = "-" ∨ n = "e" then "" else n
      let (cache', sp', ok) := postClientHello srv cache sp nm
      let sOk := (Coap.TlsCreds.served cfg nm).isSome
      pskReplay cfg rest cache' sp' nm (s!"pch:{n}:{if ok then "ok" else "fail"}" :: am) (s!"pch:{n}:{if sOk then "ok" else "fail"}" :: as)
    | ["psk", i] =>
      let idn := if i = "e" then "" else i
      let (sp', k) := pskServerCallback srv sp idn
      let showK : Option String → String
        | none => "fail" | some k => if k = "" then "e" else k
      pskReplay cfg rest cache sp' name (s!"psk:{i}:{showK k}" :: am) (s!"psk:{i}:{showK (Coap.TlsCreds.serverKey cfg name idn)}" :: as)
    | _ => none

def pskReplayStep (args : List String) : String :=
  let cfgW := args.takeWhile (· ≠ "::")
  let evs := (args.dropWhile (· ≠ "::")).drop 1
  match parseCfg cfgW {} with
  | some cfg =>
    match pskReplay cfg evs [] {} "" [] [] with
    | some (m, s) => "M " ++ (if m.isEmpty then "-" else String.intercalate " " m) ++ " | S " ++ (if s.isEmpty then "-" else String.intercalate " " s)
    | none => "bad-op"
  | none => "bad-op"

end Coap.Driver.TlsGate
