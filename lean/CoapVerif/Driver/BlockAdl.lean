import CoapVerif.Driver.Block
import CoapVerif.Model.BlockAdl
/- Line-protocol driver for `adlx` (Model/BlockAdl.lean): a sequence of coap_add_data_large_request / _response calls on
   one session, release callback invocations counted per body.  Output format mirrors harness/block.c `do_adlx`. -/
-- DRIVER-OPS: adlx => Coap.Driver.BlockAdl.adlxLine
namespace Coap.Driver.BlockAdl
open Coap Coap.Block Coap.Driver.Block

/-- token length of the request with key `k` (harness: `adlx_toklen`) -/
def tokLenOf (k : Nat) : Nat := if k = 0 then 0 else (k * 3) % 8 + 1

def showList (xs : List XmitEnt) : String :=
  if xs.isEmpty then "-" else String.intercalate "+" (xs.map fun e => s!"{e.key}:{e.body}")

def showCounts (rel : List Nat) (n : Nat) : String :=
  if n = 0 then "-" else String.join ((List.range n).map fun b => toString (min 9 (rel.count b)))

def showState (st : AdlSess × Nat) : String := "/" ++ showList st.1.xmits ++ "/" ++ showCounts st.1.rel st.2

/-- the PDU the harness builds for item `key.blk.length.plen.af`; `none` = it does not fit `maxSize` (`nopdu`) -/
def exitOf (isReq : Bool) (maxSize maxBlk key blk length plen af : Nat) : Option AdlExit :=
  if isReq then
    let tokLen := tokLenOf key
    let optBytes := if plen = 0 then 0 else optEncodeSize 11 plen
    let lastOpt := if plen = 0 then 0 else 11
    let b : Option Nat := if blk = 7 then none else some blk
    let blkBytes := match b with | some s => optEncodeSize (27 - lastOpt) (varLen (blockValue 0 0 s)) | none => 0
    if tokLen + optBytes + blkBytes > maxSize then none
    else some (adlExitReq maxSize tokLen optBytes lastOpt b maxBlk length 1 af)
  else
    -- response: 4-byte token, Location-Path (8) of `plen` bytes if any, Content-Format 42 (2 bytes, inserted by the function)
    let optBytes := (if plen = 0 then 0 else optEncodeSize 8 plen) + 2
    if 4 + optBytes > maxSize then none
    else some (adlExitRsp maxSize 4 optBytes 12 blk maxBlk length 1 af)

def adlxRun (isReq : Bool) (maxSize maxBlk : Nat) : List (List Nat) → AdlSess × Nat → List String → List String
  | [], _, acc => acc.reverse
  | it :: rest, st, acc =>
    match it with
    | [] =>
      let st' := adlEvStep st .expire
      adlxRun isReq maxSize maxBlk rest st' (("x" ++ showState st') :: acc)
    | [key, blk, length, plen, af] =>
      if key > 7 ∨ blk > 7 ∨ plen > 255 ∨ af > 3 ∨ st.2 ≥ 32 ∨ (¬ isReq ∧ (blk > 6 ∨ key > 5)) then ("bad-op" :: acc).reverse else
      match exitOf isReq maxSize maxBlk key blk length plen af with
      | none => adlxRun isReq maxSize maxBlk rest st (("nopdu" ++ showState st) :: acc)
      | some ex =>
        let st' := adlEvStep st (.call key ex)
        let res := match ex with
          | .linked b => s!"k{b}"
          | .released => "k-"
          | _ => "f"
        adlxRun isReq maxSize maxBlk rest st' ((res ++ showState st') :: acc)
    | _ => ("bad-op" :: acc).reverse

def adlxLine (args : List String) : String :=
  match args with
  | [dir, a, b, seq] =>
    match nat? a, nat? b with
    | some maxSize, some maxBlk =>
      if dir ≠ "q" ∧ dir ≠ "r" then "bad-op" else
      match (seq.split (· == ',')).toList.mapM (fun x => if x.toString = "x" then some [] else
          (match splitNats x.toString '.' with | some [] => none | r => r)) with
      | none => "bad-op"
      | some its =>
        let outs := adlxRun (dir = "q") maxSize maxBlk its ({}, 0) []
        if outs.contains "bad-op" then "M " ++ String.intercalate "," outs else
        -- replay the events to get the final state (the run above only keeps the printed items)
        let fin := (its.foldl (fun (st : AdlSess × Nat) it =>
          match it with
          | [] => adlEvStep st .expire
          | [key, blk, length, plen, af] =>
            (match exitOf (dir = "q") maxSize maxBlk key blk length plen af with
              | some ex => adlEvStep st (.call key ex)
              | none => st)
          | _ => st) ({}, 0))
        let fr := adlEvStep fin .free
        "M " ++ String.intercalate "," outs ++ " free=" ++ showCounts fr.1.rel fr.2
    | _, _ => "bad-op"
  | _ => "bad-op"

end Coap.Driver.BlockAdl
