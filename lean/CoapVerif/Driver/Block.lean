import CoapVerif.Model.Block
import CoapVerif.Model.BlockCrcv
import CoapVerif.Model.BlockRtag
import CoapVerif.Model.BlockNet
import CoapVerif.Generated.BlockConst
/- Line-protocol driver for C09 Layer A (block option codec, size negotiation, slicing, received ranges,
   body reassembly, single-body receiver step).  Output formats mirror harness/block.c. -/
-- DRIVER-OPS: bopt => Coap.Driver.Block.boptStep
-- DRIVER-OPS: benc => Coap.Driver.Block.bencStep
-- DRIVER-OPS: setup => Coap.Driver.Block.setupStep
-- DRIVER-OPS: writeb => Coap.Driver.Block.writebStep
-- DRIVER-OPS: adl => Coap.Driver.Block.adlStep
-- DRIVER-OPS: slice => Coap.Driver.Block.sliceStep
-- DRIVER-OPS: rb => Coap.Driver.Block.rbStep
-- DRIVER-OPS: bbody => Coap.Driver.Block.bodyStep
-- DRIVER-OPS: srcv => Coap.Driver.Block.srcvStep
-- DRIVER-OPS: srcv2 => Coap.Driver.Block.srcv2Step
-- DRIVER-OPS: crcv => Coap.Driver.Block.crcvLine
-- DRIVER-OPS: srcv3 => Coap.Driver.Block.srcv3Line
namespace Coap.Driver.Block
open Coap Coap.Block

def nat? (s : String) : Option Nat := s.toNat?

def mkBody (len seed : Nat) : Bytes :=
  (List.range len).map fun i => UInt8.ofNat ((i * 131 + (i / 256) * 17 + seed) % 256)

def fnv (bs : Bytes) : Nat :=
  bs.foldl (fun h b => ((h ^^^ b.toNat) * 16777619) % 2 ^ 32) 2166136261

def hex8 (n : Nat) : String :=
  String.ofList ((List.range 8).map fun k => hexDigit ((n / 16 ^ (7 - k)) % 16))

def showB (b : BlockB) : String :=
  s!"ok {b.num} {b.m} {b.szx} {b.aszx} {b.chunk}"

def showGet (val : Bytes) : String :=
  match getBlockB val with
  | some b => showB b
  | none => "rej"

def showVal (v : Bytes) : String := "v" ++ hexOrDash v

def bit (b : Bool) : String := if b then "1" else "0"

def showRanges (rs : Ranges) : String :=
  if rs.isEmpty then "-" else String.intercalate "," (rs.map fun r => s!"{r.1}-{r.2}")

def splitNats (s : String) (sep : Char) : Option (List Nat) :=
  if s = "-" then some [] else (s.split (· == sep)).toList.mapM (fun x => x.toString.toNat?)

def rbRun (seq : String) (probeMax totMax : Nat) : String :=
  match splitNats seq ',' with
  | none => "bad-op"
  | some ns =>
    let cap := Coap.Generated.rblockCnt
    let (rs, flags) := ns.foldl (fun (acc : Ranges × String) n =>
        match updateReceived cap acc.1 n with
        | (true, r) => (r, acc.2 ++ "1")
        | (false, r) => (r, acc.2 ++ "0")) ([], "")
    let recv := String.join ((List.range (probeMax + 1)).map fun k => bit (checkIfReceived rs k))
    let all := String.join ((List.range (totMax + 1)).map fun t => bit (checkAllBlocksIn rs t))
    let next := String.join ((List.range (probeMax + 2)).map fun k => bit (checkIfNext rs k))
    s!"r={flags} ranges={showRanges rs} recv={recv} all={all} next={next}"

def bodyRun (bodyLen seed : Nat) (seq : String) : String :=
  let body := mkBody bodyLen seed
  let items := if seq = "-" then some [] else
    (seq.split (· == ',')).toList.mapM (fun x => splitNats x.toString ':')
  match items with
  | none => "bad-op"
  | some its =>
    if its.any (fun it => it.length ≠ 3) then "bad-op" else
    let r := its.foldl (fun (acc : Option (Option Bytes)) it =>
      match acc, it with
      | some buf, [off, len, total] =>
        (match buildBody 0 buf ((body.drop off).take len) off total with
         | none => none
         | some b => some (some b))
      | _, _ => none) (some none)
    match r with
    | some (some b) => s!"len={b.length} h={hex8 (fnv b)}"
    | _ => "null"

def showOut (o : SrcvOut) (m : Nat) : String :=
  match o with
  | .cont => if m = 1 then "s95" else "s0"
  | .deliver body len => s!"d0:{len}:{len}:{hex8 (fnv (body.take len))}"
  | .fail => "s136"
  | .undersized => "s128"

def srcvRun (szx : Nat) (body : Bytes) (size1 : Option Nat) :
    List (List Nat) → Option Srcv → List String → List String
  | [], _, acc => acc.reverse
  | it :: rest, st, acc =>
    match it with
    | num :: m :: tl =>
      let chunk := 2 ^ (szx + 4)
      let off := if num * chunk > body.length then body.length else num * chunk
      let plen0 := if body.length - off < chunk then body.length - off else chunk
      let plen := match tl with
        | [l] => if l ≤ body.length - off then l else plen0
        | _ => plen0
      let (st', o) := srcvStep Coap.Generated.rblockCnt 0 0 st num m szx ((body.drop off).take plen) size1
      srcvRun szx body size1 rest st' (showOut o m :: acc)
    | _ => ("bad-op" :: acc).reverse

/-- `srcv2`: every step carries its own SZX (`num.m.szx`), payload = the genuine slice -/
def srcv2Run (maxBlk : Nat) (body : Bytes) (size1 : Option Nat) :
    List (List Nat) → Option Srcv → List String → List String
  | [], _, acc => acc.reverse
  | it :: rest, st, acc =>
    match it with
    | num :: m :: szx :: tl =>
      if tl.length > 1 then ("bad-op" :: acc).reverse else
      let chunk := 2 ^ (szx + 4)
      let sl := (body.drop (num * chunk)).take chunk
      let pl := match tl with
        | [l] => if l ≤ sl.length then sl.take l else sl
        | _ => sl
      let (st', o) := srcvStep Coap.Generated.rblockCnt 0 maxBlk st num m szx pl size1
      srcv2Run maxBlk body size1 rest st' (showOut o m :: acc)
    | _ => ("bad-op" :: acc).reverse

def srcvStepLine (szx bodyLen seed : Nat) (size1 : Option Nat) (seq : String) : String :=
  match (seq.split (· == ',')).toList.mapM (fun x => splitNats x.toString ':') with
  | none => "bad-op"
  | some its => String.intercalate "," (srcvRun szx (mkBody bodyLen seed) size1 its none [])

def showAdl (r : Option AdlRes) : String :=
  match r with
  | none => "fail"
  | some a =>
    let blk := if a.lgXmit then toString a.blkSize else "-1"
    let b1 := match a.blockVal with | some v => showVal (encodeVar v) | none => "-"
    s!"ok lg={bit a.lgXmit} blk={blk} b1={b1} pl={a.payload} used={a.used} fits=1"

def step (op : String) (args : List String) : String :=
  match op, args with
  | "bopt", [h] =>
    match bytesOfHex h with
    | some v => if v.length > 3 then "M rej" else "M " ++ showGet v
    | none => "bad-op"
  | "benc", [n, m, s] =>
    match nat? n, nat? m, nat? s with
    | some n, some m, some s =>
      let v := encodeBlock n m s
      "M " ++ hexOrDash v ++ " " ++ showGet v
    | _, _, _ => "bad-op"
  | "setup", [a, b, c, d, e] =>
    match nat? a, nat? b, nat? c, nat? d, nat? e with
    | some maxSize, some tokOpts, some num, some blk, some total =>
      "M " ++ (match setupBlockB maxSize tokOpts num blk total with | some b => showB b | none => "fail")
    | _, _, _, _, _ => "bad-op"
  | "writeb", [a, b, c, d, e] =>
    match nat? a, nat? b, nat? c, nat? d, nat? e with
    | some maxSize, some tokLen, some num, some szx, some dataLen =>
      "M " ++ (match writeBlockBOpt maxSize (tokLen + 2) num szx dataLen with
        | .ok b v => showB b ++ " " ++ showVal v
        | .illegal => "illegal"
        | .nospace => "nospace")
    | _, _, _, _, _ => "bad-op"
  | "adl", [a, b, c, d, e] =>
    match nat? a, nat? b, nat? d, nat? e with
    | some maxSize, some tokLen, some maxBlk, some length =>
      let blk := if c = "-" then none else nat? c
      "M " ++ showAdl (addDataLarge maxSize tokLen 2 11 blk maxBlk length 1)
    | _, _, _, _ => "bad-op"
  | "slice", [a, b, c, d] =>
    match nat? a, nat? b, nat? c, nat? d with
    | some szx, some num, some bodyLen, some seed =>
      "M " ++ (match addBlock (mkBody bodyLen seed) num szx with
        | some p => s!"ok {blockOffset num szx} {p.length} {hex8 (fnv p)}"
        | none => "none")
    | _, _, _, _ => "bad-op"
  | "rb", [seq, a, b] =>
    match nat? a, nat? b with
    | some p, some t => "M " ++ rbRun seq p t
    | _, _ => "bad-op"
  | "body", [a, b, seq] =>
    match nat? a, nat? b with
    | some bodyLen, some seed => "M " ++ bodyRun bodyLen seed seq
    | _, _ => "bad-op"
  | "srcv", [a, b, c, d, seq] =>
    match nat? a, nat? b, nat? c with
    | some szx, some bodyLen, some seed =>
      -- a Size1 beyond 64 MiB: the model would build a byte list of that length; only the harness runs (I-vs-S oracle)
      if (match nat? d with | some t => decide (t > 2 ^ 26) | none => false) then "M big" else
      "M " ++ srcvStepLine szx bodyLen seed (if d = "-" then none else nat? d) seq
    | _, _, _ => "bad-op"
  | "srcv2", [a, b, c, d, seq] =>
    match nat? a, nat? b, nat? c with
    | some maxBlk, some bodyLen, some seed =>
      match (seq.split (· == ',')).toList.mapM (fun x => splitNats x.toString '.') with
      | none => "bad-op"
      | some its => "M " ++ String.intercalate "," (srcv2Run maxBlk (mkBody bodyLen seed) (if d = "-" then none else nat? d) its none [])
    | _, _, _ => "bad-op"
  | _, _ => "bad-op"

/-! ## `crcv`: the client's Block2 receive path (Model/BlockCrcv.lean) -/

/-- what `coap_get_data_large` shows of a PDU without `body_data`: no payload → total 0; total 0 → the length -/
def showDeliv (tag : String) (off : Nat) (p : Bytes) (total : Nat) : String :=
  let t := if p.length = 0 then 0 else if total = 0 then p.length else total
  s!"{tag}{off}:{p.length}:{t}:{hex8 (fnv p)}"

def showCrcvOut : CrcvOut → String
  | .plain p => showDeliv "h" 0 p p.length
  | .randomAccess off p total => showDeliv "h" off p total
  | .err402 => "e402"
  | .err408 => "e408"
  | .restart szx => s!"s+q0.{szx}"
  | .skip => "s"
  | .next n szx => s!"s+q{n}.{szx}"
  | .wait => "s"
  | .block off p total nx =>
    showDeliv "h" off p total ++ (match nx with | some (n, szx) => s!"+q{n}.{szx}" | none => "")
  | .last off p total => showDeliv "H" off p total
  | .body data len => s!"H0:{len}:{len}:{hex8 (fnv (data.take len))}"

def showCrcvState : Option Crcv → String
  | none => "-"
  | some lg => if lg.initial then "I" else "R" ++ String.intercalate "+" (lg.recv.map fun r => s!"{r.1}-{r.2}")

def crcvRun (single : Bool) (body : Bytes) (size2 : Option Nat) :
    List (List Nat) → Option Crcv → List String → List String
  | [], _, acc => acc.reverse
  | it :: rest, st, acc =>
    match it with
    | num :: m :: szx :: etag :: fmt :: tl =>
      if szx > 6 ∨ m > 1 ∨ etag > 255 ∨ fmt > 255 ∨ tl.length > 2 then ("bad-op" :: acc).reverse else
      let chunk := 2 ^ (szx + 4)
      let off := if num * chunk > body.length then body.length else num * chunk
      let plen0 := if body.length - off < chunk then body.length - off else chunk
      let plen := match tl with
        | l :: _ => if l ≤ body.length - off then l else plen0
        | _ => plen0
      -- 7th field: Size2 of this response (0 = no option, n = Size2 n-1); absent = the line's Size2
      let sz2 := match tl with
        | [_, s2] => if s2 = 0 then none else some (s2 - 1)
        | _ => size2
      let r : Resp := { blk := some (num, m, szx), payload := (body.drop off).take plen, size2 := sz2,
                        etag := if etag = 0 then none else some [UInt8.ofNat etag], fmt := fmt }
      let (st', o) := crcvStep single Coap.Generated.rblockCnt 0 st r
      crcvRun single body size2 rest st' ((showCrcvOut o ++ "/" ++ showCrcvState st') :: acc)
    | _ => ("bad-op" :: acc).reverse

def crcvLine (args : List String) : String :=
  match args with
  | [a, b, c, d, seq] =>
    match nat? a, nat? b, nat? c with
    | some single, some bodyLen, some seed =>
      match (seq.split (· == ',')).toList.mapM (fun x => splitNats x.toString '.') with
      | none => "bad-op"
      | some its => "M " ++ String.intercalate ","
          (crcvRun (single != 0) (mkBody bodyLen seed) (if d = "-" then none else nat? d) its none [])
    | _, _, _ => "bad-op"
  | _ => "bad-op"

/-! ## `srcv3`: two interleaved Block1 transfers told apart by Request-Tag (Model/BlockRtag.lean) -/

/-- Request-Tag for code r: 0 = no option, 1 = EMPTY, 2..9 = 1..8 bytes 0x71.., 10..17 = 1..8 bytes 0x51.. -/
def rtagOf (r : Nat) : Option Bytes :=
  if r = 0 then none
  else if r = 1 then some []
  else if r ≤ 9 then some ((List.range (r - 1)).map fun i => UInt8.ofNat (0x71 + i))
  else some ((List.range (r - 9)).map fun i => UInt8.ofNat (0x51 + i))

def srcv3Run (maxBlk : Nat) (b0 b1 : Bytes) (withSize1 : Bool) :
    List (List Nat) → List LgSrcv → List String → List String
  | [], _, acc => acc.reverse
  | it :: rest, lgs, acc =>
    match it with
    | [t, num, m, szx, r] =>
      if t > 1 ∨ m > 1 ∨ szx > 6 ∨ r > 17 then ("bad-op" :: acc).reverse else
      let body := if t = 0 then b0 else b1
      let chunk := 2 ^ (szx + 4)
      let (lgs', o) := srcvMultiStep Coap.Generated.rblockCnt 0 maxBlk lgs (rtagOf r) num m szx
        ((body.drop (num * chunk)).take chunk) (if withSize1 then some body.length else none)
      -- the Block1 option of the response, as the composed model (Model/BlockNet.lean, `b1Responses`) has it
      let par : B1Par := { body := body, maxSize := 0, tokLen := 0, optBytes := 0, lastOpt := 0, blk := none, maxBlkC := 0,
                           rtagLen := 0, maxBlk := maxBlk, room := 0, cap := 0, junk := 0 }
      let opt := match b1Responses par ⟨num, m, szx, [], none⟩ o with
        | [(true, some (n, s))] => s!"b{n}.1.{s}"
        | _ => ""
      srcv3Run maxBlk b0 b1 withSize1 rest lgs' ((showOut o m ++ opt ++ s!"/{lgs'.length}") :: acc)
    | _ => ("bad-op" :: acc).reverse

def srcv3Line (args : List String) : String :=
  match args with
  | [a, b, c, d, e, f, seq] =>
    match nat? a, nat? b, nat? c, nat? d, nat? e, nat? f with
    | some maxBlk, some len1, some seed1, some len2, some seed2, some ws =>
      match (seq.split (· == ',')).toList.mapM (fun x => splitNats x.toString '.') with
      | none => "bad-op"
      | some its => "M " ++ String.intercalate ","
          (srcv3Run maxBlk (mkBody len1 seed1) (mkBody len2 seed2) (ws != 0) its [] [])
    | _, _, _, _, _, _ => "bad-op"
  | _ => "bad-op"

def srcv2Step (args : List String) : String := step "srcv2" args
def boptStep (args : List String) : String := step "bopt" args
def bencStep (args : List String) : String := step "benc" args
def setupStep (args : List String) : String := step "setup" args
def writebStep (args : List String) : String := step "writeb" args
def adlStep (args : List String) : String := step "adl" args
def sliceStep (args : List String) : String := step "slice" args
def rbStep (args : List String) : String := step "rb" args
def bodyStep (args : List String) : String := step "body" args
def srcvStep (args : List String) : String := step "srcv" args

end Coap.Driver.Block
