import CoapVerif.Model.Async
import CoapVerif.Driver.Server
/- Line-protocol driver for the deferred-response machine of C10 (see harness/server.c, stepa, for the line format). -/
-- DRIVER-OPS: asq => Coap.Driver.Async.stepa
namespace Coap.Driver.Async
open Coap Coap.Server Coap.Async Coap.Driver.Server

def showEntry (e : Entry) : String :=
  toString e.id ++ ":" ++ toString e.sess ++ ":" ++ toString e.delay ++ ":" ++ kindChar e.req.type ++ ":" ++
  toString e.req.code ++ ":" ++ toString e.req.mid ++ ":" ++ hexOrDash e.req.token ++ ":" ++ showOpts e.req.opts ++ ":" ++
  hexOrDash e.req.payload

def insertSess (s : Sess) : List Sess → List Sess
  | [] => [s]
  | a :: r => if s.peer ≤ a.peer then s :: a :: r else a :: insertSess s r
def sortSess (l : List Sess) : List Sess := l.foldr insertSess []

def dashJoin (l : List String) : String := if l.isEmpty then "-" else String.intercalate "/" l

def outInScope (o : Out) : Bool :=
  (match o.first with | some x => x.inScope | none => true) && o.fired.all (·.out.inScope)

def showOut (st : St) (o : Out) : String :=
  let tx := (match o.first with | some x => x.replies | none => []) ++ (o.fired.map (·.out.replies)).flatten
  let h := (match o.first with | some x => (match x.call with | some c => [showCall c] | none => []) | none => []) ++
    (o.fired.filterMap fun f => f.out.call.map fun c => "re" ++ toString f.entry.id ++ ">" ++ showCall c)
  "tx=" ++ dashJoin (tx.map showReply) ++ " h=" ++ dashJoin h ++ " a=" ++ dashJoin (st.async.map showEntry) ++
  " s=" ++ dashJoin ((sortSess st.sess).map fun s => toString s.peer ++ ":" ++ toString s.ref) ++
  " w=" ++ (match o.wait with | some w => toString w | none => "-")

/-- none: malformed word; some none: a datagram that does not parse -/
def parseEvents : Nat → List String → Option (Option (List Async.EvT))
  | _, [] => some (some [])
  | 0, _ => none
  | n + 1, "dr" :: k :: rest => do
    let k ← k.toNat?
    let more ← parseEvents n rest
    pure (more.map fun evs => Async.EvT.delRes k :: evs)
  | n + 1, "rx" :: peer :: act :: verdict :: hex :: rest => do
    let peer ← peer.toNat?
    if peer > 15 then none else
    let defer ← (if act = "r" then some none else if act.startsWith "d" then (act.drop 1).toNat?.map some else none)
    let v ← parseVerdict verdict
    let bs ← bytesOfHex hex
    let more ← parseEvents n rest
    match Coap.M.parse .udp bs, more with
    | .ok msg, some evs => pure (some (.ev (Async.Ev.rx peer defer ⟨false, msg, v, .absent⟩) :: evs))
    | _, _ => pure none
  | n + 1, "io" :: dt :: verdict :: rest => do
    let dt ← dt.toNat?
    let v ← parseVerdict verdict
    let more ← parseEvents n rest
    pure (more.map fun evs => Async.EvT.ev (Async.Ev.io dt v) :: evs)
  | n + 1, "tr" :: k :: rest => do
    let k ← k.toNat?
    let more ← parseEvents n rest
    pure (more.map fun evs => Async.EvT.ev (Async.Ev.trigger k) :: evs)
  | n + 1, "sd" :: k :: d :: rest => do
    let k ← k.toNat?
    let d ← d.toNat?
    let more ← parseEvents n rest
    pure (more.map fun evs => Async.EvT.ev (Async.Ev.setDelay k d) :: evs)
  | n + 1, "fr" :: k :: rest => do
    let k ← k.toNat?
    let more ← parseEvents n rest
    pure (more.map fun evs => Async.EvT.ev (Async.Ev.free k) :: evs)
  | _, _ => none

def runShow (c : Async.Cfg) (cfg : Server.Cfg) : StT → List Async.EvT → List String
  | _, [] => []
  | st, ev :: r =>
    let x := stepT c cfg st ev
    if outInScope x.2 then showOut x.1.st x.2 :: runShow c cfg x.1 r else ["oos"]

/-- virtual clock starts at SIM_T0 = 1000 (1 tick = 1 ms); session->tx_mid of a new session is 0x8080 (sim_prng_fill = 128) -/
def stepa (args : List String) : String :=
  match args with
  | mpr :: mts :: known :: unk :: prx :: res :: tmo :: evs =>
    if evs.isEmpty ∨ evs.length > 200 then "bad-op" else
    match parseCfg mpr mts known unk prx res, tmo.toNat?, parseEvents 64 evs with
    | some (cfg, tbl), some tmo, some (some evs) =>
      if tmo = 0 ∨ tmo > 1000 then "bad-op" else
      "M " ++ String.intercalate " ;; " (runShow ⟨1000, tmo * 1000, 32896⟩ cfg ⟨St.init ⟨1000, tmo * 1000, 32896⟩, M.implTable tbl⟩ evs)
    | some _, some _, some none => "M malformed"
    | _, _, _ => "bad-op"
  | _ => "bad-op"

end Coap.Driver.Async
