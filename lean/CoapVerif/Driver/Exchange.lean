import CoapVerif.Model.Exchange
/- Line-protocol driver for C07: replays a schedule of harness/exchange.c through the model. -/
-- DRIVER-OPS: xchg => Coap.Driver.Exchange.step
-- DRIVER-OPS: xchg2 => Coap.Driver.Exchange.step2
namespace Coap.Driver.Exchange
open Coap.Exch

def kindCh : MType → String
  | .con => "C" | .non => "N" | .ack => "A" | .rst => "R"

def showD (d : Dgram) : String :=
  kindCh d.type ++ ":" ++ toString d.code ++ ":" ++ toString d.mid ++ ":" ++ hexOrDash d.token

def nackName : Nack → String
  | .retries => "retries" | .rst => "rst" | .bad => "bad"

def showTr : Tr → String
  | .send t i mid => "send@" ++ toString t ++ ":" ++ toString i ++ ":" ++ toString mid
  | .ctx t d => "ctx@" ++ toString t ++ ":" ++ showD d
  | .stx t d => "stx@" ++ toString t ++ ":" ++ showD d
  | .crx t d => "crx@" ++ toString t ++ ":" ++ showD d
  | .srx t d => "srx@" ++ toString t ++ ":" ++ showD d
  | .req t mid tok => "req@" ++ toString t ++ ":" ++ toString mid ++ ":" ++ hexOrDash tok
  | .rsp t d ok => "rsp@" ++ toString t ++ ":" ++ showD d ++ ":" ++ (if ok then "o" else "f")
  | .nack t r mid => "nack@" ++ toString t ++ ":" ++ nackName r ++ ":" ++ toString mid
  | .snack t r mid => "snack@" ++ toString t ++ ":" ++ nackName r ++ ":" ++ toString mid
  | .unmodelled t => "unmodelled@" ++ toString t
  | .stuck t => "stuck@" ++ toString t

def parsePers (s : String) : Option (Pers × Bool) :=
  let (base, dd) := if s.length == 3 && s.endsWith "+" then ((s.take 2).toString, true) else (s, false)
  let p : Option Pers :=
    if base == "pb" then some .pb else if base == "ac" then some .ac else if base == "at" then some .tr
    else if base == "dc" then some .dc else if base == "dn" then some .dn else if base == "da" then some .da else none
  p.map (fun p => (p, dd))

/-- `<C|N><method 1..4>` (token = c0+i, 07) or `<C|N><method>/<token>` (hex, at most 8 bytes, `-` = zero-length token) -/
def parseReq (i : Nat) (s : String) : Option Req :=
  match s.toList with
  | [k, m] =>
    if (k == 'C' || k == 'N') && '1' ≤ m && m ≤ '4' then
      some { con := k == 'C', method := m.toNat - 48, token := [UInt8.ofNat (0xc0 + i), 7] }
    else none
  | k :: m :: '/' :: t =>
    if (k == 'C' || k == 'N') && '1' ≤ m && m ≤ '4' && !t.isEmpty then
      match bytesOfHex (String.ofList t) with
      | some tok => if tok.length ≤ 8 && (t == ['-'] || !tok.isEmpty) && t.all (fun c => c == '-' || c.isDigit || ('a' ≤ c && c ≤ 'f'))
                    then some { con := k == 'C', method := m.toNat - 48, token := tok } else none
      | none => none
    else none
  | _ => none

def parseReqs (s : String) : Option (List Req) :=
  let ws := s.splitOn ","
  let rec go (i : Nat) : List String → Option (List Req)
    | [] => some []
    | w :: r => do
      let q ← parseReq i w
      let t ← go (i + 1) r
      pure (q :: t)
  if ws.length > 8 then none else go 0 ws

def parseVerdicts (s : String) : Option (List Bool) :=
  if s == "-" then some [] else
  s.toList.foldr (fun c acc => match acc with
    | none => none
    | some l => if c == 'o' then some (true :: l) else if c == 'f' then some (false :: l) else none) (some [])

def parseFate (s : String) : Option Fate :=
  match s.toList with
  | ['x'] => some .drop
  | 'd' :: r => (String.ofList r).toNat?.map .deliver
  | 'u' :: r =>
    match (String.ofList r).splitOn "+" with
    | [a, b] => do
      let x ← a.toNat?
      let y ← b.toNat?
      pure (.dup x y)
    | _ => none
  | _ => none

def parseFates (s : String) : Option (List Fate) :=
  if s == "-" then some [] else
  (s.splitOn ",").foldr (fun w acc => match acc, parseFate w with
    | some l, some f => some (f :: l)
    | _, _ => none) (some [])

def showSum (rs : List Req) : List String :=
  rs.mapIdx (fun i r => "sum:" ++ toString i ++ "=" ++ toString r.nrsp ++ "/" ++ toString r.nnack)

/-- `xchg <pers> <D> <cmid0> <smid0> <rc> <rs> <mode> <reqs> <verdicts> <fates>`; pers = pb|ac|at|dc|dn|da [+] -/
def step (args : List String) : String :=
  match args with
  | [p, d, cm, sm, rc, rs, mode, reqs, verd, fates] =>
    match parsePers p, d.toNat?, cm.toNat?, sm.toNat?, rc.toNat?, rs.toNat?, parseReqs reqs, parseVerdicts verd, parseFates fates with
    | some (pers, dd), some D, some cm, some sm, some rc, some rs, some reqs, some verd, some fates =>
      if D < 1 || !(mode == "q" || mode == "e") || reqs.isEmpty then "bad-op" else
      let sim : Sim := {
        s := { pers := pers, dedup := dd, D := D, T := calcTimeout rs, txMid := sm % 65536 },
        cT := calcTimeout rc, cmid := cm % 65536, eager := mode == "e", fates := fates, verdicts := verd, reqs := reqs }
      let fin := Sim.run 4000 sim
      let tr := fin.trace.reverse.map showTr
      let tail := ["end@" ++ toString fin.now] ++ showSum fin.reqs ++
        ["st:ca=" ++ toString fin.c.L.conActive ++ ",sq=" ++ toString fin.c.L.sendq.length ++ ",dq=" ++
         toString fin.c.L.delayq.length ++ ",q=" ++ (if fin.quiescent then "1" else "0")]
      "M " ++ String.intercalate " " (tr ++ tail)
    | _, _, _, _, _, _, _, _, _ => "bad-op"
  | _ => "bad-op"

/-- `xchg2 …`: two client sessions with equal message ids in one context (harness/exchange.c).  The context-wide send
    queue shared by several sessions is not part of M (`Layer` is one session's view; the queue itself is C06's model):
    the line is checked for well-formedness only and the implementation's trace is judged by the oracle alone. -/
def step2 (args : List String) : String :=
  match args with
  | [p, d, cm, sm, rc, rs, mode, reqs, verd, fates] =>
    match parsePers p, d.toNat?, cm.toNat?, sm.toNat?, rc.toNat?, rs.toNat?, parseReqs reqs, parseVerdicts verd, parseFates fates with
    | some _, some D, some _, some _, some _, some _, some rq, some _, some _ =>
      if D < 1 || mode != "q" || rq.isEmpty || (reqs.toList.any (· == '/')) then "bad-op" else "M -"
    | _, _, _, _, _, _, _, _, _ => "bad-op"
  | _ => "bad-op"

end Coap.Driver.Exchange
