import CoapVerif.Driver.Block
import CoapVerif.Model.BlockXmit
/- Line-protocol driver for the sender side of C09 (Model/BlockXmit.lean).  Output formats mirror harness/block.c
   (`do_xmit2`, `do_xmit1`). -/
-- DRIVER-OPS: xmit2 => Coap.Driver.BlockXmit.xmit2Line
-- DRIVER-OPS: xmit1 => Coap.Driver.BlockXmit.xmit1Line
namespace Coap.Driver.BlockXmit
open Coap Coap.Block Coap.Driver.Block

def showMsg (num m szx : Nat) (p : Bytes) : String := s!"b{num}.{m}.{szx}:{p.length}:{hex8 (fnv p)}"

/-- bytes of a follow-up Block2 response before the payload: 4-byte token, ETag (1 value byte: the context's counter),
Content-Format 42, Block2, Size2 — as copied from the skeleton PDU the lg_xmit keeps -/
def b2Used (num m szx len : Nat) : Nat :=
  4 + optEncodeSize 4 1 + optEncodeSize 8 1 + optEncodeSize 11 (varLen (blockValue num m szx)) + optEncodeSize 5 (varLen len)

def xmit2Run (mtu2 : Nat) : List (List Nat) → Option LgXmit → List String → List String
  | [], _, acc => acc.reverse
  | it :: rest, lg, acc =>
    match it with
    | [num, szx] =>
      let len := match lg with | some x => x.data.length | none => 0
      let used := b2Used num (moreBit len num szx) szx len
      let (lg', o) := xmitB2Step lg (mtu2 - used) num szx
      let so := match o with
        | .passUp => "p"
        | .err400 => "c128"
        | .err500 => "c160"
        | .block n m s p => showMsg n m s p
      let ss := match lg' with | some x => s!"/{x.offset}" | none => "/-"
      xmit2Run mtu2 rest lg' ((so ++ ss) :: acc)
    | _ => ("bad-op" :: acc).reverse

/-- `xmit2 <szx> <bodyLen> <seed> <mtu1:mtu2 | mtu2> <items>`: the first response is built by the application through
coap_add_data_large_response on an `mtu1`-byte PDU (1152 if not given): `addDataLargeRsp` (4-byte token, Content-Format
42 = 2 bytes, ETag = 1 byte) -/
def xmit2Line (args : List String) : String :=
  match args with
  | [a, b, c, d, seq] =>
    let mt := (d.split (· == ':')).toList.map (fun x => x.toString)
    let (m1, m2) := match mt with
      | [x, y] => (nat? x, nat? y)
      | [y] => (some 1152, nat? y)
      | _ => (none, none)
    match nat? a, nat? b, nat? c, m1, m2 with
    | some szx, some bodyLen, some seed, some mtu1, some mtu2 =>
      match (if seq = "-" then some [] else (seq.split (· == ',')).toList.mapM (fun x => splitNats x.toString '.')) with
      | none => "bad-op"
      | some its =>
        let body := mkBody bodyLen seed
        match addDataLargeRsp mtu1 4 2 12 szx 0 bodyLen 1 with
        | none => "M fail lg=-1" ++ (if its.isEmpty then "" else " " ++ String.intercalate "," (xmit2Run mtu2 its none []))
        | some r =>
          let first := match r.blockVal with
            | some v => showMsg (v / 16) ((v / 8) % 2) (v % 8) (body.take r.payload)
            | none => s!"n:{r.payload}:{hex8 (fnv (body.take r.payload))}"
          let lg : Option LgXmit := if r.lgXmit then some { data := body, blkSize := r.blkSize } else none
          let lgs := if r.lgXmit then toString r.blkSize else "-1"
          let items := xmit2Run mtu2 its lg []
          "M " ++ first ++ " lg=" ++ lgs ++ (if items.isEmpty then "" else " " ++ String.intercalate "," items)
    | _, _, _, _, _ => "bad-op"
  | _ => "bad-op"

def showLg (lg : Option LgXmit) : String :=
  match lg with
  | some x => s!"/{x.blkSize}.{x.offset}." ++ (match x.lastBlock with | some n => toString n | none => "-1")
  | none => "/-"

/-- bytes of a follow-up Block1 request before the payload: 8-byte token, Uri-Path "b", Block1, Size1, Request-Tag (1 byte) -/
def b1Used (num m szx len : Nat) : Nat :=
  8 + optEncodeSize 11 1 + optEncodeSize 16 (varLen (blockValue num m szx)) + optEncodeSize 33 (varLen len) + optEncodeSize 232 1

def xmit1Run (maxSize : Nat) : List (List Nat) → Option LgXmit → List String → List String
  | [], _, acc => acc.reverse
  | it :: rest, lg, acc =>
    match lg with
    | none => xmit1Run maxSize rest none ("f/-" :: acc)          -- no lg_xmit matches: return 0
    | some x =>
      let blk := match it with | [_, num, szx] => some (num, szx) | _ => none
      let code := it.headD 0
      -- room: what the message would be with unlimited room tells the size of its Block1 option
      let used := match (xmitB1Step x (2 ^ 40) (code / 32 == 2) blk).2 with
        | .sendNext n m s _ => b1Used n m s x.data.length
        | _ => 0
      let (lg', o) := xmitB1Step x (maxSize - used) (code / 32 == 2) blk
      let so := match o with
        | .dupIgnored => "i"
        | .sendNext n m s p => showMsg n m s p
        | .finished => "f"
        | .fail500 => "F"
      xmit1Run maxSize rest lg' ((so ++ showLg lg') :: acc)

def xmit1Line (args : List String) : String :=
  match args with
  | [a, b, c, d, seq] =>
    match nat? b, nat? c, nat? d with
    | some bodyLen, some seed, some mtu =>
      match (if seq = "-" then some [] else (seq.split (· == ',')).toList.mapM (fun x => splitNats x.toString '.')) with
      | none => "bad-op"
      | some its =>
        if its.any (fun it => it.length ≠ 1 ∧ it.length ≠ 3) then "bad-op" else
        let body := mkBody bodyLen seed
        let blk := if a = "-" then none else nat? a
        match addDataLarge (mtu - 4) 4 2 11 blk 0 bodyLen 1 with
        | none => "M fail"
        | some r =>
          let first := match r.blockVal with
            | some v => showMsg (v / 16) ((v / 8) % 2) (v % 8) (body.take r.payload)
            | none => s!"n:{r.payload}:{hex8 (fnv (body.take r.payload))}"
          let lg : Option LgXmit := if r.lgXmit then some { data := body, blkSize := r.blkSize } else none
          let lgs := if r.lgXmit then toString r.blkSize else "-1"
          let items := xmit1Run (mtu - 4) its lg []
          "M " ++ first ++ " lg=" ++ lgs ++ (if items.isEmpty then "" else " " ++ String.intercalate "," items)
    | _, _, _ => "bad-op"
  | _ => "bad-op"

end Coap.Driver.BlockXmit
