import CoapVerif.Model.AllocRecv
import CoapVerif.Driver.AllocOracle
/- Line-protocol driver for C18, receive path of a reliable session (Model/AllocRecv.lean):
   `arecv <k1> <k2> <dk> <csm> <step>…`   steps: `c<hex>` a read event with these bytes waiting, `x` a read event and the peer
   is gone, `n` the session is freed and a new one accepted on the same endpoint; requests k1 and k2 fail, the dk-th
   coap_dispatch disconnects the session (0 = none), csm = the context's CSM Max-Message-Size.  Prints the canonical line of
   harness/allocfail.c (without the allocation tags) followed by the verdict of the verified monitor on M's own whole trace
   after clean-up. -/
-- DRIVER-OPS: arecv => Coap.Driver.AllocRecv.recvStepD
namespace Coap.Driver.AllocRecv
open Coap Coap.AllocOracle Coap.AllocRecv Coap.Sessions
open Coap.Driver.AllocOracle (showTrace)

def parseREv (tok : String) : Option REv :=
  if tok = "x" then some .eof else if tok = "n" then some .newSess else
  match tok.toList with
  | 'c' :: rest => (bytesOfHexChars rest).map .chunk
  | _ => none

def showSess : Option RSess → String
  | none => "none"
  | some s => (if s.up then "1" else "0") ++ "/" ++ toString s.partialRead ++ "/" ++
      (match s.ppdu with
       | some p => toString p.pdu.allocSize ++ ":" ++ toString p.usedSize
       | none => "-")

def recvStepD (args : List String) : String :=
  match args with
  | k1 :: k2 :: dk :: csm :: evs =>
    match k1.toNat?, k2.toNat?, dk.toNat?, csm.toNat?, evs.mapM parseREv with
    | some k1, some k2, some dk, some csm, some evs =>
      if csm = 0 ∨ csm > M.Stream.maxRx then "bad-op" else
      let maxRcv := M.Stream.maxPduSizeInternal csm
      let w0 : RW := { h := { orc := oracleFailing k1 k2 (max k1 k2) },
                       dcs := (List.range dk).map fun i => decide (i + 1 = dk) }
      let (outs, st) := recvRun maxRcv { w := w0 } evs
      let fin := recvCleanup st
      "M rc=" ++ (if outs.isEmpty then "-" else String.intercalate "," outs) ++
      " n=" ++ toString st.w.h.reqs ++ " st=" ++ showSess st.sess ++
      " disp=" ++ (if st.w.dsp.isEmpty then "-" else
                   String.intercalate "," (st.w.dsp.map fun d => toString d.1 ++ "@" ++ toString d.2)) ++
      " T " ++ showTrace st.w.h.trace ++
      " | ledger=" ++ ledgerVerdict fin.h.trace ++
        (if ledgerOk fin.h.trace && fin.h.ok && fin.h.live.isEmpty then "" else " MONITOR-REJECTS")
    | _, _, _, _, _ => "bad-op"
  | _ => "bad-op"

end Coap.Driver.AllocRecv
