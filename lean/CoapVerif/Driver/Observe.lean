import CoapVerif.Model.Observe
import CoapVerif.Model.ObserveKey
import CoapVerif.Model.ObserveToken
import CoapVerif.Util
/- Line-protocol driver for C11: replays an event history (harness/observe.c documents the format) through M.
   Lines with a block-wise resource (`R=…b<start>[/<szx>]…` or `B…`, events `blk:…`) are NOT modelled: M has no lg_xmit and no
   deferral of a notification behind a block-wise transfer in progress.  Such a line is only validated (same syntax rules
   as the harness, malformed → `bad-op`) and answered with the fixed marker `M not-modelled blockwise`; props/C11.py then
   judges the implementation's trace with the oracle alone. -/
-- DRIVER-OPS: obs => Coap.Driver.Observe.step
namespace Coap.Driver.Observe
open Coap Coap.Observe

def hex2 (n : Nat) : String := String.ofList [hexDigit (n / 16 % 16), hexDigit (n % 16)]
/-- the 8-byte strings the variable-length tokens of harness/observe.c (tok_bytes) are prefixes of -/
def tokFamily (f : Nat) : List Nat :=
  if f = 0 then [0x51, 0x62, 0x73, 0x84, 0x95, 0xa6, 0xb7, 0xc8]
  else if f = 1 then [0, 0, 0, 0, 0, 0, 0, 0]
  else if f = 2 then [0xa0, 0x01, 0x02, 0x03, 0x04, 0x05, 0x06, 0x07]
  else [0x9f, 0x80, 0x9f, 0x80, 0x9f, 0x80, 0x9f, 0x80]
/-- harness/observe.c tok_bytes: token index t < 128 is the 2 bytes (0xA0 + c, t), 128 ≤ t < 256 the 2 bytes (0x9F, t) whichever
    client sends it, t = 256 + 9·f + len (≤ 291) the first len (0..8) bytes of family f -/
def tokenBytes (c t : Nat) : List Nat :=
  if t ≥ 256 then (tokFamily ((t - 256) / 9)).take ((t - 256) % 9)
  else if t ≥ 128 then [0x9f, t] else [0xa0 + c, t]
def maxTokIdx : Nat := 291
/-- M's token (the injective encoding `tokNat` of the bytes, Model/ObserveToken.lean) printed as the harness prints the bytes -/
def showTok (tok : Nat) : String :=
  match natTok tok with
  | [] => "-"
  | bs => String.join (bs.map hex2)
def showKind : Kind → String
  | .con => "C" | .non => "N" | .ack => "A"
def showObs : Option Nat → String
  | some v => toString v | none => "-"
def b01 (b : Bool) : String := if b then "1" else "0"

def showOut (o : Out) : String :=
  match o.tag with
  | .resp => s!"p{o.c}:{showTok o.token}:{o.code}:{showObs o.obs}:{showKind o.kind}:{o.mid}"
  | .note => s!"n{o.c}.{o.n}:{showTok o.token}:{o.code}:{showObs o.obs}:{showKind o.kind}:{o.mid}"
  | .rtx => s!"x{o.c}.{o.n}"

def showSub (s : Sub) : String :=
  s!"{s.sess}.{showTok s.token}.{s.nonCnt}.{s.failCnt}.{b01 s.dirty}.{s.mid}"

def showRes (r : Res) : String :=
  if r.alive then s!" R{r.id}={r.observe}/{b01 r.dirty}{b01 r.pdirty}[{String.intercalate "," (r.subs.map showSub)}]"
  else s!" R{r.id}=x"

def showSess (st : State) (c : Nat) : String :=
  match st.sess c with
  | some s => s!" S{c}={s.ref}/{s.conActive}/{s.txMid}"
  | none => s!" S{c}=-"

def showQ (q : QNode) : String := s!"{q.sess}.{q.mid}.{q.due}.{q.cnt}"

def showState (st : State) (ncli : Nat) : String :=
  s!" ; t={st.now} P{b01 st.pending}" ++ String.join (st.res.map showRes) ++
  String.join ((List.range ncli).map (showSess st)) ++ s!" Q[{String.intercalate "," (st.sendq.map showQ)}]"

def parseRes (id : Nat) (s : String) : Option Res :=
  match s.toList with
  | m :: rest =>
    match (String.ofList rest).toNat? with
    | some start =>
      if m = 'd' || m = 'n' then some (mkRes id false false start)
      else if m = 'c' then some (mkRes id true false start)
      else if m = 'a' then some (mkRes id false true start)
      else none
    | none => none
  | [] => none

def parseResList (id : Nat) : List String → Option (List Res)
  | [] => some []
  | s :: r => do
    let x ← parseRes id s
    let xs ← parseResList (id + 1) r
    pure (x :: xs)

def parseKind (s : String) : Option Bool :=
  if s = "C" then some true else if s = "N" then some false else none

/-- the options of the request as harness/observe.c (send_request) builds it, in wire order: ETag(s) by variant x, Observe,
    Uri-Path "r<r>", Uri-Query by variant q, Size1 by variant x (lines with a Block2 option are block-wise: not replayed) -/
def reqOpts (obs : Option Nat) (r q x : Nat) (fetch : Bool := false) : List ReqOpt :=
  (if x = 1 ∨ x = 3 then [{ num := 4, val := [0x11, 0x22] }] else []) ++
  (if x = 2 ∨ x = 5 then [{ num := 4, val := [0x33] }] else []) ++
  (if x = 3 then [{ num := 4, val := [0x44, 0x55, 0x66, 0x77, 0x88] }] else []) ++
  (match obs with
   | some 0 => [{ num := 6, val := [] }]
   | some v => [{ num := 6, val := [v] }]
   | none => []) ++
  [{ num := 11, val := [114, 48 + r] }] ++
  (if fetch then [{ num := 12, val := [0x2a] }] else []) ++
  (if q = 1 then [{ num := 15, val := [97, 61, 49] }]
   else if q = 2 then [{ num := 15, val := [98, 61, 50] }]
   else if q = 3 then [{ num := 15, val := [97] }, { num := 15, val := [98] }]
   else if q = 4 then [{ num := 15, val := [97, 15, 0, 98] }]
   else if q = 5 then [{ num := 15, val := [97] }]
   else []) ++
  (if x = 4 then [{ num := 60, val := [] }] else []) ++
  (if x = 5 then [{ num := 60, val := [2] }] else [])

/-- harness/observe.c fetch_pl: the payload of a FETCH request by variant p (1 empty, 2 "A", 3 "AB", 4 the bytes a further
    Uri-Query option "b" would feed into the digest); p = 0 is a GET -/
def fetchPayload (p : Nat) : List Nat :=
  if p = 2 then [0x41] else if p = 3 then [0x41, 0x42] else if p = 4 then [0x0f, 0, 1, 0, 0, 0, 0x62] else []

/-- the cache key of the scripted request: method code 1 (GET) for p = 0, else 5 (FETCH) with Content-Format 42 and payload p -/
def scriptKey (obs : Option Nat) (r q x p : Nat) : Nat :=
  if p = 0 then obsKey (reqOpts obs r q x) else reqKey 5 (reqOpts obs r q x true) (fetchPayload p)

/-- `c:r:t:q:k:mid[:x[:p]]` → (c, r, token = tokNat of the token bytes of index t, cache key of the request (Model/ObserveKey.lean), CON?, mid) -/
def parseReq (obs : Option Nat) (f : List String) (ncli nres : Nat) : Option (Nat × Nat × Nat × Nat × Bool × Nat) :=
  let go (c r t q k mid : String) (x p : Nat) : Option (Nat × Nat × Nat × Nat × Bool × Nat) := do
    let c ← c.toNat?; let r ← r.toNat?; let t ← t.toNat?; let q ← q.toNat?; let k ← parseKind k; let mid ← mid.toNat?
    if c < ncli ∧ r < nres ∧ t ≤ maxTokIdx ∧ q ≤ 5 ∧ mid ≤ 65535 ∧ x ≤ 5 ∧ p ≤ 4 then some (c, r, tokNat (tokenBytes c t), scriptKey obs r q x p, k, mid) else none
  match f with
  | [c, r, t, q, k, mid] => go c r t q k mid 0 0
  | [c, r, t, q, k, mid, x] => do let x ← x.toNat?; go c r t q k mid x 0
  | [c, r, t, q, k, mid, x, p] => do let x ← x.toNat?; let p ← p.toNat?; if p = 0 then none else go c r t q k mid x p
  | _ => none

def parseEvent (s : String) (ncli nres : Nat) : Option Event :=
  match s.splitOn ":" with
  | "reg" :: f => (parseReq (some 0) f ncli nres).map fun (c, r, t, key, k, m) => .reg c r t key k m
  | "can" :: f => (parseReq (some 1) f ncli nres).map fun (c, r, t, key, k, m) => .can c r t key k m
  | "get" :: f => (parseReq none f ncli nres).map fun (c, r, t, key, k, m) => .get c r t key k m
  | ["chg", r] => do let r ← r.toNat?; if r < nres then some (.chg r) else none
  | ["io"] => some (.adv 0)
  | ["adv", ms] => do let ms ← ms.toNat?; some (.adv ms)
  | ["ack", c, n] => do let c ← c.toNat?; let n ← n.toNat?; if c < ncli then some (.ack c n) else none
  | ["rst", c, n] => do let c ← c.toNat?; let n ← n.toNat?; if c < ncli then some (.rst c n) else none
  | ["err", r, b] => do
    let r ← r.toNat?; let b ← b.toNat?
    -- b = 1: 4.04, b = 2: 5.03, b = 3: 5.00 — every code of class ≥ 4 is "an error response" (RFC 7641 §4.2: a non-2.xx
    -- response ends the observation); M's event only knows whether the handler answers with an error
    if r < nres ∧ b ≤ 3 then some (.err r (b != 0)) else none
  | ["lost", c] => do let c ← c.toNat?; if c < ncli then some (.lost c) else none
  | ["del", r] => do let r ← r.toNat?; if r < nres then some (.del r) else none
  | _ => none

def parseEvents (ws : List String) (ncli nres : Nat) : Option (List Event) :=
  ws.mapM fun w => parseEvent w ncli nres

def replay (st : State) (ncli : Nat) : List Event → List String
  | [] => []
  | e :: es =>
    let (st1, outs) := Coap.Observe.step st e
    (String.intercalate " " (outs.map showOut) ++ showState st1 ncli) :: replay st1 ncli es

/-- `b<start>` or `b<start>/<szx>`, szx ≤ 6 (`B…`: the same with NOTIFY_CON): a block-wise resource (not modelled) -/
def isBlockRes (s : String) : Bool := s.startsWith "b" || s.startsWith "B"

def validBlockRes (s : String) : Bool :=
  match ((s.drop 1).toString).splitOn "/" with
  | [start] => start.toNat?.isSome
  | [start, szx] => start.toNat?.isSome && (szx = "0" || szx = "1" || szx = "2" || szx = "3" || szx = "4" || szx = "5" || szx = "6")
  | _ => false

def validRes (id : Nat) (s : String) : Bool :=
  if isBlockRes s then validBlockRes s else (parseRes id s).isSome

/-- `blk:c:r:t:q:k:mid:num` — only on a block-wise resource -/
def validBlk (f : List String) (ncli : Nat) (rs : List String) : Bool :=
  match f with
  | [c, r, t, q, k, mid, num] =>
    match c.toNat?, r.toNat?, t.toNat?, q.toNat?, parseKind k, mid.toNat?, num.toNat? with
    | some c, some r, some t, some q, some _, some mid, some num =>
      decide (c < ncli ∧ r < rs.length ∧ t ≤ maxTokIdx ∧ q ≤ 2 ∧ mid ≤ 65535 ∧ num ≤ 255) && isBlockRes (rs.getD r "")
    | _, _, _, _, _, _, _ => false
  | _ => false

def validEventB (s : String) (ncli : Nat) (rs : List String) : Bool :=
  match s.splitOn ":" with
  | "blk" :: f => validBlk f ncli rs
  | [_, _, r, _, _, _, _, _, _] => !isBlockRes (rs.getD (r.toNat?.getD 0) "") && (parseEvent s ncli rs.length).isSome   -- no FETCH on a block-wise resource
  | _ => (parseEvent s ncli rs.length).isSome

/-- the answer for a line with a block-wise resource: validated, never replayed -/
def stepBlockwise (st nc : String) (rs evs : List String) : String :=
  match st.toNat?, nc.toNat? with
  | some st, some ncli =>
    if st < 1 ∨ ncli < 1 ∨ ncli > 4 ∨ rs.length < 1 ∨ rs.length > 3 then "bad-op"
    else if !(((List.range rs.length).zip rs).all fun (i, r) => validRes i r) then "bad-op"
    else if !(evs.all fun e => validEventB e ncli rs) then "bad-op"
    else "M not-modelled blockwise"
  | _, _ => "bad-op"

def dropPrefix (s p : String) : Option String :=
  if s.startsWith p then some (s.drop p.length).toString else none

/-- `obs st=<sec> R=<m><start>,… C=<n> <event>…` -/
def step (args : List String) : String :=
  match args with
  | a :: b :: c :: evs =>
    match dropPrefix a "st=", dropPrefix b "R=", dropPrefix c "C=" with
    | some st, some rs, some nc =>
      if (rs.splitOn ",").any isBlockRes then stepBlockwise st nc (rs.splitOn ",") evs else
      match st.toNat?, parseResList 0 (rs.splitOn ","), nc.toNat? with
      | some st, some res, some ncli =>
        if st < 1 ∨ ncli < 1 ∨ ncli > 4 ∨ res.length < 1 ∨ res.length > 3 then "bad-op" else
        match parseEvents evs ncli res.length with
        | some es => "M " ++ String.intercalate " | " (replay (init res (st * Generated.obsTicksPerSecond)) ncli es)
        | none => "bad-op"
      | _, _, _ => "bad-op"
    | _, _, _ => "bad-op"
  | _ => "bad-op"

end Coap.Driver.Observe
