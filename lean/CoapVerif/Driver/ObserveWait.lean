import CoapVerif.Driver.Observe
import CoapVerif.Model.ObserveWait
/- Line-protocol driver for the `obsw` lines of C06 (round X06): C11's `obs` line format and replay (Driver/Observe.lean,
   harness/observe.c) with ONE more field in the state printed after every event: ` W<ms>` = the value
   `coap_io_prepare_epoll()` returned to the application in an `io` / `adv:<ms>` event (`Coap.Observe.waitOf`,
   Model/ObserveWait.lean), ` W-` after every other event (the I/O step at the end of a datagram delivery returns its wait to
   nobody).  Block-wise resources are not accepted (`bad-op` on both sides). -/
-- DRIVER-OPS: obsw => Coap.Driver.ObserveWait.step
namespace Coap.Driver.ObserveWait
open Coap Coap.Observe Coap.Driver.Observe

def replayW (st : State) (ncli : Nat) : List Event → List String
  | [] => []
  | e :: es =>
    let (st1, outs) := Coap.Observe.step st e
    let w := match e with
      | .adv _ => s!" W{waitOf st1 ncli}"
      | _ => " W-"
    (String.intercalate " " (outs.map showOut) ++ showState st1 ncli ++ w) :: replayW st1 ncli es

def step (args : List String) : String :=
  match args with
  | a :: b :: c :: evs =>
    match dropPrefix a "st=", dropPrefix b "R=", dropPrefix c "C=" with
    | some st, some rs, some nc =>
      if (rs.splitOn ",").any isBlockRes then "bad-op" else
      match st.toNat?, parseResList 0 (rs.splitOn ","), nc.toNat? with
      | some st, some res, some ncli =>
        if st < 1 ∨ ncli < 1 ∨ ncli > 4 ∨ res.length < 1 ∨ res.length > 3 then "bad-op" else
        match parseEvents evs ncli res.length with
        | some es => "M " ++ String.intercalate " | " (replayW (init res (st * Generated.obsTicksPerSecond)) ncli es)
        | none => "bad-op"
      | _, _, _ => "bad-op"
    | _, _, _ => "bad-op"
  | _ => "bad-op"

end Coap.Driver.ObserveWait
