import CoapVerif.Model.Build
import CoapVerif.Driver.Codec
/- Line-protocol driver for the PDU-building / PDU-editing properties (C01, C04).

   build <proto> <maxsize> <type> <code> <mid> <ops>
   edit  <proto> <maxsize> <wire> <ops>

   <ops> = `-` or `;`-separated calls:  T<val> add_token, O<num>:<val> add_option, I<num>:<val> insert_option,
   U<num>:<val> update_option, R<num> remove_option, K<val> update_token, D<val> add_data.
   <val> / <wire> = hex, `-` (empty) or `*<len>*<seed>` (len bytes, byte i = (seed + 7 i + 13 (i / 256)) mod 256).

   output:  steps=<rc>.<used_size>.<fnv32 of the buffer>,…  hdr=<n> bytes=<D> built=<dump> reparse=<dump|rej>
   where byte strings longer than 48 bytes are printed as #<len>.<fnv32>.<first 8>..<last 8>. -/
-- DRIVER-OPS: build edit => Coap.Driver.Build.step
namespace Coap.Driver.Build
open Coap Coap.M

def fnv32 (bs : Bytes) : UInt32 :=
  bs.foldl (fun h b => (h ^^^ b.toUInt32) * 16777619) 2166136261

def hex8 (x : UInt32) : String :=
  let n := x.toNat
  String.ofList ((List.range 8).map fun i => hexDigit (n / 16 ^ (7 - i) % 16))

/-- digest form of a byte string -/
def dg (bs : Bytes) : String :=
  if bs.length ≤ 48 then hexOrDash bs
  else "#" ++ toString bs.length ++ "." ++ hex8 (fnv32 bs) ++ "." ++ hexOfBytes (bs.take 8) ++ ".." ++
       hexOfBytes (bs.drop (bs.length - 8))

def genBytes (len seed : Nat) : Bytes :=
  (List.range len).map fun i => UInt8.ofNat (seed + 7 * i + 13 * (i / 256))

def valOf (s : String) : Option Bytes :=
  if s = "" then some []
  else if s.startsWith "*" then
    match (s.drop 1).toString.splitOn "*" with
    | [a, b] =>
      match a.toNat?, b.toNat? with
      | some len, some seed => if len ≤ 9000000 then some (genBytes len seed) else none
      | _, _ => none
    | _ => none
  else bytesOfHex s

def numVal (s : String) : Option (Nat × Bytes) :=
  match s.splitOn ":" with
  | [a, b] =>
    match a.toNat?, valOf b with
    | some n, some v => if n < 65536 then some (n, v) else none
    | _, _ => none
  | _ => none

def callOf (s : String) : Option Call :=
  let rest := (s.drop 1).toString
  match s.front with
  | 'T' => (valOf rest).map Call.addToken
  | 'K' => (valOf rest).map Call.updateToken
  | 'D' => (valOf rest).map Call.addData
  | 'O' => (numVal rest).map fun x => Call.addOption x.1 x.2
  | 'I' => (numVal rest).map fun x => Call.insertOption x.1 x.2
  | 'U' => (numVal rest).map fun x => Call.updateOption x.1 x.2
  | 'R' => match rest.toNat? with
           | some n => if n < 65536 then some (Call.removeOption n) else none
           | none => none
  | _ => none

def callsOf (s : String) : Option (List Call) :=
  if s = "-" then some [] else (s.splitOn ";").mapM callOf

def showOptsD (os : List (Nat × Bytes)) : String :=
  if os.isEmpty then "-" else
  String.intercalate "," (os.map fun o => toString o.1 ++ ":" ++ dg o.2)

def showMsgD (m : Msg) : String :=
  "t=" ++ toString m.type ++ " c=" ++ toString m.code ++ " m=" ++ toString m.mid ++
  " tok=" ++ dg m.token ++ " opts=" ++ showOptsD m.opts ++ " pl=" ++ dg m.payload

/-- the accessor dump of a PDU: coap_pdu_get_token, the option iterator, coap_get_data -/
def built (pdu : Pdu) : String :=
  let bias := if pdu.tokLen < 13 then 0 else if pdu.tokLen < 269 then 1 else 2
  let tok := if pdu.tokLen = 0 then [] else (pdu.buf.drop bias).take pdu.tokLen
  let os := (items pdu).map fun it => (it.num, (pdu.buf.drop (it.ofs + it.p.valOfs)).take it.p.length)
  let pl := match pdu.data with
            | some d => pdu.buf.drop d
            | none => []
  showMsgD ⟨pdu.type, pdu.code, pdu.mid, tok, os, pl⟩

/-- run the calls, collecting `rc.used.fnv` per step -/
def runSteps : Pdu → List Call → (List String × List Nat × Option Pdu)
  | pdu, [] => ([], [], some pdu)
  | pdu, c :: cs =>
    match call pdu c with
    | R.ok (rc, pdu') =>
      let (ss, rcs, r) := runSteps pdu' cs
      ((toString rc ++ "." ++ toString pdu'.buf.length ++ "." ++ hex8 (fnv32 pdu'.buf)) :: ss, rc :: rcs, r)
    | R.rej => (["rej"], [], none)
    | R.oob => (["oob"], [], none)

def finishM (p : Proto) (steps : List String) (r : Option Pdu) : String :=
  let st := "steps=" ++ (if steps.isEmpty then "-" else String.intercalate "," steps)
  match r with
  | none => st
  | some pdu =>
    let b := built pdu
    match serialise p pdu with
    | none => st ++ " hdr=0 bytes=- built=" ++ b ++ " reparse=rej"
    | some bytes =>
      let rp := match M.parse p bytes with
                | R.ok m => "ok " ++ showMsgD m
                | R.rej => "rej"
                | R.oob => "oob"
      st ++ " hdr=" ++ toString (bytes.length - pdu.buf.length) ++ " bytes=" ++ dg bytes ++ " built=" ++ b ++ " reparse=" ++ rp

/-! the abstract side -/

def lastNum (os : List (Nat × Bytes)) : Nat := (os.getLast?.map (·.1)).getD 0

/-- abstract effect of an accepted call.  D13: Hop-Limit MAY accompany a Proxy-Uri / Proxy-Scheme added to a
request that has none; `hop` selects the alternative, so the abstract side yields both admissible results. -/
def absCall (hop : Bool) (m : Msg) : Call → Msg
  | .addToken t => { m with token := t }
  | .updateToken t => { m with token := t }
  | .addData d => if d = [] then m else { m with payload := d }
  | .addOption n v => { m with opts := Spec.addSem (hop && Spec.hopApplies m.code n m.opts) n v m.opts }
  | .insertOption n v => Spec.applyEdit (hop && Spec.hopApplies m.code n m.opts) m (.insert n v)
  | .updateOption n v => Spec.applyEdit (hop && Spec.hopApplies m.code n m.opts) m (.update n v)
  | .removeOption n => Spec.applyEdit false m (.remove n)

/-- all admissible abstract results for the calls: D14 refused = unchanged, D13 Hop-Limit may accompany an
accepted Proxy-Uri / Proxy-Scheme option.  Alternatives only multiply at Proxy calls while no Hop-Limit is present,
so they stay few. -/
def absRun : List Msg → List Call → List Nat → List Msg
  | ms, c :: cs, rc :: rcs =>
    let next := if rc = 0 then ms else ms.flatMap fun m => [absCall true m c, absCall false m c]
    absRun next.eraseDups cs rcs
  | ms, _, _ => ms

/-- SPEC DECISION D17 (C04): the return code of coap_remove_option is prescribed — non-zero exactly when the message
holds an option with that number (a removal needs no room, so D14's "may be refused" does not extend to it; the first
such option then goes, `Spec.applyEdit … (.remove n)`); on a message without it the call returns 0 and changes nothing.
Every other call: non-zero = performed, 0 = refused = nothing changes (D14). -/
def rcOk (m : Msg) (c : Call) (acc : Bool) : Bool :=
  match c with
  | .removeOption n => acc == Spec.hasOpt n m.opts
  | _ => true

/-- all admissible abstract results under CLAIMED return codes (`acc` k = call k returned non-zero) — the claims may be
M's (first pass) or the implementation's own (`respec`, Driver/EditSpec.lean).  `.error k`: no abstract run has these
return codes — call k (0-based) is a removal whose return code contradicts D17 whichever alternative (D13) holds. -/
def absRunRc : List Msg → List Call → List Bool → Nat → Except Nat (List Msg)
  | ms, c :: cs, a :: as, k =>
    let ok := ms.filter fun m => rcOk m c a
    if ok.isEmpty then .error k else
    let next := if a then ok.flatMap fun m => [absCall true m c, absCall false m c] else ok
    absRunRc next.eraseDups cs as (k + 1)
  | ms, _, _, _ => .ok ms

def patStr (acc : List Bool) : String :=
  let s := String.ofList (acc.map fun a => if a then '1' else '0')
  if s.isEmpty then "-" else s

def showCall : Call → String
  | .addToken _ => "T" | .updateToken _ => "K" | .addData _ => "D"
  | .addOption n _ => "O" ++ toString n | .insertOption n _ => "I" ++ toString n
  | .updateOption n _ => "U" ++ toString n | .removeOption n => "R" ++ toString n

/-- `norun call=<k, 1-based> op=<call> rc=<0|1>`: the claimed return code of that call is one S never prescribes -/
def norunStr (calls : List Call) (acc : List Bool) (k : Nat) : String :=
  "norun call=" ++ toString (k + 1) ++ " op=" ++ ((calls[k]?).map showCall).getD "?" ++
    " rc=" ++ (if (acc[k]?).getD false then "1" else "0")

def altsStr (p : Proto) (alts : List Msg) : String :=
  String.intercalate " || " (alts.map fun a =>
    "msg=" ++ showMsgD (Spec.onWire p a) ++ " bytes=" ++ dg (Spec.encode p a))

/-- the S column of a build / edit line under the claimed return codes -/
def specUnder (p : Proto) (m : Msg) (calls : List Call) (acc : List Bool) : String :=
  match absRunRc [m] calls acc 0 with
  | .error k => "rcs=" ++ patStr acc ++ " " ++ norunStr calls acc k
  | .ok all =>
    let alts := all.filter fun a => decide (Spec.WF p a)
    if alts.isEmpty || alts.length > 16 then "skip" else "rcs=" ++ patStr acc ++ " " ++ altsStr p alts

def finishS (p : Proto) (m : Msg) (calls : List Call) (rcs : List Nat) : String :=
  specUnder p m calls (rcs.map fun rc => rc != 0)

def hdrLen (p : Proto) (wire : Bytes) : Nat :=
  match p, wire with
  | .udp, _ => 4
  | .ws, _ => 2
  | .tcp, b0 :: _ => headerSize .tcp b0.toNat
  | .tcp, [] => 2

def step (args : List String) : String :=
  match args with
  | [p, ms, t, c, m, ops] =>     -- build
    match protoOf p, ms.toNat?, t.toNat?, c.toNat?, m.toNat?, callsOf ops with
    | some p, some ms, some t, some c, some m, some calls =>
      match pduInit t c m ms with
      | none => "M fail | S skip"
      | some pdu =>
        let (steps, rcs, r) := runSteps pdu calls
        "M " ++ finishM p steps r ++ " | S " ++
          (if r.isSome then finishS p ⟨t, c, m, [], [], []⟩ calls rcs else "skip")
    | _, _, _, _, _, _ => "bad-op"
  | [p, ms, w, ops] =>           -- edit
    match protoOf p, ms.toNat?, valOf w, callsOf ops with
    | some p, some ms, some wire, some calls =>
      let body := wire.drop (hdrLen p wire)
      if ms > 8388864 - 6 then "M fail | S skip" else
      match M.parse p wire with
      | R.ok m0 =>
        if ms ≠ 0 ∧ body.length > ms then "M rej | S skip" else
        let (steps, rcs, r) := runSteps (ofParsed ms m0 body) calls
        "M start=" ++ toString body.length ++ "." ++ hex8 (fnv32 body) ++ " " ++ finishM p steps r ++ " | S " ++
          (match Spec.decode p wire with
           | some s0 => if r.isSome then finishS p s0 calls rcs else "skip"
           | none => "skip")
      | R.rej => "M rej | S skip"
      | R.oob => "M oob | S skip"
    | _, _, _, _ => "bad-op"
  | _ => "bad-op"

end Coap.Driver.Build
