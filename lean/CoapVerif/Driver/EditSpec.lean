import CoapVerif.Driver.Duplicate
/- Second pass of the C04 oracle: the S column of a build / edit / dupb / dupe line under the return codes the
   IMPLEMENTATION reported (props/C04.py `respec`), so that the implementation is judged against the specification on
   its own claims — independent of whether M returns the same codes (SPEC DECISION D17, Driver/Build.lean `rcOk`).

   respec <pat> <build | edit | dupb | dupe> <args of that op…>

   <pat> = 0/1 per call of <ops> (`-` = none); for dupb / dupe `<pat of ops1>/<pat of ops2>` or `<pat of ops1>/N`
   when the implementation returned no copy.
   output:  M respec | S rcs=<pat> msg=… bytes=… || …          admissible abstract results under these return codes
                     | S rcs=<pat> [copy ]norun call=<k> op=<call> rc=<0|1>    no abstract run returns this
                     | S rcs=<p1>/N null | S skip -/
-- DRIVER-OPS: respec => Coap.Driver.EditSpec.step
namespace Coap.Driver.EditSpec
open Coap Coap.M Coap.Driver.Build Coap.Driver.Duplicate

def accOf (s : String) : Option (List Bool) :=
  if s = "-" then some [] else
  s.toList.mapM fun ch => if ch = '1' then some true else if ch = '0' then some false else none

def acc2Of (s : String) : Option (List Bool × Option (List Bool)) :=
  match s.splitOn "/" with
  | [a, b] =>
    match accOf a with
    | none => none
    | some a => if b = "N" then some (a, none) else (accOf b).map fun b => (a, some b)
  | _ => none

def step (args : List String) : String :=
  match args with
  | [pat, "build", p, _ms, t, c, m, ops] =>
    match accOf pat, protoOf p, t.toNat?, c.toNat?, m.toNat?, callsOf ops with
    | some acc, some p, some t, some c, some m, some calls =>
      "M respec | S " ++ specUnder p ⟨t, c, m, [], [], []⟩ calls acc
    | _, _, _, _, _, _ => "bad-op"
  | [pat, "edit", p, _ms, w, ops] =>
    match accOf pat, protoOf p, valOf w, callsOf ops with
    | some acc, some p, some wire, some calls =>
      "M respec | S " ++ (match Spec.decode p wire with
                          | some s0 => specUnder p s0 calls acc
                          | none => "skip")
    | _, _, _, _ => "bad-op"
  | [pat, "dupb", p, _ms, t, c, m, ops1, _smax, mid, tok, flt, ops2] =>
    match acc2Of pat, protoOf p, t.toNat?, c.toNat?, m.toNat?, callsOf ops1 with
    | some (a1, a2), some p, some t, some c, some m, some calls1 =>
      match mid.toNat?, valOf tok, fltOf flt, callsOf ops2 with
      | some mid, some tok, some flt, some calls2 =>
        "M respec | S " ++ specUnder2 p (some ⟨t, c, m, [], [], []⟩) calls1 a1 mid tok
                             (flt.map fun ns => (filterOf [] ns).2) calls2 a2
      | _, _, _, _ => "bad-op"
    | _, _, _, _, _, _ => "bad-op"
  | [pat, "dupe", p, _ms, w, ops1, _smax, mid, tok, flt, ops2] =>
    match acc2Of pat, protoOf p, valOf w, callsOf ops1 with
    | some (a1, a2), some p, some wire, some calls1 =>
      match mid.toNat?, valOf tok, fltOf flt, callsOf ops2 with
      | some mid, some tok, some flt, some calls2 =>
        "M respec | S " ++ specUnder2 p (Spec.decode p wire) calls1 a1 mid tok
                             (flt.map fun ns => (filterOf [] ns).2) calls2 a2
      | _, _, _, _ => "bad-op"
    | _, _, _, _ => "bad-op"
  | _ => "bad-op"

end Coap.Driver.EditSpec
