import CoapVerif.Model.Lock
import CoapVerif.Generated.ThreadCfg
/- Line-protocol driver for C13 (the global lock).
     lkseq <rc:0|1> <tok>…                           one thread, tokens L U K+ K- R+ R- X+ X- Y+ Y- W+ W- S
     lksched <rc:0|1> <prog0>/<prog1>/… <t0,t1,…>     several threads (programs: tokens joined by `,`), a schedule
     lkcfg                                         the T1 build-configuration facts
   Output: `M <obs> <obs> … | S <exp> <exp> …`; obs = pidset,in_callback,lock_count,held,fault  or `blk` (blocked) -/
-- DRIVER-OPS: lkseq => Coap.Driver.Lock.seqStep
-- DRIVER-OPS: lksched => Coap.Driver.Lock.schedStep
-- DRIVER-OPS: lkcfg => Coap.Driver.Lock.cfgStep
-- DRIVER-OPS: lkapi => Coap.Driver.Lock.apiStep
-- DRIVER-OPS: lkcb => Coap.Driver.Lock.cbStep
-- DRIVER-OPS: lkwin => Coap.Driver.Lock.winStep
-- DRIVER-OPS: lkctxfail => Coap.Driver.Lock.ctxFailStep
-- DRIVER-OPS: lkeintr => Coap.Driver.Lock.eintrStep
-- DRIVER-OPS: lksmoke => Coap.Driver.Lock.smokeStep
-- DRIVER-OPS: lkheld => Coap.Driver.Lock.heldStep
-- DRIVER-OPS: lkio => Coap.Driver.Lock.ioStep
namespace Coap.Driver.Lock
open Coap Coap.Lock

def tokOf (s : String) : Option Tok :=
  if s = "L" then some .lock else if s = "U" then some .unlock
  else if s = "K+" then some (.cbIn .keep) else if s = "K-" then some (.cbOut .keep)
  else if s = "R+" then some (.cbIn .ret) else if s = "R-" then some (.cbOut .ret)
  else if s = "X+" then some (.cbIn .rel) else if s = "X-" then some (.cbOut .rel)
  else if s = "Y+" then some (.cbIn .retRel) else if s = "Y-" then some (.cbOut .retRel)
  else if s = "W+" then some (.cbIn .win) else if s = "W-" then some (.cbOut .win)
  else if s = "S" then some .startup
  else none

def toksOf (ws : List String) : Option (List Tok) := ws.mapM tokOf

def b01 (b : Bool) : String := if b then "1" else "0"

def showObs : Option Obs → String
  | none => "blk"
  | some o => b01 o.pidSet ++ "," ++ toString o.inCb ++ "," ++ toString o.cnt ++ "," ++ b01 o.held ++ "," ++ b01 o.fault

/-- S — what the *property* prescribes after each token, from the nesting alone (never from the lock code):
`1` the thread is in library code: it must hold the mutex;  `Z` the thread is back at its top level: mutex free,
in_callback = 0, lock_count = 0;  `*` inside an application callback: nothing prescribed.
SPEC DECISION D13: whether the mutex is really released during a `…_release` callback is not prescribed (nested under a
lock-keeping callback libcoap keeps it; the property only needs exclusion, balance and progress). -/
def specSeq : List Frame → List Tok → List String
  | _, [] => []
  | st, tok :: p =>
    let st' := stackStep tok st
    (match st' with
     | [] => "Z"
     | .api :: _ => "1"
     | .cb _ :: _ => "*") :: specSeq st' p

def rcOf (s : String) : Option Bool := if s = "0" then some false else if s = "1" then some true else none

def seqStep (args : List String) : String :=
  match args with
  | r :: ws =>
    match rcOf r, toksOf ws with
    | some rc, some toks =>
      if wn [] toks then
        "M " ++ " ".intercalate ((runSeq (tokStep rc) 0 toks G.init).map showObs) ++
        " | S " ++ " ".intercalate (specSeq [] toks)
      else "M ill-nested | S ill-nested"
    | _, _ => "bad-op"
  | _ => "bad-op"

def progsOf (ps : List (List Tok)) : Tid → List Tok := fun t => ps.getD t []

/-- S for a schedule: per entry, `1` if the scheduled thread ends the step in library code (must hold the mutex,
so every *other* thread in library code would be a violation), `Z` if that leaves all threads at top level, `*`
otherwise, `-` if the turn was refused (blocked / finished).  Computed from the model's stacks. -/
def schedStep (args : List String) : String :=
  match args with
  | [r, ps, sch] =>
    let progs := (ps.splitOn "/").map fun p => toksOf ((p.splitOn ",").filter (· ≠ ""))
    let sched := (sch.splitOn ",").map String.toNat?
    match rcOf r, progs.mapM id, sched.mapM id with
    | some rc, some progs, some sched =>
      if progs.all (wn []) && sched.all (· < progs.length) then
        let r := runSched rc sched (progsOf progs) G.init
        let n := progs.length
        let total := (progs.map List.length).foldl (· + ·) 0
        let fin := match finish rc n ((total + 1) * (n + 1)) 0 r.2.1 r.2.2 with
          | some g => "fin:" ++ showObs (some g.obs)
          | none => "fin:stuck"
        -- S: the property demands that the run completes and leaves the lock in its initial state
        "M " ++ " ".intercalate (r.1.map showObs ++ [fin]) ++ " | S fin:0,0,0,0,0"
      else "M ill-nested | S ill-nested"
    | _, _, _ => "bad-op"
  | _ => "bad-op"

def cfgLine (c : BuildCfg) : String :=
  c.name ++ ":def=" ++ (if c.define = "" then "-" else c.define) ++ ",if=" ++ b01 c.ifHolds ++ ",linked=" ++ b01 c.lockLinked ++
  ",adv=" ++ b01 c.advertised ++ ",rc=" ++ b01 c.recursiveCheck

def cfgStep (args : List String) : String :=
  match args with
  | [] => "M " ++ " ".intercalate (Generated.buildCfgs.map cfgLine) ++ " | S " ++
          (if Generated.buildCfgs.all (fun c => !c.advertised || c.compiledIn) then "ok" else "advertised-not-compiled")
  | _ => "bad-op"

/-- `lkapi <file> <func>`: the scan fact as recorded in Generated.apiSites; S: bracketed -/
def apiStep (args : List String) : String :=
  match args with
  | [f, n] =>
    match Generated.apiSites.find? (fun a => a.file = f && a.name = n) with
    | some a => "M locks=" ++ b01 a.locks ++ " lkd=" ++ b01 a.callsLkd ++ " unlocks=" ++ b01 a.unlocks ++
                " | S locks=1 lkd=1 unlocks=1"
    | none => "M no-such-site | S locks=1 lkd=1 unlocks=1"
  | _ => "bad-op"

/-- `lkcb <file> <func> <callee> <k>` -/
def cbStep (args : List String) : String :=
  match args with
  | [f, fn, c, k] =>
    match Generated.callbackSites.find? (fun s => s.file = f && s.func = fn && s.callee = c && toString s.k = k) with
    | some s => "M wrapped=" ++ b01 s.wrapped ++ " | S wrapped=1"
    | none => "M no-such-site | S wrapped=1"
  | _ => "bad-op"

def winLine (f : LockFn) : String :=
  "held=" ++ b01 f.entryHeld ++ " windows=" ++ toString f.windows ++ " exits=" ++ b01 f.exitsBalanced ++
  " loops=" ++ b01 f.loopsBalanced ++ " fail=" ++ b01 f.failLeaves ++ " order=" ++ b01 f.ordered ++ " quiet=" ++ b01 f.quiet

/-- `lkwin <file> <func>`: the lock-balance facts of one function as recorded in Generated.lockWindows; S: balanced -/
def winStep (args : List String) : String :=
  match args with
  | [f, n] =>
    match Generated.lockWindows.find? (fun a => a.file = f && a.name = n) with
    | some a => "M " ++ winLine a ++ " | S exits=1 loops=1 fail=1 order=1 quiet=1"
    | none => "M no-such-site | S exits=1 loops=1 fail=1 order=1 quiet=1"
  | _ => "bad-op"

/-- `lkctxfail <mode>`: coap_new_context() fails; it is an API call `[lock, unlock]`: afterwards the lock is in its
initial state (theorem `balanced`) -/
def ctxFailStep (args : List String) : String :=
  match args with
  | [_] =>
    match (runSeq (tokStep false) 0 [.lock, .unlock] G.init).getLast? with
    | some (some o) => "M ret=null held=" ++ b01 o.held ++ " | S ret=null held=0"
    | _ => "M ret=null held=? | S ret=null held=0"
  | _ => "bad-op"

/-- `lkeintr <rc>`: the I/O thread `[lock, cbIn win, cbOut win, unlock]` against a thread holding the lock in an event
callback `[lock, cbIn ret, cbOut ret, unlock]`, scheduled so that the window closes (`cbOut win`, the EINTR return)
while the other thread is inside its callback: the model refuses that turn (`blk`) and then runs to completion -/
def eintrStep (args : List String) : String :=
  match args with
  | [r] =>
    match rcOf r with
    | some rc =>
      let progs := progsOf [[.lock, .cbIn .win, .cbOut .win, .unlock], [.lock, .cbIn .ret, .cbOut .ret, .unlock]]
      let r := runSched rc [0, 0, 1, 1, 0] progs G.init
      let refused := r.1.getLast? == some none
      let fin := finish rc 2 30 1 r.2.1 r.2.2
      "M " ++ (if refused && fin == some G.init then "ok" else "unserialised") ++ " | S ok"
    | none => "bad-op"
  | _ => "bad-op"

/-- `lkheld <file> <func>`: what one function does under the lock, as recorded in Generated.heldFns; S: it makes no
call to a lock-taking public API function there (theorem `lib_api_call_deadlocks_or_faults`: such a call cannot succeed) -/
def heldStep (args : List String) : String :=
  match args with
  | [f, n] =>
    match Generated.heldFns.find? (fun a => a.file = f && a.name = n) with
    | some a => "M entry=" ++ (if a.entersHeld then "held" else "takes") ++ " calls=" ++ toString a.heldCalls ++
                " api_calls=" ++ toString a.apiCalls ++ " | S api_calls=0"
    | none => "M no-such-site | S api_calls=0"
  | _ => "bad-op"

/-- what the I/O thread does in one round of scenario `sc` of `lkio`: the release window around its wait, then the timer
work of coap_io_prepare_io_lkd — all library code; where that invokes an application callback it does so through a macro
and the callback re-enters the API.  0 keepalive ping of an idle UDP client session (no callback); 1 TCP keepalive
(ping / pong handlers: coap_lock_callback); 2 retransmission of a CON (event handler: coap_lock_callback_ret);
3 idle server session expiry (event handler: coap_lock_callback_ret) -/
def ioRound (sc : Nat) : List Tok :=
  let work : List Tok :=
    if sc = 0 then []
    else if sc = 2 ∨ sc = 3 then [.cbIn .ret, .startup, .lock, .unlock, .cbOut .ret]
    else [.cbIn .keep, .startup, .lock, .unlock, .cbOut .keep]
  [.lock, .cbIn .win, .cbOut .win] ++ work ++ [.unlock]

/-- `lkio <rc> <scenario> <workers> <seed>`: the I/O thread (two rounds of `ioRound`) against `workers` application
threads each issuing `coap_startup(); api call; api call`, under a schedule that gives every thread a turn in the
I/O thread's window and during its timer work; M: everything completes and the lock ends in its initial state
(theorems `progress`, `all_done_lock_initial`) -/
def ioStep (args : List String) : String :=
  match args with
  | [r, sc, w, _] =>
    match rcOf r, sc.toNat?, w.toNat? with
    | some rc, some sc, some w =>
      if sc < 4 && 1 ≤ w && w ≤ 3 then
        let io := ioRound sc ++ ioRound sc
        let progs := progsOf (io :: List.replicate w [.startup, .lock, .unlock, .lock, .unlock])
        let n := w + 1
        let sched := (List.range (io.length * n)).map (· % n)
        if (io :: List.replicate w [Tok.startup, .lock, .unlock, .lock, .unlock]).all (wn []) then
          let r := runSched rc sched progs G.init
          let fin := finish rc n ((io.length + 5 * w + 1) * (n + 1)) 0 r.2.1 r.2.2
          "M " ++ (if fin == some G.init then "ok" else "stuck") ++ " | S ok"
        else "M ill-nested | S ok"
      else "bad-op"
    | _, _, _ => "bad-op"
  | _ => "bad-op"

/-- `lksmoke …`: a test, not a model run: the only acceptable outcome is `ok` -/
def smokeStep (_ : List String) : String := "M ok | S ok"

end Coap.Driver.Lock
