import CoapVerif.Model.Parse
/- Line-protocol driver for the codec properties (C03 …).  -/
-- DRIVER-OPS: parse => Coap.Driver.parseStep
namespace Coap.Driver

def showOpts (os : List (Nat × Bytes)) : String :=
  if os.isEmpty then "-" else
  String.intercalate "," (os.map fun o => toString o.1 ++ ":" ++ hexOrDash o.2)

def showMsg (m : Msg) : String :=
  "ok t=" ++ toString m.type ++ " c=" ++ toString m.code ++ " m=" ++ toString m.mid ++
  " tok=" ++ hexOrDash m.token ++ " opts=" ++ showOpts m.opts ++ " pl=" ++ hexOrDash m.payload

def showR (r : R Msg) : String :=
  match r with
  | .ok m => showMsg m
  | .rej => "rej"
  | .oob => "oob"

def showO (r : Option Msg) : String :=
  match r with
  | some m => showMsg m
  | none => "rej"

def protoOf (s : String) : Option Proto :=
  -- SPEC DECISION D17: DTLS, TLS and WSS carry exactly the framing of UDP, TCP and WS (RFC 7252 §9, RFC 8323 §3 / §8):
  -- the secured transport names select the specification of their plain counterparts
  if s = "udp" ∨ s = "dtls" then some .udp else if s = "tcp" ∨ s = "tls" then some .tcp
  else if s = "ws" ∨ s = "wss" then some .ws else none

/-- `parse <proto> <hex>` → `M <result>` / `S <result>` on one line separated by ` | `. -/
def parseStep (args : List String) : String :=
  match args with
  | [p, h] =>
    match protoOf p, bytesOfHex h with
    | some p, some bs => "M " ++ showR (M.parse p bs) ++ " | S " ++ showO (Spec.decode p bs)
    | _, _ => "bad-op"
  | _ => "bad-op"

end Coap.Driver
