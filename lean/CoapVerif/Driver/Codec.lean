import CoapVerif.Model.Parse
import CoapVerif.Model.OptFilter
import CoapVerif.Spec.OptFilter
/- Line-protocol driver for the codec properties (C03 …).  -/
-- DRIVER-OPS: parse => Coap.Driver.parseStep
-- DRIVER-OPS: optit => Coap.Driver.optitStep
namespace Coap.Driver

def showOpts (os : List (Nat × Bytes)) : String :=
  if os.isEmpty then "-" else
  String.intercalate "," (os.map fun o => toString o.1 ++ ":" ++ hexOrDash o.2)

def showMsg (m : Msg) : String :=
  "ok t=" ++ toString m.type ++ " c=" ++ toString m.code ++ " m=" ++ toString m.mid ++
  " tok=" ++ hexOrDash m.token ++ " opts=" ++ showOpts m.opts ++ " pl=" ++ hexOrDash m.payload

def showR (r : R Msg) : String :=
  match r with
  | .ok m => showMsg m
  | .rej => "rej"
  | .oob => "oob"

def showO (r : Option Msg) : String :=
  match r with
  | some m => showMsg m
  | none => "rej"

def protoOf (s : String) : Option Proto :=
  -- SPEC DECISION D17: DTLS, TLS and WSS carry exactly the framing of UDP, TCP and WS (RFC 7252 §9, RFC 8323 §3 / §8):
  -- the secured transport names select the specification of their plain counterparts
  if s = "udp" ∨ s = "dtls" then some .udp else if s = "tcp" ∨ s = "tls" then some .tcp
  else if s = "ws" ∨ s = "wss" then some .ws else none

/-- `parse <proto> <hex>` → `M <result>` / `S <result>` on one line separated by ` | `. -/
def parseStep (args : List String) : String :=
  match args with
  | [p, h] =>
    match protoOf p, bytesOfHex h with
    | some p, some bs => "M " ++ showR (M.parse p bs) ++ " | S " ++ showO (Spec.decode p bs)
    | _, _ => "bad-op"
  | _ => "bad-op"

/-! `optit raw|udp <hex> <script>`: option filter script, filtered iteration, coap_check_option (C03) -/

inductive FOp | set (n : Nat) | clr (n : Nat) | get (n : Nat) | clear

def parseFOp (t : String) : Option FOp :=
  if t = "c" then some .clear else
  match t.toList with
  | c :: r =>
    match (String.ofList r).toNat? with
    | some n => if n > 65535 then none else
                if c = 's' then some (.set n) else if c = 'u' then some (.clr n) else if c = 'g' then some (.get n) else none
    | none => none
  | [] => none

def parseScript (s : String) : Option (List FOp) :=
  if s = "-" then some [] else
  let ws := s.splitOn ","
  if ws.length > 64 then none else ws.mapM parseFOp

def fopNums : List FOp → List Nat → List Nat
  | [], acc => acc
  | .clear :: r, acc => fopNums r acc
  | .set n :: r, acc | .clr n :: r, acc | .get n :: r, acc => fopNums r (if acc.contains n then acc else acc ++ [n])

def runScriptM : List FOp → M.OptFilter.Flt → String → M.OptFilter.Flt × String
  | [], f, out => (f, out)
  | .clear :: r, _, out => runScriptM r M.OptFilter.Flt.clear (out ++ "c")
  | .set n :: r, f, out => let x := f.op n .set; runScriptM r x.1 (out ++ toString x.2)
  | .clr n :: r, f, out => let x := f.op n .clr; runScriptM r x.1 (out ++ toString x.2)
  | .get n :: r, f, out => let x := f.op n .get; runScriptM r x.1 (out ++ toString x.2)

def runScriptS : List FOp → Spec.OptFilter.BSet → String → Spec.OptFilter.BSet × String
  | [], s, out => (s, out)
  | .clear :: r, _, out => runScriptS r Spec.OptFilter.BSet.empty (out ++ "c")
  | .set n :: r, s, out => let x := s.set n; runScriptS r x.1 (out ++ toString x.2)
  | .clr n :: r, s, out => let x := s.clr n; runScriptS r x.1 (out ++ toString x.2)
  | .get n :: r, s, out => runScriptS r s (out ++ (if s.get n then "1" else "0"))

def showChk (xs : List (Nat × Option Bytes)) : String :=
  if xs.isEmpty then "-" else
  String.intercalate ";" (xs.map fun x => toString x.1 ++ "=" ++ (match x.2 with | some v => hexOrDash v | none => "none"))

/-- M: filter script, then `iterF` / `checkOption` over the option region -/
def optitM (region : Bytes) (sc : List FOp) : String :=
  let (f, out) := runScriptM sc M.OptFilter.Flt.clear ""
  let fuel := region.length + 1
  match M.OptFilter.iterF f.get fuel region 0 true with
  | R.oob => "oob"
  | R.rej => "rej"
  | R.ok os =>
    let chk := (fopNums sc []).map fun n => (n, M.OptFilter.checkOption fuel region n)
    if chk.any (fun x => match x.2 with | R.ok _ => false | _ => true) then "oob" else
    "r=" ++ (if sc.isEmpty then "-" else out) ++ " mask=" ++ toString f.mask ++ " it=" ++ showOpts os ++ " chk=" ++
      showChk (chk.map fun x => (x.1, match x.2 with | R.ok (some o) => some o.2 | _ => none))

/-- S: bounded set, `List.filter` / `List.find?` over the reference decoding -/
def optitS (opts : List (Nat × Bytes)) (sc : List FOp) : String :=
  let (s, out) := runScriptS sc Spec.OptFilter.BSet.empty ""
  "r=" ++ (if sc.isEmpty then "-" else out) ++ " it=" ++ showOpts (opts.filter fun o => s.get o.1) ++ " chk=" ++
    showChk ((fopNums sc []).map fun n => (n, (opts.find? fun o => o.1 = n).map (·.2)))

def optitStep (args : List String) : String :=
  match args with
  | [mode, h, script] =>
    match bytesOfHex h, parseScript script with
    | some bs, some sc =>
      if mode = "raw" then "M " ++ optitM bs sc ++ " | S na"
      else if mode = "udp" then
        match M.parse .udp bs, Spec.decode .udp bs with
        | R.ok m, sd =>
          let tl := m.token.length
          let ext := if tl < 13 then 0 else if tl < 269 then 1 else 2
          "M " ++ optitM (bs.drop (4 + ext + tl)) sc ++ " | S " ++
            (match sd with | some d => optitS d.opts sc | none => "rej")
        | R.rej, sd => "M rej | S " ++ (match sd with | some d => optitS d.opts sc | none => "rej")
        | R.oob, _ => "M oob | S na"
      else "bad-op"
    | _, _ => "bad-op"
  | _ => "bad-op"

end Coap.Driver
