import CoapVerif.Model.ReplayAbs
/- Line-protocol driver for C15 (same ops as harness/replay.c).  -/
-- DRIVER-OPS: replay => Coap.Driver.Replay.replayStep
-- DRIVER-OPS: replayst => Coap.Driver.Replay.replaystStep
-- DRIVER-OPS: sender => Coap.Driver.Replay.senderStep
-- DRIVER-OPS: validate => Coap.Driver.Replay.validateStep
-- DRIVER-OPS: nonces => Coap.Driver.Replay.noncesStep
-- DRIVER-OPS: endp => Coap.Driver.Replay.endpStep
namespace Coap.Driver.Replay
open Coap.Replay

def showVerdict : Verdict → String
  | .acc => "acc" | .chal => "chal" | .rej401 => "rej401" | .rej400 => "rej400" | .drop => "drop" | .ub => "ub"

def showState (r : Recip) : String :=
  (if r.init then "1" else "0") ++ "," ++ toString r.last ++ "," ++ toString r.win

/-- `a/e/w/x<piv>` requests, `n<piv>` authentic notification with its own Partial IV, `y<piv>` forged response claiming
one, `r<k>` / `z<k>` authentic / forged response without Partial IV (same letters as harness/replay.c). -/
def parseMsg (w : String) : Option Msg :=
  match w.toList with
  | k :: rest =>
    match (String.ofList rest).toNat? with
    | some p =>
      if k = 'a' then some (.req ⟨true, p, .none⟩)
      else if k = 'e' then some (.req ⟨true, p, .good⟩)
      else if k = 'w' then some (.req ⟨true, p, .bad⟩)
      else if k = 'x' then some (.req ⟨false, p, .none⟩)
      else if k = 'n' then some (.rsp ⟨true, some p⟩)
      else if k = 'y' then some (.rsp ⟨false, some p⟩)
      else if k = 'r' then some (.rsp ⟨true, none⟩)
      else if k = 'z' then some (.rsp ⟨false, none⟩)
      else none
    | none => none
  | [] => none

/-- `<x|y|z><piv>.<len>`: a forged message whose ciphertext has `len` bytes (0: no payload at all); without the suffix
the ciphertext has 14 bytes (authentic ones: whatever the real sender produced, longer than the tag). -/
def parseEv (w : String) : Option Dgram :=
  match w.splitOn "." with
  | [m] => (parseMsg m).map (fun m => ⟨m, 14⟩)
  | [m, l] =>
    match parseMsg m, l.toNat? with
    | some m, some l => if m.authentic then none else some ⟨m, l⟩
    | _, _ => none
  | _ => none

def parseAll {α} (f : String → Option α) : List String → Option (List α)
  | [] => some []
  | w :: r => do
    let a ← f w
    let t ← parseAll f r
    pure (a :: t)

def showOut : ReplaySpec.Out → String
  | .accept => "acc" | .reject => "rej" | .challenge => "chal"

def showAllowed (l : List ReplaySpec.Out) : String := String.intercalate "/" (l.map showOut)

/-- M's verdict and state after every event, and the outcomes S allows at that point (the monitor follows M). -/
def replayLoop (cfg : Cfg) : Recip → ReplaySpec.St → List Dgram → List String × List String
  | _, _, [] => ([], [])
  | r, s, d :: es =>
    let e := d.msg
    let x := stepD cfg r d
    let al := ReplaySpec.allowed cfg.window s (msgOf e)
    let m := showVerdict x.2 ++ ":" ++ showState x.1
    if x.2 = .ub then ([m], [showAllowed al])
    else
      let t := replayLoop cfg x.1 (ReplaySpec.next s (msgOf e) (outOf x.2)) es
      (m :: t.1, showAllowed al :: t.2)

def replayStep (args : List String) : String :=
  match args with
  | w :: b :: evs =>
    match w.toNat?, b.toNat?, parseAll parseEv evs with
    | some w, some b, some evs =>
      -- oscore_derive_ctx: replay_window 0 means COAP_OSCORE_DEFAULT_REPLAY_WINDOW (32)
      let cfg : Cfg := { window := if w = 0 then 32 else w, b12 := b ≠ 0 }
      let t := replayLoop cfg Recip.fresh (ReplaySpec.St.start cfg.b12) evs
      "M " ++ String.intercalate " " t.1 ++ " | S " ++ String.intercalate " " t.2
    | _, _, _ => "bad-op"
  | _ => "bad-op"

/-- `replayst <window> <b12> <init> <last> <win> <ev>…`: M from an arbitrary recipient state (no monitor: S speaks
about histories of a fresh context). -/
def replaystStep (args : List String) : String :=
  match args with
  | w :: b :: i :: l :: win :: evs =>
    match w.toNat?, b.toNat?, i.toNat?, l.toNat?, win.toNat?, parseAll parseEv evs with
    | some w, some b, some i, some l, some win, some evs =>
      let cfg : Cfg := { window := if w = 0 then 32 else w, b12 := b ≠ 0 }
      let r : Recip := { Recip.fresh with init := i ≠ 0, last := l, win := win }
      let t := replayLoop cfg r (ReplaySpec.St.start cfg.b12) evs
      "M " ++ String.intercalate " " t.1
    | _, _, _, _, _, _ => "bad-op"
  | _ => "bad-op"

def parseSOp (w : String) : Option SOp :=
  if w = "p" then some .protect
  else match w.toList with
    | 'c' :: rest => (String.ofList rest).toNat?.map SOp.crash
    | _ => none

def showSObs : SObs → String
  | .sent o =>
    (match o.piv with | some p => toString p | none => "err") ++
    (match o.saved with | some v => "s" ++ toString v | none => "")
  | .resumed v => "r" ++ toString v

def senderStep (args : List String) : String :=
  match args with
  | f :: st :: ops =>
    match f.toNat?, st.toNat?, parseAll parseSOp ops with
    | some f, some st, some ops =>
      let obs := srun (SSys.start f st) ops
      let ps := pivs obs
      "M " ++ String.intercalate " " (obs.map showSObs) ++ " | S " ++
        (if ps.eraseDups.length = ps.length then "distinct" else "reused")
    | _, _, _ => "bad-op"
  | _ => "bad-op"

def validateStep (args : List String) : String :=
  match args.map String.toNat? with
  | [some w, some i, some l, some win, some p] =>
    let r : Recip := { Recip.fresh with init := i ≠ 0, last := l, win := win }
    match validate { window := if w = 0 then 32 else w, b12 := true } r p with
    | .ok r => "M 1:" ++ showState r
    | .rej r => "M 0:" ++ showState r
    | .ub => "M ub"
  | _ => "bad-op"

/-- `nonces <window> <op>…` (same letters as harness/replay.c; the peer's Sender ID is 01, the endpoint's own 02).
`q` is a request whose token no response uses. -/
def parseNOp (w : String) : Option NOp :=
  if w = "q" then some (.sendReq 1000 false false)
  else match w.toList with
    | k :: rest =>
      match (String.ofList rest).splitOn "." with
      | [t] =>
        match t.toNat? with
        | some t =>
          if k = 'r' then some (.sendRsp t false false)
          else if k = 'n' then some (.sendRsp t true false)
          else if k = 'i' then some (.sendRsp t false true)
          else none
        | none => none
      | [t, p] =>
        match t.toNat?, p.toNat? with
        | some t, some p =>
          if k = 'g' then some (.reqIn t ⟨true, p, .none⟩ false)
          else if k = 'o' then some (.reqIn t ⟨true, p, .none⟩ true)
          else if k = 'x' then some (.reqIn t ⟨false, p, .none⟩ false)
          else none
        | _, _ => none
      | _ => none
    | [] => none

def showNonce : Nonce → String
  | .own p => "02." ++ toString p
  | .ofReq p => "01." ++ toString p

def showNObs : NObs → String
  | .verdict v => showVerdict v
  | .sent piv n => (match piv with | some p => toString p | none => "-") ++ "/" ++ showNonce n
  | .chal (some p) => "chal:" ++ toString p ++ "/" ++ showNonce (.own p)
  | .chal none => "drop"
  | .err => "err"
  | .resumed v => "r" ++ toString v

def distinct (ns : List Nonce) : String := if ns.eraseDups.length = ns.length then "distinct" else "reused"

def noncesStep (args : List String) : String :=
  match args with
  | w :: ops =>
    match w.toNat?, parseAll parseNOp ops with
    | some w, some ops =>
      let obs := nrun { window := if w = 0 then 32 else w, b12 := false } Endp.fresh ops
      "M " ++ String.intercalate " " (obs.map showNObs) ++ " | S " ++ distinct (nonces obs)
    | _, _ => "bad-op"
  | _ => "bad-op"

/-- `endp <window> <b12> <ssn_freq> <start> <op>…`: the same endpoint over its whole life — tokens of its own requests
(`q/Q/D<t>`: GET / Observe registration / deregistration) share the token space of the requests it receives, requests
with the right / a wrong Echo value (`e/E/w<t>.<piv>`), the save callback (`s<v>` appended when it ran), crashes and
restarts from the stored value (`c<f>`). -/
def parseEOp (w : String) : Option NOp :=
  match w.toList with
  | k :: rest =>
    match (String.ofList rest).splitOn "." with
    | [t] =>
      match t.toNat? with
      | some t =>
        if k = 'c' then some (.crash t)
        else if t > 15 then none
        else if k = 'r' then some (.sendRsp t false false)
        else if k = 'n' then some (.sendRsp t true false)
        else if k = 'i' then some (.sendRsp t false true)
        else if k = 'q' then some (.sendReq t false false)
        else if k = 'Q' then some (.sendReq t true false)
        else if k = 'D' then some (.sendReq t true true)
        else none
      | none => none
    | [t, p] =>
      match t.toNat?, p.toNat? with
      | some t, some p =>
        if t > 15 then none
        else if k = 'g' then some (.reqIn t ⟨true, p, .none⟩ false)
        else if k = 'o' then some (.reqIn t ⟨true, p, .none⟩ true)
        else if k = 'e' then some (.reqIn t ⟨true, p, .good⟩ false)
        else if k = 'E' then some (.reqIn t ⟨true, p, .good⟩ true)
        else if k = 'w' then some (.reqIn t ⟨true, p, .bad⟩ false)
        else if k = 'x' then some (.reqIn t ⟨false, p, .none⟩ false)
        else none
      | _, _ => none
    | _ => none
  | [] => none

def endpLoop (cfg : Cfg) : Endp → List NOp → List String × List Nonce
  | _, [] => ([], [])
  | e, op :: ops =>
    let x := nstep cfg e op
    let sv := match op with
      | .crash _ => ""
      | _ => if x.1.sys.stored = e.sys.stored then "" else "s" ++ toString x.1.sys.stored
    let t := endpLoop cfg x.1 ops
    ((showNObs x.2 ++ sv) :: t.1, nemit x.2 ++ t.2)

def endpStep (args : List String) : String :=
  match args with
  | w :: b :: f :: st :: ops =>
    match w.toNat?, b.toNat?, f.toNat?, st.toNat?, parseAll parseEOp ops with
    | some w, some b, some f, some st, some ops =>
      let t := endpLoop { window := if w = 0 then 32 else w, b12 := b ≠ 0 } (Endp.start f st) ops
      "M " ++ String.intercalate " " t.1 ++ " | S " ++ distinct t.2
    | _, _, _, _, _ => "bad-op"
  | _ => "bad-op"

end Coap.Driver.Replay
