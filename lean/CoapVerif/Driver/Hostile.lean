import CoapVerif.Model.Gate
import CoapVerif.Driver.Codec
/- Line-protocol driver for C02 (H-pure part). -/
-- DRIVER-OPS: hparse => Coap.Driver.hparseStep
namespace Coap.Driver

def showAction (a : M.Action) : String :=
  match a with
  | .drop => "drop"
  | .rst mid => "rst m=" ++ toString mid
  | .bad => "bad"
  | .dispatch m => "dispatch " ++ showMsg m

/-- `hparse <proto> <loglevel> <hex>` — the log level does not influence the model -/
def hparseStep (args : List String) : String :=
  match args with
  | [p, _, h] =>
    match protoOf p, bytesOfHex h with
    | some p, some bs => "M " ++ showAction (M.gate p bs)
    | _, _ => "bad-op"
  | _ => "bad-op"

end Coap.Driver
