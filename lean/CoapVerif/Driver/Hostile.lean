import CoapVerif.Model.Gate
import CoapVerif.Driver.Codec
/- Line-protocol driver for C02 (H-pure part). -/
-- DRIVER-OPS: hparse => Coap.Driver.hparseStep
namespace Coap.Driver

def showAction (a : M.Action) : String :=
  match a with
  | .drop => "drop"
  | .rst mid => "rst m=" ++ toString mid
  | .bad => "bad"
  | .dispatch m => "dispatch " ++ showMsg m

/-- `hparse <proto> <loglevel> <hex>` — the log level does not influence the model -/
def hparseStep (args : List String) : String :=
  match args with
  | [p, _, h] =>
    match protoOf p, bytesOfHex h with
    | some p, some bs => "M " ++ showAction (M.gate p bs)
    | _, _ => "bad-op"
  | _ => "bad-op"

end Coap.Driver

namespace Coap.Driver
-- DRIVER-OPS: hseq => Coap.Driver.hseqStep

/-- what the gate model predicts for one hostile datagram, in the harness' token format;
`dispatch` = handed to the protocol layer (its reaction is the subject of C07/C10, not of C02) -/
def hseqTok (bs : Bytes) : String :=
  match M.gateDefault bs with
  | .drop => "h0:t0"
  | .rst mid => "h0:t1:R0:" ++ toString mid
  | .bad => "h0:t0"
  | .dispatch _ => "dispatch"

/-- `hseq <scenario> <loglevel> <src> <hex;hex;…>` -/
def hseqStep (args : List String) : String :=
  match args with
  | [_, _, _, ds] =>
    let toks := (ds.splitOn ";").map fun h =>
      -- `@k` (scenario qc2): the server's genuine datagram k, replayed: well-formed
      if h.startsWith "@" then "dispatch" else
      match bytesOfHex h with
      | some bs => hseqTok bs
      | none => "bad-op"
    "M " ++ String.intercalate " " toks ++ " canary=ok"
  | _ => "bad-op"

end Coap.Driver
