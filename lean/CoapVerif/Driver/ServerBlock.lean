import CoapVerif.Driver.Server
import CoapVerif.Model.ServerBlock
/- Line-protocol driver for C10's op `srvb` (see harness/server.c, stepb): a sequence of unicast datagrams at one
context with block mode 0 / USE_LIBCOAP / USE_LIBCOAP|SINGLE_BODY. -/
-- DRIVER-OPS: srvb => Coap.Driver.ServerBlock.stepb
namespace Coap.Driver.ServerBlock
open Coap Coap.Server Coap.Driver.Server

/-- the diagnostic payload of a 4.08 coap_handle_request_put_block generates is not modelled: `*` -/
def showReplyB (r : Reply) : String :=
  match r.src with
  | .lib => if r.code = 136 then
      kindChar r.type ++ ":" ++ toString r.code ++ ":" ++ toString r.mid ++ ":" ++ hexOrDash r.token ++ ":" ++ showOpts r.opts ++ ":*"
    else showReply r
  | .app => showReply r

def showBOut (x : MB.BOut × Nat) : String :=
  if ¬ x.1.o.inScope then "oos" else
  "tx=" ++ (if x.1.o.replies.isEmpty then "-" else String.intercalate "/" (x.1.o.replies.map showReplyB)) ++
  " h=" ++ (match x.1.o.call with
            | some c => showCall c ++ ":" ++ toString x.1.offset ++ ":" ++ toString x.1.total
            | none => "-") ++
  " bm=" ++ toString x.2

/-- none: a malformed word; some none: a datagram that does not parse -/
def parseStepsB : List String → Option (Option (List MB.BEv))
  | [] => some (some [])
  | peer :: verdict :: hex :: rest => do
    let peer ← peer.toNat?
    if peer > 15 then none else
    let v ← parseVerdict verdict
    let bs ← bytesOfHex hex
    let more ← parseStepsB rest
    match Coap.M.parse .udp bs, more with
    | .ok msg, some evs => pure (some (⟨peer, ⟨false, msg, v, .absent⟩⟩ :: evs))
    | _, _ => pure none
  | _ => none

def stepb (args : List String) : String :=
  match args with
  | mpr :: mts :: known :: unk :: prx :: res :: bm :: steps =>
    if steps.isEmpty ∨ steps.length > 48 then "bad-op" else
    match parseCfg mpr mts known unk prx res, bm.toNat?, parseStepsB steps with
    | some (cfg, tbl), some bm, some (some evs) =>
      if bm > 3 then "bad-op" else
      "M " ++ String.intercalate " ;; " ((MB.runB cfg (M.implTable tbl) (MB.BHist.fresh bm) evs).map showBOut)
    | some _, some _, some none => "M malformed"
    | _, _, _ => "bad-op"
  | _ => "bad-op"

end Coap.Driver.ServerBlock
