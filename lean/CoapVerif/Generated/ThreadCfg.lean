import CoapVerif.Model.Lock
/- GENERATED placeholder (T1) -/
namespace Coap.Generated
open Coap.Lock

def buildCfgs : List BuildCfg := [
  { name := "cmake", define := "ON", ifHolds := true, lockLinked := true, advertised := true, recursiveCheck := false }
]
def advertised : Bool := true
def lockingCompiledIn : Bool := true
def apiSites : List ApiSite := [ { file := "coap_net.c", name := "coap_send", locks := true, callsLkd := true, unlocks := true } ]
def callbackSites : List CbSite := [ { file := "coap_net.c", func := "x", callee := "y", wrapped := true } ]

end Coap.Generated
