/-
Shared helpers for models and the line-protocol driver.  Core Lean only.
-/
namespace Coap

abbrev Bytes := List UInt8

/-- Result of a faithful-model function: a value, a rejection (the C function
returns its error value), or `oob` — the transcribed algorithm would read or
write outside the buffer it was given (so an out-of-bounds access is an
observable value of the model, never a totalised default). -/
inductive R (α : Type) where
  | ok  : α → R α
  | rej : R α
  | oob : R α
  deriving Repr, DecidableEq

namespace R
@[inline] def bind {α β} (x : R α) (f : α → R β) : R β :=
  match x with
  | ok a => f a
  | rej => rej
  | oob => oob
instance : Monad R where
  pure := ok
  bind := bind
def toOption {α} : R α → Option α
  | ok a => some a
  | _ => none
def isOob {α} : R α → Bool
  | oob => true
  | _ => false
@[simp] theorem bind_ok {α β} (a : α) (f : α → R β) : (R.ok a >>= f) = f a := rfl
@[simp] theorem bind_rej {α β} (f : α → R β) : ((R.rej : R α) >>= f) = R.rej := rfl
@[simp] theorem bind_oob {α β} (f : α → R β) : ((R.oob : R α) >>= f) = R.oob := rfl
@[simp] theorem pure_eq {α} (a : α) : (pure a : R α) = R.ok a := rfl
end R

def hexDigit (n : Nat) : Char :=
  if n < 10 then Char.ofNat (48 + n) else Char.ofNat (87 + n)

def hexOfBytes (bs : Bytes) : String :=
  String.ofList (bs.flatMap fun b => [hexDigit (b.toNat / 16), hexDigit (b.toNat % 16)])

def hexVal (c : Char) : Option Nat :=
  if '0' ≤ c ∧ c ≤ '9' then some (c.toNat - 48)
  else if 'a' ≤ c ∧ c ≤ 'f' then some (c.toNat - 87)
  else if 'A' ≤ c ∧ c ≤ 'F' then some (c.toNat - 55)
  else none

def bytesOfHexChars : List Char → Option Bytes
  | [] => some []
  | [_] => none
  | a :: b :: r => do
    let x ← hexVal a
    let y ← hexVal b
    let t ← bytesOfHexChars r
    pure (UInt8.ofNat (x * 16 + y) :: t)

/-- `-` denotes the empty byte string in the line protocol. -/
def bytesOfHex (s : String) : Option Bytes :=
  if s = "-" then some [] else bytesOfHexChars s.toList

def hexOrDash (bs : Bytes) : String :=
  if bs.isEmpty then "-" else hexOfBytes bs

def words (line : String) : List String :=
  (line.trimAscii.toString.splitOn " ").filter (· ≠ "")

end Coap
