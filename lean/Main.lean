import CoapVerif.Driver.Codec
open Coap Coap.Driver

def step (line : String) : String :=
  match words line with
  | "parse" :: args => parseStep args
  | _ => "bad-op"

partial def loop (h : IO.FS.Stream) (out : IO.FS.Stream) : IO Unit := do
  let line ← h.getLine
  if line.isEmpty then return ()
  out.putStrLn (step line)
  loop h out

def main : IO Unit := do
  let out ← IO.getStdout
  loop (← IO.getStdin) out
  out.flush
