import CoapVerif.Driver.All
/- One line in, one line out: `<op> <args…>` is dispatched to the model step registered for `op`
   (see tools/gen_registry.py). -/
open Coap Coap.Driver

def step (line : String) : String :=
  match words line with
  | op :: args => dispatch op args
  | [] => "bad-op"

partial def loop (h : IO.FS.Stream) (out : IO.FS.Stream) : IO Unit := do
  let line ← h.getLine
  if line.isEmpty then return ()
  out.putStrLn (step line)
  loop h out

def main : IO Unit := do
  let out ← IO.getStdout
  loop (← IO.getStdin) out
  out.flush
