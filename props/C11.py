"""C11 — Observe: registered observers get fresh, ordered notifications until cancelled (DESIGN.md §4 C11)."""
import os, re
from vlib import common as C
from vlib.simlib import build_sim_harness
from props import c11_oracle as O

MANIFEST = {
    "text": "Lean theorems about M, the transcription of libcoap's observer handling (coap_add_observer, the notify loop with "
            "NSTART back-pressure and the NON/CON choice, every removal path, resource deletion, retransmission give-up, idle "
            "session reclaim), stated as GLOBAL invariants over ALL event sequences (induction over run; every step is "
            "decomposed resource-by-resource into micro transitions, Lemmas/ObserveRun.lean): reregistration_replaces (no two "
            "entries of a session with one token or one cache key); observe_strictly_increasing_run (of any two notifications of "
            "a run to one (session, token, resource) the later reports a strictly later state — between two notifications the "
            "counter HAS advanced — and its Observe value is greater in 24-bit serial arithmetic when < 2^23 changes lie "
            "between, across the wrap); every_sixth_con_run(_init) (every window of COAP_OBS_MAX_NON+1 consecutive notifications "
            "to an entry within one registration epoch contains a CON; extracted constant, D8); no_notification_while_absent + "
            "one run-level theorem per deregistration cause (Observe=1, failed CON = retransmission give-up, error response to "
            "the request / while notifying, session loss, resource deletion; Reset: _partial, open finding); ref_eq_holders "
            "(ref = observer entries + queued nodes in every reachable state) hence session_alive_while_observed / "
            "idle_reclaim_keeps_observed; latest_eventually_notified_run (no lost wake-up: a stale entry keeps observe_pending and "
            "the resource flag set in every reachable state; a non-stale entry has been sent the current state; explicit fairness "
            "hypothesis: not back-pressured when the walk reaches it => the I/O step writes the latest state); "
            "con_active_eq_queued (in every reachable state a session's con_active = its Confirmable notifications in the "
            "retransmission queue, so the NSTART back-pressure can only be caused by a Confirmable that is really outstanding, "
            "whatever other sessions did, equal token values included) hence latest_eventually_notified_when_acknowledged / "
            "fair_step_decreases_stale_when_acknowledged (fairness stated on the queue, not on the counter); "
            "reset_leaves_other_clients / give_up_leaves_other_clients / ack_leaves_other_clients (the receive path of a Reset "
            "or ACK of client c and coap_handle_failed_notify for c leave session object, queued notifications and observer "
            "entries of every other client exactly as they were); the observer's TOKEN (Model/ObserveToken.lean: binaryEqual = "
            "transcription of coap_binary_equal, length first, then memcmp; M's token is the injective encoding tokNat of the token "
            "bytes): binary_equal_exact, token_identity_exact, token_compare_is_binary_equal / token_compare_queue_is_binary_equal "
            "(M's lookups in coap_find_observer, coap_remove_failed_observers, coap_cancel_all_messages ARE coap_binary_equal on "
            "the bytes), prefix_token_is_other_observer (the empty token or a proper prefix of an entry's token does not name that "
            "entry), other_token_survives_delete / _cancel_request / _reset / _failed_notify (whatever ends the observation under "
            "token t leaves the same client's entries under every other token u untouched, all fields), registration_lists_token, "
            "registration_under_new_token_adds; the observation's "
            "identity = M's transcription of coap_cache_derive_key_w_ignore(..., {ETag, OSCORE}) over the request's option "
            "list (Model/ObserveKey.lean): observation_identity_ignores(_etag) (ETag, OSCORE, Observe and NoCacheKey options "
            "never change the key), observation_identity_exact (equal keys <=> equal cache-key options: numbers, lengths, "
            "values, order), reregistration_same_target_replaces (run level: never two entries of a session whose requests "
            "have the same cache-key options, whatever tokens/ETags), registration_of_other_target_keeps; FETCH registrations "
            "(RFC 8132): reqKey = method code, FETCH payload with its length, cache-key options (fix 3034572); "
            "request_identity_exact (equal keys <=> same method, same cache-key options and for FETCH the same payload), "
            "reregistration_replaces_requests (run level: two entries of a session never stem from the same request), "
            "registration_of_other_request_keeps, fetch_observations_with_different_payloads_are_distinct, "
            "get_and_fetch_observations_are_distinct. M is tied to the "
            "compiled code by exact trace equality on an H-sim harness (real server context, 1..3 resources, 1..4 real client "
            "contexts whose token values are per-client or shared between clients and 0..8 bytes long - the empty token, tokens "
            "that are proper prefixes of one another or differ in trailing zero bytes only -, GET and FETCH requests (four payloads) "
            "with and without ETag / Size1 options, virtual clock, scripted network): every datagram, every subscriber list, counter, flag, session "
            "ref/con_active/tx_mid and send-queue deadline after every event; the implementation's trace is in addition "
            "judged directly against the property by an oracle that never looks at M.",
    "note": "partial: (i) Reset — no_notification_after_reset_run_partial covers a Reset naming a queued CON or the entry's "
            "latest message id; a Reset of an earlier NON notification is ignored by the code (open finding "
            "rst_of_superseded_notification_ignored, decided witness). (ii) notification bodies needing block-wise transfer: "
            "the lg_xmit deferral branch of coap_notify_observers is NOT in M; that scenario is judged on the implementation's "
            "trace by the oracle only (corpus/C11/blockwise.txt, tag latest-not-notified-blockwise, see design/C11.md), block transfer "
            "itself is C09. (iii) the < 2^23 hypothesis of "
            "observe_strictly_increasing_run is on the ghost version counter (number of effective changes); "
            "observe_strictly_increasing_run_events states it on the events (fewer than 2^23 chg/del events in the run). (iv) "
            "'eventually' is proved as progress: every fair I/O step (fewer than NSTART CONs of the session in flight) tells the "
            "session's first stale entry the latest state and strictly decreases the number of stale entries "
            "(fair_step_decreases_stale), ACK / I/O events never add one (quiet_events_never_add_stale); the iteration over an "
            "infinite fair schedule is not formalised as a temporal-logic theorem. Retransmissions (tag rtx) of a CON written before a deregistration are not cancelled by "
            "coap_delete_observer and are not counted as new notifications. Trusted: Lean kernel (+ propext, Classical.choice, "
            "Quot.sound), T1 extractor, harness/observe.c + sim_core.h, generators, the oracle, the hand transcription M "
            "(checked on the cases run only); SHA-256 assumed injective on the byte strings fed to it (the framing of those "
            "strings is proved injective: observation_identity_exact, after fix f201070); resource ids pairwise distinct "
            "(IdsNodup).",
    "design_ref": "DESIGN.md §4 C11, design/C11.md",
}
LEAN_MODULES = ["CoapVerif.Props.C11"]
NAMESPACE = "Coap.C11"
REQUIRED_THEOREMS = ["reregistration_replaces", "observe_strictly_increasing", "every_sixth_con", "notification_per_observer",
                     "notification_per_observer_loop", "latest_eventually_notified", "no_notification_after_cancel",
                     "no_notification_after_error_response", "no_notification_after_session_loss",
                     "no_notification_after_resource_deletion", "notes_only_to_listed", "obsNext_matches_code",
                     "constants_in_range", "reclaim_keeps_referenced",
                     # global (run-level) statements
                     "observe_strictly_increasing_run", "every_sixth_con_run", "every_sixth_con_run_init", "nonCnt_in_range",
                     "ref_eq_holders", "ref_eq_holders_init", "session_alive_while_observed", "session_alive_while_queued",
                     "idle_reclaim_keeps_observed", "no_notification_while_absent", "no_notification_after_cancel_run",
                     "no_notification_after_reset_run_partial", "no_notification_after_failed_notify_run",
                     "no_notification_after_error_response_run", "no_notification_after_error_notification_run",
                     "no_notification_after_session_loss_run", "no_notification_after_resource_deletion_run",
                     "deregistration_invariants_init", "stale_entry_keeps_wakeup", "clean_entry_holds_latest",
                     "latest_eventually_notified_run", "fair_when_acknowledged", "fair_when_non", "wake_holds_initially",
                     "fair_when_first_stale", "latest_eventually_notified_first_stale", "observe_strictly_increasing_run_init",
                     "no_notification_after_session_loss_run_any", "reachable_invariants_init",
                     "observe_strictly_increasing_run_events", "staleOf_zero_iff", "quiet_events_never_add_stale",
                     "fair_step_decreases_stale",
                     # the observation's identity (cache key) and the NSTART bookkeeping
                     "not_part_of_identity", "observation_identity_ignores", "observation_identity_ignores_etag",
                     "observation_identity_exact", "reregistration_same_target_replaces", "registration_of_other_target_keeps",
                     "digestInput_aliased_before_fix", "con_active_eq_queued", "con_active_eq_queued_init",
                     "cancel_leaves_other_sessions", "latest_eventually_notified_when_acknowledged",
                     "fair_step_decreases_stale_when_acknowledged", "reset_leaves_other_clients",
                     "give_up_leaves_other_clients", "ack_leaves_other_clients",
                     # FETCH observations: identity = method + cache-key options + payload (round R11c)
                     "request_identity_exact", "request_identity_ignores", "payload_only_part_of_fetch_identity",
                     "reregistration_replaces_requests", "registration_of_other_request_keeps",
                     "fetch_observations_with_different_payloads_are_distinct", "fetch_registration_with_other_payload_keeps",
                     "get_and_fetch_observations_are_distinct", "fetch_payload_aliased_before_fix",
                     # the token is the whole byte string (length included)
                     "binary_equal_exact", "token_identity_exact", "token_compare_is_binary_equal",
                     "token_compare_queue_is_binary_equal", "prefix_token_is_other_observer", "other_token_survives_delete",
                     "other_token_survives_cancel_request", "other_token_survives_reset", "other_token_survives_failed_notify",
                     "registration_lists_token", "registration_under_new_token_adds"]
RULE = ("event histories (8..90 events + optional fair tail) over 1..3 observable resources (default / NOTIFY_CON / NOTIFY_NON / "
        "NOTIFY_NON_ALWAYS, Observe counter started at 0, mid-range, and just below 2^23 / 2^24 so that it wraps) and 1..4 real "
        "clients: register / re-register (same token, other token same query, other query; query variants none, a=1, b=2, a&b and "
        "one option with the bytes 61 0f 00 62; 30 % of the requests carry options outside the observation's identity: one or two "
        "ETags, Size1) / Observe=1 cancel / plain GET with CON and NON requests; token values drawn per history from a pool that is "
        "per-client, shared between clients (equal bytes whichever client sends them), mixed, or made of tokens of DIFFERENT LENGTHS "
        "(0..8 bytes: prefixes of one 8-byte string, the empty token included; four such strings, one all zero bytes, two extending "
        "the classic 2-byte tokens) - about 30 % of the general histories; about 8 % are token-length histories (each client holds "
        "2..4 observations at once on different resources / queries under tokens that are prefixes of one another, then Observe=1 "
        "with the token and target of one of them, Observe=1 / plain GET with a shorter or longer unused token for an unobserved "
        "target, refresh, new observation under a shorter / longer token, re-registration of a target under another token, ACK, "
        "Reset, refused refresh, changes, fair tail); bursts of changes between I/O steps, I/O steps, time advances across every retransmission deadline and "
        "the idle session timeout, ACK or RST of the k-th most recent notification (never = loss, later = delay, again = "
        "duplicate), handler starts answering 4.04, server-side session loss, resource deletion; about 12 % of the histories use a "
        "resource whose representation needs block-wise transfer (body of 2.5 blocks at SZX none/0/1/2/4/6, default or NOTIFY_CON "
        "flags): register, change, I/O step (first block of the notification), the client fetches 0..all further blocks with GET "
        "Block2 num=k and no Observe option, further changes within 2 s of the last block request while blocks are outstanding "
        "(libcoap's lg_xmit deferral branch), background events, then a block-wise fair tail (fetch the rest or go silent, ACK "
        "every CON, 5 x 2001 ms with the I/O loop, io io io); these lines are judged by the oracle only; about 10 % are interference histories (2..4 clients observing "
        "under the same token value and message ids, mostly NOTIFY_CON, Confirmables outstanding to several at once, then per client "
        "in random order ACK / Reset / silence until give-up / Observe=1 / re-registration with other token and ETags / session "
        "loss, further changes, fair tail); non-trivial = a history "
        "in which the server sent at least one notification")
TRUSTED_BASE = ["Lean 4.33 kernel; axioms allowed: propext, Classical.choice, Quot.sound (audited per theorem each run)",
                "T1 extractor extract/obsconst.c (constants as compiled, the counter's successor function by evaluation)",
                "harness/observe.c on harness/sim_core.h (virtual clock, scripted network), generators, string comparison",
                "props/c11_oracle.py: the property judged on the implementation's trace",
                "M (CoapVerif/Model/Observe.lean) is a hand transcription; checked against the compiled code only on the cases run",
                "Driver/Observe.lean reqOpts: the option list of each scripted request, written to mirror send_request() of harness/observe.c "
                "(a mismatch shows as a tie break on the lines with ETag / Size1 / query variants)",
                "Driver/Observe.lean tokenBytes / harness/observe.c tok_bytes / props/c11_oracle.py tok_of: three copies of the table token "
                "index -> token bytes (a mismatch shows as a tie break / foreign-token on the first line that uses the index)",
                "Driver/Observe.lean answers block-wise lines with a fixed marker instead of a replay (recognised from the input line)"]
ASSUMPTIONS = ["SHA-256 is injective on the byte strings libcoap feeds it for the observe cache key (M stands for the digest by an injective "
               "encoding of that byte string; that the byte string determines the cache-key options is a theorem); GET only (the "
               "FETCH body branch of the key derivation is not modelled)",
               "allocation failures and send errors inside the notify loop are not modelled (C18)",
               "block-wise notification bodies: lg_xmit and the deferral of a notification behind a block-wise transfer in progress "
               "are not in M; such histories are judged on the implementation's trace by the oracle only, block transfer itself "
               "(block contents, ETag, sizes) is C09; UDP only, one endpoint, NSTART = 1 as extracted",
               "fairness for block-wise histories: the server may hold a notification back while anything with a Block2 option went "
               "to the same client within the last 2000 ms (libcoap's window, constant BLOCK_WAIT_MS in the oracle, not "
               "T1-extracted); afterwards, with no CON outstanding and the I/O loop run, the first block of the latest state must "
               "have been sent",
               "a token used by a client on two resources at once, or re-used with another query, makes 'the observation' ambiguous: "
               "the oracle then follows the server's table for that token (the tie M = I still covers it)",
               "compiled Lean definitions agree with the kernel's reading of them",
               "global theorems: the resources of a state carry pairwise distinct ids (IdsNodup; they are the keys of the context's "
               "resource table, the harness numbers them 0..n-1) — modRes/findRes address a resource by id"]
SPEC_DECISIONS = ["D8 every_sixth_con is stated for resources without COAP_RESOURCE_FLAGS_NOTIFY_NON_ALWAYS",
                  "D13 a (re-)registration response carries the counter's current value: it may equal the neighbouring notification's "
                  "number iff no change was signalled in between; strictness is required among change notifications",
                  "D14 a Reset counts for the current registration of a token if it names a notification sent under it, or any "
                  "Confirmable datagram with that token the server is still retransmitting"]


def extract(ctx):
    from vlib.tables import run_extractor, render_obsconst
    d = run_extractor("obsconst", C.build_libcoap())
    C.write_if_changed(os.path.join(C.LEAN, "CoapVerif", "Generated", "ObsConst.lean"), render_obsconst(d))
    ctx.obsconst = d
    return ["Generated.obsMaxNon=%d obsMaxFail=%d nstart=%d maxRetransmit=%d ackTimeoutTicks=%d, %d successor samples" % (
        d["obsMaxNon"], d["obsMaxFail"], d["nstart"], d["maxRetransmit"], d["ackTimeoutTicks"], len(d["obsNext"]))]


def harness(ctx):
    return build_sim_harness("observe")


STARTS = [0, 0, 1, 7, 100, 0xFFFFFF, 0xFFFFFE, 0xFFFFFD, 0xFFFFFA, 0x7FFFFE, 0x7FFFFF, 0x800000, 65535, 0x1000003]
ADV = [0, 1, 100, 500, 1999, 2000, 2001, 4000, 6000, 8000, 14000, 16000, 30000, 32000, 62000, 5000, 20000]


def gen_history(rng, nev=None):
    st = rng.choice([5, 20, 30, 30, 300])
    nres = rng.choice([1, 1, 2, 2, 3])
    ncli = rng.choice([1, 2, 2, 3, 4])
    modes = [rng.choice("dddddccan") for _ in range(nres)]
    rs = ",".join("%s%d" % (m, rng.choice(STARTS)) for m in modes)
    nev = nev or rng.choice([8, 15, 25, 40, 60, 90])
    mids = [rng.randrange(0, 65536) for _ in range(ncli)]
    style = rng.random()
    toks = rng.choice(TOKEN_POOLS)
    evs = []
    # most histories start with a few registrations so that something happens
    for _ in range(rng.choice([0, 1, 2, 3, 4])):
        evs.append(gen_req(rng, "reg", ncli, nres, mids, toks))
    while len(evs) < nev:
        x = rng.random()
        if x < 0.22:
            r = rng.randrange(nres)
            for _ in range(rng.choice([1, 1, 1, 2, 3, 5])):      # bursts of changes between I/O steps
                evs.append("chg:%d" % r)
        elif x < 0.38:
            evs.append("io")
        elif x < 0.50:
            evs.append("adv:%d" % rng.choice(ADV))
        elif x < 0.64:
            evs.append("ack:%d:%d" % (rng.randrange(ncli), note_index(rng)))
        elif x < 0.72:
            evs.append("rst:%d:%d" % (rng.randrange(ncli), note_index(rng)))
        elif x < 0.84:
            evs.append(gen_req(rng, "reg", ncli, nres, mids, toks))
        elif x < 0.90:
            evs.append(gen_req(rng, "can", ncli, nres, mids, toks))
        elif x < 0.92:
            evs.append(gen_req(rng, "get", ncli, nres, mids, toks))
        elif x < 0.945:
            evs.append("err:%d:%d" % (rng.randrange(nres), rng.choice([0, 1, 1, 2, 3])))
        elif x < 0.97:
            evs.append("lost:%d" % rng.randrange(ncli))
        elif x < 0.985 or style < 0.5:
            evs.append("adv:%d" % rng.choice([31000, 62000, 124000]))
        else:
            evs.append("del:%d" % rng.randrange(nres))
    evs = evs[:nev + 4]
    if rng.random() < 0.5:
        # fair tail: every outstanding Confirmable notification is acknowledged, then the I/O loop runs
        for _ in range(2):
            for c in range(ncli):
                for k in range(8):
                    evs.append("ack:%d:%d" % (c, 1000 + k))
        evs += ["io", "io", "io"]
    return "obs st=%d R=%s C=%d %s" % (st, rs, ncli, " ".join(evs))


def note_index(rng):
    x = rng.random()
    if x < 0.6:
        return 1000
    if x < 0.85:
        return 1000 + rng.choice([1, 1, 2, 3, 5])
    return rng.randrange(0, 12)


# token indices a history draws from: < 128 = a value only that client uses, >= 128 = the SAME value for every client (tokens
# are unique per client endpoint only, so two clients may well pick equal ones: an observer is (client, token))
TOKEN_POOLS = [[1, 1, 1, 2, 3]] * 5 + [[128, 128, 128, 129, 1]] * 3 + [[1, 2, 128, 129, 130], [128], [255, 127, 128, 0]]
# token indices >= 256: tokens of 0..8 bytes, t = 256 + 9*f + len = the first len bytes of family f (harness/observe.c tok_bytes):
# the empty token, tokens that are proper prefixes of one another, tokens that differ in trailing zero bytes only, prefixes and
# extensions of the classic 2-byte tokens a001 (f=2) and 9f80 (f=3).  A token is the whole byte string, length included.
TOKEN_POOLS += [[256, 257, 258, 260, 264], [265, 266, 267, 268, 273], [1, 274, 275, 276, 277], [128, 284, 285, 286, 287],
                [1, 2, 257, 258, 128]]


def tlen_tok(f, n):
    return 256 + 9 * f + n
QUERIES = [0, 0, 0, 0, 1, 1, 2, 2, 3, 4]      # 3 = ?a&b (two options), 4 = one option with the bytes a 0f 00 b: distinct targets
EXTRAS = [0] * 7 + [1, 1, 2, 3, 4, 5]         # options that are not part of the observation's identity: ETag(s), Size1 (NoCacheKey)


# 9th field of reg/can/get (round R11c): 0 / absent = GET, 1..4 = FETCH (RFC 8132) with Content-Format 42 and payload variant
# 1 empty, 2 "A", 3 "AB", 4 = the bytes a further Uri-Query option "b" feeds into the cache-key digest.  The observation's identity
# is (method, cache-key options, FETCH payload): query variant 5 (`?a`) + payload 4 and query variant 3 (`?a&b`) + empty payload
# are different observations, and so are a GET and a FETCH with an empty payload.
FETCHES = [0] * 17 + [1, 2, 3]


def gen_req(rng, op, ncli, nres, mids, toks=(1, 1, 1, 2, 3)):
    c = rng.randrange(ncli)
    if rng.random() < 0.9:
        mids[c] = (mids[c] + 1) % 65536
    x = rng.choice(EXTRAS)
    pv = rng.choice(FETCHES)
    return "%s:%d:%d:%d:%d:%s:%d%s" % (op, c, rng.randrange(nres), rng.choice(toks), rng.choice(QUERIES),
                                       rng.choice("CCN"), mids[c], ":%d:%d" % (x, pv) if pv else ":%d" % x if x else "")


INTERFERENCE_SHARE = 0.10      # share of the histories built around several clients observing under EQUAL token values


def gen_interference_history(rng):
    """Two to four clients observe the same or different resources, most of them under the SAME token value (and the same
    message ids, as independent clients starting from equal counters would); Confirmable notifications are outstanding to
    several of them at once; then each client does something else with its notification — ACK, Reset, silence until the server
    gives up, Observe=1, re-registration under another token with other ETags, session loss — in random order, further
    changes, and the fair tail.  Whatever ends one client's observation must leave the others' alone."""
    st = rng.choice([30, 300])
    nres = rng.choice([1, 1, 2, 3])
    ncli = rng.choice([2, 2, 3, 4])
    modes = [rng.choice("cccdda") for _ in range(nres)]
    rs = ",".join("%s%d" % (m, rng.choice(STARTS)) for m in modes)
    shared = rng.choice([128, 128, 129, 200, 255])
    mid0 = rng.randrange(0, 65536)
    mids = [mid0 if rng.random() < 0.7 else rng.randrange(0, 65536) for _ in range(ncli)]
    evs = []
    obs = []

    def mid(c):
        mids[c] = (mids[c] + 1) % 65536
        return mids[c]

    for c in range(ncli):
        t = shared if rng.random() < 0.85 else rng.choice([1, 2, shared + 1 if shared < 255 else 128])
        r = rng.randrange(nres) if rng.random() < 0.5 else 0
        q = rng.choice([0, 0, 0, 1])
        x = rng.choice(EXTRAS)
        evs.append("reg:%d:%d:%d:%d:%s:%d%s" % (c, r, t, q, rng.choice("CCN"), mid(c), ":%d" % x if x else ""))
        obs.append((c, r, t, q))
    for _ in range(rng.choice([1, 2, 2, 3, 4])):
        for r in set(o[1] for o in obs) if rng.random() < 0.7 else [rng.choice(obs)[1]]:
            evs += ["chg:%d" % r] * rng.choice([1, 1, 2])
        # a default resource sends Confirmable only every (COAP_OBS_MAX_NON+1)-th time: sometimes run up to it
        evs.append("io")
        if rng.random() < 0.3:
            for _ in range(rng.choice([3, 4, 5])):
                evs += ["chg:%d" % rng.choice(obs)[1], "io"]
        order = list(range(ncli))
        rng.shuffle(order)
        for c in order:
            x = rng.random()
            _, r, t, q = obs[c]
            if x < 0.35:
                evs.append("ack:%d:%d" % (c, 1000))
            elif x < 0.6:
                evs.append("rst:%d:%d" % (c, rng.choice([1000, 1000, 1000, 1001])))
            elif x < 0.68:
                evs.append("can:%d:%d:%d:%d:%s:%d" % (c, r, t, q, rng.choice("CN"), mid(c)))
            elif x < 0.76:
                t2 = rng.choice([shared, 1, 2, 129])
                evs.append("reg:%d:%d:%d:%d:%s:%d:%d" % (c, r, t2, q, rng.choice("CN"), mid(c), rng.choice([0, 1, 2, 3, 5])))
                obs[c] = (c, r, t2, q)
            elif x < 0.8:
                evs.append("lost:%d" % c)
            # else: silence (the datagram or its ACK is lost)
        x = rng.random()
        if x < 0.25:
            evs += ["adv:2000", "adv:4000", "adv:8000", "adv:16000", "adv:32000", "adv:1"][:rng.choice([1, 2, 6, 6])]   # retransmissions … give-up
        elif x < 0.5:
            evs.append("adv:%d" % rng.choice(ADV))
    for _ in range(rng.choice([0, 1, 2])):
        evs += ["chg:%d" % rng.choice(obs)[1], "io"]
    if rng.random() < 0.8:
        for _ in range(2):
            for c in range(ncli):
                for k in range(8):
                    evs.append("ack:%d:%d" % (c, 1000 + k))
        evs += ["io", "io", "io"]
    return "obs st=%d R=%s C=%d %s" % (st, rs, ncli, " ".join(evs))


TOKEN_LENGTH_SHARE = 0.08      # share of the histories built around tokens of DIFFERENT LENGTHS of one client (prefixes, the empty token)


def gen_token_length_history(rng):
    """One to three clients, each with several observations at once (different resources / query variants) whose tokens are
    prefixes of ONE 8-byte string — lengths 0..8, the empty token included, neighbours in length preferred — plus now and then a
    classic 2-byte token.  Then, round by round: changes, I/O, and one of: Observe=1 with the token AND target of one observation
    (only that one ends); Observe=1 with a shorter / longer token of the family for a target nobody observes (nothing ends);
    refresh under the same token; a NEW observation under a still unused shorter / longer token (must be added); re-registration
    of a target under another token of the family (replaces that one only); ACK / Reset of a recent notification; silence until the server gives up on a
    Confirmable notification; an error response to a request with one of the tokens.  Whatever names one token must leave the observations under every other token
    of the client alone: a token is the whole byte string, its length included.  The generator keeps every token on at most one
    target at a time so that the oracle's registry stays unambiguous."""
    st = rng.choice([30, 30, 300])
    nres = rng.choice([1, 1, 2, 3])
    ncli = rng.choice([1, 1, 2, 3])
    modes = [rng.choice("dddnncca") for _ in range(nres)]
    rs = ",".join("%s%d" % (m, rng.choice(STARTS)) for m in modes)
    fam = rng.randrange(4)
    n0 = rng.choice([0, 0, 0, 1, 1, 2, 3, 5])
    lens = sorted(set([n0, n0 + 1] + [rng.randrange(0, 9) for _ in range(rng.choice([0, 1, 2, 3]))]))
    pool = [tlen_tok(fam, n) for n in lens]
    if rng.random() < 0.3:
        pool.append(rng.choice([1, 2, 128]))
    mids = [rng.randrange(0, 65536) for _ in range(ncli)]
    targets = [(r, q) for r in range(nres) for q in (0, 1, 2, 3)]
    held = {}          # (c, token bytes) -> (r, q, t): what the scripted part believes is registered
    evs = []

    def mid(c):
        mids[c] = (mids[c] + 1) % 65536
        return mids[c]

    def req(op, c, r, t, q, x=0):
        evs.append("%s:%d:%d:%d:%d:%s:%d%s" % (op, c, r, t, q, rng.choice("CCN"), mid(c), ":%d" % x if x else ""))

    def free_tokens(c):
        return [t for t in pool if (c, O.tok_of(c, t)) not in held]

    def free_targets(c):
        taken = set((v[0], v[1]) for k, v in held.items() if k[0] == c)
        return [x for x in targets if x not in taken]

    def register_new(c):
        ft, fx = free_tokens(c), free_targets(c)
        if not ft or not fx:
            return False
        t = rng.choice(ft)
        r, q = rng.choice(fx)
        req("reg", c, r, t, q, rng.choice(EXTRAS))
        held[(c, O.tok_of(c, t))] = (r, q, t)
        return True

    for c in range(ncli):
        for _ in range(rng.choice([2, 2, 3, 4])):
            register_new(c)
    for _ in range(rng.choice([2, 3, 4, 6])):
        for r in range(nres):
            if rng.random() < 0.7:
                evs += ["chg:%d" % r] * rng.choice([1, 1, 2])
        evs.append(rng.choice(["io", "io", "io", "adv:100", "adv:2000"]))
        if rng.random() < 0.15:
            # nobody answers: a Confirmable notification under ONE of the tokens is retransmitted until the server gives up
            # (coap_handle_failed_notify names that token only); `held` keeps its entries (see the Reset case below)
            evs += ["adv:2000", "adv:4000", "adv:8000", "adv:16000", "adv:32000", "adv:1"][:rng.choice([2, 6, 6, 6])]
        for _ in range(rng.choice([1, 1, 2, 3])):
            c = rng.randrange(ncli)
            mine = [(k, v) for k, v in held.items() if k[0] == c]
            x = rng.random()
            if x < 0.22 and mine:
                k, (r, q, t) = rng.choice(mine)            # proper cancellation of ONE observation
                req("can", c, r, t, q)
                del held[k]
            elif x < 0.40:
                ft, fx = free_tokens(c), free_targets(c)    # Observe=1 that names nothing: another token, an unobserved target
                if ft and fx:
                    r, q = rng.choice(fx)
                    req("can", c, r, rng.choice(ft), q)
            elif x < 0.48 and mine:
                k, (r, q, t) = rng.choice(mine)            # refresh
                req("reg", c, r, t, q, rng.choice(EXTRAS))
            elif x < 0.62:
                register_new(c)
            elif x < 0.70 and mine:
                ft = free_tokens(c)                         # the same target under another token: replaces that one only
                if ft:
                    k, (r, q, t) = rng.choice(mine)
                    t2 = rng.choice(ft)
                    req("reg", c, r, t2, q, rng.choice(EXTRAS))
                    del held[k]
                    held[(c, O.tok_of(c, t2))] = (r, q, t2)
            elif x < 0.80:
                evs.append("ack:%d:%d" % (c, rng.choice([1000, 1000, 1001, 1002])))
            elif x < 0.90:
                evs.append("rst:%d:%d" % (c, rng.choice([1000, 1000, 1001, 1002, 1003])))
                evs.append("io")
                # which observation the Reset ends depends on the trace: `held` keeps its entry, so that token and target are
                # simply not used again (an over-approximation of what is registered keeps the registry unambiguous)
            elif x < 0.95 and mine:
                k, (r, q, t) = rng.choice(mine)            # the handler refuses a refresh: that observation ends
                evs.append("err:%d:%d" % (r, rng.choice([1, 1, 2, 3])))
                req(rng.choice(["reg", "get"]), c, r, t, q)
                evs.append("err:%d:0" % r)
            else:
                ft = free_tokens(c)
                if ft:
                    r, q = rng.choice(targets)
                    req("get", c, r, rng.choice(ft), q)
    for r in range(nres):
        evs += ["chg:%d" % r, "io"]
    if rng.random() < 0.8:
        for _ in range(3):
            for c in range(ncli):
                for k in range(8):
                    evs.append("ack:%d:%d" % (c, 1000 + k))
        evs += ["io", "io", "io"]
    return "obs st=%d R=%s C=%d %s" % (st, rs, ncli, " ".join(evs))


FETCH_SHARE = 0.08      # share of the histories built around FETCH observations (method and payload are part of the identity)


def gen_fetch_history(rng):
    """One or two clients, each with several observations at once on FEW resources, GET and FETCH mixed: the targets are (resource,
    query variant, payload variant) with the pairs that only method / payload tell apart over-represented (GET ?a&b, FETCH ?a&b
    with the empty payload, FETCH ?a with the payload that spells the digest input of Uri-Query b; FETCH "A" / "AB" / empty).  Then,
    round by round: changes, I/O and one of: refresh under the same token; the same target (same method, options, payload) under
    another token = replaces that one only; a NEW observation for a target that differs in the payload / the method only = must
    be added and must remove nothing; Observe=1 by the method, options and payload of one observation with its token or with an
    unused token (cancellation by cache key) = only that one ends; Observe=1 for a target nobody observes (other payload / other
    method) under an unused token = nothing ends; ACK / Reset; a refused refresh.  Every token stays on one target at a time."""
    st = rng.choice([30, 30, 300])
    nres = rng.choice([1, 1, 2])
    ncli = rng.choice([1, 1, 2])
    modes = [rng.choice("dddnncca") for _ in range(nres)]
    rs = ",".join("%s%d" % (m, rng.choice(STARTS)) for m in modes)
    pool = rng.choice([[1, 2, 3, 4, 5, 6, 7, 8], [128, 129, 130, 131, 1, 2, 3], [256, 257, 258, 259, 260, 261, 262]])
    mids = [rng.randrange(0, 65536) for _ in range(ncli)]
    fam = rng.choice([[(3, 0), (3, 1), (5, 4), (5, 1)], [(0, 0), (0, 1), (0, 2), (0, 3)], [(1, 2), (1, 3), (1, 0), (2, 2)],
                      [(5, 4), (3, 1), (0, 4), (0, 1)]])
    targets = [(r, q, pv) for r in range(nres) for (q, pv) in fam]
    held = {}          # (c, token bytes) -> (r, q, pv, t)
    evs = []

    def mid(c):
        mids[c] = (mids[c] + 1) % 65536
        return mids[c]

    def req(op, c, r, t, q, pv, x=0):
        evs.append("%s:%d:%d:%d:%d:%s:%d%s" % (op, c, r, t, q, rng.choice("CCN"), mid(c), ":%d:%d" % (x, pv) if pv else ":%d" % x if x else ""))

    def free_tokens(c):
        return [t for t in pool if (c, O.tok_of(c, t)) not in held]

    def free_targets(c):
        taken = set(v[:3] for k, v in held.items() if k[0] == c)
        return [x for x in targets if x not in taken]

    def register_new(c):
        ft, fx = free_tokens(c), free_targets(c)
        if not ft or not fx:
            return False
        t = rng.choice(ft)
        r, q, pv = rng.choice(fx)
        req("reg", c, r, t, q, pv, rng.choice(EXTRAS))
        held[(c, O.tok_of(c, t))] = (r, q, pv, t)
        return True

    for c in range(ncli):
        for _ in range(rng.choice([2, 3, 3, 4])):
            register_new(c)
    for _ in range(rng.choice([2, 3, 4, 6])):
        for r in range(nres):
            if rng.random() < 0.7:
                evs += ["chg:%d" % r] * rng.choice([1, 1, 2])
        evs.append(rng.choice(["io", "io", "io", "adv:100", "adv:2000"]))
        for _ in range(rng.choice([1, 1, 2, 3])):
            c = rng.randrange(ncli)
            mine = [(k, v) for k, v in held.items() if k[0] == c]
            x = rng.random()
            if x < 0.15 and mine:
                k, (r, q, pv, t) = rng.choice(mine)        # proper cancellation of ONE observation
                req("can", c, r, t, q, pv)
                del held[k]
            elif x < 0.27 and mine:
                ft = free_tokens(c)                         # cancellation by cache key: method, options and payload, unused token
                if ft:
                    k, (r, q, pv, t) = rng.choice(mine)
                    req("can", c, r, rng.choice(ft), q, pv, rng.choice(EXTRAS))
                    del held[k]
            elif x < 0.40:
                ft, fx = free_tokens(c), free_targets(c)    # Observe=1 that names nothing: unused token, an unobserved target
                if ft and fx:
                    r, q, pv = rng.choice(fx)
                    req("can", c, r, rng.choice(ft), q, pv)
            elif x < 0.48 and mine:
                k, (r, q, pv, t) = rng.choice(mine)        # refresh
                req("reg", c, r, t, q, pv, rng.choice(EXTRAS))
            elif x < 0.66:
                register_new(c)
            elif x < 0.78 and mine:
                ft = free_tokens(c)                         # the same target under another token: replaces that one only
                if ft:
                    k, (r, q, pv, t) = rng.choice(mine)
                    t2 = rng.choice(ft)
                    req("reg", c, r, t2, q, pv, rng.choice(EXTRAS))
                    del held[k]
                    held[(c, O.tok_of(c, t2))] = (r, q, pv, t2)
            elif x < 0.86:
                evs.append("ack:%d:%d" % (c, rng.choice([1000, 1000, 1001, 1002])))
            elif x < 0.92:
                evs.append("rst:%d:%d" % (c, rng.choice([1000, 1000, 1001, 1002, 1003])))
                evs.append("io")
            elif mine:
                k, (r, q, pv, t) = rng.choice(mine)        # the handler refuses a refresh: that observation ends
                evs.append("err:%d:%d" % (r, rng.choice([1, 1, 2, 3])))
                req(rng.choice(["reg", "get"]), c, r, t, q, pv)
                evs.append("err:%d:0" % r)
    for r in range(nres):
        evs += ["chg:%d" % r, "io"]
    if rng.random() < 0.8:
        for _ in range(3):
            for c in range(ncli):
                for k in range(8):
                    evs.append("ack:%d:%d" % (c, 1000 + k))
        evs += ["io", "io", "io"]
    return "obs st=%d R=%s C=%d %s" % (st, rs, ncli, " ".join(evs))


BLOCK_SHARE = 0.12      # share of the histories that use a block-wise resource (judged by the oracle only, not replayed through M)


def gen_block_req(rng, op, ncli, nres, mids):
    # block-wise lines keep the original request alphabet (blk:… events accept the query variants 0..2 only)
    c = rng.randrange(ncli)
    if rng.random() < 0.9:
        mids[c] = (mids[c] + 1) % 65536
    return "%s:%d:%d:%d:%d:%s:%d" % (op, c, rng.randrange(nres), rng.choice([1, 1, 1, 2, 3]), rng.choice([0, 0, 0, 1, 2]),
                                     rng.choice("CCN"), mids[c])


def gen_block_history(rng):
    """A history around a notification body larger than one block (harness/observe.c: resource kind `b`): register, change,
    I/O step (the first block of the notification goes out), the client fetches 0..all further blocks, another change within
    2 s of the last block request while blocks are outstanding (libcoap holds that notification back: the lg_xmit deferral
    branch of coap_notify_observers), random events, then the block-wise FAIR TAIL: the client fetches the rest or goes silent,
    every Confirmable is acknowledged, time passes in steps of more than 2 s with the I/O loop running, `io io io`."""
    st = rng.choice([20, 30, 300])
    nres = rng.choice([1, 1, 1, 2])
    ncli = rng.choice([1, 1, 2, 3])
    szx = [rng.choice([None, 0, 0, 0, 1, 2, 4, 6]) for _ in range(nres)]
    kinds = [rng.choice("bbbB")] + [rng.choice("bbBdc") for _ in range(nres - 1)]
    rng.shuffle(kinds)
    rs = ",".join("%s%d%s" % (m, rng.choice(STARTS), "/%d" % z if m in "bB" and z is not None else "") for m, z in zip(kinds, szx))
    bidx = [r for r in range(nres) if kinds[r] in "bB"]
    mids = [rng.randrange(0, 65536) for _ in range(ncli)]
    obs = []          # (client, resource, token index, query) registered by the scripted part
    evs = []

    def mid(c):
        mids[c] = (mids[c] + 1) % 65536
        return mids[c]

    def blk(c, r, t, q, num):
        return "blk:%d:%d:%d:%d:%s:%d:%d" % (c, r, t if rng.random() < 0.6 else rng.choice([7, 8, 9]), q, rng.choice("CCN"), mid(c), num)

    def small_gap():
        if rng.random() < 0.6:
            evs.append("adv:%d" % rng.choice([0, 1, 100, 500, 1000, 1500, 1900, 1999]))

    for c in range(ncli):
        for _ in range(rng.choice([1, 1, 1, 2])):
            r = rng.choice(bidx) if rng.random() < 0.85 else rng.randrange(nres)
            t, q = rng.choice([1, 2, 3]), rng.choice([0, 0, 1, 2])
            evs.append("reg:%d:%d:%d:%d:%s:%d" % (c, r, t, q, rng.choice("CCN"), mid(c)))
            obs.append((c, r, t, q))
    # the registration response is itself a body in progress: fetch its rest, wait it out, or leave it open
    x = rng.random()
    if x < 0.35:
        for (c, r, t, q) in obs:
            if r in bidx:
                evs += [blk(c, r, t, q, 1), blk(c, r, t, q, 2)]
    elif x < 0.7:
        evs.append("adv:%d" % rng.choice([2000, 2001, 2500, 5000]))
    for _ in range(rng.choice([1, 1, 2, 3])):
        r = rng.choice(bidx)
        evs += ["chg:%d" % r] * rng.choice([1, 1, 2])
        evs.append("io")                                     # first block of the notification (or held back)
        for c in range(ncli):
            if rng.random() < 0.7:
                evs.append("ack:%d:%d" % (c, 1000))
        for (c, r2, t, q) in obs:                             # the client fetches 0..all further blocks
            if r2 == r:
                for num in range(1, 1 + rng.choice([0, 0, 1, 1, 2, 2])):
                    small_gap()
                    evs.append(blk(c, r, t, q, num))
        small_gap()
        evs += ["chg:%d" % r] * rng.choice([1, 1, 1, 2, 3])   # changes while blocks are outstanding
        evs.append(rng.choice(["io", "io", "adv:100", "adv:1999", "adv:2000", "adv:2001"]))
    for _ in range(rng.choice([0, 0, 2, 5, 10])):             # background noise from the general alphabet
        x = rng.random()
        if x < 0.2:
            evs.append("chg:%d" % rng.randrange(nres))
        elif x < 0.35:
            evs.append("io")
        elif x < 0.5:
            evs.append("adv:%d" % rng.choice(ADV))
        elif x < 0.62:
            evs.append("ack:%d:%d" % (rng.randrange(ncli), note_index(rng)))
        elif x < 0.68:
            evs.append("rst:%d:%d" % (rng.randrange(ncli), note_index(rng)))
        elif x < 0.78:
            evs.append(gen_block_req(rng, rng.choice(["reg", "reg", "can", "get"]), ncli, nres, mids))
        elif x < 0.9 and obs:
            c, r, t, q = rng.choice(obs)
            if r in bidx:
                evs.append(blk(c, r, t, q, rng.choice([0, 1, 1, 2, 2, 3, 200])))
        elif x < 0.93:
            evs.append("err:%d:%d" % (rng.randrange(nres), rng.choice([0, 1, 2, 3])))
        elif x < 0.96:
            evs.append("lost:%d" % rng.randrange(ncli))
        else:
            evs.append("del:%d" % rng.randrange(nres))
    if rng.random() < 0.85:
        # block-wise fair tail
        if rng.random() < 0.5:
            for (c, r, t, q) in obs:                          # the client finishes what is in progress ...
                if r in bidx:
                    evs += [blk(c, r, t, q, 1), blk(c, r, t, q, 2)]
        for _ in range(5):                                    # ... or goes silent; either way: ACKs, > 2 s, I/O loop, repeated
            for c in range(ncli):                             # once per observation that may be queueing behind another one
                for k in range(3):
                    evs.append("ack:%d:%d" % (c, 1000 + k))
            evs.append("adv:2001")
        for c in range(ncli):
            for k in range(3):
                evs.append("ack:%d:%d" % (c, 1000 + k))
        evs += ["io", "io", "io"]
    return "obs st=%d R=%s C=%d %s" % (st, rs, ncli, " ".join(evs))


def gen_any(rng):
    x = rng.random()
    if x < BLOCK_SHARE:
        return gen_block_history(rng)
    if x < BLOCK_SHARE + INTERFERENCE_SHARE:
        return gen_interference_history(rng)
    if x < BLOCK_SHARE + INTERFERENCE_SHARE + TOKEN_LENGTH_SHARE:
        return gen_token_length_history(rng)
    if x < BLOCK_SHARE + INTERFERENCE_SHARE + TOKEN_LENGTH_SHARE + FETCH_SHARE:
        return gen_fetch_history(rng)
    return gen_history(rng)


def generate(ctx, escalate=False):
    n = 40000 if ctx.thorough() else 2000
    if escalate:
        n *= 3
    return [gen_any(ctx.rng) for _ in range(n)]


def strip_client(s):
    return s.split(" ||", 1)[0] if s else s


def consts_of(ctx):
    d = getattr(ctx, "obsconst", None)
    if d is None:
        try:
            from vlib.tables import run_extractor
            d = run_extractor("obsconst", C.build_libcoap())
        except Exception:
            d = {}
        ctx.obsconst = d
    return d


def abstract_error_code(line, trace):
    """M's `err` event only knows THAT the handler answers with an error (it prints 4.04 = 132): on a line whose handler is switched
    to 5.03 / 5.00 (err:r:2 / err:r:3) those two codes are mapped to 132 before the comparison with M.  The oracle above reads
    the implementation's own trace with the real codes."""
    if re.search(r"\berr:\d+:[23]\b", line):
        return re.sub(r":16[03]:", ":132:", trace)
    return trace


def judge(ctx, c):
    i, m = c["impl"], c["model"]
    if i is None:
        return ("tie", "missing output")
    if i.startswith("crash"):
        return ("spec", "[crash] the server process died: " + i[:300])
    if i == "bad-op":
        return None if m == "bad-op" else ("tie", "harness says bad-op, model says %s" % (m or "")[:100])
    try:
        viol = O.check(c["input"], i, consts_of(ctx))
    except Exception as e:      # an unparsable trace is a broken correspondence, not a verdict
        return ("tie", "oracle could not read the implementation's trace: %r" % (e,))
    real = [v for v in viol if v[0] not in O.KNOWN_TAGS]
    if real:
        return ("spec", "[%s] %s" % real[0])
    if O.is_blockwise(c["input"]):
        # a line with a block-wise resource (recognised from the INPUT) is not replayed through M: the driver must say so with
        # its fixed marker, and the implementation's trace is judged by the oracle alone (above)
        if m != O.NOT_MODELLED:
            return ("tie", "block-wise line: the driver must answer `%s`, it says `%s`" % (O.NOT_MODELLED, (m or "")[:100]))
        return ("spec", "[%s] %s" % viol[0]) if viol else None
    if m is None or abstract_error_code(c["input"], strip_client(i)) != m:
        return ("tie", first_diff(abstract_error_code(c["input"], strip_client(i)), m or ""))
    if viol:
        return ("spec", "[%s] %s" % viol[0])
    return None


def known(ctx, c):
    m = re.match(r"\[([a-z-]+)\]", c.get("why") or "")
    return O.KNOWN_TAGS.get(m.group(1)) if m else None


def first_diff(i, m):
    a, b = i.split(" | "), m.split(" | ")
    for k in range(max(len(a), len(b))):
        x = a[k] if k < len(a) else "<none>"
        y = b[k] if k < len(b) else "<none>"
        if x != y:
            return "event #%d: implementation `%s` but model M `%s`" % (k, x, y)
    return "?"


def nontrivial(c):
    return " n" in (c["impl"] or "")


def tag_of(v):
    m = re.match(r"\[([a-z-]+)\]", v[1]) if v else None
    return (v[0], m.group(1) if m else None) if v else None


def shrink(ctx, case):
    """greedy deletion of events (largest chunks first) while the same kind of verdict remains"""
    from vlib.runner import diff_side
    import props.C11 as me
    want = tag_of(judge(ctx, case))
    if not want:
        return case
    head, evs = case["input"].split()[:4], case["input"].split()[4:]
    best = case
    chunk = max(1, len(evs) // 2)
    rounds = 0
    while chunk >= 1 and rounds < 40:
        rounds += 1
        cands = []
        for i in range(0, len(evs), chunk):
            e2 = evs[:i] + evs[i + chunk:]
            if e2:
                cands.append(e2)
        cands = cands[:64]
        lines = [" ".join(head + e2) for e2 in cands]
        hit = None
        for e2, cc in zip(cands, diff_side(ctx, me, lines)):
            v = judge(ctx, cc)
            if tag_of(v) == want:
                cc["why"] = v[1]; hit = (e2, cc); break
        if hit:
            evs, best = hit
            chunk = min(chunk, max(1, len(evs) // 2))
        else:
            if chunk == 1:
                break
            chunk //= 2
    return best


def classify(c):
    i = c["impl"] or ""
    k = []
    if " n" in i: k.append("notified")
    if ":C:" in i: k.append("con")
    if " x" in i: k.append("rtx")
    if O.is_blockwise(c["input"]):
        k.append("blockwise")
        if O.held_back_behind_blocks(i): k.append("held-back")      # coverage only: the lg_xmit deferral branch was taken
    if ".1." in i: pass
    # coverage only (from the INPUT): requests with options outside the observation's identity; one token value used by >= 2 clients
    reqs = [w.split(":") for w in c["input"].split()[4:] if w[:4] in ("reg:", "can:", "get:")]
    if any(len(f) >= 8 and f[7] != "0" for f in reqs): k.append("extra-opts")
    if any(len(f) == 9 for f in reqs): k.append("fetch")
    by_tok = {}
    for f in reqs:
        if len(f) >= 4 and f[3].isdigit() and int(f[3]) >= 128:
            by_tok.setdefault(f[3], set()).add(f[1])
    if any(len(v) > 1 for v in by_tok.values()): k.append("shared-token")
    # one client used two tokens of which one is a proper prefix of the other (the empty token is a prefix of every token)
    per_cli = {}
    for f in reqs:
        if len(f) >= 4 and f[1].isdigit() and f[3].isdigit():
            per_cli.setdefault(f[1], set()).add(O.tok_of(int(f[1]), int(f[3])).replace("-", ""))
    if any(a != b and b.startswith(a) for v in per_cli.values() for a in v for b in v): k.append("prefix-tokens")
    return "+".join(k) or "quiet"


def search(ctx, tie_breaks, proof):
    """more histories around the disagreeing ones: same header, event lists truncated / extended with fair tails, plus fresh ones"""
    out = []
    for c in tie_breaks[:30]:
        w = c["input"].split()
        for cut in range(5, len(w) + 1, max(1, len(w) // 12)):
            out.append(" ".join(w[:cut] + ["io", "io", "io"]))
    out += [gen_any(ctx.rng) for _ in range(4000)]
    return out


# ---- T1Y: the numerals of this property's models are tied to the current tree.  extract/consts2*.c + a source scan
# rewrite lean/CoapVerif/Generated/Consts2.lean on every check; Props/C11Consts.lean proves `<model numeral / model
# function> = Generated.C2.<name>` (design/T1.md).  A changed macro / enum value / case label / literal breaks one of
# these named obligations.
LEAN_MODULES = list(LEAN_MODULES) + ["CoapVerif.Props.C11Consts"]
REQUIRED_THEOREMS = list(REQUIRED_THEOREMS) + [
    "obsConst_matches_code",
    "nextObserve_matches_code",
    "setObserve_matches_code",
    "newMid_matches_code",
    "failCnt_width_matches_code",
    "obsIgnore_matches_code",
    "isCacheKey_matches_code",
    "request_numerals_match_code",
    "waitOf_matches_code",
]
TRUSTED_BASE = list(TRUSTED_BASE) + ["T1 extractors extract/consts2.c, consts2_net.c, consts2_opt.c, consts2_res.c and the source scan vlib/tables.py scan_consts2 / scan_oscore_protect (Generated/Consts2.lean)"]
_t1x_prev_extract = globals().get("extract")


def extract(ctx):
    from vlib import tables
    return (_t1x_prev_extract(ctx) if _t1x_prev_extract else []) + tables.extract_consts2()
