"""C11 — Observe: registered observers get fresh, ordered notifications until cancelled (DESIGN.md §4 C11)."""
import os, re
from vlib import common as C
from vlib.simlib import build_sim_harness
from props import c11_oracle as O

LEAN_MODULES = ["CoapVerif.Props.C11"]
NAMESPACE = "Coap.C11"
REQUIRED_THEOREMS = []
RULE = "tbd"
TRUSTED_BASE = []
ASSUMPTIONS = []
SPEC_DECISIONS = []


def extract(ctx):
    from vlib.tables import run_extractor, render_obsconst
    d = run_extractor("obsconst", C.build_libcoap())
    C.write_if_changed(os.path.join(C.LEAN, "CoapVerif", "Generated", "ObsConst.lean"), render_obsconst(d))
    ctx.obsconst = d
    return ["Generated.obsMaxNon=%d obsMaxFail=%d nstart=%d maxRetransmit=%d ackTimeoutTicks=%d, %d successor samples" % (
        d["obsMaxNon"], d["obsMaxFail"], d["nstart"], d["maxRetransmit"], d["ackTimeoutTicks"], len(d["obsNext"]))]


def harness(ctx):
    return build_sim_harness("observe")


STARTS = [0, 0, 1, 7, 100, 0xFFFFFF, 0xFFFFFE, 0xFFFFFD, 0xFFFFFA, 0x7FFFFE, 0x7FFFFF, 0x800000, 65535, 0x1000003]
ADV = [0, 1, 100, 500, 1999, 2000, 2001, 4000, 6000, 8000, 14000, 16000, 30000, 32000, 62000, 5000, 20000]


def gen_history(rng, nev=None):
    st = rng.choice([5, 20, 30, 30, 300])
    nres = rng.choice([1, 1, 2, 2, 3])
    ncli = rng.choice([1, 2, 2, 3, 4])
    modes = [rng.choice("dddddccan") for _ in range(nres)]
    rs = ",".join("%s%d" % (m, rng.choice(STARTS)) for m in modes)
    nev = nev or rng.choice([8, 15, 25, 40, 60, 90])
    mids = [rng.randrange(0, 65536) for _ in range(ncli)]
    style = rng.random()
    evs = []
    # most histories start with a few registrations so that something happens
    for _ in range(rng.choice([0, 1, 2, 3, 4])):
        evs.append(gen_req(rng, "reg", ncli, nres, mids))
    while len(evs) < nev:
        x = rng.random()
        if x < 0.22:
            r = rng.randrange(nres)
            for _ in range(rng.choice([1, 1, 1, 2, 3, 5])):      # bursts of changes between I/O steps
                evs.append("chg:%d" % r)
        elif x < 0.38:
            evs.append("io")
        elif x < 0.50:
            evs.append("adv:%d" % rng.choice(ADV))
        elif x < 0.64:
            evs.append("ack:%d:%d" % (rng.randrange(ncli), note_index(rng)))
        elif x < 0.72:
            evs.append("rst:%d:%d" % (rng.randrange(ncli), note_index(rng)))
        elif x < 0.84:
            evs.append(gen_req(rng, "reg", ncli, nres, mids))
        elif x < 0.90:
            evs.append(gen_req(rng, "can", ncli, nres, mids))
        elif x < 0.92:
            evs.append(gen_req(rng, "get", ncli, nres, mids))
        elif x < 0.945:
            evs.append("err:%d:%d" % (rng.randrange(nres), rng.choice([0, 1, 1])))
        elif x < 0.97:
            evs.append("lost:%d" % rng.randrange(ncli))
        elif x < 0.985 or style < 0.5:
            evs.append("adv:%d" % rng.choice([31000, 62000, 124000]))
        else:
            evs.append("del:%d" % rng.randrange(nres))
    evs = evs[:nev + 4]
    if rng.random() < 0.5:
        # fair tail: every outstanding Confirmable notification is acknowledged, then the I/O loop runs
        for _ in range(2):
            for c in range(ncli):
                for k in range(8):
                    evs.append("ack:%d:%d" % (c, 1000 + k))
        evs += ["io", "io", "io"]
    return "obs st=%d R=%s C=%d %s" % (st, rs, ncli, " ".join(evs))


def note_index(rng):
    x = rng.random()
    if x < 0.6:
        return 1000
    if x < 0.85:
        return 1000 + rng.choice([1, 1, 2, 3, 5])
    return rng.randrange(0, 12)


def gen_req(rng, op, ncli, nres, mids):
    c = rng.randrange(ncli)
    if rng.random() < 0.9:
        mids[c] = (mids[c] + 1) % 65536
    return "%s:%d:%d:%d:%d:%s:%d" % (op, c, rng.randrange(nres), rng.choice([1, 1, 1, 2, 3]), rng.choice([0, 0, 0, 1, 2]),
                                     rng.choice("CCN"), mids[c])


def generate(ctx, escalate=False):
    n = 40000 if ctx.thorough() else 2000
    if escalate:
        n *= 3
    return [gen_history(ctx.rng) for _ in range(n)]


def strip_client(s):
    return s.split(" ||", 1)[0] if s else s


def consts_of(ctx):
    d = getattr(ctx, "obsconst", None)
    if d is None:
        try:
            from vlib.tables import run_extractor
            d = run_extractor("obsconst", C.build_libcoap())
        except Exception:
            d = {}
        ctx.obsconst = d
    return d


def judge(ctx, c):
    i, m = c["impl"], c["model"]
    if i is None:
        return ("tie", "missing output")
    if i.startswith("crash"):
        return ("spec", "[crash] the server process died: " + i[:300])
    if i == "bad-op":
        return None if m == "bad-op" else ("tie", "harness says bad-op, model says %s" % (m or "")[:100])
    try:
        viol = O.check(c["input"], i, consts_of(ctx))
    except Exception as e:      # an unparsable trace is a broken correspondence, not a verdict
        return ("tie", "oracle could not read the implementation's trace: %r" % (e,))
    real = [v for v in viol if v[0] not in O.KNOWN_TAGS]
    if real:
        return ("spec", "[%s] %s" % real[0])
    if m is None or strip_client(i) != m:
        return ("tie", first_diff(strip_client(i), m or ""))
    if viol:
        return ("spec", "[%s] %s" % viol[0])
    return None


def known(ctx, c):
    m = re.match(r"\[([a-z-]+)\]", c.get("why") or "")
    return O.KNOWN_TAGS.get(m.group(1)) if m else None


def first_diff(i, m):
    a, b = i.split(" | "), m.split(" | ")
    for k in range(max(len(a), len(b))):
        x = a[k] if k < len(a) else "<none>"
        y = b[k] if k < len(b) else "<none>"
        if x != y:
            return "event #%d: implementation `%s` but model M `%s`" % (k, x, y)
    return "?"


def nontrivial(c):
    return " n" in (c["impl"] or "")


def tag_of(v):
    m = re.match(r"\[([a-z-]+)\]", v[1]) if v else None
    return (v[0], m.group(1) if m else None) if v else None


def shrink(ctx, case):
    """greedy deletion of events (largest chunks first) while the same kind of verdict remains"""
    from vlib.runner import diff_side
    import props.C11 as me
    want = tag_of(judge(ctx, case))
    if not want:
        return case
    head, evs = case["input"].split()[:4], case["input"].split()[4:]
    best = case
    chunk = max(1, len(evs) // 2)
    rounds = 0
    while chunk >= 1 and rounds < 40:
        rounds += 1
        cands = []
        for i in range(0, len(evs), chunk):
            e2 = evs[:i] + evs[i + chunk:]
            if e2:
                cands.append(e2)
        cands = cands[:64]
        lines = [" ".join(head + e2) for e2 in cands]
        hit = None
        for e2, cc in zip(cands, diff_side(ctx, me, lines)):
            v = judge(ctx, cc)
            if tag_of(v) == want:
                cc["why"] = v[1]; hit = (e2, cc); break
        if hit:
            evs, best = hit
            chunk = min(chunk, max(1, len(evs) // 2))
        else:
            if chunk == 1:
                break
            chunk //= 2
    return best
