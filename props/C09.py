"""C09 — block-wise transfer: body intact, once, or explicit failure (DESIGN.md §4 C09)."""
import json, os, re
from vlib import common as C
from vlib import simlib

MANIFEST = {
    "text": "proof, partial.  PROVED in Lean (all-quantified, about the transcription M of src/coap_block.c, M tied to the compiled code by "
            "differential runs of the real functions): Block option encode/decode round trip and bounds; the slices of any body at any block size "
            "tile it, offsets and More bits are right, a size reduction keeps the byte offset and the SZX on the wire; the received-ranges "
            "structure represents exactly the accepted block numbers (sorted, disjoint, non-adjacent, capacity, exact membership / all-in, refused "
            "insert is a no-op) for every insertion sequence; reassembly of all blocks in any order with any duplicates yields the body; every block "
            "message coap_add_data_large_internal plans fits the maximum size (first and all follow-up blocks).  RECEIVERS, for every sequence of "
            "genuine blocks in any order with duplicates and losses: the server's single-body Block1 automaton (coap_handle_request_put_block: "
            "never_wrong_body_partial, at_most_once_per_transfer_partial) and the CLIENT's Block2 automaton (coap_handle_response_get_block, "
            "single-body and per-block mode, ETag restart, give-up -> 4.08: never_wrong_body_block2_partial - a delivered body is exactly the "
            "server's, every delivered block is the exact slice at its offset; at_most_once_block2_partial - delivery releases the lg_crcv, a "
            "delivered block was not recorded before and is recorded afterwards, completion means every block was recorded; "
            "per_block_tiles_once_partial - along every run in per-block mode no block is handed over twice in an lg_crcv lifetime and at "
            "completion all of them have been: the offsets tile the body, each once).  SENDERS (lg_xmit), for every state and every request / response: server_block2_genuine (every Block2 response is "
            "the slice for the requested NUM/SZX with the right More bit and fits the PDU, a changed size is 4.00), first_block_genuine (first "
            "Block1 message = slice 0 at the lg_xmit size after both size reductions), client_block1_slices + client_block1_genuine "
            "(every follow-up Block1 message is the slice for its NUM/SZX with the right More bit and position, along EVERY response sequence "
            "incl. early size renegotiation and servers asking for a larger size, which is ignored), so the slice hypothesis of the receivers is "
            "discharged for libcoap senders.  HOSTILE PEER (not libcoap; no hypothesis on the datagrams): block2_hostile_no_unwritten_bytes - "
            "client, single-body: for EVERY sequence of responses (SZX changing in mid-transfer, Size2 different on every response, blocks nobody "
            "asked for, short blocks anywhere, any More bits / ETags) every byte of a body handed to the response handler was sent by the server "
            "for exactly that offset - no never-written byte of the reassembly buffer is ever delivered; block1_hostile_no_unwritten_bytes - the "
            "same for the server's Block1 receive path against EVERY request sequence (SZX changing in both directions, Size1 up to 2^32-1, short "
            "blocks, blocks beyond the end); block2/block1_hostile_prefix_of_body (payloads cut from one byte string => the delivery is a prefix "
            "of it: the oracle of the crcv / srcv ops); block2_hostile_per_block (per-block mode hands over this response's payload).  "
            "RELEASE CALLBACK: adl_release_once (every exit path of coap_add_data_large_internal calls it once or hands it to exactly "
            "one linked lg_xmit) + release_exactly_once (any create/delete/session-free sequence: never twice, exactly once at session free) + "
            "adl_supersede_release_once / adl_run_release_exactly_once (Model/BlockAdl.lean: a call whose token / resource+Request-Tag is that of "
            "a transfer still in progress supersedes it; for EVERY session state, key, body and exit - success, refusal, no room for the "
            "smallest block, any of the three allocations failing, with the fail: label's local lg_xmit transcribed - the superseded body's "
            "callback runs exactly once and the new body's exactly once or it is held by the one new linked lg_xmit; along every sequence "
            "of calls / expiries, exactly once by session free; never two transfers with one key).  "
            "request_tag_tells_transfers_apart (lg_srcv lookup keyed by Request-Tag presence AND value, EMPTY tag included).  "
            "WHAT THE CLIENT'S HANDLERS SEE (Model/BlockTok.lean): block2_unsolicited_dropped + at_most_once_block2_unsolicited + "
            "at_most_once_block2_non (coap_handle_response_get_block with sent == NULL: once the body / the completing block has been handed "
            "over the lg_crcv is released and NO Block2 response arriving without an outstanding request - a duplicate or late copy of any "
            "block, the last one included - reaches the handler; a Non-confirmable transfer hands the body over at most once along EVERY "
            "response sequence); nack_shows_application_token + nack_token_of_its_transfer (coap_check_update_token, which coap_handle_nack "
            "runs in front of the NACK handler: for every session state, a PDU whose token was derived from the state token of a transfer "
            "held in the lg_crcv or lg_xmit list - at ANY position - is shown with that transfer's application token).  COMPOSED, Block2: "
            "never_wrong_body_block2_composed_partial - libcoap server (first block via adlBody on the response path's parameters, "
            "response_path_params_ok; follow-ups via xmitB2Step; fresh ETag per lg_xmit) "
            "o network (any loss / duplication / delay / reordering, repeated GETs, time-outs of either side at any moment) o libcoap client, for "
            "EVERY schedule, with no hypothesis on datagrams: whatever the handler gets is the server's body / an exact slice; "
            "never_wrong_body_block1_composed_partial - libcoap client (addDataLarge + xmitB1Step, early size renegotiation) o network o libcoap "
            "server (srcvStep, single-body, 2.31 with the request's SZX or the server's maximum for block 0), EVERY schedule, no hypothesis on "
            "datagrams: whatever the server's application gets is exactly the client's body.  TRACE-CHECKED ONLY (real client + real server "
            "contexts, virtual clock, drop/duplicate schedules plus content-keyed faults - block k / the LAST block of transfer 1 or 2 "
            "duplicated, delivered again seconds later, lost once, lost with all its retransmissions -, oracle over the trace; no Lean "
            "model of the whole): retransmission timers, token substitution/restoration end to end (a wire token shown to a handler while the "
            "session still holds the transfer's lg_crcv / lg_xmit is a violation; so is a Block2 response handed over without lg_crcv and "
            "without request; only a message whose transfer state is gone falls under the open finding), CON/NON, lossless => one delivery + one success response, exhausted Confirmable => NACK or error response, "
            "MTU bound on every datagram.  Not covered: Q-Block (RFC 9177), BERT, Block+Observe.",
    "note": "Trusted: Lean kernel (+ propext, Classical.choice, Quot.sound), the T1 extractor, harness/block.c + block_sim.h + sim_core.h, generators, "
            "the Python trace oracle, the hand transcriptions M (Model/Block.lean, BlockCrcv.lean, BlockXmit.lean, BlockRtag.lean, BlockTok.lean; checked against the "
            "compiled code only on the cases run).  SPEC DECISIONS D6 (duplicated request datagram = new request), D13, D14, D15 (refusing for lack "
            "of room is an explicit failure), D16 (abandoned = retransmissions exhausted).  One open finding is reported as KNOWN-FINDING "
            "(c09-late-message-raw-token).  Against a NON-libcoap peer the 'sender's body' of the property is not defined; what is proved there is "
            "the C02 part (no never-written byte is delivered, deliveries are made of bytes the peer sent for those offsets), after eight fixes in "
            "libcoap (KNOWN_FINDINGS: a8ffb89 0b3fb08 2e4f34e 650c3a2 248b251 11109ea cb35487 8abfc44); harness/block.c observes it on the real code "
            "by running every crcv / srcv* line twice with different allocation poisons and counting live allocations.  Not fixed (by reading): "
            "the body buffer is allocated as large as Size1 / Size2 announces (4 GiB from one datagram), Q-Block and BERT paths.",
    "design_ref": "DESIGN.md §4 C09, design/C09.md",
}
LEAN_MODULES = ["CoapVerif.Props.C09"]
NAMESPACE = "Coap.C09"
REQUIRED_THEOREMS = ["block_opt_roundtrip", "blocks_tile_body", "rblock_represents", "reassembly_exact", "block_fits_mtu",
                     "never_wrong_body_partial", "at_most_once_per_transfer_partial",
                     "never_wrong_body_block2_partial", "at_most_once_block2_partial", "per_block_tiles_once_partial", "server_block2_genuine", "first_block_genuine",
                     "client_block1_slices", "client_block1_genuine", "adl_release_once", "release_exactly_once",
                     "adl_supersede_release_once", "adl_exit_matches_adlRel", "adl_run_release_exactly_once",
                     "block2_hostile_no_unwritten_bytes", "block2_hostile_prefix_of_body", "block2_hostile_per_block",
                     "block1_hostile_no_unwritten_bytes", "block1_hostile_prefix_of_body",
                     "request_tag_tells_transfers_apart", "never_wrong_body_block2_composed_partial",
                     "never_wrong_body_block1_composed_partial", "response_path_params_ok",
                     "block2_unsolicited_dropped", "at_most_once_block2_unsolicited", "at_most_once_block2_non",
                     "nack_shows_application_token", "nack_token_of_its_transfer", "application_token_left_alone",
                     "app_token_only_block2_composed", "raw_token_only_after_release", "handler_token_step", "wire_token_roundtrip",
                     "never_wrong_body_block2_composed_tokens",
                     "app_token_only_block1_composed", "raw_token_only_after_release_block1", "handler_token_step_block1",
                     "never_wrong_body_block1_composed_tokens",
                     "at_most_once_block1_run", "block1_replay_without_block0_never_delivers",
                     "block1_replayed_last_block_never_delivers", "at_most_once_block2_run",
                     "block2_replay_without_block0_never_delivers", "block2_replays_after_completion_dropped",
                     "per_block_tiles_once_composed"]
RULE = ("Layer A: block option values (all single bytes, random 0-3 byte values, boundary NUMs), setup_block_b / coap_write_block_b_opt / "
        "coap_add_data_large_request with the available room around every power of two, slices of bodies whose length is k*2^(szx+4)+{-1,0,1} "
        "for szx 0..6 and random lengths to 64 KiB, every 3-insertion sequence over 5 block numbers plus random longer ones for the received "
        "ranges, coap_block_build_body store sequences, Block1 receive sequences through the real coap_handle_request_put_block with and "
        "without Size1 in any order with duplicates, two interleaved transfers told apart by Request-Tag (absent / EMPTY / 1..8 bytes), Block2 "
        "receive sequences through the real coap_handle_response_get_block (both modes, ETag / Content-Format / Size2 / SZX / More-bit noise), "
        "sender sequences through the real coap_handle_request_send_block and coap_handle_response_send_block (requests in any order / beyond "
        "the end / changed size, 2.31 in order / duplicated / renegotiating to a smaller or larger size, error codes); HOSTILE PEERS: a server "
        "that changes SZX in mid-transfer in both directions, sends a different Size2 on every response, blocks nobody asked for, short blocks "
        "and blocks without More anywhere (crcv, both modes), a server asking for larger Block1 sizes at any point (xmit1), a client that changes "
        "SZX in both directions, sends short blocks / blocks without More anywhere, any Size1, blocks far ahead, in any order (srcv2); every "
        "crcv / srcv* line is run twice with different allocation poisons (the output must not depend on never-written memory), every line "
        "must free what it allocated, a refused coap_add_data_large_request must not leave pdu->lg_xmit dangling; SEQUENCES of 2-8 "
        "coap_add_data_large_request / _response calls on one session (adlx) re-using 1-3 tokens / resource+Request-Tag keys while the earlier "
        "transfer is still linked, the superseding call succeeding with or without lg_xmit, refused in front, failing because the options "
        "leave 0-20 bytes for the payload, or failing at the lg_xmit / token copy / skeleton PDU allocation (injected), expiry in between, "
        "release callback invocations counted per body after every call and after session free; the real "
        "coap_handle_response_get_block with sent == NULL (crcvs: Non-confirmable transfers, every block - the last in particular - duplicated "
        "at once or after completion, stray Block2 responses on a session that waits for nothing, both modes); the real "
        "coap_check_update_token on sessions with 0-4 lg_crcv and 0-3 lg_xmit entries, the abandoned PDU carrying the wire token (any retry "
        "counter) of the entry at the head / middle / end of either list, an application token or a foreign token (ctok); the real "
        "coap_handle_response_get_block / coap_block_new_lg_crcv / coap_send / coap_block_delete_lg_crcv with TOKENS (crcvt: responses under the "
        "application's token, the token libcoap put on its last request or a token never issued, `sent` NULL / the application's request / the "
        "follow-up request, copies after the lg_crcv completed, timed out or was replaced, tx_token at the 2^44 / 2^64 wraps; the token the "
        "handler sees, the token of every request sent and the whole lg_crcv list are compared after every item); the client's Block1 path "
        "with tokens through the whole handle_response() chain (xmit1t: real coap_add_data_large_request + coap_send + "
        "coap_handle_response_send_block + coap_handle_response_get_block, 2.31s / final answers / errors under the last request's, the "
        "application's or a foreign token, lg_xmit / lg_crcv timing out in mid-transfer, repeated PUTs, CON and NON, single-message bodies; "
        "tokens, count, state-token base, lg_crcv link and both list lengths compared after every item); Layer B: whole transfers "
        "(PUT/Block1 with libcoap's or the application's Request-Tag incl. EMPTY, GET/Block2, hand-built Block1 without Size1) "
        "between a real client and server context under drop/duplicate schedules over the first 4-13 datagrams, MTU 64..1500, SZX asked "
        "by either side, CON/NON, single-body/per-block, two concurrent transfers (also to one resource, told apart by Request-Tag only); "
        "the same under content-keyed faults: the request / response with block 0, 1, k, the LAST block of transfer 1 or 2 delivered twice, "
        "delivered again 0.3-100 s later, lost once, or lost with every retransmission (Confirmable exchange abandoned while the other "
        "transfer goes on); "
        "non-trivial = the real code did not refuse the input")
TRUSTED_BASE = ["Lean 4.33 kernel; axioms allowed: propext, Classical.choice, Quot.sound (audited per theorem each run)",
                "T1 extractor extract/blockconst.c and its renderer", "harness/block.c (incl. its coap_malloc_type / coap_realloc_type / "
                "coap_free_type wrap: poison fill up to 64 MiB per allocation, live count, one injected coap_malloc_type failure by tag for adlx), harness/block_sim.h, harness/sim_core.h, generators, "
                "the Python trace oracle (judge_xfer) and string comparison",
                "M (CoapVerif/Model/Block.lean, BlockCrcv.lean, BlockXmit.lean, BlockRtag.lean, BlockTok.lean, BlockAdl.lean) is a hand transcription; checked "
                "against the compiled code only on the cases run (ops srcv srcv2 srcv3 crcv crcvs crcvo crcvt ctok xmit1 xmit1t xmit2 adlx and the Layer A ops)",
                "Layer B attribution: harness/block_sim.h maps a wire token to its transfer by the Uri-Path / Request-Tag of the client request "
                "it first appeared in, and reads session->lg_crcv / lg_xmit inside the handlers to tell whether libcoap still holds the transfer"]
ASSUMPTIONS = ["block numbers < 2^31 at every call of the range functions (coap_get_block_b rejects NUM > 0xFFFFF)",
               "Layer B: receiver and sender automata are proved separately and composed over the lossy network in Model/BlockNet.lean, one "
               "transfer per direction (Block1: single-body server, one lg_srcv, body < 2^31; "
               "Block2: datagrams are never removed and a schedule picks any of them any number of times; retransmission timers, "
               "message ids, tokens abstracted; responses the application builds for a follow-up request without lg_xmit and single-message bodies "
               "are not generated; adlBody's parameters on the response path are a hypothesis (B2ParOK) which response_path_params_ok proves for rspCfg = what the C computes for a GET carrying Block2; ETags of "
               "different lg_xmits differ); "
               "everything else (timers, tokens, several transfers at once, liveness clauses) is checked as I-vs-S trace conformance only",
               "never_wrong_body_partial: every datagram carries the sender's slice for its NUM/SZX, SZX not below the size the receiver tracks, "
               "an announced Size1 is at most the true length, body < 2^31 bytes",
               "never_wrong_body_block2_partial / at_most_once_block2_partial: every response carries the server's slice for its NUM/SZX with the "
               "right More bit, in the block size the lg_crcv tracks, with the same Size2 (<= true length, or none) on every response; ETag and "
               "Content-Format arbitrary; no Observe, Q-Block2, BERT; allocation and coap_send_internal never fail",
               "client_block1_genuine: the lg_xmit is well formed (XmitInv, preserved by every step); body < 2^32 bytes",
               "block2_hostile_*: none on the responses; the lg_crcv the run starts with is absent or initial; allocation and coap_send_internal never "
               "fail; size_t is 64 bits (Size2 + chunk does not wrap); plain Block2 (no Q-Block2, BERT, Observe)",
               "block1_hostile_*: NUM < 2^20 and SZX <= 6 on every request (what coap_get_block_b lets through: block_opt_bounds); allocation never "
               "fails; plain Block1, COAP_BLOCK_SINGLE_BODY, one lg_srcv",
               "at_most_once_block2_unsolicited / at_most_once_block2_non: 2.xx responses carrying a Block2 option coap_get_block_b accepts; `sent` "
               "is NULL exactly when coap_dispatch found no Confirmable request with the response's message id (read in coap_net.c, not modelled); "
               "a response WITH `sent` but without lg_crcv is still handed over (random access) - that is the open finding's class",
               "nack_shows_application_token / nack_token_of_its_transfer: the abandoned PDU carries a libcoap-generated token (retry count >= 1; a token without one is left alone since fix f4071ae: application_token_left_alone); entries with the same STATE_TOKEN_BASE carry the same application token (libcoap numbers state tokens "
               "from session->tx_token; an lg_xmit and its lg_crcv share both), the application did not choose a token equal to one on the wire; "
               "tokens of at most 8 bytes",
               "release_exactly_once: every deletion site unlinks a list member before coap_block_delete_lg_xmit (checked by reading all 10 sites; "
               "the one delete of an UNLINKED lg_xmit, the fail: label of coap_add_data_large_internal, is modelled with its local variable: adlCall)",
               "adl_supersede_release_once / adl_run_release_exactly_once: keys are compared as the harness builds them (distinct tokens / distinct "
               "resource + Request-Tag, query NULL); the exit is adlExitReq / adlExitRsp of the call's sizes (UDP, no OSCORE, no Q-Block, request "
               "carrying Block2 NUM 0 on the response path); allocation failures other than the three mallocs of the function (coap_pdu_resize "
               "inside coap_update_option / coap_add_data) are not injected",
               "compiled Lean definitions agree with the kernel's reading of them"]
SPEC_DECISIONS = ["D15 coap_add_data_large_request/_response returning 0 (no room for even the smallest block within the maximum "
                  "message size, after the 43+8 bytes libcoap reserves for Echo and token) is an explicit failure, not a violation of "
                  "'lossless completes': the application is told by the return value / the client by 5.00",
                  "D16 'a Confirmable exchange is abandoned' = the requester gave up retransmitting a Confirmable message (1+MAX_RETRANSMIT "
                  "transmissions); an exchange that was acknowledged and whose (separate/NON) response the schedule dropped is not abandoned",
                  "D6 duplicates are judged while the receiver still holds the transfer's state; a duplicated REQUEST datagram is a new request "
                  "(libcoap keeps no request de-duplication state)", "D13 Size1/Size2 are optional; when present they announce at most the true length",
                  "D14 per-block mode: every delivered (offset,len) must be a genuine slice; exact tiling is demanded for loss- and duplicate-free schedules"]

def render_const(d):
    pairs = lambda xs: "[" + ", ".join("(" + ", ".join(str(v) for v in x) + ")" for x in xs) + "]"
    return ("/- GENERATED by extract/blockconst.c (T1) from /repo's working tree: constants of the block-wise code and\n"
            "   evaluations of coap_flsll / coap_opt_encode_size / coap_encode_var_safe. Do not edit. -/\n"
            "namespace Coap.Generated\n\n"
            "def rblockCnt : Nat := %d\n" % d["rblock_cnt"] +
            "def optBlock1 : Nat := %d\ndef optBlock2 : Nat := %d\ndef optSize1 : Nat := %d\ndef optSize2 : Nat := %d\n"
            % (d["block1"], d["block2"], d["size1"], d["size2"]) +
            "def optRtag : Nat := %d\ndef optEtag : Nat := %d\ndef optEcho : Nat := %d\n" % (d["rtag"], d["etag"], d["echo"]) +
            "def echoReserve : Nat := %d\n" % d["echo_reserve"] +
            "/-- (i, coap_flsll(i)) -/\ndef flsllTable : List (Nat × Nat) :=\n  %s\n" % pairs(d["flsll"]) +
            "/-- (delta, length, coap_opt_encode_size(delta, length)) -/\ndef optSizeTable : List (Nat × Nat × Nat) :=\n  %s\n" % pairs(d["optsize"]) +
            "/-- (val, number of bytes coap_encode_var_safe writes) -/\ndef varLenTable : List (Nat × Nat) :=\n  %s\n" % pairs(d["varlen"]) +
            "\nend Coap.Generated\n")


def extract(ctx):
    from vlib.tables import run_extractor
    d = run_extractor("blockconst", C.build_libcoap())
    C.write_if_changed(os.path.join(C.LEAN, "CoapVerif", "Generated", "BlockConst.lean"), render_const(d))
    return ["Generated.rblockCnt=%d echoReserve=%d flsllTable(%d) optSizeTable(%d) varLenTable(%d)" % (
        d["rblock_cnt"], d["echo_reserve"], len(d["flsll"]), len(d["optsize"]), len(d["varlen"]))]


def harness(ctx):
    bdir = C.build_libcoap()
    out = os.path.join(bdir, "h_block")
    deps = [os.path.join(C.VERIF, "harness", "block_sim.h"), os.path.join(C.VERIF, "harness", "sim_core.h"),
            os.path.join(C.REPO, "src", "coap_block.c")]
    if os.path.exists(out) and max(os.path.getmtime(d) for d in deps) > os.path.getmtime(out):
        os.unlink(out)
    # allocation wrap of harness/block.c: poison for never-written bytes, live count for leaks
    return C.build_harness("block", bdir, wraps=simlib.SIM_WRAPS + ["coap_malloc_type", "coap_realloc_type", "coap_free_type"])


# --------------------------------------------------------------------------
# generators
# --------------------------------------------------------------------------
def hx(b):
    return bytes(b).hex() if b else "-"


def boundary_lengths(rng, szx, kmax=None):
    """body lengths around k * 2^(szx+4) (± 1) — the exhaustive part of the quantifier"""
    c = 1 << (szx + 4)
    kmax = kmax or (65536 // c)
    out = []
    for k in range(0, kmax + 1):
        for d in (-1, 0, 1):
            v = k * c + d
            if 0 <= v <= 65536:
                out.append(v)
    return out


def gen_layer_a(ctx, n_rand):
    rng = ctx.rng
    L = []
    # ---- block option codec
    for _ in range(n_rand):
        k = rng.choice([0, 1, 1, 2, 2, 3, 3])
        L.append("bopt " + hx(bytes(rng.randrange(256) for _ in range(k))))
    for b in range(256):
        L.append("bopt %02x" % b)
        L.append("bopt ff%02x" % b)
        L.append("bopt 01ff%02x" % b)
    for num in [0, 1, 15, 16, 255, 256, 4095, 4096, 65535, 65536, 1048574, 1048575]:
        for m in (0, 1):
            for szx in range(7):
                L.append("benc %d %d %d" % (num, m, szx))
    for _ in range(n_rand):
        L.append("benc %d %d %d" % (rng.choice([rng.randrange(16), rng.randrange(4096), rng.randrange(1 << 20)]),
                                    rng.randrange(2), rng.randrange(7)))
    # ---- setup_block_b: avail around every power of two and around total - start
    for _ in range(n_rand * 2):
        blk = rng.randrange(7)
        tok = rng.choice([0, 4, 12, 40, rng.randrange(200)])
        avail = rng.choice([rng.randrange(0, 40), (1 << rng.randrange(4, 11)) + rng.randrange(-2, 3), rng.randrange(0, 1300)])
        num = rng.choice([0, 0, 1, 2, 3, rng.randrange(64)])
        start = num << (blk + 4)
        total = start + rng.choice([0, 1, 15, 16, 17, max(0, avail - 1), avail, avail + 1, (1 << (blk + 4)) - 1, 1 << (blk + 4),
                                    (1 << (blk + 4)) + 1, rng.randrange(70000)])
        L.append("setup %d %d %d %d %d" % (tok + max(0, avail), tok, num, blk, total))
    # ---- coap_write_block_b_opt on a real PDU
    for _ in range(n_rand):
        szx = rng.randrange(7)
        tl = rng.randrange(9)
        mx = rng.choice([tl + 2 + 4 + rng.randrange(0, 40), (1 << rng.randrange(4, 11)) + tl + 2 + rng.randrange(-2, 8), rng.randrange(32, 1300)])
        num = rng.choice([0, 0, 1, 2, 3, 7, rng.randrange(200)])
        start = num << (szx + 4)
        dl = rng.choice([start, start + 1, start + (1 << (szx + 4)), start + (1 << (szx + 4)) + 1, start + rng.randrange(3000), rng.randrange(70000)])
        L.append("writeb %d %d %d %d %d" % (mx, tl, num, szx, dl))
    # ---- coap_add_data_large_request: block size selection
    mtus = list(range(40, 140)) + [rng.randrange(64, 1300) for _ in range(n_rand // 2)] + \
        [(1 << k) + d + o for k in range(4, 11) for d in (-1, 0, 1) for o in (0, 43, 53, 55, 61, 63, 64, 66)]
    for mx in mtus:
        tl = rng.randrange(9)
        blk = rng.choice(["-", "-", str(rng.randrange(7))])
        maxblk = rng.choice([0, 0, 0, rng.randrange(1, 7)])
        for ln in {0, 1, rng.randrange(0, 64), max(0, mx - 50 - rng.randrange(12)), mx, rng.randrange(70000),
                   rng.choice(boundary_lengths(rng, rng.randrange(7)))}:
            L.append("adl %d %d %s %d %d" % (mx, tl, blk, maxblk, ln))
    # ---- slicing
    for szx in range(7):
        c = 1 << (szx + 4)
        lens = boundary_lengths(rng, szx, kmax=6) + [rng.randrange(65537) for _ in range(6)] + \
            [k * c + d for k in (rng.randrange(1, 65536 // c + 1),) for d in (-1, 0, 1)]
        for ln in lens:
            if ln < 0 or ln > 65536:
                continue
            nb = (ln + c - 1) // c
            for num in {0, 1, max(0, nb - 2), max(0, nb - 1), nb, nb + 1, rng.randrange(nb + 2)}:
                L.append("slice %d %d %d %d" % (szx, num, ln, rng.randrange(256)))
    # ---- received ranges: exhaustive short sequences over a small universe + random longer ones
    import itertools
    for seq in itertools.product(range(5), repeat=3):
        L.append("rb %s 6 7" % ",".join(map(str, seq)))
    for _ in range(n_rand * 3):
        u = rng.choice([6, 8, 10, 14, 20])
        k = rng.randrange(1, 14)
        seq = [rng.randrange(u) for _ in range(k)]
        if rng.random() < 0.3:
            seq = list(range(u)); rng.shuffle(seq); seq = seq[:k]
        L.append("rb %s %d %d" % (",".join(map(str, seq)), u + 1, u + 2))
    L.append("rb - 3 3")
    # ---- coap_block_build_body
    for _ in range(n_rand):
        szx = rng.randrange(4)
        c = 1 << (szx + 4)
        ln = rng.choice([rng.randrange(1, 12 * c), rng.randrange(1, 6) * c, rng.randrange(1, 6) * c + 1])
        nb = (ln + c - 1) // c
        order = list(range(nb))
        mode = rng.random()
        if mode < 0.4:
            rng.shuffle(order)
        order += [rng.randrange(nb) for _ in range(rng.randrange(3))]
        known = rng.choice([ln, ln, 0, rng.randrange(ln + 1)])
        tl = known
        items = []
        for k in order:
            off = k * c
            l = min(c, ln - off)
            tl = max(tl, off + l)
            items.append("%d:%d:%d" % (off, l, tl if rng.random() < 0.9 else rng.randrange(ln + 20)))
        L.append("bbody %d %d %s" % (ln, rng.randrange(256), ",".join(items)))
    # ---- the single-body receiver (real coap_handle_request_put_block), with and without Size1, any order, duplicates
    for _ in range(n_rand * 2):
        szx = rng.randrange(3)
        c = 1 << (szx + 4)
        ln = rng.choice([rng.randrange(1, 9 * c), rng.randrange(1, 6) * c, rng.randrange(1, 6) * c + 1, rng.randrange(1, 6) * c - 1])
        nb = (ln + c - 1) // c
        order = list(range(nb))
        r = rng.random()
        if r < 0.35:
            rng.shuffle(order)
        elif r < 0.6 and nb > 1:
            i, j = rng.randrange(nb), rng.randrange(nb)
            order[i], order[j] = order[j], order[i]
        for _ in range(rng.choice([0, 0, 1, 2])):
            order.insert(rng.randrange(len(order) + 1), rng.randrange(nb))
        if rng.random() < 0.15 and len(order) > 1:
            del order[rng.randrange(len(order))]
        size1 = rng.choice([str(ln), str(ln), "-", "-", str(rng.randrange(ln + 1)) if rng.random() < 0.5 else str(ln)])
        items = []
        for k in order:
            m = 0 if k == nb - 1 else 1
            it = "%d:%d" % (k, m)
            if rng.random() < 0.03:
                it += ":%d" % rng.randrange(c + 1)
            items.append(it)
        L.append("srcv %d %d %d %s %s" % (szx, ln, rng.randrange(256), size1, ",".join(items)))
    # ---- the same with a server block-size limit and a block size per step (unit conversion of fix 0d17941)
    for _ in range(n_rand):
        s0 = rng.randrange(3)                       # size the transfer settles on
        big = s0 + rng.randrange(1, 4)              # size of the first block(s)
        c0, cb = 1 << (s0 + 4), 1 << (big + 4)
        nbig = rng.choice([1, 1, 2])
        ln = nbig * cb + rng.choice([rng.randrange(1, 6 * c0), rng.randrange(1, 5) * c0, 1])
        steps = [(k, big) for k in range(nbig)] + [(k, s0) for k in range(nbig * cb // c0, (ln + c0 - 1) // c0)]
        r = rng.random()
        if r < 0.3:
            rng.shuffle(steps)
        elif r < 0.5:
            steps.insert(rng.randrange(len(steps) + 1), rng.choice(steps))
        if rng.random() < 0.2:                      # sender ignores the reduction for a while / mixes sizes
            steps.insert(rng.randrange(len(steps) + 1), (rng.randrange(max(1, ln // cb)), big))
        items = []
        for (k, sz) in steps:
            c = 1 << (sz + 4)
            items.append("%d.%d.%d" % (k, 1 if (k + 1) * c < ln else 0, sz))
        L.append("srcv2 %d %d %d %s %s" % (rng.choice([s0, s0, 0]), ln, rng.randrange(256), rng.choice([str(ln), "-"]), ",".join(items)))
    return L


def gen_crcv(rng, n):
    """the client's Block2 receive path (real coap_handle_response_get_block): genuine blocks in order / out of order /
    duplicated / missing / beyond the end, ETag and Content-Format changes, Size2 right / absent / too small, a changed
    SZX, a wrong More bit, short payloads; both delivery modes"""
    L = []
    for _ in range(n):
        szx = rng.randrange(3) if rng.random() < 0.8 else rng.randrange(7)
        c = 1 << (szx + 4)
        ln = rng.choice([rng.randrange(1, 9 * c), rng.randrange(1, 6) * c, rng.randrange(1, 6) * c + 1, rng.randrange(1, 6) * c - 1])
        nb = (ln + c - 1) // c
        order = list(range(nb))
        r = rng.random()
        if r < 0.25:
            rng.shuffle(order)
        elif r < 0.45 and nb > 1:
            i, j = rng.randrange(nb), rng.randrange(nb)
            order[i], order[j] = order[j], order[i]
        for _ in range(rng.choice([0, 0, 1, 2])):
            order.insert(rng.randrange(len(order) + 1), rng.randrange(nb))
        if rng.random() < 0.1 and len(order) > 1:
            del order[rng.randrange(len(order))]
        if rng.random() < 0.08:
            order.insert(rng.randrange(len(order) + 1), nb + rng.randrange(2))
        if rng.random() < 0.15:
            order += list(range(nb))               # the whole body again (a new transfer once the state is gone)
        size2 = rng.choice([str(ln), str(ln), "-", "-", str(rng.randrange(ln + 1))])
        etag = rng.choice([0, 0, 5])
        fmt = rng.choice([0, 0, 42])
        noisy = rng.random() < 0.35
        items = []
        for k in order:
            e, f, s = etag, fmt, szx
            if noisy and rng.random() < 0.12:
                e = rng.choice([0, 5, 6])
            if noisy and rng.random() < 0.06:
                f = rng.choice([0, 42, 50])
            if noisy and rng.random() < 0.06:
                s = rng.randrange(7)
            m = 1 if (k + 1) * (1 << (s + 4)) < ln else 0
            if noisy and rng.random() < 0.04:
                m = 1 - m
            it = "%d.%d.%d.%d.%d" % (k, m, s, e, f)
            if noisy and rng.random() < 0.06:
                it += ".%d" % rng.randrange((1 << (s + 4)) + 1)
            items.append(it)
        L.append("crcv %d %d %d %s %s" % (rng.choice([1, 1, 0]), ln, rng.randrange(256), size2, ",".join(items)))
    return L


def gen_crcv_hostile(rng, n):
    """a server that is NOT libcoap (C02: hostile input in the middle of a block-wise transfer): SZX changed in the middle
    of the transfer in both directions (NUM rescaled to the same offset, as a naive receiver would accept it, or not),
    Size2 absent / too small / too large / different on every response, blocks nobody asked for (far ahead, behind),
    blocks without More in the middle, payloads shorter than the block, duplicates, flipped More bits.  Every payload is
    cut from the one body at the offset the Block2 option names, so whatever is delivered must be a prefix of the body
    (single-body) / that very slice (per-block), must not depend on never-written memory (` UNINIT`) and nothing may leak."""
    L = []
    for _ in range(n):
        s0 = rng.randrange(3) if rng.random() < 0.8 else rng.randrange(7)
        c0 = 16 << s0
        ln = rng.choice([rng.randrange(1, 9 * c0), rng.randrange(2, 7) * c0, rng.randrange(2, 7) * c0 + 1, rng.randrange(2, 7) * c0 - 1])
        single = rng.choice([1, 1, 1, 0])
        line_s2 = rng.choice(["-", "-", str(ln), str(rng.randrange(ln + 1)), str(ln + rng.randrange(1, 3 * c0))])
        kind = rng.choice(["szx", "szx", "size2", "short", "ahead", "mix", "mix"])
        items = []
        cur, off = s0, 0
        steps = 0
        switched = False
        while off < ln and steps < 24:
            steps += 1
            c = 16 << cur
            num = off // c
            m = 1 if off + c < ln else 0
            ln_f, s2_f = None, None
            r = rng.random()
            if kind in ("szx", "mix") and (r < 0.18 or (not switched and off >= ln // 2)):
                # change the block size, up or down; NUM rescaled to the current offset if that is a block boundary there
                new = rng.choice([x for x in range(7) if x != cur and abs(x - cur) <= 3] or [cur])
                switched = True
                if rng.random() < 0.25:
                    items.append("%d.%d.%d.0.42" % (off // (16 << new), 1 if (off // (16 << new) + 1) * (16 << new) < ln else 0, new))
                    if rng.random() < 0.5:
                        continue                      # … once, then on in the old size
                cur = new
                c = 16 << cur
                num = off // c
                m = 1 if (num + 1) * c < ln else 0
            if kind in ("size2", "mix") and rng.random() < 0.5:
                s2_f = rng.choice([0, ln + 1, rng.randrange(ln + 1) + 1, ln + 1 + rng.randrange(1, 4 * c), off + c + 1 + rng.randrange(3)])
            if kind in ("short", "mix") and rng.random() < 0.2:
                ln_f = rng.randrange(0, c + 1)
                if rng.random() < 0.7:
                    m = 0                             # a short block pretending to be the last one
            if kind in ("ahead", "mix", "size2") and rng.random() < 0.2:
                # a block nobody asked for: far ahead / behind, with or without More, sometimes without Size2
                k2 = rng.randrange(0, ln // c + 3)
                items.append("%d.%d.%d.0.42.99999.%d" % (k2, rng.choice([1, 1, 0]) if (k2 + 1) * c < ln + c else 0, cur,
                                                         rng.choice([0, 0, ln + 1, ln + 1 + rng.randrange(1, 5 * c)])))
            if rng.random() < 0.05:
                m = 1 - m
            it = "%d.%d.%d.0.42" % (num, m, cur)
            if ln_f is not None or s2_f is not None:
                it += ".%d" % (99999 if ln_f is None else ln_f)
            if s2_f is not None:
                it += ".%d" % s2_f
            items.append(it)
            if rng.random() < 0.08:
                items.append(it)                      # duplicate
            off = (num + 1) * c
        if rng.random() < 0.3:
            # … and the whole body once more, cleanly, in the first size: a transfer after the hostile one must still work
            nb = (ln + c0 - 1) // c0
            items += ["%d.%d.%d.0.42" % (k, 1 if k + 1 < nb else 0, s0) for k in range(nb)]
        L.append("crcv %d %d %d %s %s" % (single, ln, rng.randrange(256), line_s2, ",".join(items[:40])))
    return L


def gen_srcv_hostile(rng, n):
    """a CLIENT that is not libcoap against the server's single-body Block1 receive path: SZX changed in the middle of the
    transfer in both directions (NUM rescaled to the offset reached, or not), blocks without More that are shorter than
    the block size anywhere in the body, Size1 absent / too small / too large, blocks far ahead, duplicates, any order.
    Every payload is cut from the one body at the offset the Block1 option names: whatever the request handler gets must
    be a prefix of the body and must not depend on never-written memory (` UNINIT`)."""
    L = []
    for _ in range(n):
        s0 = rng.randrange(4)
        c0 = 16 << s0
        ln = rng.choice([rng.randrange(c0 + 1, 9 * c0), rng.randrange(2, 7) * c0, rng.randrange(2, 7) * c0 + 1, rng.randrange(2, 7) * c0 - 1])
        size1 = rng.choice(["-", "-", str(ln), str(rng.randrange(ln + 1)), str(ln + rng.randrange(1, 3 * c0))])
        maxblk = rng.choice([0, 0, 0, s0, max(0, s0 - 1), rng.randrange(7)])
        kind = rng.choice(["szx", "szx", "short", "short", "mix", "mix", "ahead"])
        items = []
        cur, off, steps = s0, 0, 0
        while off < ln and steps < 24:
            steps += 1
            c = 16 << cur
            num = off // c
            m = 1 if (num + 1) * c < ln else 0
            ln_f = None
            r = rng.random()
            if kind in ("szx", "mix") and r < 0.25:
                new = rng.choice([x for x in range(7) if x != cur and abs(x - cur) <= 3] or [cur])
                if rng.random() < 0.3:
                    # one stray block in the other size (its NUM names the offset reached, or is the old NUM)
                    k2 = rng.choice([off // (16 << new), num, num + 1])
                    items.append("%d.%d.%d" % (k2, rng.choice([0, 1]) if (k2 + 1) * (16 << new) < ln else 0, new))
                    if rng.random() < 0.6:
                        continue
                cur = new
                c = 16 << cur
                num = off // c
                m = 1 if (num + 1) * c < ln else 0
            if kind in ("short", "mix") and rng.random() < 0.25:
                ln_f = rng.randrange(0, c + 1)
                if rng.random() < 0.8:
                    m = 0
            if kind in ("ahead", "mix") and rng.random() < 0.2:
                k2 = rng.randrange(0, ln // c + 3)
                items.append("%d.%d.%d" % (k2, rng.choice([1, 0]) if (k2 + 1) * c < ln else 0, cur))
            if rng.random() < 0.05:
                m = 1 - m
            it = "%d.%d.%d" % (num, m, cur)
            if ln_f is not None:
                it += ".%d" % ln_f
            items.append(it)
            if rng.random() < 0.1:
                items.append(rng.choice([it, "%d.%d.%d" % (num, m, cur)]))
            off = (num + 1) * c
        if rng.random() < 0.3:
            rng.shuffle(items)
        if rng.random() < 0.3:
            nb = (ln + c0 - 1) // c0
            items += ["%d.%d.%d" % (k, 1 if k + 1 < nb else 0, s0) for k in range(nb)]
        L.append("srcv2 %d %d %d %s %s" % (maxblk, ln, rng.randrange(256), size1, ",".join(items[:40])))
    return L


def gen_xmit1_hostile(rng, n):
    """client Block1 against a server that is not libcoap: 2.31 asking for a LARGER block size (at the first block, in the
    middle, repeatedly, NUM in the client's unit or rescaled to the larger one), mixed with genuine reductions, duplicates
    and stale acknowledgements: every block message must be the slice for its NUM/SZX with the right More bit"""
    L = []
    for _ in range(n):
        mtu = rng.choice([1152, 1152, 1500, rng.randrange(100, 1300)])
        szx = rng.randrange(6)
        cs = rng.choice(["-", str(szx), str(szx)])
        ceff = min((16 << szx) if cs != "-" else 1024, 1 << max(4, (max(mtu - 80, 16)).bit_length() - 1))
        cur = ceff.bit_length() - 5
        ln1 = rng.choice([rng.randrange(ceff + 1, 9 * ceff), rng.randrange(2, 7) * ceff, rng.randrange(2, 7) * ceff + 1])
        items = []
        k = 0
        nb1 = (ln1 + ceff - 1) // ceff
        while k < nb1 and len(items) < 30:
            c = 16 << cur
            nb1 = (ln1 + c - 1) // c
            last = k >= nb1 - 1
            rr = rng.random()
            if rr < 0.3 and cur < 6:
                big = rng.randrange(cur + 1, 7)
                # NUM as the client counts, or rescaled to the larger size (what a confused server would name)
                items.append("95.%d.%d" % (k if rng.random() < 0.6 else (k * c) // (16 << big), big))
            elif rr < 0.4 and cur > 0 and not last:
                new = rng.randrange(cur)
                k = ((k + 1) << (cur - new)) - 1
                cur = new
                items.append("95.%d.%d" % (k, cur))
            else:
                items.append("%d.%d.%d" % (68 if last else 95, k, cur))
            if rng.random() < 0.1:
                items.append(items[-1])
            k += 1
        L.append("xmit1 %s %d %d %d %s" % (cs, ln1, rng.randrange(256), mtu, ",".join(items) or "-"))
    return L


def gen_xmit(rng, n):
    """the sender side (real coap_handle_request_send_block / coap_handle_response_send_block on a real lg_xmit)"""
    L = []
    for _ in range(n):
        szx = rng.randrange(7)
        c = 1 << (szx + 4)
        ln = rng.choice([rng.randrange(1, 9 * c), rng.randrange(1, 6) * c, rng.randrange(1, 6) * c + 1, rng.randrange(1, 6) * c - 1])
        nb = (ln + c - 1) // c
        # ---- server, Block2: requests in order / repeated / random / beyond the end / changed size; response PDUs with
        # plenty of room and with room around the size of a full block (5.00 path)
        order = list(range(1, nb))
        r = rng.random()
        if r < 0.3:
            rng.shuffle(order)
        for _ in range(rng.choice([0, 1, 2])):
            order.insert(rng.randrange(len(order) + 1), rng.randrange(nb + 2))
        items = []
        for k in order:
            s_ = szx if rng.random() < 0.92 else rng.randrange(7)
            items.append("%d.%d" % (k, s_))
        mtu2 = rng.choice([1152, 1152, c + rng.randrange(8, 24), rng.randrange(10, c + 40)])
        if rng.random() < 0.35:
            # the first response (coap_add_data_large_response) on a small PDU: the server reduces the block size itself
            mtu1 = rng.choice([rng.randrange(20, 160), rng.randrange(60, 1200), (1 << rng.randrange(4, 11)) + rng.randrange(50, 75)])
            b = max(0, min(szx, 6, (max(mtu1 - 60, 16)).bit_length() - 5))
            items = [("%s.%d" % (x.split(".")[0], b)) if rng.random() < 0.9 else x for x in items]
            L.append("xmit2 %d %d %d %d:%d %s" % (szx, ln, rng.randrange(256), mtu1, rng.choice([1152, mtu1]), ",".join(items) or "-"))
        L.append("xmit2 %d %d %d %d %s" % (szx, ln, rng.randrange(256), mtu2, ",".join(items) or "-"))
        # ---- client, Block1: 2.31 in order / duplicated / stale, early renegotiation to a smaller or a LARGER size,
        # final 2.04, error codes
        mtu = rng.choice([1152, 1152, 1500, rng.randrange(100, 1300)])
        cs = rng.choice(["-", "-", str(szx)])
        ceff = min(c if cs != "-" else 1024, 1 << max(4, (max(mtu - 80, 16)).bit_length() - 1))
        ln1 = rng.choice([rng.randrange(1, 9 * ceff), rng.randrange(1, 6) * ceff, rng.randrange(1, 6) * ceff + 1])
        eff = ceff.bit_length() - 5
        nb1 = (ln1 + ceff - 1) // ceff
        items = []
        cur = eff
        k = 0
        while k < nb1 and len(items) < 40:
            last = (k == nb1 - 1)
            code = 68 if last else 95
            rr = rng.random()
            if rr < 0.08 and cur > 0 and not last:               # early / late renegotiation to a smaller size
                new = rng.randrange(cur)
                k = ((k + 1) << (cur - new)) - 1
                cur = new
                nb1 = (ln1 + (16 << cur) - 1) // (16 << cur)
                items.append("95.%d.%d" % (k, cur))
            elif rr < 0.11 and cur < 6:                          # a server asking for a larger size (ignored by the client)
                items.append("95.%d.%d" % (k, rng.randrange(cur + 1, 7)))
            else:
                items.append("%d.%d.%d" % (code, k, cur))
            if rng.random() < 0.1:
                items.append(rng.choice([items[-1], "95.%d.%d" % (rng.randrange(k + 1), cur)]))
            if rng.random() < 0.03:
                items.append(rng.choice(["141", "136", "68", "95"]))
            k += 1
        L.append("xmit1 %s %d %d %d %s" % (cs, ln1, rng.randrange(256), mtu, ",".join(items) or "-"))
    return L


def gen_rtag(rng, n):
    """Block1 receive path with Request-Tag absent / EMPTY (length 0) / 1..8 bytes: one transfer, and two interleaved
    transfers to the same resource that only the Request-Tag tells apart (real coap_handle_request_put_block)"""
    L = []
    for _ in range(n):
        szx = rng.randrange(3)
        c = 1 << (szx + 4)
        lens = [rng.choice([rng.randrange(c + 1, 7 * c), rng.randrange(2, 6) * c, rng.randrange(2, 6) * c + 1]) for _ in (0, 1)]
        seeds = rng.sample(range(256), 2)
        two = rng.random() < 0.6
        r0 = rng.choice([0, 1, 1, 1, rng.randrange(2, 18)])
        r1 = rng.choice([x for x in [0, 1, 1, rng.randrange(2, 18), rng.randrange(2, 18)] if x != r0] or [2 if r0 != 2 else 3])
        if rng.random() < 0.08:
            r1 = r0                                    # same key: the sender's fault, only M-vs-I is compared
        seqs = []
        for t, r in ((0, r0), (1, r1)):
            nb = (lens[t] + c - 1) // c
            order = list(range(nb))
            x = rng.random()
            if x < 0.2:
                rng.shuffle(order)
            elif x < 0.3:
                order.insert(rng.randrange(len(order) + 1), rng.randrange(nb))
            elif x < 0.35 and len(order) > 1:
                del order[rng.randrange(len(order))]
            seqs.append(["%d.%d.%d.%d.%d" % (t, k, 1 if (k + 1) * c < lens[t] else 0, szx, r) for k in order])
        if not two:
            items = seqs[0]
        else:
            items = []
            a, b = list(seqs[0]), list(seqs[1])
            while a or b:
                src = a if (a and (not b or rng.random() < 0.5)) else b
                items.append(src.pop(0))
        L.append("srcv3 %d %d %d %d %d %d %s" % (rng.choice([0, 0, szx, max(0, szx - 1), 6]), lens[0], seeds[0], lens[1], seeds[1], rng.randrange(2), ",".join(items)))
    return L


def gen_crcvs(rng, n):
    """the client's Block2 receive path with `sent` possibly NULL (real coap_handle_response_get_block): Non-confirmable
    transfers (the lg_crcv set up at send time, every response without a request PDU), duplicates of any block — the LAST
    one in particular — right away or after the transfer completed, late copies of earlier blocks, stray Block2 responses on
    a session that waits for nothing, a new transfer (piggybacked, `sent` given) after the stray ones; both delivery modes"""
    L = []
    for _ in range(n):
        szx = rng.randrange(3) if rng.random() < 0.8 else rng.randrange(7)
        c = 1 << (szx + 4)
        ln = rng.choice([rng.randrange(1, 7 * c), rng.randrange(1, 6) * c, rng.randrange(1, 6) * c + 1, rng.randrange(1, 6) * c - 1])
        nb = (ln + c - 1) // c
        single = rng.choice([1, 1, 0])
        init = rng.choice([1, 1, 1, 0])
        kind = rng.choice(["non", "non", "non", "mixed", "stray"])
        etag = rng.choice([0, 0, 5])
        def it(u, k, s_=None, e=None):
            s_ = szx if s_ is None else s_
            m = 1 if (k + 1) * (1 << (s_ + 4)) < ln else 0
            return "%d.%d.%d.%d.%d.%d" % (u, k, m, s_, etag if e is None else e, 42)
        items = []
        if kind == "stray" or not init:
            # nothing outstanding: whatever arrives with a Block2 option and without a request is not for the application
            for _ in range(rng.randrange(1, 4)):
                items.append(it(1, rng.randrange(nb + 1)))
            if rng.random() < 0.7:
                items += [it(0, k) for k in range(nb)]          # a transfer whose responses are piggybacked
        else:
            u0 = 1 if kind == "non" else rng.choice([0, 1])
            order = list(range(nb))
            if rng.random() < 0.2:
                rng.shuffle(order)
            for k in order:
                u = u0 if kind == "non" else rng.choice([0, 1])
                items.append(it(u, k))
                r = rng.random()
                if r < 0.15:
                    items.append(it(1, k))                       # the network duplicates this datagram
                elif r < 0.2 and k:
                    items.append(it(1, rng.randrange(k)))        # an old one arrives late
        # after the transfer: copies of the last block, of the first, of any; once or several times
        r = rng.random()
        tail = []
        if r < 0.45:
            tail = [it(1, nb - 1)] * rng.choice([1, 1, 2])
        elif r < 0.6:
            tail = [it(1, 0)]
        elif r < 0.8:
            tail = [it(1, rng.randrange(nb)) for _ in range(rng.randrange(1, 4))]
        elif r < 0.85:
            tail = [it(1, nb - 1, e=rng.choice([0, 5, 6]))]
        items += tail
        if rng.random() < 0.15:
            items += [it(rng.choice([0, 1]), k) for k in range(nb)]   # … and the body once more
        L.append("crcvs %d %d %d %s %d %s" % (single, ln, rng.randrange(256), rng.choice([str(ln), "-"]), init, ",".join(items[:40])))
    return L


def tok_hex(v):
    """coap_encode_var_safe8"""
    b = b""
    while v:
        b = bytes([v & 0xff]) + b
        v >>= 8
    return b.hex() if b else "-"


def gen_ctok(rng, n):
    """coap_check_update_token on sessions with 0..4 lg_crcv and 0..3 lg_xmit entries: the abandoned PDU carries the wire
    token (any retry counter) of the transfer at the head / in the middle / at the end of either list, an application
    token, a foreign token; requests and responses; an lg_xmit together with the lg_crcv coap_send sets up for it"""
    L = []
    for _ in range(n):
        nc, nx = rng.choice([0, 1, 2, 2, 3, 4]), rng.choice([0, 0, 1, 2, 3])
        bases = rng.sample(range(1, 40), nc + nx) if rng.random() < 0.8 else [rng.randrange(1, 1 << 44) for _ in range(nc + nx)]
        def app():
            return bytes(rng.randrange(256) for _ in range(rng.choice([1, 2, 4, 4, 8, rng.randrange(0, 9)])))
        def state(b):
            return b + (rng.choice([0, 1, 2, rng.randrange(1 << 20)]) << 44)
        cr = [(app(), state(b)) for b in bases[:nc]]
        xm = [(app(), state(b)) for b in bases[nc:]]
        if xm and rng.random() < 0.6:
            # coap_send_lkd: the lg_crcv of a Block1 request shares application and state token with its lg_xmit
            cr.insert(rng.randrange(len(cr) + 1), (xm[0][0], xm[0][1]))
        if cr and rng.random() < 0.05:
            cr.append((app(), cr[0][1]))                      # two entries with one base (cannot happen in libcoap): M-vs-I only
        allents = cr + xm
        r = rng.random()
        if allents and r < 0.7:
            e = rng.choice(allents) if rng.random() < 0.5 else allents[rng.choice([0, -1, len(cr) - 1 if cr else 0])]
            tok = tok_hex((e[1] & ((1 << 44) - 1)) + (rng.choice([1, 1, 2, 3, rng.randrange(1 << 20)]) << 44))
        elif allents and r < 0.85:
            tok = rng.choice(allents)[0].hex() or "-"
        else:
            tok = bytes(rng.randrange(256) for _ in range(rng.randrange(0, 9))).hex() or "-"
        fmt = lambda es: ",".join("%s/%d" % (a.hex() or "-", st) for a, st in es) or "-"
        L.append("ctok %d %s %s %s" % (rng.choice([1, 1, 1, 0]), tok, fmt(cr[:8]), fmt(xm[:8])))
    return L


def adlx_toklen(key):
    return 0 if key == 0 else (key * 3) % 8 + 1


def gen_adlx(rng, n):
    """sequences of coap_add_data_large_request / _response calls on ONE session: keys re-used while the earlier transfer is
    still linked (it is superseded), and the superseding call made to succeed with / without lg_xmit, to be refused in front,
    to fail because the options leave no room for the smallest block, or to fail at one of its three allocations"""
    L = []
    for _ in range(n):
        isreq = rng.random() < 0.6
        items = []
        if isreq:
            mx = rng.choice([rng.randrange(80, 200), rng.randrange(80, 320), 128, 1152, rng.randrange(200, 1300)])
            keys = rng.sample(range(8), rng.choice([1, 1, 2, 2, 3]))
            for _k in range(rng.randrange(2, 9)):
                if rng.random() < 0.08:
                    items.append("x"); continue
                key = rng.choice(keys)
                tl = adlx_toklen(key)
                room = mx - tl - 43 - (8 - tl)            # what is left for options + smallest block
                r = rng.random()
                if r < 0.35:                              # options leave 0..20 bytes: around "(2) does not fit"
                    plen = room - rng.randrange(0, 22) - 2
                elif r < 0.45:
                    plen = rng.randrange(0, 256)
                else:
                    plen = rng.choice([0, 1, 1, 1, 5, 12, 13, 20])
                plen = max(0, min(255, plen))
                ln = rng.choice([0, 1, rng.randrange(64), 600, 600, rng.randrange(5000), rng.randrange(70000),
                                 max(0, room - plen + rng.randrange(-3, 4))])
                blk = rng.choice([7, 7, 7, rng.randrange(7)])
                af = rng.choice([0, 0, 0, 0, 1, 2, 3])
                items.append("%d.%d.%d.%d.%d" % (key, blk, ln, plen, af))
        else:
            mx = rng.choice([rng.randrange(16, 100), rng.randrange(60, 320), rng.randrange(60, 80), 1152, rng.randrange(64, 1300)])
            keys = rng.sample(range(6), rng.choice([1, 1, 2, 3]))
            for _k in range(rng.randrange(2, 9)):
                if rng.random() < 0.08:
                    items.append("x"); continue
                ln = rng.choice([0, 1, rng.randrange(64), 600, rng.randrange(5000), rng.randrange(70000)])
                r = rng.random()
                # Location-Path in the response: 4 + 2 (Content-Format) + 2 (Block2) + 43 + 4 bytes are taken anyway
                plen = 0 if r < 0.5 else (mx - 55 - rng.randrange(0, 24) - 2) if r < 0.85 else rng.randrange(0, 256)
                plen = max(0, min(255, plen))
                items.append("%d.%d.%d.%d.%d" % (rng.choice(keys), rng.randrange(7), ln, plen, rng.choice([0, 0, 0, 0, 1, 2, 3])))
        if rng.random() < 0.3 and not isreq:
            key = rng.randrange(6)
            mx = rng.randrange(90, 310)
            plen = min(255, max(0, mx - 55 - rng.randrange(0, 14) - 2))
            items = ["%d.%d.%d.0.0" % (key, rng.randrange(7), rng.randrange(mx, 4000))] + items[:rng.randrange(0, 3)] + \
                    ["%d.%d.%d.%d.0" % (key, rng.randrange(7), rng.randrange(mx, 4000), plen)] + items[3:5]
        if rng.random() < 0.3 and isreq:
            # the seeded shape itself, with this line's sizes: a multi-block body, then the same key with options that leave no room
            key = rng.randrange(8); tl = adlx_toklen(key)
            mx = rng.randrange(90, 300)
            plen = min(255, max(0, mx - 51 - rng.randrange(0, 14) - 2))
            items = ["%d.7.%d.1.0" % (key, rng.randrange(mx, 4000))] + items[:rng.randrange(0, 3)] + \
                    ["%d.7.%d.%d.0" % (key, rng.randrange(mx, 4000), plen)] + items[3:5]
        L.append("adlx %s %d %d %s" % ("q" if isreq else "r", mx, rng.choice([0, 0, 0, rng.randrange(1, 7)]), ",".join(items)))
    return L


def gen_crcvt(rng, n):
    """the client's Block2 receive path WITH TOKENS (real coap_handle_response_get_block / coap_block_new_lg_crcv / coap_send /
    coap_block_delete_lg_crcv; model crcvStepT, cliSendT, cliExpireT): transfers whose follow-up responses carry the token
    libcoap substituted on the last request, `sent` NULL / the application's request / the follow-up request itself, copies
    arriving after the lg_crcv completed, failed, timed out (x<i>) or was replaced by a new GET (n), tokens of transfers the
    session never ran, tx_token around the 2^44 and 2^64 wraps"""
    L = []
    for _ in range(n):
        szx = rng.randrange(3)
        c = 1 << (szx + 4)
        ln = rng.choice([rng.randrange(1, 6 * c), rng.randrange(2, 6) * c, rng.randrange(2, 6) * c + 1])
        nb = (ln + c - 1) // c
        single = rng.choice([1, 0])
        init = rng.choice([1, 1, 0])
        tx0 = rng.choice([rng.randrange(1000), (1 << 44) - 1 - rng.randrange(3), (1 << 64) - 1 - rng.randrange(3),
                          rng.randrange(1 << 64), (rng.randrange(1, 1 << 20) << 44) + rng.randrange(5)])
        etag = rng.choice([0, 0, 5])
        def it(t, u, k, e=None):
            m = 1 if (k + 1) * c < ln else 0
            return "%d.%d.%d.%d.%d.%d.%d" % (t, u, k, m, szx, etag if e is None else e, 42)
        items = []
        if rng.random() < 0.15:
            items.append(it(rng.choice([1, 2]), rng.choice([0, 1, 2]), rng.randrange(nb)))     # before anything was sent
        u0 = rng.choice([0, 1, 2, 2])
        for k in range(nb):
            u = u0 if rng.random() < 0.8 else rng.randrange(3)
            items.append(it(0 if k == 0 else 1, u, k))
            r = rng.random()
            if r < 0.12:
                items.append(it(0 if k == 0 else 1, rng.randrange(3), k))                     # duplicate
            elif r < 0.2:
                items.append("x%d" % rng.choice([0, 0, 1]))                                    # the lg_crcv times out …
                items.append(it(rng.choice([1, 1, 0]), rng.randrange(3), rng.choice([k, k, 0, min(k + 1, nb - 1)])))  # … late copy
            elif r < 0.26:
                items.append("n")                                                              # the application asks again
                if rng.random() < 0.5:
                    items.append(it(1, rng.randrange(3), 0))
            elif r < 0.31:
                items.append(it(2, rng.randrange(3), rng.choice([0, k])))                      # somebody else's token
            elif r < 0.35 and k:
                items.append(it(rng.choice([0, 1]), rng.randrange(3), rng.randrange(k)))       # an old block again
            elif r < 0.38:
                items.append(it(1, rng.randrange(3), k, e=rng.choice([6, 0])))                 # ETag change: restart
        # after the transfer: copies under the last wire token / the application's token, matched or not
        for _ in range(rng.choice([0, 1, 1, 2, 3])):
            items.append(it(rng.choice([0, 1, 1]), rng.randrange(3), rng.choice([nb - 1, 0, rng.randrange(nb)])))
        if rng.random() < 0.2:
            items += ["n"] + [it(0 if k == 0 else 1, u0, k) for k in range(nb)]
        L.append("crcvt %d %d %d %s %d %d %s" % (single, ln, rng.randrange(256), rng.choice([str(ln), "-"]), init, tx0, ",".join(items[:40])))
    return L


def spec_crcvt(w, i):
    """I-vs-property (from the harness line alone): "handlers only ever see the application's own token, never one libcoap
    substituted on the wire" - a response whose token belongs to an lg_crcv the session holds (STATE_TOKEN_BASE or application
    token) must reach the handler under that lg_crcv's application token; a token other than the application's may only be
    shown if it belongs to an lg_crcv that was released before (the open finding's class)."""
    APP = "a1a1a1a1"
    MASK = (1 << 44) - 1
    tx0 = int(w[6])
    def base_of(h):
        return int.from_bytes(bytes.fromhex(h)[:8], "big") & MASK if h != "-" else 0
    def parse_list(sx):
        if sx == "-":
            return []
        out = []
        for e in sx.split("|"):
            f = e.split(".")
            out.append((f[0], int(f[1])))
        return out
    cur = [(APP, (tx0 + 1) & MASK)] if int(w[5]) else []
    released = set()
    last = APP
    foreign = False
    outs = i.replace(" UNINIT", "").split(",")
    for item, o in zip(w[7].split(","), outs):
        if "/" not in o:
            return None
        head, lst = o.rsplit("/", 1)
        after = parse_list(lst)
        if not (item == "n" or item.startswith("x")):
            f = item.split(".")
            t = int(f[0])
            if t == 2:
                foreign = True
            tok = APP if t == 0 else last if t == 1 else tok_hex(((tx0 + 1000) & MASK) + (3 << 44))
            mt = re.search(r"T([0-9a-f]+|-)$", head)
            shown = mt.group(1) if mt else None
            if shown is not None:
                hit = next((e for e in cur if e[1] == base_of(tok) or e[0] == tok), None)
                if hit and shown != hit[0]:
                    return "a response with token %s belongs to the lg_crcv (application token %s, state token base %d) the session holds, " \
                           "but the response handler was shown token %s" % (tok, hit[0], hit[1], shown)
                if shown != APP and not foreign and base_of(shown) not in released:
                    return "the response handler was shown token %s: not the application's, and no lg_crcv with that state token " \
                           "base had been released before" % shown
        for e in cur:
            if e[1] not in [a[1] for a in after]:
                released.add(e[1])
        cur = after
        for q in re.findall(r"\+q[0-9?.]+t([0-9a-f]+|-)", head):
            last = q
    return None


def gen_xmit1t(rng, n):
    """the client's Block1 path WITH TOKENS and the whole handle_response() chain (real coap_add_data_large_request, coap_send,
    coap_handle_response_send_block, coap_handle_response_get_block, coap_block_delete_lg_xmit / _crcv; model putStep1T /
    rspStep1T): 2.31s under the token of the request transmitted last / the application's / a foreign one, duplicates, early
    size renegotiation, the final 2.04 / 4.xx / 5.00, copies after the transfer state was released, lg_xmit or lg_crcv timing out
    in mid-transfer, the application PUTting again with the same token, single-message bodies with and without lg_crcv
    (CON without Block1 option), tx_token around the 2^44 / 2^64 wraps"""
    L = []
    for _ in range(n):
        cszx = rng.choice(["-", "-", str(rng.randrange(7)), str(rng.randrange(4))])
        cs = 6 if cszx == "-" else int(cszx)
        c = 1 << (cs + 4)
        ln = rng.choice([rng.randrange(1, 6 * c), rng.randrange(1, 40), rng.randrange(2, 6) * c, rng.randrange(2, 6) * c + 1])
        mtu = rng.choice([1152, 1152, rng.randrange(64, 400)])
        non = rng.choice([1, 0])
        tx0 = rng.choice([rng.randrange(1000), (1 << 44) - 1 - rng.randrange(4), (1 << 64) - 1 - rng.randrange(4), rng.randrange(1 << 64)])
        nb = (ln + c - 1) // c
        items = ["p"]
        sz = cs if rng.random() < 0.7 else rng.randrange(cs + 1)     # the server may ask for smaller blocks
        k = 0
        steps = rng.randrange(1, nb + 4)
        for _ in range(steps):
            r = rng.random()
            if r < 0.62:
                items.append("%d.95.%d.%d" % (rng.choice([1, 1, 1, 1, 0]), k, sz)); k += rng.choice([1, 1, 1, 0, 2])
            elif r < 0.70:
                items.append("%d.95.%d.%d" % (rng.choice([1, 0, 2]), max(0, k - 1), sz))        # duplicate 2.31
            elif r < 0.76:
                items.append(rng.choice(["x", "y"]))
            elif r < 0.80:
                items.append("p")
                k = 0
            elif r < 0.86:
                items.append("2.%d" % rng.choice([68, 95, 141])) if rng.random() < 0.5 else items.append("2.95.%d.%d" % (k, sz))
            else:
                items.append("%d.%d" % (rng.choice([1, 1, 0]), rng.choice([68, 68, 141, 160, 136])))
        # the end of the transfer and what arrives afterwards
        items.append("%d.%d" % (rng.choice([1, 1, 0]), rng.choice([68, 68, 141])))
        for _ in range(rng.choice([0, 1, 1, 2])):
            items.append(rng.choice(["1.68", "0.68", "1.95.%d.%d" % (rng.randrange(nb + 1), sz), "1.141", "x", "y"]))
        L.append("xmit1t %s %d %d %d %d %d %s" % (cszx, ln, rng.randrange(256), mtu, non, tx0, ",".join(items[:40])))
    return L


def spec_xmit1t(w, i):
    """I-vs-property (from the harness line alone): a response whose token selects the lg_xmit / lg_crcv the session holds
    reaches the handler under the application's token; a token other than the application's is only shown if its
    STATE_TOKEN_BASE belongs to an lg_xmit / lg_crcv released BEFORE this response was dispatched; the release callback of
    every body runs exactly once."""
    APP = "a1a1a1a1"
    MASK = (1 << 44) - 1
    tx0 = int(w[6])
    def base_of(h):
        return int.from_bytes(bytes.fromhex(h)[:8], "big") & MASK if h != "-" else 0
    m = re.search(r" rel=(\d+)$", i)
    items = w[7].split(",")
    body = re.sub(r" rel=\d+$", "", i)
    outs = body.split(",")
    if m and len(outs) == len(items) and int(m.group(1)) != items.count("p"):
        return "%d bodies were handed to libcoap, the release callback ran %s times" % (items.count("p"), m.group(1))
    live = set()            # bases of the lg_xmit / lg_crcv the session holds
    released = set()
    last = APP
    foreign = False
    for item, o in zip(items, outs):
        if "/X" not in o:
            return None
        head, st = o.rsplit("/X", 1)
        mx = re.match(r"(\d+)(?::\d+\.\d+\.-?\d+\.\d+\.(\d+)\.[01])?C(\d+)(?::([0-9a-f]+|-)\.(\d+)\.\d+)?$", st)
        if not mx:
            return None
        if int(mx.group(1)) > 1 or int(mx.group(3)) > 1:
            return "one application token, yet the session holds %s lg_xmits / %s lg_crcvs" % (mx.group(1), mx.group(3))
        now = set()
        if mx.group(2) is not None:
            now.add(int(mx.group(2)))
        if mx.group(5) is not None:
            now.add(int(mx.group(5)))
        if item not in ("p", "x", "y"):
            f = item.split(".")
            t = int(f[0])
            if t == 2:
                foreign = True
            tok = APP if t == 0 else last if t == 1 else tok_hex(((tx0 + 1000) & MASK) + (3 << 44))
            mt = re.search(r"T([0-9a-f]+|-)$", head)
            if mt:
                shown = mt.group(1)
                if base_of(tok) in live and shown != APP:
                    return "a response with token %s belongs to the transfer state (state token base %d) the session holds, but the " \
                           "response handler was shown token %s" % (tok, base_of(tok), shown)
                if shown != APP and not foreign and base_of(shown) not in released:
                    return "the response handler was shown token %s: not the application's, and no lg_xmit / lg_crcv with that state " \
                           "token base had been released before" % shown
        for b in live - now:
            released.add(b)
        live = now
        mq = re.search(r"t([0-9a-f]+|-)(?:T|$)", head)
        if mq and (item == "p" or head.startswith("b")):
            last = mq.group(1) if mq.group(1) != "-" else last
    return None


def gen_crcvo(rng, n):
    """the client's Block2 receive path at the END of the 20-bit block number space (round S09b; real
    coap_handle_response_get_block, model crcvStepS): op `crcvo` = `crcvs` with a NUM OFFSET - the Block2 option on the wire
    carries num + off, the payload is the slice of a small body at num - so that NUM 0xFFFFD..0xFFFFF are reached without a
    16 MiB body.  M = 0/1 on every number (M = 1 on 0xFFFFF: the response fix 70f6ff3 refuses), SZX 0..6, with and without
    Size2 (small, true-sized, per item), both delivery modes, with and without request PDU, with and without the initial
    lg_crcv.  Single-body lines stay off coap_block_build_body (a buffer of NUM * chunk bytes, which the model's byte list
    cannot hold): the lg_crcv is released by the first response (M on 0xFFFFF / undersized) or absent (random access)."""
    L = []
    TOP = 0xFFFFF
    for _ in range(n):
        szx = rng.randrange(7)
        c = 1 << (szx + 4)
        nb = rng.randrange(3, 6)                       # blocks 0 .. nb-1 of the small body
        end = rng.choice([TOP, TOP, TOP, TOP - 1])     # wire number of the small body's last block
        off = end - (nb - 1)
        ln = rng.choice([nb * c, nb * c, nb * c - rng.randrange(1, c), nb * c + rng.randrange(1, c)])
        if ln > nb * c:
            ln = min(ln, 65536)
        single = rng.choice([0, 0, 0, 1])
        etag = rng.choice([0, 0, 5])
        true_total = (off + nb) * c
        size2 = rng.choice(["-", "-", str(ln), str(min(true_total, (1 << 32) - 1))])
        def it(u, k, m, e=None, ln_=None, s2=None):
            x = "%d.%d.%d.%d.%d.%d" % (u, k, m, szx, etag if e is None else e, 42)
            if ln_ is not None or s2 is not None:
                x += ".%d" % (c if ln_ is None else ln_)
            if s2 is not None:
                x += ".%d" % s2
            return x
        items = []
        if single:
            init = rng.choice([1, 1, 0])
            if init:
                # the first response releases the lg_crcv before anything is stored
                if rng.random() < 0.7:
                    items.append(it(rng.choice([0, 1]), TOP - off, 1))
                else:
                    items.append(it(rng.choice([0, 1]), rng.randrange(nb - 1), 1, ln_=rng.randrange(1, c)))
            for _ in range(rng.randrange(1, 5)):
                items.append(it(rng.choice([0, 1]), rng.randrange(nb), rng.choice([0, 1])))
        else:
            init = rng.choice([1, 1, 1, 0])
            u0 = rng.choice([0, 0, 1])
            kind = rng.choice(["walk", "walk", "walk", "lastm0", "jump", "mixed"])
            start = rng.choice([0, nb - 3, nb - 2, nb - 1])
            if kind == "walk":
                # a server that keeps More set up to the very last number
                items = [it(u0, k, 1) for k in range(start, nb)]
            elif kind == "lastm0":
                items = [it(u0, k, 1 if k < nb - 1 else 0) for k in range(start, nb)]
            elif kind == "jump":
                items = [it(u0, rng.randrange(nb), rng.choice([0, 1])) for _ in range(rng.randrange(1, 5))]
            else:
                for k in range(start, nb):
                    items.append(it(rng.choice([0, 1]), k, rng.choice([1, 1, 0]), e=rng.choice([None, None, 0, 6]),
                                    s2=rng.choice([None, None, 0, ln + 1, min(true_total, (1 << 32) - 1) + 1])))
                    if rng.random() < 0.2:
                        items.append(items[-1])
            # after the refusal / the last block: copies, and the last number once more
            r = rng.random()
            if r < 0.35:
                items.append(it(rng.choice([0, 1]), TOP - off if end == TOP else nb - 1, rng.choice([0, 1])))
            elif r < 0.5:
                items += [it(1, rng.randrange(nb), rng.choice([0, 1])) for _ in range(rng.randrange(1, 3))]
        L.append("crcvo %d %d %d %s %d %d %s" % (single, ln, rng.randrange(256), size2, init, off, ",".join(items[:40])))
    return L


def spec_crcvo(w, i):
    """I-vs-property for a `crcvo` line (from the harness line alone): every follow-up request the client transmits carries a
    Block2 option a CoAP parser accepts (NUM <= 0xFFFFF, RFC7959 2.2; `+q?` = coap_get_block_b refused it) and, unless it
    restarts the transfer at block 0, asks for the block after the one just received in the same size; whatever the handler is
    given is the slice the response carried, at the offset its Block2 option names."""
    single, ln, seed, noff = int(w[1]), int(w[2]), int(w[3]), int(w[6])
    body = mk_body(ln, seed)
    its = [x.split(".") for x in w[7].split(",")]
    outs = i.replace(" UNINIT", "").split(",")
    if len(outs) != len(its):
        return "unparsable (%d items, %d outputs): %s" % (len(its), len(outs), i[:160])
    for x, o in zip(its, outs):
        k, m, szx = int(x[1]), int(x[2]), int(x[3])
        c = 1 << (szx + 4)
        num = k + noff
        if "+q?" in o or "+q!" in o:
            return "the response with Block2 NUM %d (0x%X) M %d was answered with a request whose Block2 option no parser accepts " \
                   "(block number beyond 20 bits): %s" % (num, num, m, o)
        for q in re.finditer(r"\+q(\d+)\.(\d+)", o):
            qn, qs = int(q.group(1)), int(q.group(2))
            if qn > 0xFFFFF or qs > 6:
                return "follow-up request for block %d szx %d: outside the Block2 option: %s" % (qn, qs, o)
            if qn != 0 and (qn != num + 1 or qs != szx or not m):
                return "the response with Block2 NUM %d M %d SZX %d was answered with a request for block %d szx %d: %s" % (num, m, szx, qn, qs, o)
        mm = re.match(r"([hH])(\d+):(\d+):(\d+):([0-9a-f]{8})", o)
        if mm and not (single and mm.group(1) == "H"):
            off, l, h = int(mm.group(2)), int(mm.group(3)), mm.group(5)
            if l and (l > c or off != num * c or h != fnv(body[k * c:k * c + l])):
                return "the response handler was given %s, which is not what the server sent in block %d" % (o, num)
    return None


def generate(ctx, escalate=False):
    n = 3000 if ctx.thorough() else 400
    if escalate:
        n *= 3
    return gen_layer_a(ctx, n) + gen_crcv(ctx.rng, n * 2) + gen_xmit(ctx.rng, n) + gen_rtag(ctx.rng, n) + gen_layer_b(ctx, n * 3) + \
        gen_crcv_hostile(ctx.rng, n * 2) + gen_xmit1_hostile(ctx.rng, n) + gen_srcv_hostile(ctx.rng, n * 2) + \
        gen_crcvs(ctx.rng, n) + gen_ctok(ctx.rng, n) + gen_layer_b_rules(ctx, n) + gen_adlx(ctx.rng, n * 2) + gen_crcvt(ctx.rng, n * 2) + gen_xmit1t(ctx.rng, n * 2) + \
        gen_crcvo(ctx.rng, n)


# --------------------------------------------------------------------------
# judging
# --------------------------------------------------------------------------
def mk_body(ln, seed):
    return bytes((i * 131 + (i // 256) * 17 + seed) & 0xff for i in range(ln))


def fnv(b):
    h = 2166136261
    for x in b:
        h = ((h ^ x) * 16777619) & 0xffffffff
    return "%08x" % h


def crcv_genuine(w):
    """a `crcv` line whose responses could come from a libcoap server: every response carries the slice for its NUM/SZX
    with the right More bit, and the block size never changes during the transfer (coap_handle_request_send_block
    refuses a changed SZX with 4.00 and echoes the requested one otherwise)"""
    ln = int(w[2])
    its = [x.split(".") for x in w[5].split(",")]
    return all(len(x) == 5 and x[2] == its[0][2] and int(x[1]) == (1 if (int(x[0]) + 1) * (1 << (int(x[2]) + 4)) < ln else 0)
               for x in its)


def spec_adlx(w, i):
    """I-vs-property for a sequence of coap_add_data_large_* calls on one session (computed from the harness line alone):
    the release callback of every body handed to libcoap runs exactly once - never twice, never for a body an lg_xmit still
    linked into the session holds, and exactly once by the time the session is freed; a refused call has released its body
    on return; a transfer with the key of the new body does not survive the call next to it"""
    m = re.match(r"(\S+) free=(\S+)$", i)
    if not m:
        return "unparsable: " + i[:160]
    outs, fin = m.group(1).split(","), m.group(2)
    items = w[4].split(",")
    if len(outs) != len(items):
        return "unparsable (%d items, %d outputs): %s" % (len(items), len(outs), i[:160])
    n = 0
    for idx, (it, o) in enumerate(zip(items, outs)):
        f = o.split("/")
        if len(f) != 3:
            return "unparsable item output: " + o
        res, lst, dig = f
        ents = [] if lst == "-" else [tuple(int(x) for x in e.split(":")) for e in lst.split("+")]
        cnt = [] if dig == "-" else [int(c) for c in dig]
        called = it != "x" and res != "nopdu"
        if called:
            n += 1
        if len(cnt) != n:
            return "unparsable counters: " + o
        at = "after item %d (%s -> %s)" % (idx + 1, it, o)
        for b, c in enumerate(cnt):
            hold = sum(1 for e in ents if e[1] == b)
            if c > 1:
                return "the release callback of body %d ran %d times %s" % (b, c, at)
            if c and hold:
                return "the release callback of body %d ran while an lg_xmit linked into the session still holds it %s" % (b, at)
            if c + hold != 1:
                return "body %d was handed to libcoap but its release callback has not run and no linked lg_xmit holds it %s" % (b, at)
        if any(e[0] < 0 or e[1] < 0 or e[1] >= n for e in ents):
            return "the session's lg_xmit list has an entry that is none of the bodies handed over %s" % at
        if len({e[0] for e in ents}) != len(ents):
            return "two transfers with one key are linked into the session %s" % at
        if it == "x" and ents:
            return "an lg_xmit survived its expiry " + at
        if called:
            key, new = int(it.split(".")[0]), n - 1
            if res.startswith("f") or res == "k-":
                if cnt[new] != 1:
                    return "the call returned without an lg_xmit for body %d but its release callback did not run %s" % (new, at)
            elif not (ents and ents[0] == (key, new)):
                return "the call linked an lg_xmit but the head of the session's list is not (key %d, body %d) %s" % (key, new, at)
    if fin != ("1" * n if n else "-"):
        return "after the session was freed the release callbacks of the %d bodies had run %s times" % (n, fin)
    return None


def spec_layer_a(ctx, c):
    """I-vs-S for the pure ops: what the property demands, computed independently of M.  Returns why-string or None."""
    w = c["input"].split()
    i = c["impl"] or ""
    op = w[0]
    if i.startswith("crash"):
        return "the real code crashed: " + i[:200]
    if " UNINIT" in i:
        return "what the application is handed depends on bytes nobody wrote (two runs with different allocation poisons differ): " + i[:160]
    if " LEAK=" in i:
        return "memory allocated by libcoap during this case was not freed when the contexts were: " + i[-40:]
    if "DANGLING" in i:
        return "the refused coap_add_data_large_request left pdu->lg_xmit pointing at the lg_xmit it freed: " + i[:80]
    if op == "benc":
        num, m, szx = map(int, w[1:4])
        if num < (1 << 20) and szx <= 6:
            want = "ok %d %d %d %d %d" % (num, m, szx, szx, 1 << (szx + 4))
            if i.split(" ", 1)[1:] != [want]:
                return "Block option (num=%d, m=%d, szx=%d) does not survive encode/decode: %s" % (num, m, szx, i)
    elif op in ("setup", "writeb"):
        if i.startswith("ok"):
            f = i.split()
            num2, m2, szx2, aszx2, chunk2 = map(int, f[1:6])
            if op == "setup":
                mx, tok, num, blk, total = map(int, w[1:6])
            else:
                mx, tl, num, blk, total = map(int, w[1:6]); tok = tl + 2
            if (num2 << (szx2 + 4)) != (num << (blk + 4)):
                return "after the size reduction (num=%d, szx=%d) addresses offset %d, the block asked for starts at %d" % (
                    num2, szx2, num2 << (szx2 + 4), num << (blk + 4))
            if aszx2 != szx2 or chunk2 != (1 << (szx2 + 4)):
                return "SZX put on the wire (%d) differs from the block size used (%d)" % (aszx2, szx2)
            start = num << (blk + 4)
            if total >= start and m2 != (1 if start + chunk2 < total else 0):
                return "M bit %d wrong for offset %d, chunk %d, total %d" % (m2, start, chunk2, total)
            if op == "writeb" and len(f) > 6 and f[6].startswith("v"):
                v = int(f[6][1:], 16) if f[6] != "v-" else 0
                if (v >> 4, (v >> 3) & 1, v & 7) != (num2, m2, szx2):
                    return "Block option written %s does not encode (num=%d, m=%d, szx=%d)" % (f[6], num2, m2, szx2)
    elif op == "adl":
        if i.startswith("ok"):
            if "fits=1" not in i:
                return "first block message exceeds the maximum size it was given: " + i
            if "WRONGDATA" in i:
                return "first block payload is not the start of the body"
        if not re.search(r"rel=1$", i):
            return "release callback did not run exactly once: " + i
    elif op == "adlx":
        why = spec_adlx(w, i)
        if why:
            return why
    elif op == "slice":
        szx, num, ln, seed = map(int, w[1:5])
        cs = 1 << (szx + 4)
        body = mk_body(ln, seed)
        off = num * cs
        want = "none" if off >= ln else "ok %d %d %s" % (off, min(cs, ln - off), fnv(body[off:off + cs]))
        if i != want:
            return "block %d at szx %d of a %d-byte body: got %s, the slice is %s" % (num, szx, ln, i, want)
    elif op == "rb":
        seq = [] if w[1] == "-" else [int(x) for x in w[1].split(",")]
        pm, tm = int(w[2]), int(w[3])
        m = re.match(r"r=(\S*) ranges=(\S+) recv=(\S+) all=(\S+) next=(\S+)$", i)
        if not m:
            return "unparsable: " + i
        flags, ranges, recv, allin, nxt = m.groups()
        if "!" in flags:
            return "a refused insertion modified the ranges"
        acc = set()
        for n, f in zip(seq, flags):
            if f == "1":
                acc.add(n)
            elif n in acc:
                return "re-inserting an accepted block was refused"
        rs = [] if ranges == "-" else [tuple(map(int, r.split("-"))) for r in ranges.split(",")]
        den = set()
        prev_end = None
        for b, e in rs:
            if b > e or (prev_end is not None and b <= prev_end + 1):
                return "ranges not sorted/disjoint/non-adjacent: " + ranges
            prev_end = e
            den |= set(range(b, e + 1))
        if den != acc:
            return "ranges %s do not represent the accepted set %s" % (ranges, sorted(acc))
        if len(rs) > 3 + 100:
            return "too many ranges"
        for k in range(pm + 1):
            if (recv[k] == "1") != (k in acc):
                return "membership of block %d wrong" % k
        for t in range(tm + 1):
            # exactness is claimed for a non-empty set all of whose members are < t (what the callers guarantee)
            if acc and max(acc) < t and (allin[t] == "1") != all(k in acc for k in range(t)):
                return "all-blocks-in(%d) wrong for accepted set %s" % (t, sorted(acc))
    elif op == "bbody":
        ln, seed = int(w[1]), int(w[2])
        body = mk_body(ln, seed)
        # if the stores follow the receiver's discipline (total = max so far, every block stored) the result is the body
        items = [tuple(map(int, x.split(":"))) for x in w[3].split(",")] if w[3] != "-" else []
        # the receiver's discipline (coap_handle_request_put_block): total_len starts at the announced size and only
        # grows to the end of the block being stored
        tl, ok, cov = None, True, set()
        for off, l, total in items:
            if tl is None:
                ok = ok and total >= off + l
            else:
                ok = ok and total == max(tl, off + l)
            tl = total
            cov |= set(range(off, off + l))
        if ok and items and all(t <= ln for _, _, t in items) and cov == set(range(ln)):
            want = "len=%d h=%s" % (ln, fnv(body))
            if i != want:
                return "all blocks stored but the buffer is not the body: %s vs %s" % (i, want)
    elif op == "srcv2":
        ln, seed = int(w[2]), int(w[3])
        body = mk_body(ln, seed)
        # what a sender of that body could send: the slice for NUM/SZX inside the body, with the right More bit
        hostile = not all(len(x) == 3 and int(x[0]) * (16 << int(x[2])) < ln and
                          int(x[1]) == (1 if (int(x[0]) + 1) * (16 << int(x[2])) < ln else 0)
                          for x in (y.split(".") for y in w[5].split(",")))
        for o in i.split(","):
            if o.startswith("d"):
                f = o[1:].split(":")
                # EVERY line: every payload is cut from the one body at the offset its Block1 option names, so whatever the
                # request handler is handed must be the first bytes of it
                if f[0] != "0" or int(f[1]) > ln or f[3] != fnv(body[:int(f[1])]):
                    return "the request handler was given %s: not the first %s bytes of what the client sent (%s)" % (o, f[1], fnv(body[:int(f[1])]))
                if hostile:
                    continue
                # the single-block shortcut (num 0, M 0) hands over just that payload: only whole-body deliveries are judged
                if int(f[1]) == ln and (f[0] != "0" or f[3] != fnv(body)):
                    return "the handler was given %s, the sender's body is %d bytes hash %s" % (o, ln, fnv(body))
                if int(f[1]) != ln and not any(x.split(".")[0] == "0" and x.split(".")[1] == "0" for x in w[5].split(",")):
                    return "the handler was given %s bytes of a %d-byte body" % (f[1], ln)
    elif op == "xmit1t":
        why = spec_xmit1t(w, i)
        if why:
            return why
    elif op == "crcvt":
        why = spec_crcvt(w, i)
        if why:
            return why
    elif op == "crcvo":
        why = spec_crcvo(w, i)
        if why:
            return why
    elif op == "ctok":
        # the handler must be shown the application's token of the transfer the abandoned PDU's token was derived from
        ents = lambda x: [] if x == "-" else [(e.split("/")[0], int(e.split("/")[1])) for e in x.split(",")]
        cr, xm = ents(w[3]), ents(w[4])
        seen = cr + (xm if w[1] != "0" else [])
        tokb = bytes.fromhex(w[2]) if w[2] != "-" else b""
        base = int.from_bytes(tokb[:8], "big") & ((1 << 44) - 1)
        # every token libcoap derives from a state token carries a retry count >= 1 in its upper 20 bits; a token without one is
        # the application's own, whatever its value (fix f4071ae; thorough seed 13: token 16 next to state token 0x100000000016)
        derived = (int.from_bytes(tokb[:8], "big") >> 44) != 0
        if derived and not any(a == w[2] for a, _ in cr + xm):
            cand = {a for a, st in seen if (st & ((1 << 44) - 1)) == base}
            if len(cand) == 1 and i != list(cand)[0]:
                return "the abandoned PDU carries a token libcoap derived from the state token of the transfer with application token %s, " \
                       "which the session still holds; the NACK handler is shown token %s" % (list(cand)[0], i)
    elif op in ("crcv", "crcvs"):
        if op == "crcvs":
            # normalise to the crcv form; u = 1: the response came without a request PDU (`sent` NULL)
            us = [int(x.split(".")[0]) for x in w[6].split(",")]
            init = int(w[5])
            w = ["crcv", w[1], w[2], w[3], w[4], ",".join(x.split(".", 1)[1] for x in w[6].split(","))]
            outs = i.replace(" UNINIT", "").split(",")
            state = "I" if init else "-"
            finals = 0
            for u, o in zip(us, outs):
                handed = re.match(r"[hH]\d+:", o)
                if u and state == "-" and handed:
                    return "a Block2 response that answers no outstanding request and belongs to no transfer the session holds (a " \
                           "duplicate / late copy once the transfer is over) was handed to the response handler: " + o
                if o.startswith("H"):
                    finals += 1
                state = o.rsplit("/", 1)[1] if "/" in o else state
            if all(us) and finals > 1:
                return "Non-confirmable transfer: the body / the completing block was handed to the response handler %d times" % finals
        single, ln, seed = int(w[1]), int(w[2]), int(w[3])
        body = mk_body(ln, seed)
        its = [x.split(".") for x in w[5].split(",")]
        genuine = crcv_genuine(w)
        # EVERY line, hostile or not: every payload the harness sends is cut from the one body at the offset its Block2
        # option names, so a reassembled body must be a prefix of it and a block / random-access delivery that very slice
        for o in i.split(","):
            mm = re.match(r"([hH])(\d+):(\d+):(\d+):([0-9a-f]{8})", o)
            if not mm:
                continue
            kind, off, l, tot, h = mm.group(1), int(mm.group(2)), int(mm.group(3)), int(mm.group(4)), mm.group(5)
            if single and kind == "H":
                if off != 0 or l > ln or h != fnv(body[:l]):
                    return "the response handler was given %s as the body: not the first %d bytes of what the server sent (%s)" % (o, l, fnv(body[:l]))
            elif l and (off + l > ln or h != fnv(body[off:off + l])):
                return "the response handler was given %s, which is not what the server sent for that offset" % o
        if genuine:
            for o in i.split(","):
                mm = re.match(r"([hH])(\d+):(\d+):(\d+):([0-9a-f]{8})", o)
                if not mm:
                    continue
                kind, off, l, tot, h = mm.group(1), int(mm.group(2)), int(mm.group(3)), int(mm.group(4)), mm.group(5)
                if single and kind == "H" and (off != 0 or l != ln or h != fnv(body)):
                    return "the response handler was given %s as the body; the server's body is %d bytes hash %s" % (o, ln, fnv(body))
                if not single and (off + l > ln and l or h != fnv(body[off:off + l])):
                    return "the response handler was given %s, which is not a slice of the server's body" % o
    elif op in ("xmit1", "xmit2"):
        ln, seed = int(w[2]), int(w[3])
        body = mk_body(ln, seed)
        if not re.search(r" rel=1$", i):
            return "release callback did not run exactly once for the body handed to libcoap: " + i[-40:]
        parts = re.sub(r" rel=\d+$", "", i).split(" ")
        outs = [parts[0]] + (parts[2].split(",") if len(parts) > 2 else [])
        items = [None] + (w[5].split(",") if w[5] != "-" else [])
        cur = re.search(r" lg=(-?\d+)", i)
        cur = int(cur.group(1)) if cur else -1
        larger = False           # (a 2.31 asking for a larger size is ignored since fix 650c3a2: the More bit is always judged)
        for it, o in zip(items, outs):
            st = re.search(r"/(\d+)\.\d+\.-?\d+$", o)
            if st:
                cur = int(st.group(1))
            mm = re.match(r"b(\d+)\.(\d+)\.(\d+):(\d+):([0-9a-f]{8})", o)
            if not mm:
                continue
            num, m_, sz, l, h = int(mm.group(1)), int(mm.group(2)), int(mm.group(3)), int(mm.group(4)), mm.group(5)
            cs = 1 << (sz + 4)
            if num * cs >= ln or l != min(cs, ln - num * cs) or h != fnv(body[num * cs:num * cs + l]):
                return "block message %s does not carry the slice of the body for its NUM/SZX" % o
            if not larger and m_ != (1 if (num + 1) * cs < ln else 0):
                return "block message %s has the wrong More bit for a %d-byte body" % (o, ln)
    elif op == "srcv3":
        lens, seeds = [int(w[2]), int(w[4])], [int(w[3]), int(w[5])]
        bodies = [mk_body(l, sd) for l, sd in zip(lens, seeds)]
        its = [tuple(map(int, x.split("."))) for x in w[7].split(",")]
        keys = [sorted({x[4] for x in its if x[0] == t}) for t in (0, 1)]
        # the two transfers are told apart by their Request-Tag (absent, EMPTY and every value are different keys)
        if all(len(k) <= 1 for k in keys) and (not keys[0] or not keys[1] or keys[0] != keys[1]):
            delivered = [0, 0]
            for o in i.split(","):
                if not o.startswith("d"):
                    continue
                f = o[1:].split("/")[0].split(":")
                hit = [t for t in (0, 1) if f[0] == "0" and int(f[1]) == lens[t] and f[3] == fnv(bodies[t])]
                if not hit:
                    return "the handler was given %s, which is neither sender's body (%d bytes %s / %d bytes %s)" % (
                        o, lens[0], fnv(bodies[0]), lens[1], fnv(bodies[1]))
                delivered[hit[0]] += 1
            for t in (0, 1):
                mine = [x for x in its if x[0] == t]
                if not mine:
                    continue
                c_ = 1 << (mine[0][3] + 4)
                nb = (lens[t] + c_ - 1) // c_
                # every block of the body arrived exactly once (any order): it must have been delivered exactly once
                if sorted(x[1] for x in mine) == list(range(nb)) and all(x[3] == mine[0][3] for x in mine) and nb > 1 \
                        and not (len(w) > 1 and int(w[1]) and int(w[1]) < mine[0][3]):
                    if [x[1] for x in mine] == list(range(nb)) and delivered[t] != 1:
                        return "transfer %d (Request-Tag code %d): every block arrived once, in order, yet %d deliveries" % (t, mine[0][4], delivered[t])
                    if delivered[t] > 1:
                        return "transfer %d delivered %d times" % (t, delivered[t])
    elif op == "srcv":
        szx, ln, seed = int(w[1]), int(w[2]), int(w[3])
        body = mk_body(ln, seed)
        outs = i.split(",")
        nd = 0
        for o in outs:
            if o.startswith("d"):
                nd += 1
                f = o[1:].split(":")
                if f[0] != "0" or int(f[1]) > ln or f[3] != fnv(body[:int(f[1])]):
                    return "the request handler was given %s: not the first %s bytes of what the client sent (%s)" % (o, f[1], fnv(body[:int(f[1])]))
                if f[0] != "0" or int(f[1]) != ln or f[3] != fnv(body):
                    # only blocks that are genuine slices of the body are ever sent (len overrides make short blocks: skip those)
                    if not any(x.count(":") == 2 for x in w[5].split(",")):
                        return "the handler was given %s, the sender's body is %d bytes hash %s" % (o, ln, fnv(body))
        # at most once while the state lives: a second delivery needs all blocks again
    return None


def judge(ctx, c):
    if c["input"].startswith("xfer"):
        return judge_xfer(ctx, c)
    i, m = c["impl"], c["model"]
    if m == "bad-op" and not (i or "").startswith("bad-op"):
        return ("tie", "no model step for this op")
    why = spec_layer_a(ctx, c)
    if why:
        return ("spec", why)
    if m == "big" and c["input"].startswith("srcv "):
        return None                 # Size1 beyond what the model can evaluate: judged against the specification only
    ii = re.sub(r" rel=\d+$", "", i or "")
    if ii != m:
        return ("tie", "implementation `%s` but model M says `%s`" % (short(ii), short(m)))
    return None


def parse_xfer(line):
    w = line.split()
    d = {"dir": "put" if w[1] in ("pute", "putt", "puts") else w[1], "dir0": w[1], "len": [int(w[2])], "seed": [int(w[3])], "cszx": None if w[4] == "-" else int(w[4]),
         "sszx": None if w[5] == "-" else int(w[5]), "mtu": int(w[6]), "con": int(w[7]), "single": int(w[8]), "sched": w[9]}
    if len(w) == 12:
        d["len"].append(int(w[10])); d["seed"].append(int(w[11]))
    return d


def judge_xfer(ctx, c):
    """I-vs-S for a whole transfer: the property's clauses checked on the trace of the real client + server."""
    x = parse_xfer(c["input"])
    i = c["impl"] or ""
    if i.startswith("bad-op"):
        return ("tie", "the harness refused the line")
    if i.startswith("crash") or not i or "end:" not in i:
        return ("spec", "the transfer crashed or hung the real code: " + i[:200])
    if " LEAK=" in i:
        return ("spec", "memory allocated by libcoap during this transfer was not freed when the contexts were: " + i[-40:])
    bodies = [mk_body(l, s) for l, s in zip(x["len"], x["seed"])]
    ntr = len(bodies)
    toks = i.split()
    if "txcap" in toks:
        return None                              # harness limit (datagram store full): nothing is judged
    lossless = x["dir"] == "rawput" or set(x["sched"]) <= {"d", "-"}
    # D6: a duplicated REQUEST datagram is a new request.  A duplicated / delayed RESPONSE is not: the receiving side must cope.
    duplicated = x["dir"] == "rawput" and len(set(x["sched"].split(","))) != len(x["sched"].split(","))
    deliveries = [[] for _ in range(ntr)]       # what the RECEIVING application got: (off, total, len, hash)
    final = [[] for _ in range(ntr)]            # client-side response handler calls (code)
    nacks = [0] * ntr
    rel = None
    con_tx = {}                                 # client CON mid -> [transmissions, transfer]
    blockwise = [False, False]                  # per transfer: more than one block was involved (seen on its first exchange)
    tokmap = {}                                 # token (hex) seen in a client request -> transfer index
    raw = []                                    # handler calls that showed a token the application never chose
    for t in toks:
        f = t.split(":")
        if f[0] == "tx":
            if f[2] == "unparsable":
                return ("spec", "unparsable datagram written")
            if int(f[13]) > x["mtu"]:
                return ("spec", "datagram of %s bytes exceeds the session MTU %d: %s" % (f[13], x["mtu"], t))
            for bf in (f[5], f[6]):
                if bf not in ("-", "bad") and (bf.split(".")[0] != "0" or bf.split(".")[1] == "1") and f[4] in ("app1", "app2"):
                    blockwise[int(f[4][3]) - 1] = True
            which = int(f[15]) if len(f) > 15 else 0
            if f[1] == "c" and f[2] == "C":
                e = con_tx.setdefault(f[14], [0, which])
                e[0] += 1
            if f[1] == "c" and len(f) > 17:
                if which and f[16] != "-":
                    tokmap.setdefault(f[16], which - 1)
                if f[17] in ("2", "z") and 1 <= int(f[3]) <= 31:
                    duplicated = True
        elif f[0] == "req" and x["dir"] in ("put", "rawput"):
            deliveries[int(f[1]) - 1].append((int(f[2]), int(f[3]), int(f[4]), f[5]))
        elif f[0] == "rsp":
            code = int(f[2])
            if f[1] not in ("app1", "app2"):
                # a token the application never chose.  Whose transfer is it, and does libcoap still know ?
                k = tokmap.get(f[9]) if len(f) > 9 else None
                held = len(f) > 10 and f[10] == "1"
                unsolicited = len(f) > 8 and f[7] not in ("-", "bad") and f[8] == "0"
                raw.append(("live" if held else ("unsolicited" if unsolicited else "late"), "response", t))
                if k is not None and k < ntr and x["dir"] == "get" and code == 69:
                    deliveries[k].append((int(f[3]), int(f[4]), int(f[5]), f[6]))
                continue
            k = int(f[1][3]) - 1
            final[k].append(code)
            if x["dir"] == "get" and code == 69:
                deliveries[k].append((int(f[3]), int(f[4]), int(f[5]), f[6]))
        elif f[0] == "nack":
            if f[1] == "nopdu":
                continue
            if f[1] not in ("app1", "app2"):
                held = len(f) > 4 and f[4] == "1"
                raw.append(("live" if held else "late", "nack", t))
                continue
            nacks[int(f[1][3]) - 1] += 1
        elif f[0] == "relcount":
            rel = [int(f[1]), int(f[2])]
    if x["dir0"] == "puts" and ntr == 2:
        # both transfers go to the same resource: a delivery is attributed to the body it equals
        for dlv in list(deliveries[0]):
            if (dlv[2], dlv[3]) == (x["len"][1], fnv(bodies[1])) and (dlv[2], dlv[3]) != (x["len"][0], fnv(bodies[0])):
                deliveries[0].remove(dlv)
                deliveries[1].append(dlv)
    nreq = [sum(1 for t in toks if t.startswith("req:%d:" % (k + 1))) for k in range(ntr)]
    exhausted = any(n >= 5 for n, _ in con_tx.values())     # 1 + MAX_RETRANSMIT transmissions of one Confirmable message
    verdict = None
    for k in range(ntr):
        body, ln = bodies[k], x["len"][k]
        dl = deliveries[k]
        refused = ("adl-fail:%d" % (k + 1)) in toks or ("adlr-fail:%d" % (k + 1)) in toks
        if ("adl-fail:%d" % (k + 1)) in toks:
            # coap_add_data_large_request() returned 0: the application was told (explicit failure, D15), nothing was sent
            if dl or final[k] or (rel is not None and rel[k] != 1):
                return ("spec", "transfer %d refused by coap_add_data_large_request but deliveries=%d responses=%s release=%s" % (
                    k + 1, len(dl), final[k], rel))
            continue
        if x["single"]:
            for (off, total, l, h) in dl:
                if off != 0 or l != ln or h != fnv(body):
                    return ("spec", "transfer %d: the application was handed %d bytes at offset %d (hash %s); the sender's body is "
                                    "%d bytes (hash %s)" % (k + 1, l, off, h, ln, fnv(body)))
            # a duplicated REQUEST datagram is a new request (D6); a body that fits one message is not a block-wise transfer
            if len(dl) > 1 and not duplicated and (blockwise[k] or x["dir"] == "rawput"):
                return ("spec", "transfer %d: body delivered %d times" % (k + 1, len(dl)))
        else:
            for (off, total, l, h) in dl:
                if off + l > ln or h != fnv(body[off:off + l]) or (l == 0 and ln != 0):
                    return ("spec", "transfer %d: block (offset %d, len %d, hash %s) is not a slice of the sender's body" % (k + 1, off, l, h))
            if lossless and ln and not refused:
                offs = sorted((o, l) for (o, _, l, _) in dl)
                pos = 0
                for o, l in offs:
                    if o != pos:
                        return ("spec", "transfer %d: delivered blocks do not tile the body exactly: %s" % (k + 1, offs[:8]))
                    pos = o + l
                if pos != ln:
                    return ("spec", "transfer %d: delivered blocks cover %d of %d bytes" % (k + 1, pos, ln))
            elif x["dir"] == "get" and blockwise[k] and not duplicated and nreq[k] == 1:
                # one body was served (one GET handler call) and no request datagram was duplicated: whatever the network did to
                # the RESPONSES, no offset may reach the handler twice
                offs = [o for (o, _, l, _) in dl if l]
                if len(offs) != len(set(offs)):
                    return ("spec", "transfer %d: a block was handed to the response handler twice: offsets %s" % (k + 1, sorted(offs)[:12]))
        if x["dir"] != "rawput":
            ok_code = 68 if x["dir"] == "put" else 69
            succ = [cd for cd in final[k] if cd == ok_code]
            errs = [cd for cd in final[k] if cd >= 128]
            if lossless and refused:
                # the server application's coap_add_data_large_response() returned 0: explicit failure iff the client sees an error
                if dl or not errs:
                    return ("spec", "transfer %d: the server refused the body (no room) but the client saw %s, deliveries %d" % (
                        k + 1, final[k], len(dl)))
            elif lossless:
                if x["single"] and len(dl) != 1 and (x["dir"] == "get" or ln > 0):
                    return ("spec", "transfer %d: nothing lost or duplicated, yet %d deliveries (responses seen by the client: %s)" % (
                        k + 1, len(dl), final[k]))
                if not succ or (x["single"] and len(succ) != 1):
                    return ("spec", "transfer %d: nothing lost or duplicated, yet the client saw responses %s" % (k + 1, final[k]))
            # "if a Confirmable exchange is abandoned the requester is told": abandoned = the client gave up retransmitting
            if x["con"] and exhausted and not succ and not sum(nacks) and not errs and ntr == 1 and not raw:
                return ("spec", "transfer %d: Confirmable message retransmitted to exhaustion without a NACK or an error response" % (k + 1))
            # … and told about THAT exchange: a message of transfer k was given up, so transfer k's token must show up in a NACK
            # or in a final response
            if x["con"] and any(n >= 5 and wh == k + 1 for n, wh in con_tx.values()) and not final[k] and not nacks[k] and not raw:
                return ("spec", "transfer %d: one of its Confirmable messages was retransmitted to exhaustion, but neither a NACK nor any "
                                "response with its token reached the application" % (k + 1))
            # one release per body handed to libcoap: one per PUT, one per GET handler call that supplied the body
            want_rel = 1 if x["dir"] == "put" else nreq[k]
            if rel is not None and rel[k] != want_rel:
                return ("spec", "transfer %d: release callback ran %d times for %d bodies handed to libcoap" % (k + 1, rel[k], want_rel))
    if x["con"] and exhausted and ntr == 2 and not sum(nacks) and not any(cd >= 128 for f_ in final for cd in f_) and \
            not all(any(cd in (68, 69) for cd in f_) for f_ in final) and not raw:
        return ("spec", "Confirmable message retransmitted to exhaustion without a NACK or an error response")
    # handlers only ever see the application's own token.  `live`: at the time of the call the session still holds the lg_crcv /
    # lg_xmit the token belongs to - libcoap has everything it needs to put the application's token back.  `unsolicited`: a Block2
    # response without lg_crcv and without request, which coap_handle_response_get_block drops.  `late`: the open finding (the
    # transfer's state is gone and libcoap keeps no record of the tokens it used).
    for cls in ("live", "unsolicited", "late"):
        for (c_, what, t) in raw:
            if c_ == cls:
                return ("spec", "%s: %s handler saw a token the application never chose%s: %s" % (
                    cls, what, {"live": " while libcoap still holds the transfer it belongs to",
                                "unsolicited": " on a Block2 response that belongs to no transfer and answers no request",
                                "late": ""}[cls], t))
    return None


def gen_layer_b(ctx, n):
    rng = ctx.rng
    L = []
    def sched(k):
        r = rng.random()
        if r < 0.35:
            return "-"
        return "".join(rng.choice("dddddx2" if r < 0.8 else "ddx2x") for _ in range(k))
    for _ in range(n):
        d = rng.choice(["put", "put", "get", "get", "pute", "putt", "pute"])
        cszx = rng.choice([None, None, 0, 1, 2, 3, 4, 5, 6])
        sszx = rng.choice([None, None, None, 0, 1, 2, 3, 4, 5, 6])
        szx = min(v for v in (cszx, sszx, 6) if v is not None)
        c = 1 << (szx + 4)
        mtu = rng.choice([1152, 1152, 1500, 64 + rng.randrange(0, 200), rng.randrange(64, 1300), c + rng.randrange(40, 120)])
        kmax = min(40, 65536 // c)
        ln = rng.choice([rng.randrange(kmax + 1) * c + rng.choice([-1, 0, 1]), rng.randrange(0, kmax * c + 2)])
        ln = max(0, min(65536, ln))
        if rng.random() < 0.03:
            ln = rng.choice([65535, 65536, 65536 - c, 40000])
            if c < 256:
                ln = ln % (60 * c)
        ceff = min(c, max(16, 1 << max(4, (max(mtu - 75, 16)).bit_length() - 1)))
        ln = min(ln, 1200 * ceff)
        con = rng.choice([1, 1, 0])
        single = rng.choice([1, 1, 0])
        line = "xfer %s %d %d %s %s %d %d %d %s" % (d, ln, rng.randrange(256), "-" if cszx is None else cszx,
                                                   "-" if sszx is None else sszx, mtu, con, single, sched(rng.randrange(4, 14)))
        if rng.random() < 0.15:
            line += " %d %d" % (max(0, min(65536, 600 * ceff, rng.randrange(kmax + 1) * c + rng.choice([-1, 0, 1]))), rng.randrange(256))
            line = line.replace(" %d " % ln, " %d " % min(ln, 600 * ceff), 1) if ln > 600 * ceff else line
            if d.startswith("put") and single and rng.random() < 0.5:
                # two concurrent transfers to ONE resource that only the Request-Tag tells apart (EMPTY vs 1 byte)
                w_ = line.split()
                if (w_[2], w_[3]) != (w_[10], w_[11]) and int(w_[2]) > 0 and int(w_[10]) > 0:
                    w_[1] = "puts"
                    line = " ".join(w_)
        L.append(line)
    # hand-built Block1 transfers WITHOUT Size1 (a peer that is not libcoap), in order and out of order
    for _ in range(n // 4):
        szx = rng.randrange(3)
        c = 1 << (szx + 4)
        nb = rng.randrange(1, 7)
        ln = nb * c - rng.choice([0, 0, 1, c - 1])
        order = list(range(nb))
        if rng.random() < 0.5:
            rng.shuffle(order)
        if rng.random() < 0.3:
            order.insert(rng.randrange(len(order) + 1), rng.randrange(nb))
        L.append("xfer rawput %d %d %d - 1152 %d 1 %s" % (ln, rng.randrange(256), szx, rng.choice([0, 1]), ",".join(map(str, order))))
    return L


def gen_layer_b_rules(ctx, n):
    """whole transfers under content-keyed faults (what positional schedules over the first dozen datagrams hardly ever reach):
    the datagram with block k - first, middle, LAST - of a given transfer is delivered twice / delivered again seconds later
    (after the transfer was concluded) / lost once / lost for good together with all its retransmissions (the exchange is
    abandoned); one transfer or two concurrent ones on the session, the faults hitting the older or the younger one; GET and
    PUT, CON and NON, both delivery modes, with and without positional noise"""
    rng = ctx.rng
    L = []
    for _ in range(n):
        d = rng.choice(["get", "get", "get", "put", "put", "putt"])
        szx = rng.choice([0, 1, 2, 2, 3, 4, 6])
        c = 1 << (szx + 4)
        side = rng.choice(["c", "s", "c"])
        cszx, sszx = (szx, None) if side == "c" else (None, szx)
        mtu = rng.choice([1152, 1152, 1500, c + rng.randrange(90, 200)])
        nbs = [rng.choice([2, 2, 3, 3, 4, 5, 7]) for _ in (0, 1)]
        lens = [nb * c - rng.choice([0, 0, 1, c - 1, rng.randrange(c)]) for nb in nbs]
        two = rng.random() < 0.45
        kind = rng.choice(["dup", "dup", "late", "late", "abandon", "abandon", "abandon", "lose1", "mix"])
        con = 1 if kind == "abandon" else rng.choice([1, 0, 0])
        single = rng.choice([1, 1, 0])
        rules = []
        for _ in range(1 if kind != "mix" else rng.randrange(1, 4)):
            who = rng.choice([1, 2]) if two else 1
            nb = nbs[who - 1]
            num = rng.choice(["L", "L", 0, 1, nb - 1, max(0, nb - 2), rng.randrange(nb + 1)])
            sd = rng.choice("qr")
            if num == "L" and d == "get":
                sd = "r"
            k = rng.choice(["dup", "late", "abandon", "lose1"]) if kind == "mix" else kind
            if k == "abandon":
                if not con:
                    k = "lose1"
                elif rng.random() < 0.75:
                    sd = "q"
            fate = {"dup": "2", "late": "z%s" % rng.choice(["", "", "300", "900", "1500", "9000", "100000"]), "abandon": "x", "lose1": "1"}[k]
            numtxt = str(num) + ("." if fate in ("1", "2") and num not in ("L", "*") else "")
            rules.append("~%d%s%s%s" % (who, sd, numtxt, fate))
        base = "-" if rng.random() < 0.7 else "".join(rng.choice("dddddx2") for _ in range(rng.randrange(3, 10)))
        line = "xfer %s %d %d %s %s %d %d %d %s" % (d, lens[0], rng.randrange(256), "-" if cszx is None else cszx,
                                                   "-" if sszx is None else sszx, mtu, con, single, base + "".join(rules))
        if two:
            line += " %d %d" % (lens[1], rng.randrange(256))
        L.append(line)
    return L


def short(s):
    return s if s is None or len(s) < 200 else s[:190] + "…"


def nontrivial(c):
    i = c["impl"] or ""
    return not (i.startswith("bad-op") or i in ("rej", "fail", "none", "null", "illegal", "nospace"))


def classify(c):
    w = c["input"].split()
    return w[0]


def search(ctx, tie_breaks, proof):
    return gen_layer_a(ctx, 1500) + gen_crcv(ctx.rng, 3000) + gen_xmit(ctx.rng, 1500) + gen_rtag(ctx.rng, 1500) + \
        gen_crcv_hostile(ctx.rng, 3000) + gen_xmit1_hostile(ctx.rng, 1500) + gen_srcv_hostile(ctx.rng, 3000) + \
        gen_crcvs(ctx.rng, 1500) + gen_ctok(ctx.rng, 1500) + gen_layer_b_rules(ctx, 600) + gen_adlx(ctx.rng, 1500) + gen_crcvt(ctx.rng, 1500) + gen_xmit1t(ctx.rng, 1500) + gen_crcvo(ctx.rng, 1500)


def known(ctx, c):
    """open findings (KNOWN_FINDINGS.txt): exactly the failing classes described there"""
    if not c["input"].startswith("xfer"):
        return None
    why = c.get("why", "")
    # a response / nack carrying the wire token reaches the handler AFTER the transfer was concluded at the client
    # (its lg_xmit / lg_crcv is gone): libcoap does not track which tokens are outstanding
    if why.startswith("late: response handler saw a token") or why.startswith("late: nack handler saw a token"):
        return "c09-late-message-raw-token"
    return None


# ---- T1X: the numerals of this property's models are tied to the current tree.  extract/consts2*.c + a source scan
# rewrite lean/CoapVerif/Generated/Consts2.lean on every check; Props/C09Consts.lean proves `<model numeral> =
# Generated.C2.<name>` (design/T1.md).  A changed macro / struct size / literal breaks one of these named obligations.
LEAN_MODULES = list(LEAN_MODULES) + ["CoapVerif.Props.C09Consts"]
REQUIRED_THEOREMS = list(REQUIRED_THEOREMS) + ["block2_next_request_20bit", 
    "blockNumMax_matches_code",
    "getBlockB_matches_code",
    "stateTokenBase_matches_code",
    "stateTokenShift_matches_code",
    "blockConst_matches_code",
    "blockMaxSize_matches_code",
]
TRUSTED_BASE = list(TRUSTED_BASE) + ["T1 extractors extract/consts2.c, consts2_net.c, consts2_opt.c and the source scan vlib/tables.py scan_consts2 (Generated/Consts2.lean)"]
_t1x_prev_extract = globals().get("extract")


def extract(ctx):
    from vlib import tables
    return (_t1x_prev_extract(ctx) if _t1x_prev_extract else []) + tables.extract_consts2()
