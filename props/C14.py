"""C14 — OSCORE matches RFC 8613, round-trips, tampering is rejected (DESIGN.md §4 C14, design/C14.md)."""
import os, re
from vlib import common as C, coapgen as G

MANIFEST = {
    "category": "proof",
    "text": "S is an independent RFC 8613 implementation in Lean (CBOR subset, info/HKDF-SHA-256 key derivation, nonce, "
            "external_aad/Enc_structure, option compression, class E/U split, AES-128-CCM-16-64 written from FIPS 197/180-4, RFC 2104/5869/"
            "3610). Theorems (all ∀): unprotect_protect (unprotect ctxR (protect ctxS m) = ok m for requests, and = m with the "
            "recipient-derived Observe value for responses with or without their own Partial IV; every block cipher, matching "
            "contexts, every message with sorted encodable options — the inner RFC 7252 option-codec round trip is proved from C01's "
            "13/14-scheme lemmas), ccm_roundtrip (for every block function), tamper_detected_iff_tag_mismatch, option_value_roundtrip, "
            "split_merge_inverse(_response); injectivity of what the tag covers: cbor_head_injective/cbor_bstr_injective (injective and "
            "prefix-free, arguments < 2^64), aad_injective (external_aad and Enc_structure determine alg, kid, piv), nonce_injective "
            "(minimal-length Partial IVs of any lengths) with distinct_piv_distinct_nonce for C15; libcoap's helpers (M) equal S: "
            "aad_eq_spec, nonce_eq_spec, option_value_eq_spec (encode and decode), split_eq_spec (protect split and decrypt merge), "
            "info_eq_spec. Sequences of exchanges on one context pair (state: token -> binding of the request it answers): "
            "association_tracks_latest_request (for every sequence of requests with fresh or re-used tokens and of arriving datagrams "
            "- genuine, late, duplicated, forged - the client's binding of a token is kid/Partial IV/nonce of the latest request sent "
            "with it; induction over the step list), association_tracks_latest_request_impl (the same for libcoap's association list "
            "with its update rule on re-use: aad, nonce and partial_iv all replaced), response_inputs_eq_spec (the nonce and the rebuilt "
            "AAD libcoap's client verifies a response with are RFC 8613 8.4's for that binding), rejected_response_keeps_binding, "
            "sequence_roundtrip (for every sequence and every token still bound: the server that verifies the latest request obtains "
            "the same binding, and every response it protects for it, with or without its own Partial IV, is accepted and yields the "
            "server's message; composes unprotect_protect_request/_response), sequence_roundtrip_server (the same with the form the "
            "server really sends: own Partial IV iff asked for, or the response carries Observe, or it answers an Observe request), "
            "observe_request_response_own_piv (a response to an Observe request is protected under the server's own Partial IV and "
            "does not depend on the nonce of the request), request_nonce_at_most_once (a response protected with the nonce of its "
            "request consumes the binding: no second response under that nonce), rejected_request_keeps_bindings (a request that does "
            "not verify leaves every binding - S - and libcoap's association list - M - unchanged), observe_request_own_piv_impl "
            "(libcoap's server session takes the Partial IV branch for every response to an Observe request). On every run the real libcoap protects and unprotects "
            "generated exchanges (all methods/response codes, option mixes incl. Observe/Block/Proxy-Scheme, payload to 1 KiB, ids 0..7 "
            "bytes, ID context/salt present/absent, Partial IV 0..2^40-2) and its datagrams and recovered messages must equal S's byte for "
            "byte (RFC 8613 Appendix C vectors included); SEQUENCES of 2-6 requests on one client/server session pair (token re-use "
            "after lost or held-back responses and after requests lost on the way, late responses to superseded requests, duplicates, "
            "Observe registration with several notifications in and out of order, re-registration and cancellation under the same "
            "token, responses with and without their own Partial IV) are compared step by step with S (datagrams, recovered messages, "
            "rejections) and the client's association store after every step with M; exchanges with a SERVER THAT HOLDS 1-4 CONTEXTS "
            "(1-3 Recipient IDs each; equal Recipient IDs - also the empty one - under different ID Contexts, equal ID Contexts with "
            "different Recipient IDs, contexts without ID Context, the client's context first / later / absent) are compared with S "
            "byte for byte and the selected (context, recipient) position with M, and stores built step by step through the API "
            "(coap_context_oscore_server, coap_new/delete_oscore_recipient) with direct oscore_find_context() calls with M and S; "
            "SEVERAL CLIENTS WITH DIFFERENT CONTEXTS BEHIND ONE SERVER SESSION (the hop from a proxy): theorems "
            "interleaved_contexts_roundtrip (S: after the server verified a request, whatever requests for its other contexts, forged "
            "requests and responses to other tokens follow, the token stays bound to that request's binding AND context, and every "
            "response protected for it is unprotected by that client to the server's message) and response_ctx_is_request_ctx_impl "
            "(M: the recipient context libcoap takes a response's Sender Context from, association->recipient_ctx, is the one of the "
            "latest request with the response's token for every sequence of decrypt / protect steps, whatever session->recipient_ctx "
            "has become); on every run 2-4 clients' requests interleave on one server session (fresh and re-used tokens, also re-used "
            "by another client, lost requests / responses, observations with notifications while other contexts' requests pass) and "
            "datagrams / recovered messages are compared with S, the server session (recipient_ctx, association of the token, the "
            "context whose Sender Sequence Number a response consumed) with M; OUTER OPTIONS ADDED ON THE PATH to a protected request "
            "or response (every class E option of RFC 8613 Figure 5 / RFC 9175, class U and unknown ones; ciphertext and OSCORE "
            "option untouched) are delivered and the recovered message must be the sender's (class E outer options discarded, 8.2 / "
            "8.4 step 1; S's unprotect on the same datagram; the merged option list against M's decryptSkips / decryptMerge, which "
            "split_eq_spec proves equal to S's mergeOpts); every single-bit flip and truncation of sampled datagrams must be rejected "
            "where the RFC protects the bit (a test); helpers (option value, AAD, nonce, key derivation) are compared with M and S.",
    "note": "Not theorems: cryptographic strength / unforgeability ('every modification is rejected' is proved only as 'rejected iff "
            "the recomputed tag differs'). M covers libcoap's OSCORE helper functions (CBOR writers, AAD, nonce, option value, option "
            "split/merge, info) and the client's association store with its update rules; that the whole of "
            "coap_oscore_new_pdu_encrypted / coap_oscore_decrypt_pdu equals S's protect / unprotect "
            "is established by the differential runs, not by proof. Sequences stay inside what RFC 7252 5.3.1 / RFC 7641 allow a client "
            "(the token of an active observation is re-used only to re-register or cancel); replay of a notification (same Partial IV "
            "twice while the registration lasts) is C15's subject and is neither generated nor judged - libcoap's client accepts such a "
            "duplicate (its response replay check is skipped while the recipient context is in its initial state, which a client's "
            "never leaves): reported, not fixed here. The M = S theorems hold inside libcoap's limits (id <= 7 bytes, "
            "Partial IV <= 5 bytes, ID Context absent or 1..255 bytes, no Proxy-Uri, sorted options); the context lookup is modelled "
            "for Appendix B.2 off (its oscore_r2 / no-kid-context forms are transcribed and compared on direct calls, not part of a "
            "theorem beyond find_context_eq_spec's second half), and the set of contexts of one endpoint is unambiguous (D14.18: two "
            "contexts with the same Recipient ID and ID Context but different keys would make libcoap try only the first); the examples in Props/C14.lean show "
            "the limits are sharp. GnuTLS's AES-CCM/"
            "HMAC are an oracle on the implementation side, cross-checked against S's own primitives on every case; S's primitives are "
            "tested against FIPS/RFC vectors. 'No handler runs' rests on coap_dispatch() returning when coap_oscore_decrypt_pdu() returns "
            "NULL (read, not run). Trusted: Lean kernel (+ propext, Classical.choice, Quot.sound), harness/generators, the hand "
            "transcription M.",
    "design_ref": "design/C14.md, DESIGN.md §4 C14",
}
LEAN_MODULES = ["CoapVerif.Props.C14"]
NAMESPACE = "Coap.C14"
REQUIRED_THEOREMS = ["ccm_roundtrip", "tamper_detected_iff_tag_mismatch", "option_value_roundtrip", "aad_eq_spec",
                     "split_merge_inverse", "split_merge_inverse_response", "unprotect_protect_request_of_plain",
                     "nonce_injective_same_length", "cbor_head_injective", "cbor_bstr_injective", "cbor_items_injective",
                     "aad_injective", "aad_injective_impl", "nonce_eq_spec", "nonce_injective", "pivBytes_minimal_encoding",
                     "distinct_piv_distinct_nonce", "distinct_pivs_distinct_nonces", "option_value_eq_spec", "split_eq_spec",
                     "info_eq_spec", "unprotect_protect_request", "unprotect_protect_response", "unprotect_protect",
                     "association_tracks_latest_request", "association_tracks_latest_request_impl", "response_inputs_eq_spec",
                     "rejected_response_keeps_binding", "sequence_roundtrip", "find_context_eq_spec", "find_context_complete",
                     "find_context_sound", "find_context_none_iff", "select_ctx_eq_find_context", "unprotect_any_eq",
                     "unprotect_protect_request_any", "request_for_unknown_context_rejected",
                     "interleaved_contexts_roundtrip", "response_ctx_is_request_ctx_impl",
                     "unprotect_protect_response_for", "observe_request_response_own_piv", "plain_response_request_nonce",
                     "rejected_request_keeps_bindings", "request_nonce_at_most_once", "sequence_roundtrip_server",
                     "qblock_is_class_e", "outer_class_e_discarded", "oversized_oscore_option_rejected",
                     "plain_request_never_reaches_oscore_only_handler",
                     "response_never_under_own_request_nonce",
                     "observe_request_own_piv_impl"]
RULE = ("exchanges (one request and 0-3 responses/notifications per line) between a client and a server OSCORE context set up "
        "from master secret / salt / ID context / ids 0..7 bytes: all request methods and response codes, inner/outer option "
        "mixes incl. Observe, Block, Proxy-Scheme, Uri-Host/Port, Hop-Limit, No-Response, unknown options, payload 0..1 KiB, "
        "Partial IV 0..2^40-2 with the byte-length boundaries, mirrored and deliberately different contexts; the real libcoap "
        "protects and unprotects, the Lean RFC 8613 implementation S does the same from the same inputs and the datagrams and "
        "recovered messages must be equal byte for byte; sequence lines (oseq): 2..6 requests over 1..3 tokens on ONE client and "
        "one server session whose associations live for the whole line — per step a request (fresh token, or the token of an "
        "earlier request whose response was lost / held back / never produced, delivered or lost on the way; plain, Observe "
        "registration, re-registration, cancellation), a response or notification (with / without its own Partial IV; delivered, "
        "lost, held back and delivered late — also after the token was re-bound —, or delivered twice), 8 scripted shapes first "
        "(lost response then re-use, late response to the superseded request then the genuine one, request lost and retried, "
        "notifications out of order, registration under the token of an unanswered request, re-registration, cancellation, three "
        "retries), 6 % with a server Sender ID the client does not expect (every response must be rejected and every binding "
        "stay); protected request and response bytes, what server and client recover or reject at every step against S, and the "
        "client's association (partial_iv, nonce, aad, is_observe) after every request and delivery against M; multi-context lines "
        "(oscm): one exchange with a server holding 1..4 security contexts set up by successive coap_context_oscore_server() calls, "
        "each with 1..3 Recipient IDs, drawn from small pools so that equal Recipient IDs (incl. the empty one) under different ID "
        "Contexts, equal ID Contexts with different Recipient IDs, ID Contexts that are prefixes of / one byte off each other and "
        "contexts without ID Context occur routinely, pairwise different (Recipient ID, ID Context); the client belongs to the "
        "first, a later or (12 %) none of the held pairs; datagrams, recovered messages and rejections against S, the position of "
        "the selected recipient context against M; store lines (findctx): 4..14 steps of coap_context_oscore_server / "
        "coap_new_oscore_recipient / coap_delete_oscore_recipient and oscore_find_context() lookups (65 % for a held pair, else near "
        "misses; kid context given / NULL / with oscore_r2), every result and the final store against M, the lookups of the kind "
        "coap_oscore_decrypt_pdu does against S; interleaved-context lines (oscx): a server with 1..4 contexts (2+ (context, Recipient "
        "ID) pairs on 9 lines of 10) and ONE server session, 2..4 clients each the peer of another pair, 4..10 steps: a client "
        "protects a request (fresh token, or a token whose exchange is over / superseded - also one another client used; plain or "
        "Observe registration; delivered or lost), the server protects a response / notification for a token it holds (own Partial "
        "IV or not; delivered to the client whose request it answers, lost, or - 5 % - delivered to a client of another context: "
        "must be rejected), 32 scripted shapes first (request of A, request of B, response to A; A observes while B's requests "
        "pass; B's request lost; A's token re-used by B); transcript against S, server session trace against M; injection lines "
        "(oinj): a protected request or response to which 1..3 outer options are added (65 % class E - all 18 numbers -, else "
        "Uri-Host / Uri-Port / Proxy-Scheme / Hop-Limit or unknown numbers the message does not carry), re-encoded by the harness, "
        "delivered: datagram and delivery against S, the class E options handed on against the sender's (the property directly), "
        "the merged option list against M; tamper lines: every single-bit flip and every truncation of a protected "
        "datagram, delivered to freshly set-up endpoints (a TEST, labelled as such); helper lines: option value encode/decode, "
        "AAD, nonce, key derivation against M and S; crypto lines: SHA-256/HMAC/HKDF/AES-CCM of S against GnuTLS and the "
        "published vectors; non-trivial = a line on which the recipient accepted at least one protected message (for a sequence: "
        "the client accepted a response; oinj: the injected datagram was accepted), a tamper "
        "line, or a helper/crypto line with a non-error result")
TRUSTED_BASE = ["Lean 4.33 kernel; axioms allowed: propext, Classical.choice, Quot.sound (audited per theorem each run)",
                "harness/oscore.c (contexts from configuration strings and zero-initialised sessions as in tests/test_oscore.c; "
                "coap_send_internal / coap_send_ack_lkd wrapped; sequences: both sessions live for the whole line, lost / late / "
                "duplicated delivery is done by the harness), the generators incl. the SeqDomain walker, and string comparison",
                "M (CoapVerif/Model/Oscore.lean, Model/OscoreAssoc.lean, Model/OscoreCtx.lean, Model/OscoreSrv.lean) is a hand transcription of libcoap's OSCORE "
                "helpers, of the places that touch the client's association store, of the server session's recipient_ctx / associations and of the context store with oscore_find_context; checked against the compiled code only on the cases run",
                "GnuTLS (AES-CCM, HMAC-SHA-256) is an oracle on the implementation side, cross-checked against S's own primitives on "
                "every case run; S's primitives are tested against FIPS/RFC vectors (tests, not proofs)"]
ASSUMPTIONS = ["cryptographic strength (AEAD unforgeability, HKDF/SHA-256 properties) is not a theorem; what is proved is that "
               "rejection happens iff the recomputed tag differs",
               "no application handler runs on rejection: coap_dispatch() returns immediately when coap_oscore_decrypt_pdu() returns "
               "NULL (src/coap_net.c, by reading); the harness observes the NULL",
               "ID Context absent or non-empty; no Proxy-Uri in the message handed to protect (rewritten before, C16); Appendix B.1.2 / B.2 "
               "and group mode off; replay window is C15's",
               "compiled Lean definitions agree with the kernel's reading of them"]
SPEC_DECISIONS = ["D14.1 outer code POST/2.04, FETCH/2.05 with Observe", "D14.2 outer options exactly Uri-Host, Uri-Port, Proxy-Scheme, "
                  "Hop-Limit, Observe, OSCORE", "D14.3 Observe inner+outer in requests, empty inner in responses; recipient sets it to the "
                  "3 low bytes of the notification's Partial IV", "D14.4 Partial IV 0 is one zero byte", "D14.5 response carries a Partial IV "
                  "iff asked, or it carries Observe, or it answers an Observe request (its binding is marked observe, D14.16): RFC 8613 "
                  "5.2 / 8.3 let the nonce of a request protect at most one response and the binding of an Observe request outlives a "
                  "response; otherwise the request nonce, and that response consumes the binding", "D14.6 kid context sent whenever an ID Context exists", "D14.7 piggybacked 2.xx response becomes "
                  "separate CON after an Empty ACK", "D14.8 lenient decompression where RFC 8613 §6.1 is silent", "D14.9 class E list = Figure 5 "
                  "+ Echo + Request-Tag", "D14.10 ID Context non-empty or absent, no Proxy-Uri", "D14.11 replay is C15's",
                  "D14.12 request must carry kid; kid in a response is not used", "D14.13 sequence numbers 0..2^40-2",
                  "D14.14 request with Proxy-Scheme carries Hop-Limit; 4.01+Echo is handled inside the library",
                  "D14.15 a response is verified with kid / Partial IV / nonce of the LATEST request sent with its token; re-using a "
                  "token re-binds it; a response protected for a superseded request is verified against the new binding like any "
                  "datagram and is not taken for the answer unless it verifies (its AAD carries the old request_piv: it does not)",
                  "D14.16 a binding is consumed by the first response that verifies unless the request was an Observe registration "
                  "(Observe 0); a response that does not verify changes nothing, and neither does a request that does not verify (the "
                  "binding a pending response is protected with is the latest VERIFIED request's); server side, where the RFCs do not "
                  "say when a server forgets: a binding made or re-made by a request with an Observe option is marked observe, a marked "
                  "binding stays after a response and stays marked when its token is re-used (libcoap never clears is_observe of a "
                  "server-side association)",
                  "D14.17 replay of a notification is C15's subject, not judged here",
                  "D14.18 a request names the context whose Recipient ID is its kid and whose ID Context is its kid context (absent = "
                  "empty); the contexts an endpoint holds have pairwise different (Recipient ID, ID Context) (RFC 8613 3.3 deployment "
                  "requirement; the RFC's 'may need to try several' for indistinguishable contexts is not demanded); a request that "
                  "names no held context is rejected",
                  "D14.19 the security context associated with a token (RFC 8613 8.3 step 1) is the one the LATEST verified request "
                  "with that token was verified with, not the context of whatever request the endpoint verified last"]
RUN_KW = {"timeout": 1200}

# expected values of the published vectors (TESTS of S and of libcoap, keyed by input line)
KAT = {
    "sha256 616263": "ba7816bf8f01cfea414140de5dae2223b00361a396177a9cb410ff61f20015ad",
    "sha256 -": "e3b0c44298fc1c149afbf4c8996fb92427ae41e4649b934ca495991b7852b855",
    "sha256 6162636462636465636465666465666765666768666768696768696a68696a6b696a6b6c6a6b6c6d6b6c6d6e6c6d6e6f6d6e6f706e6f7071":
        "248d6a61d20638b8e5c026930c3e6039a33ce45964ff2167f6ecedd419db06c1",
    "hmac 0b0b0b0b0b0b0b0b0b0b0b0b0b0b0b0b0b0b0b0b 4869205468657265": "b0344c61d8db38535ca8afceaf0bf12b881dc200c9833da726e9376c2e32cff7",
    "hmac 4a656665 7768617420646f2079612077616e7420666f72206e6f7468696e673f": "5bdcc146bf60754e6a042426089575c75a003f089d2739839dec58b964ec3843",
    "hkdf 000102030405060708090a0b0c 0b0b0b0b0b0b0b0b0b0b0b0b0b0b0b0b0b0b0b0b0b0b f0f1f2f3f4f5f6f7f8f9 42":
        "3cb25f25faacd57a90434f64d0362f2a2d2d0a90cf1a5a4c5db02d56ecc4c5bf34007208d5b887185865",
    "hkdf - 0b0b0b0b0b0b0b0b0b0b0b0b0b0b0b0b0b0b0b0b0b0b - 42":
        "8da4e775a563c18f715f802a063c5a31b8a11f5c5ee1879ec3454e5f3c738d2d9d201395faa4b61a96c8",
    "ccm c0c1c2c3c4c5c6c7c8c9cacbcccdcecf 00000003020100a0a1a2a3a4a5 0001020304050607 08090a0b0c0d0e0f101112131415161718191a1b1c1d1e":
        "588c979a61c663d2f066d0c2c0f989806d5f6b61dac38417e8d12cfdf926e0",
    "ccm c0c1c2c3c4c5c6c7c8c9cacbcccdcecf 00000004030201a0a1a2a3a4a5 0001020304050607 08090a0b0c0d0e0f101112131415161718191a1b1c1d1e1f":
        "72c91a36e135f8cf291ca894085c87e3cc15c439c9e43a3ba091d56e10400916",
    "ccm c0c1c2c3c4c5c6c7c8c9cacbcccdcecf 00000005040302a0a1a2a3a4a5 0001020304050607 08090a0b0c0d0e0f101112131415161718191a1b1c1d1e1f20":
        "51b1e5f44a197d1da46b0f8e2d282ae871e838bb64da8596574adaa76fbd9fb0c5",
    "derive 0102030405060708090a0b0c0d0e0f10 9e7ca92223786340 none - 01":
        "sk=f0910ed7295e6ad4b54fc793154302ff rk=ffb14e093c94c9cac9471648b4f98710 iv=4622d4dd6d944168eefb54987c",
    "derive 0102030405060708090a0b0c0d0e0f10 none none 00 01":
        "sk=321b26943253c7ffb6003b0b64d74041 rk=e57b5635815177cd679ab4bcec9d7dda iv=be35ae297d2dace910c52e99f9",
    "derive 0102030405060708090a0b0c0d0e0f10 9e7ca92223786340 37cbf3210017a2d3 - 01":
        "sk=af2a1300a5e95788b356336eeecd2b92 rk=e39a0c7c77b43f03b4b39ab9a268699f iv=2ca58fb85ff1b81c0b7181b85e",
    "nonce 4622d4dd6d944168eefb54987c - 14": "4622d4dd6d944168eefb549868",
    "aad 10 - 14": "8501810a40411440 8368456e63727970743040488501810a40411440",
    "aad 10 00 14": "8501810a4100411440 8368456e63727970743040498501810a4100411440",
    "optenc 14 none - 0": "2 0914",
    "optenc 14 37cbf3210017a2d3 - 0": "11 19140837cbf3210017a2d3",
}
# expected protected datagrams (req=, resp=) of RFC 8613 C.4 - C.8, by prefix of the output line
KAT_OSC = {
    "44015d1f00003974396c6f63616c686f737483747631 64455d1f00003974ff48656c6c6f20576f726c6421 0":
        ["req=44025d1f00003974396c6f63616c686f7374620914ff612f1092f1776f1c1668b3825e ",
         " resp=64445d1f0000397490ffdbaad1e9a7e7b2a813d3c31524378303cdafae119106 "],
    "44015d1f00003974396c6f63616c686f737483747631 64455d1f00003974ff48656c6c6f20576f726c6421 1":
        [" resp=64445d1f00003974920100ff4d4c13669384b67354b2b6175ff4b8658c666a6cf88e "],
    "none none 01 00 20 0 -1 440171c30000b932396c6f63616c686f737483747631":
        ["req=440271c30000b932396c6f63616c686f737463091400ff4ed339a5a379b0b8bc731fffb0 "],
    "37cbf3210017a2d3 01 - 20 0 -1 44012f8eef9bbf7a396c6f63616c686f737483747631":
        ["req=44022f8eef9bbf7a396c6f63616c686f73746b19140837cbf3210017a2d3ff72cd7273fd331ac45cffbe55c3 "],
}


# RFC 8613 C.6 / C.4 + C.7 at a server that holds several contexts (corpus/C14/contexts.txt), by suffix of the input line
KAT_OSCM = {
    "37cbf3210017a2d3 01 - 44012f8eef9bbf7a396c6f63616c686f737483747631 64452f8eef9bbf7aff48656c6c6f20576f726c6421 0":
        ["req=44022f8eef9bbf7a396c6f63616c686f73746b19140837cbf3210017a2d3ff72cd7273fd331ac45cffbe55c3 ", " ureq=ok "],
    "37cbf3210017a2d3 01 - 44015d1f00003974396c6f63616c686f737483747631 64455d1f00003974ff48656c6c6f20576f726c6421 0":
        ["req=44025d1f00003974396c6f63616c686f7374620914ff612f1092f1776f1c1668b3825e ",
         " resp=64445d1f0000397490ffdbaad1e9a7e7b2a813d3c31524378303cdafae119106 "],
}


def harness(ctx):
    return C.build_harness("oscore", C.build_libcoap(), wraps=["coap_send_internal", "coap_send_ack_lkd"])


def hx(b):
    return b.hex() if b else "-"


# ---------------------------------------------------------------------------------------------
# generators
# ---------------------------------------------------------------------------------------------
PIVS = [0, 1, 23, 24, 255, 256, 65535, 65536, 2 ** 24 - 1, 2 ** 24, 2 ** 32 - 1, 2 ** 32, 2 ** 32 + 1, 2 ** 40 - 3, 2 ** 40 - 2]
INNER = [1, 4, 5, 8, 11, 12, 14, 15, 17, 19, 20, 23, 27, 28, 31, 60, 252, 258, 292]
OUTER = [3, 7, 16, 39]
REPEATABLE = {1, 4, 8, 11, 15, 20}
REQ_CODES = [1, 2, 3, 4, 5, 6, 7]
RESP_CODES = [65, 66, 67, 68, 69, 95, 128, 129, 130, 131, 132, 133, 134, 136, 140, 141, 143, 157, 160, 161, 162, 163, 164, 165, 168]


def gen_piv(rng):
    c = rng.random()
    if c < 0.45: return rng.choice(PIVS)
    if c < 0.6: return rng.randrange(0, 300)
    return rng.randrange(0, 2 ** rng.choice([8, 16, 24, 32, 40]) - 1)


def gen_ids(rng):
    cid = G.rbytes(rng, rng.choice([0, 0, 1, 1, 2, 3, 5, 7]))
    sid = G.rbytes(rng, rng.choice([0, 1, 1, 2, 4, 6, 7]))
    if cid == sid and rng.random() < 0.95:
        sid = sid + b"\x01" if len(sid) < 7 else bytes([sid[0] ^ 1]) + sid[1:]
    return cid, sid


def gen_params(rng):
    secret = G.rbytes(rng, rng.choice([16, 16, 16, 1, 8, 24, 32, 40, 65]))
    salt = None if rng.random() < 0.4 else G.rbytes(rng, rng.choice([8, 8, 1, 16, 32, 64, 70]))
    # libcoap's fixed 48-byte option buffer holds an ID Context of up to 34 bytes (7-byte kid, 5-byte Partial IV); longer ones
    # are refused cleanly since fix d0cffe1 (they used to overrun the stack) — generated too, judged as "refused"
    idctx = None if rng.random() < 0.5 else G.rbytes(rng, rng.choice([1, 2, 4, 8, 8, 8, 8, 12, 16, 16, 20, 20, 24, 30, 34, 34, 35, 41, 58, 70]))
    cid, sid = gen_ids(rng)
    return secret, salt, idctx, cid, sid


def fmt_params(secret, salt, idctx, sid, rid):
    return "%s %s %s %s %s" % (hx(secret), "none" if salt is None else hx(salt), "none" if idctx is None else hx(idctx), hx(sid), hx(rid))


def gen_optval(rng, num):
    lo, hi = G.LIMITS.get(num, (0, 12))
    l = rng.choice([lo, hi if hi <= 40 else rng.choice([13, 14, 40]), rng.randint(lo, min(hi, 20))])
    if num in (3, 39, 11, 15, 8, 20):
        return bytes(rng.choice(b"abcdefghijklmnopqrstuvwxyz0123456789.-") for _ in range(max(l, 1 if lo else 0)))
    return G.rbytes(rng, l)


def gen_options(rng, request, observe, weird=False):
    nums = []
    for _ in range(rng.choice([0, 1, 2, 2, 3, 4, 6, 9])):
        c = rng.random()
        if c < 0.6: nums.append(rng.choice(INNER))
        elif c < 0.85 and (request or weird): nums.append(rng.choice(OUTER))
        elif c < 0.93: nums.append(rng.choice([2, 10, 13, 21, 24, 30, 40, 65, 268, 269, 300, 2048, 2049, 65000, 65001, 65535]))
        else: nums.append(rng.choice(INNER))
    if observe:
        nums.append(6)
    if request and 39 in nums and 16 not in nums:
        nums.append(16)     # a request with Proxy-Scheme assembled through libcoap's API carries Hop-Limit (coap_add_option adds it)
    out, seen = [], set()
    for n in sorted(nums):
        if n in seen and n not in REPEATABLE:
            continue
        seen.add(n)
        if n == 6:
            v = rng.choice([b"", b"\x01"]) if request else G.rbytes(rng, rng.choice([0, 1, 2, 3]))
        else:
            v = gen_optval(rng, n)
        out.append((n, v))
    return out


def gen_payload(rng):
    c = rng.random()
    if c < 0.25: return b""
    if c < 0.6: return G.rbytes(rng, rng.randint(1, 40))
    if c < 0.8: return G.rbytes(rng, rng.choice([12, 13, 14, 15, 16, 17, 31, 32, 33, 255, 256, 268, 269]))
    if c < 0.93: return G.rbytes(rng, rng.randint(41, 600))
    return G.rbytes(rng, rng.choice([1000, 1023, 1024]))


def gen_exchange(rng, weird=False):
    """(request datagram, [(response datagram, piv flag)]) with a common token"""
    token = G.rbytes(rng, rng.choice([0, 1, 2, 4, 4, 8, 8]))
    observe = rng.random() < 0.3
    rcode = rng.choice(REQ_CODES) if rng.random() < 0.9 else rng.randint(8, 31)
    if observe and rng.random() < 0.8:
        rcode = rng.choice([1, 5])
    mid = rng.choice([0, 1, 0xFFFF, rng.randint(0, 0xFFFF)])
    req = G.encode("udp", rng.choice([0, 0, 1]), rcode, mid, token, gen_options(rng, True, observe, weird), gen_payload(rng))
    resps = []
    for k in range(rng.choice([0, 1, 1, 1]) if not observe else rng.choice([1, 2, 3])):
        code = rng.choice(RESP_CODES) if rng.random() < 0.9 else rng.choice([64, 96, 127, 159, 191])
        typ = rng.choice([0, 1, 2, 2])
        robs = observe and rng.random() < 0.8
        ropts = gen_options(rng, False, robs, weird)
        if code == 129:     # 4.01 + Echo is the Appendix B.1.2 / RFC 9175 challenge, handled inside the library (D14.14)
            ropts = [o for o in ropts if o[0] != 252]
        resps.append((G.encode("udp", typ, code, rng.choice([mid, rng.randint(0, 0xFFFF)]), token, ropts, gen_payload(rng)),
                      1 if rng.random() < 0.3 else 0))
    return req, resps


def gen_osc_line(rng, wrong=False, weird=False):
    secret, salt, idctx, cid, sid = gen_params(rng)
    cl = (secret, salt, idctx, cid, sid)
    sv = [secret, salt, idctx, sid, cid]
    if wrong:
        k = rng.choice(["secret", "salt", "idctx", "rid", "sid", "idctx-absent"])
        if k == "secret": sv[0] = bytes([secret[0] ^ 1]) + secret[1:]
        elif k == "salt": sv[1] = (salt or b"") + b"\x00" if salt is None or rng.random() < 0.5 else None
        elif k == "idctx": sv[2] = (idctx or b"") + b"\x07"
        elif k == "idctx-absent": sv[2] = None if idctx is not None else b"\x00"
        elif k == "rid": sv[4] = cid + b"\x00" if len(cid) < 7 else cid[:-1]
        else: sv[3] = sid + b"\x00" if len(sid) < 7 else sid[:-1]
        if sv[3] == sv[4]:
            return gen_osc_line(rng, wrong, weird)
    req, resps = gen_exchange(rng, weird)
    newmid = -1 if rng.random() < 0.3 else rng.randint(0, 0xFFFF)
    line = "osc %s %s %d %d %d %s" % (fmt_params(*cl), fmt_params(*sv), gen_piv(rng), gen_piv(rng), newmid, hx(req))
    for r, f in resps:
        line += " %s %d" % (hx(r), f)
    return line


# ---- sequences of exchanges on one client / server pair (op `oseq`) ------------------------------------
def gen_seq_request(rng, token, kind, weird=False):
    """kind: plain | reg (Observe 0) | cancel (Observe 1)"""
    rcode = rng.choice(REQ_CODES) if rng.random() < 0.9 else rng.randint(8, 31)
    if kind != "plain" and rng.random() < 0.8:
        rcode = rng.choice([1, 5])
    opts = [o for o in gen_options(rng, True, False, weird) if o[0] != 6]
    if kind != "plain":
        opts = sorted(opts + [(6, b"" if kind == "reg" else b"\x01")], key=lambda o: o[0])
    pl = gen_payload(rng) if rng.random() < 0.5 else b""
    return G.encode("udp", rng.choice([0, 0, 1]), rcode, rng.randint(0, 0xFFFF), token, opts, pl[:300])


def gen_seq_response(rng, token, notification, weird=False):
    code = rng.choice(RESP_CODES) if rng.random() < 0.9 else rng.choice([64, 96, 127, 159, 191])
    ropts = gen_options(rng, False, notification, weird)
    if code == 129:
        ropts = [o for o in ropts if o[0] != 252]     # D14.14
    pl = gen_payload(rng)
    return G.encode("udp", rng.choice([0, 1, 2, 2]), code, rng.randint(0, 0xFFFF), token, ropts, pl[:300])


MAXSEQ = 2 ** 40 - 2


class SeqDomain:
    """What a sequence may contain (RFC 7252 §5.3.1 / RFC 7641 usage of tokens, D14.15 - D14.17) — the generator's walker and
    the shrinker's filter.  Per token: cobs = the client's latest request with it registered an observation; budget = responses
    the server may still protect for it (1 after a plain request or a cancellation, unlimited after a registration);
    sticky = the server has seen an Observe request with it (libcoap's server keeps such an association)."""

    def __init__(self, cseq):
        self.cseq, self.st, self.held, self.flushed = cseq, {}, 0, set()

    def tok(self, t):
        return self.st.setdefault(t, {"cobs": False, "budget": 0, "sobs": False, "sticky": False, "used": False})

    def request_ok(self, t, kind):
        # the token of an active observation is re-used only to re-register or to cancel it
        return kind in ("reg", "cancel") if self.tok(t)["cobs"] else kind in ("plain", "reg")

    def request(self, t, kind, how):
        x = self.tok(t)
        if self.cseq > MAXSEQ:          # sequence numbers exhausted: the request is refused, nothing changes
            return
        self.cseq += 1
        x["used"] = True
        x["cobs"] = kind == "reg"
        if how == "d":
            x["sobs"] = kind == "reg"
            x["budget"] = 99 if kind == "reg" else 1
            x["sticky"] = x["sticky"] or kind != "plain"

    def response_ok(self, t, how):
        x = self.tok(t)
        if x["budget"] > 0:
            # a duplicate only where the first copy consumes the binding (replay of notifications: C15's, D14.17)
            return how in ("d", "l", "h") or (how == "dd" and not x["cobs"])
        return how == "d" and not x["sticky"]       # probe: the server holds no request for this token

    def response(self, t, how):
        x = self.tok(t)
        if 0 < x["budget"] < 99:
            x["budget"] -= 1
        if how == "h" and self.held < 8:
            self.held += 1

    def flush_ok(self, i):
        return 0 <= i < self.held and i not in self.flushed

    def flush(self, i):
        self.flushed.add(i)


def parse_udp(hexs):
    """(code, token, [(number, value)]) of a UDP CoAP datagram given in hex, None if malformed"""
    try:
        b = bytes.fromhex(hexs) if hexs != "-" else b""
        tkl = b[0] & 15
        if tkl > 8: return None
        code, tok, p, num, opts = b[1], b[4:4 + tkl], 4 + tkl, 0, []
        while p < len(b) and b[p] != 0xFF:
            d, l = b[p] >> 4, b[p] & 15
            p += 1
            if d == 13: d = b[p] + 13; p += 1
            elif d == 14: d = b[p] * 256 + b[p + 1] + 269; p += 2
            if l == 13: l = b[p] + 13; p += 1
            elif l == 14: l = b[p] * 256 + b[p + 1] + 269; p += 2
            num += d
            opts.append((num, b[p:p + l]))
            p += l
        return code, tok, opts
    except (IndexError, ValueError):
        return None


def oseq_in_domain(w):
    """is the oseq line (words) a sequence the generator could have produced?"""
    try:
        dom = SeqDomain(int(w[11]))
        for g in oseq_groups(w[14:]):
            if g[0] == "q" and len(g) == 3:
                m = parse_udp(g[1])
                obs = [v for n, v in m[2] if n == 6]
                kind = "plain" if not obs else "reg" if int.from_bytes(obs[0], "big") == 0 else "cancel"
                if not dom.request_ok(m[1], kind): return False
                dom.request(m[1], kind, g[2])
            elif g[0] == "r" and len(g) == 4:
                m = parse_udp(g[1])
                if not dom.response_ok(m[1], g[3]): return False
                dom.response(m[1], g[3])
            elif g[0] == "f" and len(g) == 2:
                if not dom.flush_ok(int(g[1])): return False
                dom.flush(int(g[1]))
            else:
                return False
        return True
    except (TypeError, ValueError, IndexError):
        return False


def gen_oseq_steps(rng, cseq, requests_only=False, weird=False):
    """2..6 requests over 1..3 tokens with token re-use after lost / held responses, requests lost on the way, Observe
    registrations with several notifications, re-registration and cancellation under the same token, late (held) and
    duplicated responses — a random walk inside SeqDomain."""
    ntok = rng.choice([1, 1, 2, 2, 3])
    toks = []
    while len(toks) < ntok:
        t = G.rbytes(rng, rng.choice([0, 1, 2, 4, 4, 8, 8]))
        if t not in toks:
            toks.append(t)
    dom = SeqDomain(cseq)
    steps, nq = [], 0
    target = rng.randint(2, 6)
    guard = 0
    while guard < 40 and len(steps) < 16:
        guard += 1
        can_r = [t for t in toks if dom.tok(t)["budget"] > 0]
        can_f = [i for i in range(dom.held) if dom.flush_ok(i)]
        if nq >= target and not ((can_r or can_f) and rng.random() < 0.75):
            break
        c = rng.random()
        if nq < target and (c < 0.45 or not (can_r or can_f)):
            used = [t for t in toks if dom.tok(t)["used"]]
            t = rng.choice(used) if used and rng.random() < 0.75 else rng.choice(toks)
            if dom.tok(t)["cobs"]:
                kind = rng.choice(["reg", "cancel", "cancel"])
            else:
                kind = "reg" if rng.random() < 0.3 else "plain"
            how = "d" if requests_only or rng.random() < 0.8 else "l"
            steps.append("q %s %s" % (hx(gen_seq_request(rng, t, kind, weird)), how))
            dom.request(t, kind, how)
            nq += 1
        elif requests_only:
            continue
        elif can_f and (c < 0.6 or not can_r):
            i = rng.choice(can_f)
            dom.flush(i)
            steps.append("f %d" % i)
        elif can_r:
            t = rng.choice(can_r)
            notif = dom.tok(t)["sobs"] and rng.random() < 0.85
            how = rng.choice(["d", "d", "d", "d", "d", "l", "l", "h", "h", "h", "dd"])
            if not dom.response_ok(t, how):
                how = "d"
            if how == "h" and dom.held >= 8:
                how = "l"
            steps.append("r %s %d %s" % (hx(gen_seq_response(rng, t, notif, weird)), 1 if rng.random() < 0.3 else 0, how))
            dom.response(t, how)
        if rng.random() < 0.04 and not requests_only:
            cand = [t for t in toks if dom.tok(t)["budget"] == 0 and dom.response_ok(t, "d")]
            if cand:
                t = rng.choice(cand)
                steps.append("r %s %d d" % (hx(gen_seq_response(rng, t, False)), rng.choice([0, 1])))
                dom.response(t, "d")
    return steps


def oseq_scenario(rng, k):
    """the scripted shapes (the generator's walker finds them too; these make sure every run has them)"""
    t = G.rbytes(rng, rng.choice([1, 2, 4, 8]))
    q = lambda kind="plain", how="d": "q %s %s" % (hx(gen_seq_request(rng, t, kind)), how)
    r = lambda how="d", notif=False, piv=None: "r %s %d %s" % (hx(gen_seq_response(rng, t, notif)),
                                                                rng.choice([0, 1]) if piv is None else piv, how)
    if k == 0:      # response lost, token re-used, genuine response without / with its own Partial IV
        return [q(), r("l"), q(), r("d", piv=rng.choice([0, 1]))]
    if k == 1:      # late response to the superseded request, then the genuine one
        return [q(), r("h"), q(), "f 0", r("d")]
    if k == 2:      # request lost on the way, retried with the same token
        return [q(how="l"), q(), r("dd")]
    if k == 3:      # registration, notifications in and out of order
        return [q("reg"), r("d", True), r("h", True), r("d", True), "f 0", r("d", True)]
    if k == 4:      # unanswered plain request, registration under the same token, notifications
        return [q(how=rng.choice(["d", "l"])), q("reg"), r("d", True), r("d", True), r("d", True)]
    if k == 5:      # re-registration: notifications are bound to the new request, a held one of the old is not accepted
        return [q("reg"), r("d", True), r("h", True), q("reg"), "f 0", r("d", True), r("d", True)]
    if k == 6:      # cancellation under the token of the observation
        return [q("reg"), r("d", True), q("cancel"), r("d", False)]
    return [q(), r("l"), q(), r("l"), q(), r("h"), q(), "f 0", r("d", piv=1)]     # three retries


def gen_oseq_line(rng, wrong=None, weird=False, scenario=None):
    while True:
        secret, salt, idctx, cid, sid = gen_params(rng)
        if idctx is None or len(idctx) <= 34:
            break
    cl = (secret, salt, idctx, cid, sid)
    sv = [secret, salt, idctx, sid, cid]
    if wrong == "sid":          # the server protects its responses with another Sender ID: the client must reject all of them
        sv[3] = sid + b"\x00" if len(sid) < 7 else sid[:-1]
        if sv[3] == sv[4]:
            return gen_oseq_line(rng, wrong, weird, scenario)
    elif wrong:                 # nothing the client sends is accepted: requests only (what a rejected request leaves is C15's)
        sv[0] = bytes([secret[0] ^ 1]) + secret[1:]
    requests_only = bool(wrong) and wrong != "sid"
    cseq = gen_piv(rng)
    if scenario is not None and not requests_only:
        cseq = min(cseq, MAXSEQ - 8)
        steps = oseq_scenario(rng, scenario)
    else:
        steps = gen_oseq_steps(rng, cseq, requests_only, weird)
    newmid = -1 if rng.random() < 0.3 else rng.randint(0, 0xFFFF)
    return "oseq %s %s %d %d %d %s" % (fmt_params(*cl), fmt_params(*sv), cseq, gen_piv(rng), newmid, " ".join(steps))


# ---- both directions on one session: each endpoint client AND server (op `oend`, fix 48ee5dc `is_client`) ------------
def gen_oend_line(rng, scenario=None):
    while True:
        secret, salt, idctx, cid, sid = gen_params(rng)
        if (idctx is None or len(idctx) <= 34) and cid != sid:
            break
    e0 = (secret, salt, idctx, cid, sid)
    e1 = (secret, salt, idctx, sid, cid)
    gen_token = lambda r: G.rbytes(r, r.choice([0, 1, 2, 4, 8]))
    pool = [gen_token(rng) for _ in range(2)]
    if pool[0] == pool[1]:
        pool[1] = pool[0] + b"\x01" if len(pool[0]) < 8 else pool[0][:-1]
    steps = []
    pending = {0: [], 1: []}          # tokens of requests endpoint e has RECEIVED and not answered

    def q(e, t, how="d", kind="plain"):
        steps.append("q %d %s %s" % (e, gen_seq_request(rng, t, kind).hex(), how))
        if how == "d" and t not in pending[1 - e]:
            pending[1 - e].append(t)

    def r(e, t, piv=0, how="d"):
        steps.append("r %d %s %d %s" % (e, gen_seq_response(rng, t, False).hex(), piv, how))
        if t in pending[e]:
            pending[e].remove(t)
    t = pool[0]
    sc = scenario if scenario is not None else rng.randint(0, 9)
    a = rng.randint(0, 1)
    b = 1 - a
    if sc == 0:      # (a) received, not yet answered; own request re-uses the token; then the response
        q(a, t); q(b, t); r(b, t)
    elif sc == 1:    # the other order: own request first, then a received request takes the token over
        q(b, t, rng.choice("dl")); q(a, t); r(b, t)
    elif sc == 2:    # (a), and the peer answers the own request first
        q(a, t); q(b, t); r(a, t); r(b, t)
    elif sc == 3:    # (a) with an explicit Partial IV asked for
        q(a, t); q(b, t); r(b, t, 1)
    elif sc == 4:    # (a), own request lost
        q(a, t); q(b, t, "l"); r(b, t); q(a, t); r(b, t)
    elif sc == 5:    # both ends collide
        q(a, t); q(b, t); r(a, t); r(b, t); q(b, t); q(a, t); r(a, t); r(b, t)
    elif sc == 6:    # Observe registration received, own plain request with its token, notification
        q(a, t, "d", "reg"); q(b, t); r(b, t); r(b, t)
    else:            # random walk over two tokens, both directions
        for _ in range(rng.randint(3, 8)):
            e = rng.randint(0, 1)
            if pending[e] and rng.random() < 0.45:
                r(e, rng.choice(pending[e]), 1 if rng.random() < 0.2 else 0, "d" if rng.random() < 0.85 else "l")
            elif rng.random() < 0.08:
                r(e, rng.choice(pool), 0, "d")
            else:
                # (a registration never shares its token with the other direction here: libcoap's sticky is_observe of the ONE
                # table then gives the other direction's plain response a Partial IV - allowed, but not D14.5's form)
                tq = rng.choice(pool) if rng.random() < 0.8 else gen_token(rng)
                q(e, tq, "d" if rng.random() < 0.85 else "l", "plain" if tq in pool or rng.random() < 0.5 else "reg")
    seq0, seq1 = min(gen_piv(rng), MAXSEQ - 16), min(gen_piv(rng), MAXSEQ - 16)
    newmid = -1 if rng.random() < 0.3 else rng.randint(0, 0xFFFF)
    return "oend %s %s %d %d %d %s" % (fmt_params(*e0), fmt_params(*e1), seq0, seq1, newmid, " ".join(steps))


def _oscore_opt_of(hexmsg):
    """value of the OSCORE option (9) of a UDP-framed message given as hex, or None"""
    try:
        b = bytes.fromhex(hexmsg)
        tkl = b[0] & 15
        i, num = 4 + tkl, 0
        while i < len(b) and b[i] != 0xFF:
            d, l = b[i] >> 4, b[i] & 15
            i += 1
            if d == 13: d = 13 + b[i]; i += 1
            elif d == 14: d = 269 + (b[i] << 8) + b[i + 1]; i += 2
            if l == 13: l = 13 + b[i]; i += 1
            elif l == 14: l = 269 + (b[i] << 8) + b[i + 1]; i += 2
            num += d
            if num == 9:
                return b[i:i + l]
            i += l
    except Exception:
        return None
    return None


def _own_piv_variant(a, b):
    """a, b: `resp=<hex>` fields of the implementation and of S.  True when the implementation's response carries its OWN Partial IV
    where S's uses the request's nonce (empty OSCORE option): RFC 8613 8.3 allows a server to use its own Partial IV in ANY response
    (D14.5 only fixes when libcoap MUST do so) - libcoap's one association table keeps is_observe across directions, so a plain
    response for a token that also carried a registration in the other direction gets one."""
    if not (a and b and a.startswith("resp=") and b.startswith("resp=")) or "fail" in (a, b):
        return False
    oa, ob = _oscore_opt_of(a[5:]), _oscore_opt_of(b[5:])
    return oa is not None and ob is not None and len(ob) == 0 and len(oa) >= 2 and (oa[0] & 7) == len(oa) - 1 and (oa[0] & 0x18) == 0


def oend_collision(w):
    """does the oend line (words) use one token in BOTH directions? (requests by endpoint 0 and by endpoint 1)"""
    toks = {0: set(), 1: set()}
    k = 14
    while k < len(w):
        if w[k] == "q" and k + 3 < len(w):
            try:
                raw = bytes.fromhex(w[k + 2])
                toks[int(w[k + 1]) & 1].add(raw[4:4 + (raw[0] & 15)])
            except ValueError:
                pass
            k += 4
        elif w[k] == "r":
            k += 5
        else:
            break
    return bool(toks[0] & toks[1])


# ---- several security contexts at the server (ops `oscm`, `findctx`; D14.18) ---------------------------
def gen_ctx_pools(rng):
    """small pools of Recipient IDs and ID Contexts, so that stores routinely hold the same Recipient ID (also the empty one)
    under different ID Contexts, the same ID Context with different Recipient IDs, ID Contexts that are prefixes of / differ in
    one byte from each other, and contexts without ID Context"""
    rids = [b""] if rng.random() < 0.7 else []
    while len(rids) < rng.choice([2, 3, 3, 4]):
        r = G.rbytes(rng, rng.choice([0, 1, 1, 2, 3, 5, 7]))
        if rids and rng.random() < 0.3:     # same length as / prefix of / one byte off an id already in the pool
            b = rng.choice(rids)
            r = rng.choice([b + b"\x00", b[:-1], bytes([b[0] ^ 1]) + b[1:] if b else b"\x00", b[::-1]])[:7]
        if r not in rids:
            rids.append(r)
    idcs = [None] if rng.random() < 0.6 else []
    while len(idcs) < rng.choice([2, 3, 3, 4]):
        c = G.rbytes(rng, rng.choice([1, 2, 8, 8, 8, 9, 12, 16, 20]))
        have = [x for x in idcs if x]
        if have and rng.random() < 0.4:
            b = rng.choice(have)
            c = rng.choice([b + b"\x00", b[:-1] or b"\x01", b[:-1] + bytes([b[-1] ^ 1]), bytes([b[0] ^ 0x80]) + b[1:], b[:8] + G.rbytes(rng, 4)])[:20]
        if c not in idcs:
            idcs.append(c)
    return rids, idcs


def gen_server_store(rng):
    """1..4 contexts, each (secret, salt, idctx, sid, [rid…]) with 1..3 Recipient IDs; the (Recipient ID, ID Context) pairs are
    pairwise different (D14.18)"""
    rids, idcs = gen_ctx_pools(rng)
    secret, salt = gen_params(rng)[:2]
    store, keys = [], set()
    for _ in range(rng.choice([1, 2, 2, 2, 3, 3, 4])):
        idc = rng.choice(idcs)
        mine = [r for r in rng.sample(rids, len(rids))[:rng.choice([1, 1, 1, 2, 3])] if (r, idc or b"") not in keys]
        if not mine:
            continue
        keys.update((r, idc or b"") for r in mine)
        if rng.random() < 0.3:      # other key material too
            secret, salt = gen_params(rng)[:2]
        while True:
            sid = G.rbytes(rng, rng.choice([0, 1, 1, 2, 4, 7]))
            if sid not in mine:
                break
        store.append((secret, salt, idc, sid, mine))
    return store or gen_server_store(rng)


def fmt_entry(e):
    return "%s %s %s %s %s" % (hx(e[0]), "none" if e[1] is None else hx(e[1]), "none" if e[2] is None else hx(e[2]), hx(e[3]),
                               ",".join(hx(r) for r in e[4]))


def gen_oscm_line(rng, unknown=False):
    store = gen_server_store(rng)
    k = rng.randrange(len(store)) if rng.random() < 0.7 else len(store) - 1
    secret, salt, idc, sid, mine = store[k]
    rid = rng.choice(mine)
    cl = [secret, salt, idc, rid, sid]          # the client of pair (k, rid): its Sender ID is the server's Recipient ID
    if unknown:
        # a client of a context the server does NOT hold: no (Recipient ID, ID Context) pair of the store is named
        keys = {(r, e[2] or b"") for e in store for r in e[4]}
        for _ in range(20):
            c = rng.random()
            if c < 0.4: cl[2] = rng.choice([(idc or b"") + b"\x07", None, (idc or b"\x00")[:-1] or b"\x09", G.rbytes(rng, 8)])
            elif c < 0.8: cl[3] = rng.choice([rid + b"\x00", rid[:-1], G.rbytes(rng, rng.choice([0, 1, 2]))])[:7]
            else: cl[2], cl[3] = rng.choice([e[2] for e in store]), rng.choice([r for e in store for r in e[4]])
            if (cl[3], cl[2] or b"") not in keys and cl[3] != cl[4]:
                break
        else:
            return gen_oscm_line(rng, unknown)
    req, resps = gen_exchange(rng)
    line = "oscm %s %d %d %d %d %s %s" % (fmt_params(*cl), gen_piv(rng), gen_piv(rng), -1 if rng.random() < 0.3 else rng.randint(0, 0xFFFF),
                                          len(store), " ".join(fmt_entry(e) for e in store), hx(req))
    for r, f in resps:
        line += " %s %d" % (hx(r), f)
    return line


def gen_findctx_line(rng):
    """a store built step by step through the API and lookups in between (mostly for a pair the store holds — first, later, in a
    chain of several — else near misses; also the Appendix B.2 forms: no kid context, oscore_r2).  85 % of the lines keep the
    store unambiguous (D14.18)."""
    rids, idcs = gen_ctx_pools(rng)
    if rng.random() < 0.15:
        idcs.append(b"")
    unamb = rng.random() < 0.85
    store, steps = [], []       # store: [idctx, [rid…]] per context, config order
    keys = lambda: {(r, e[0] or b"") for e in store for r in e[1]}
    for _ in range(rng.randint(4, 14)):
        c = rng.random()
        if not store and c < 0.9 or c < 0.22 and len(store) < 5:
            idc = rng.choice(idcs)
            mine = rng.sample(rids, len(rids))[:rng.choice([1, 1, 2, 3])]
            if unamb:
                mine = [r for r in mine if (r, idc or b"") not in keys()]
            if not mine:
                continue
            steps.append("c %s %s" % ("none" if idc is None else hx(idc), ",".join(hx(r) for r in mine)))
            store.append([idc, list(mine)])
        elif c < 0.30:
            r = rng.choice(rids) if rng.random() < 0.7 else G.rbytes(rng, rng.choice([0, 1, 7]))
            if unamb and store and (r, store[0][0] or b"") in keys() and r not in store[0][1]:
                continue
            steps.append("a %s" % hx(r))
            if store and r not in store[0][1]:
                store[0][1].append(r)
        elif c < 0.36:
            r = rng.choice(rids)
            steps.append("d %s" % hx(r))
            if store and r in store[0][1]:
                store[0][1].remove(r)
        else:
            pairs = [(r, e[0]) for e in store for r in e[1]]
            if pairs and rng.random() < 0.65:
                kid, kc = rng.choice(pairs) if rng.random() < 0.6 else pairs[-1]
                kc = kc or b""
            else:
                kid = rng.choice(rids) if rng.random() < 0.8 else G.rbytes(rng, rng.choice([0, 1, 2, 7]))
                kc = rng.choice(idcs) or b""
            r2, c2 = "none", rng.random()
            if c2 < 0.08: kc = None
            elif c2 < 0.16: kc = rng.choice([kc + b"\x00", kc[:-1], G.rbytes(rng, rng.choice([0, 1, 8]))])
            elif c2 < 0.24:
                long = [x for x in idcs if x and len(x) > 8]
                r2 = hx(rng.choice(long)[:8] if long and rng.random() < 0.7 else G.rbytes(rng, 8))
            steps.append("f %s %s %s" % (hx(kid), "null" if kc is None else hx(kc), r2))
    return "findctx " + " ".join(steps)


# ---- outer options added to a protected datagram on the path (op `oinj`; RFC 8613 8.2 / 8.4 step 1) ----
CLASS_E = [1, 4, 5, 6, 8, 11, 12, 14, 15, 17, 20, 23, 27, 28, 60, 252, 258, 292, 19, 31]     # 19 / 31: RFC 9177 4.1 (round R14c)
OTHER_OUTER = [2, 10, 13, 21, 24, 30, 40, 65, 268, 269, 300, 2048, 2049, 65000, 65001]


def gen_oinj_line(rng):
    """a protected request or response to which an on-path entity ADDS outer options (ciphertext and OSCORE option untouched):
    1..3 options, mostly of class E (every number of Figure 5 / RFC 9175, whether or not the message carries the option
    inside), else class U (Uri-Host / Uri-Port / Proxy-Scheme / Hop-Limit) or unknown / unprotected-by-design numbers that
    the message does not carry.  The recipient must hand on the ORIGINAL class E options only."""
    while True:
        secret, salt, idctx, cid, sid = gen_params(rng)
        if idctx is None or len(idctx) <= 34:
            break
    token = G.rbytes(rng, rng.choice([0, 1, 2, 4, 8]))
    observe = rng.random() < 0.3
    qopts = gen_options(rng, True, observe)
    req = G.encode("udp", rng.choice([0, 1]), rng.choice([1, 5]) if observe else rng.choice(REQ_CODES), rng.randint(0, 0xFFFF), token,
                   qopts, gen_payload(rng)[:300])
    ropts = gen_options(rng, False, observe and rng.random() < 0.7)
    rcode = rng.choice(RESP_CODES)
    if rcode == 129:        # D14.14
        ropts = [o for o in ropts if o[0] != 252]
    resp = G.encode("udp", rng.choice([0, 1, 2]), rcode, rng.randint(0, 0xFFFF), token, ropts, gen_payload(rng)[:300])
    which = rng.choice(["q", "r"])
    have = {n for n, _ in (qopts if which == "q" else ropts)} | {9}
    inj = []
    for _ in range(rng.choice([1, 1, 2, 3])):
        c = rng.random()
        if c < 0.65:
            n = rng.choice(CLASS_E)
        else:
            # copied to the unprotected message: not one the message carries (libcoap refuses to build a PDU that repeats a
            # non-repeatable option), Proxy-Uri not at all (D14.10)
            cand = [x for x in (OUTER if c < 0.8 else OTHER_OUTER) if x not in have]
            if not cand:
                continue
            n = rng.choice(cand)
            have.add(n)
        v = G.rbytes(rng, rng.choice([0, 1, 2, 3])) if n == 6 else gen_optval(rng, n)
        inj.append((n, v))
    if not inj:
        inj.append((60, G.rbytes(rng, rng.choice([0, 1, 2, 4]))))
    if which == "q" and any(n == 39 for n, _ in inj) and 16 not in have:
        inj.append((16, b"\x10"))      # D14.14
    inj.sort(key=lambda o: o[0])
    return "oinj %s %s %d %d %d %s %s %d %s %s" % (
        fmt_params(secret, salt, idctx, cid, sid), fmt_params(secret, salt, idctx, sid, cid), min(gen_piv(rng), MAXSEQ), min(gen_piv(rng), MAXSEQ),
        -1 if rng.random() < 0.5 else rng.randint(0, 0xFFFF), hx(req), hx(resp), rng.choice([0, 1]), which,
        ",".join("%d:%s" % (n, hx(v)) for n, v in inj))


# ---- round R14c: OSCORE option made longer on the path (op `olen`), requests through coap_dispatch() (op `odisp`) ----
def gen_olen_line(rng):
    """a protected request or response whose OSCORE option VALUE gets `extra` bytes appended on the path (ciphertext untouched):
    mostly 256 / 257 / 300 / 512 - the lengths at which a one-byte length counter wraps to 0 / 1 / 44 / 0, i.e. to the genuine
    value when the genuine bytes come first -, else 1..255.  RFC 8613 2: the option is 0..255 bytes long."""
    while True:
        secret, salt, idctx, cid, sid = gen_params(rng)
        if idctx is None or len(idctx) <= 34:
            break
    token = G.rbytes(rng, rng.choice([0, 1, 2, 4, 8]))
    req = G.encode("udp", rng.choice([0, 1]), rng.choice(REQ_CODES), rng.randint(0, 0xFFFF), token, gen_options(rng, True, False),
                   gen_payload(rng)[:100])
    resp = G.encode("udp", rng.choice([0, 1, 2]), rng.choice([65, 67, 68, 69, 132]), rng.randint(0, 0xFFFF), token, [], gen_payload(rng)[:100])
    c = rng.random()
    extra = rng.choice([256, 256, 257, 300, 512, 768]) if c < 0.7 else rng.randint(240, 270) if c < 0.85 else rng.randint(1, 40)
    return "olen %s %s %d %d %d %s %s %d %s %d %02x" % (
        fmt_params(secret, salt, idctx, cid, sid), fmt_params(secret, salt, idctx, sid, cid), min(gen_piv(rng), MAXSEQ), min(gen_piv(rng), MAXSEQ),
        -1, hx(req), hx(resp), rng.choice([0, 1]), rng.choice(["q", "r", "r"]), extra, rng.choice([0, 0, 1, 8, 9, 0x19, rng.randrange(256)]))


def gen_odisp_line(rng, scenario=None):
    """ONE server session, resource /o is COAP_RESOURCE_FLAGS_OSCORE_ONLY, /p is not: protected (o) and plain (p) requests in any
    order through coap_dispatch().  The property: a plain request never runs the handler of /o, whatever came before."""
    secret, salt, idctx, cid, sid = gen_params(rng)
    while idctx is not None and len(idctx) > 34:
        secret, salt, idctx, cid, sid = gen_params(rng)
    wrong = rng.random() < 0.1          # the client's context does not match: its protected requests are rejected
    csecret = G.rbytes(rng, 16) if wrong else secret
    steps = []
    shapes = [["o/o", "p/o"], ["p/o", "o/o", "p/o"], ["o/p", "p/o"], ["o/o", "p/p", "p/o", "o/o"], ["p/o"], ["p/p", "o/o", "p/p"]]
    if scenario is not None and scenario < len(shapes):
        plan = shapes[scenario]
    else:
        plan = [rng.choice(["o", "o", "p", "p", "p"]) + "/" + rng.choice(["o", "o", "p"]) for _ in range(rng.randint(2, 7))]
    mid = rng.randint(0, 0xFF00)
    for k, st in enumerate(plan):
        how, res = st.split("/")
        code = rng.choice([1, 2, 3, 4])
        token = G.rbytes(rng, rng.choice([1, 2, 4, 8]))
        req = G.encode("udp", rng.choice([0, 1]), code, mid + k, token, [(11, res.encode())], b"" if code in (1, 4) else gen_payload(rng)[:40])
        steps.append("%s %s" % (how, hx(req)))
    return "odisp %s %s %d %d %s" % (fmt_params(csecret, salt, idctx, cid, sid), fmt_params(secret, salt, idctx, sid, cid),
                                    min(gen_piv(rng), MAXSEQ - 10), 0, " ".join(steps))


# ---- several clients (contexts) behind ONE server session (op `oscx`; D14.19) -------------------------
def gen_oscx_line(rng, scenario=None):
    """a server holding 1..4 contexts (2+ pairs on 9 lines of 10) and ONE server session on which 2..4 clients — each the peer
    of another (context, Recipient ID) pair — send requests that interleave: request of A, request of B, response to A …;
    fresh tokens, tokens re-used after the exchange (also by ANOTHER client: the hop's token is the proxy's), requests and
    responses lost, Observe registrations with notifications while other contexts' requests pass, responses with / without
    their own Partial IV, 5 % of the responses delivered to a client of another context (must be rejected)."""
    for _ in range(50):
        store = gen_server_store(rng)
        pairs = [(i, j) for i, e in enumerate(store) for j in range(len(e[4]))]
        if len(pairs) >= 2 or rng.random() < 0.1:
            break
    nc = min(len(pairs), rng.choice([2, 2, 2, 3, 3, 4]))
    clients = rng.sample(pairs, nc)
    sseq = min(gen_piv(rng), MAXSEQ - 40)
    cseqs = [min(gen_piv(rng), MAXSEQ - 40) for _ in clients]
    toks, steps, last = {}, [], None      # token -> {owner, budget, obs}

    def fresh_token():
        while True:
            t = G.rbytes(rng, rng.choice([0, 1, 2, 4, 4, 8, 8]))
            if t not in toks:
                return t

    def request(k, t, kind, how):
        steps.append("q %d %s %s" % (k, hx(gen_seq_request(rng, t, kind)), how))
        x = toks.setdefault(t, {"owner": None, "budget": 0, "obs": False})
        if how == "d":
            x.update(owner=k, budget=99 if kind == "reg" else 1, obs=kind == "reg")

    def response(t, how="d", piv=None, to=None):
        x = toks[t]
        notif = x["obs"] and rng.random() < 0.85
        steps.append("r %d %s %d %s" % (x["owner"] if to is None else to, hx(gen_seq_response(rng, t, notif)),
                                        (1 if rng.random() < 0.3 else 0) if piv is None else piv, how))
        if x["budget"] < 99:
            x["budget"] -= 1

    if scenario is not None and nc >= 2:
        a, b = 0, 1
        ta, tb = fresh_token(), None
        if scenario % 4 == 0:       # request of A, request of B, response to A (no / own Partial IV), response to B
            request(a, ta, "plain", "d"); tb = fresh_token(); request(b, tb, "plain", "d")
            response(ta, piv=scenario // 4 % 2); response(tb)
        elif scenario % 4 == 1:     # A observes; B's requests pass between the notifications
            request(a, ta, "reg", "d"); response(ta)
            tb = fresh_token(); request(b, tb, "plain", "d"); response(ta); response(tb); response(ta)
        elif scenario % 4 == 2:     # B's request is lost on the way: the session still answers A with A's context
            request(a, ta, "plain", "d"); tb = fresh_token(); request(b, tb, "plain", "l")
            tb2 = fresh_token(); request(b, tb2, "plain", "d"); response(ta, piv=1); response(tb2)
        else:                       # the token of A's finished exchange is re-used by B
            request(a, ta, "plain", "d"); response(ta, how=rng.choice(["d", "l"]))
            request(b, ta, "plain", "d"); tb = fresh_token(); request(a, tb, "plain", "d"); response(ta); response(tb)
    else:
        target = rng.randint(4, 10)
        guard = 0
        while len(steps) < target and guard < 40:
            guard += 1
            can_r = [t for t, x in toks.items() if x["budget"] > 0]
            if not can_r or rng.random() < 0.5:
                others = [k for k in range(nc) if k != last]
                k = rng.choice(others) if others and rng.random() < 0.75 else rng.randrange(nc)
                reuse = [t for t, x in toks.items() if not x["obs"] and x["budget"] <= 1]
                if reuse and rng.random() < 0.3:
                    t, kind = rng.choice(reuse), "plain"
                else:
                    t, kind = fresh_token(), "reg" if rng.random() < 0.25 else "plain"
                request(k, t, kind, "d" if rng.random() < 0.85 else "l")
                last = k
            else:
                t = rng.choice(can_r)
                to = None
                if rng.random() < 0.05 and nc > 1:
                    to = rng.choice([k for k in range(nc) if k != toks[t]["owner"]])
                response(t, "d" if rng.random() < 0.85 else "l", to=to)
    return "oscx %d %d %d %s %d %s %s" % (
        sseq, -1 if rng.random() < 0.3 else rng.randint(0, 0xFFFF), len(store), " ".join(fmt_entry(e) for e in store), nc,
        " ".join("%d.%d %d" % (i, j, cseqs[k]) for k, (i, j) in enumerate(clients)), " ".join(steps))


def gen_tamper_line(rng, small=True):
    secret, salt, idctx, cid, sid = gen_params(rng)
    token = G.rbytes(rng, rng.choice([0, 1, 2, 4]))
    observe = rng.random() < 0.3
    opts = gen_options(rng, True, observe)
    opts = [(n, v[:6]) for n, v in opts][:4]
    req = G.encode("udp", rng.choice([0, 1]), rng.choice(REQ_CODES), rng.randint(0, 0xFFFF), token, opts,
                   G.rbytes(rng, rng.choice([0, 1, 5, 17])))
    ropts = [(n, v[:6]) for n, v in gen_options(rng, False, observe and rng.random() < 0.7)][:3]
    rtyp, rcode = rng.choice([0, 1, 2]), rng.choice(RESP_CODES)
    if rcode == 129:        # 4.01 + Echo is consumed by the library (D14.14), as in gen_exchange
        ropts = [o for o in ropts if o[0] != 252]
    resp = G.encode("udp", rtyp, rcode, rng.randint(0, 0xFFFF), token, ropts, G.rbytes(rng, rng.choice([0, 1, 5, 17])))
    which = rng.choice(["q", "r"])
    return "tamper %s %s %d %d %d %s %s %d %s 0 100000 0 100000" % (
        fmt_params(secret, salt, idctx, cid, sid), fmt_params(secret, salt, idctx, sid, cid), gen_piv(rng), gen_piv(rng),
        -1 if rng.random() < 0.5 else rng.randint(0, 0xFFFF), hx(req), hx(resp), rng.choice([0, 1]), which)


def gen_helper_lines(rng, n):
    out = []
    for _ in range(n):
        c = rng.random()
        piv = G.rbytes(rng, rng.choice([0, 1, 1, 2, 3, 4, 5]))
        kid = G.rbytes(rng, rng.choice([0, 1, 2, 3, 5, 7]))
        if c < 0.25:
            if rng.random() < 0.1:
                piv = G.rbytes(rng, rng.choice([6, 7, 8]))
            kc = "none" if rng.random() < 0.4 else hx(G.rbytes(rng, rng.choice([1, 2, 8, 23, 24, 40, 200, 255])))
            out.append("optenc %s %s %s 0" % (hx(piv), kc, "none" if rng.random() < 0.3 else hx(kid)))
        elif c < 0.55:
            if rng.random() < 0.5:
                flags = rng.choice([0, 1, 2, 3, 4, 5, 6, 7]) | rng.choice([0, 8, 16, 24]) | rng.choice([0, 0, 0, 32, 64, 128])
                body = G.rbytes(rng, rng.choice([0, 1, 2, 5, 6, 9, 14, 30]))
                if flags & 16 and body and rng.random() < 0.7:
                    n_ = flags & 7
                    if len(body) > n_:
                        body = body[:n_] + bytes([rng.choice([0, 1, len(body) - n_ - 1, len(body) - n_, 255])]) + body[n_ + 1:]
                v = bytes([flags]) + body
            else:
                v = G.rbytes(rng, rng.choice([0, 1, 2, 3, 8, 20, 255, 256, 300]))
            out.append("optdec %s" % hx(v))
        elif c < 0.75:
            out.append("aad %d %s %s" % (rng.choice([10, 10, 10, 11, 1, 23, 24, 255, 256, -1, -24, -25, -257, 70000]), hx(kid), hx(piv)))
        elif c < 0.9:
            out.append("nonce %s %s %s" % (hx(G.rbytes(rng, 13)), hx(kid), hx(piv)))
        else:
            secret, salt, idctx, cid, sid = gen_params(rng)
            out.append("derive " + fmt_params(secret, salt, idctx, cid, sid))
    return out


def gen_crypto_lines(rng, n):
    out = []
    for _ in range(n):
        c = rng.random()
        if c < 0.25:
            out.append("sha256 %s" % hx(G.rbytes(rng, rng.choice([0, 1, 54, 55, 56, 57, 63, 64, 65, 119, 120, 128, 300]))))
        elif c < 0.45:
            out.append("hmac %s %s" % (hx(G.rbytes(rng, rng.choice([1, 16, 32, 63, 64, 65, 100]))), hx(G.rbytes(rng, rng.randint(0, 100)))))
        elif c < 0.6:
            out.append("hkdf %s %s %s %d" % (hx(G.rbytes(rng, rng.choice([0, 8, 32, 80]))), hx(G.rbytes(rng, rng.choice([1, 16, 40]))),
                                             hx(G.rbytes(rng, rng.randint(0, 60))), rng.choice([1, 13, 16, 32, 33, 64, 100])))
        else:
            out.append("ccm %s %s %s %s" % (hx(G.rbytes(rng, 16)), hx(G.rbytes(rng, 13)), hx(G.rbytes(rng, rng.choice([1, 13, 14, 15, 20, 30, 31, 46, 100]))),
                                            hx(G.rbytes(rng, rng.choice([0, 1, 15, 16, 17, 32, 100, 1024])))))
    return out


def generate(ctx, escalate=False):
    rng = ctx.rng
    k = 10 if ctx.thorough() else 1
    if escalate:
        k *= 3
    out = []
    for i in range(2400 * k):
        c = rng.random()
        out.append(gen_osc_line(rng, wrong=c < 0.1, weird=0.1 <= c < 0.2))
    for i in range(1200 * k):
        c = rng.random()
        out.append(gen_oseq_line(rng, wrong="sid" if c < 0.06 else "secret" if c < 0.08 else None, weird=0.1 <= c < 0.2,
                                 scenario=i % 8 if i < 64 else None))
    for i in range(40 * k):
        out.append(gen_tamper_line(rng))
    out += gen_helper_lines(rng, 3000 * k)
    out += gen_crypto_lines(rng, 400 * k)
    # (generated last: the streams of the older ops stay what they were for a given seed)
    for i in range(500 * k):
        out.append(gen_oscm_line(rng, unknown=rng.random() < 0.12))
    for i in range(800 * k):
        out.append(gen_findctx_line(rng))
    for i in range(500 * k):
        out.append(gen_oinj_line(rng))
    for i in range(500 * k):
        out.append(gen_oscx_line(rng, scenario=i if i < 32 else None))
    for i in range(400 * k):
        out.append(gen_oend_line(rng, scenario=i % 7 if i < 70 else None))
    for i in range(200 * k):
        out.append(gen_olen_line(rng))
    for i in range(300 * k):
        out.append(gen_odisp_line(rng, scenario=i if i < 6 else None))
    return out


# ---------------------------------------------------------------------------------------------
# verdicts
# ---------------------------------------------------------------------------------------------
TOK = re.compile(r"\[[0-9a-f]{8}\]|.")


def tokens(s):
    return TOK.findall(s)


def short(s):
    return s if s is None or len(s) < 200 else s[:190] + "…"


def over_limit(w):
    """ID Context longer than what always fits libcoap's 48-byte option buffer (1 + 5 + 1 + n + 7 <= 48)"""
    return max(len(w[3]), len(w[8])) // 2 > 34


def judge_tamper(ctx, c):
    i, s, cls = c["impl"], c["model"], c["spec"]
    if i == "setup-fail" and over_limit(c["input"].split()):
        ctx.cov["idctx_over_buffer_refused"] = ctx.cov.get("idctx_over_buffer_refused", 0) + 1
        return None
    mi = re.match(r"n=(\d+) f=(\S*) t=(\S*)$", i or "")
    ms = re.match(r"n=(\d+) f=(\S*) t=(\S*)$", s or "")
    if not mi or not ms:
        if i == s:
            return None
        return ("spec", "tamper set-up: implementation %s, reference %s" % (short(i), short(s)))
    if mi.group(1) != ms.group(1):
        return ("spec", "protected datagram has %s bytes, the reference implementation's has %s" % (mi.group(1), ms.group(1)))
    fi, fs, ti, ts = tokens(mi.group(2)), tokens(ms.group(2)), tokens(mi.group(3)), tokens(ms.group(3))
    ctx.cov["tamper_deliveries"] = ctx.cov.get("tamper_deliveries", 0) + len(fi) + len(ti)
    # the property itself, independent of S's verdicts: ciphertext / OSCORE option value bits and every truncation
    for k, t in enumerate(fi):
        if k < len(cls) and cls[k] in "cV" and t != "r":
            return ("spec", "flip of bit %d (%s) of the protected datagram is not rejected: %s" % (
                k, "ciphertext" if cls[k] == "c" else "OSCORE option value", t))
        if k < len(cls) and cls[k] in "Om" and t.startswith("["):
            return ("spec", "flip of bit %d (OSCORE option header / payload marker) yields an accepted OSCORE message" % k)
    for k, t in enumerate(ti):
        if t.startswith("["):
            return ("spec", "datagram truncated to %d bytes is accepted" % k)
    if len(fi) != len(fs) or len(ti) != len(ts):
        return ("spec", "tamper result lengths differ")
    for k, (a, b) in enumerate(zip(fi, fs)):
        if a != b:
            return ("spec", "flip of bit %d (class %s): implementation %s, RFC 8613 reference %s" % (k, cls[k] if k < len(cls) else "?", a, b))
    for k, (a, b) in enumerate(zip(ti, ts)):
        if a != b:
            return ("spec", "truncation to %d bytes: implementation %s, RFC 8613 reference %s" % (k, a, b))
    return None


def judge(ctx, c):
    i, m, s = c["impl"], c["model"], c["spec"]
    op = c["input"].split()[0]
    if op == "tamper":
        return judge_tamper(ctx, c)
    if op == "osc":
        # the driver's only output is S's (independent RFC 8613 implementation): datagrams and recovered messages
        w = c["input"].split()
        if i in ("req=fail", "bad-context") and over_limit(w):
            # implementation limit, refused without side effects: not a violation of the property
            ctx.cov["idctx_over_buffer_refused"] = ctx.cov.get("idctx_over_buffer_refused", 0) + 1
            return None
        if i != m:
            return ("spec", "implementation %s but the RFC 8613 reference gives %s" % (first_diff(i, m), first_diff(m, i)))
        for key, exp in KAT_OSC.items():
            if c["input"].endswith(key):
                for e in exp:
                    if e not in (i or "") + " ":
                        return ("spec", "RFC 8613 Appendix C vector not reproduced: expected %s in %s" % (e.strip(), short(i)))
        return None
    if op == "oseq":
        # impl: `seq <transcript> | <trace of the client's associations>`; driver: M = the trace from libcoap's update rules
        # (Model/OscoreAssoc.lean), S = the transcript from RFC 8613 applied message by message (Spec/OscoreSeq.lean)
        it, _, itr = (i or "").partition(" |")
        if it != s:
            return ("spec", "sequence step %s: implementation %s but the RFC 8613 reference (response verified with the "
                            "binding of the latest request of its token) gives %s" % (diff_step(it, s), first_diff(it, s), first_diff(s, it)))
        if itr.strip() != (m or "").strip():
            return ("tie", "client association store: implementation %s but model M says %s" % (
                first_diff(itr.strip(), (m or "").strip()), first_diff((m or "").strip(), itr.strip())))
        return None
    if op == "oscm":
        # impl: `<transcript> | sel=<i.j|none>`; driver: S = the transcript with the context the request names (D14.18),
        # M = the position `oscore_find_context` returns in libcoap's store (Model/OscoreCtx.lean)
        it, _, isel = (i or "").partition(" | ")
        if it != s:
            return ("spec", "server with %s security contexts: implementation %s but the RFC 8613 reference (request handled by "
                            "the context its kid / kid context name) gives %s" % (c["input"].split()[9], first_diff(it, s), first_diff(s, it)))
        for key, exp in KAT_OSCM.items():
            if c["input"].endswith(key):
                for e in exp:
                    if e not in it + " ":
                        return ("spec", "RFC 8613 Appendix C vector not reproduced at a server with several contexts: expected %s in %s" % (e.strip(), short(it)))
        if isel.strip() != (m or "").strip():
            return ("tie", "context selected: implementation %s but model M (oscore_find_context) says %s" % (isel.strip(), (m or "").strip()))
        return None
    if op == "oend":
        # impl: `end <transcript> | <associations of both sessions>`; driver: S = the transcript with token spaces per direction
        # (D14.20), M = `<transcript libcoap's ONE table gives> ; <trace>` (Model/OscoreSrv.lean with is_client)
        it, _, itr = (i or "").partition(" |")
        ml, _, mtr = (m or "").partition(" ;")
        ml = ("end " + ml.strip()).strip()
        fi, fs = it.split(" "), (s or "").split(" ")
        for k in range(max(len(fi), len(fs))):
            a = fi[k] if k < len(fi) else None
            b = fs[k] if k < len(fs) else None
            if a == b:
                continue
            if a in ("resp=fail", "uresp=rej") and oend_collision(c["input"].split()) and ml == it and itr.strip() == mtr.strip():
                break     # open finding c14-token-shared-across-directions (known()): libcoap does LESS than the reference
            if _own_piv_variant(a, b) and ml == it and itr.strip() == mtr.strip() and oend_collision(c["input"].split()):
                continue  # own Partial IV instead of the request's nonce: allowed by RFC 8613 (I = M; the peer's view is compared next)
            return ("spec", "client and server on one session, step %s: implementation %s but the RFC 8613 reference (a response is "
                            "protected with the nonce of the RECEIVED request it answers or its own Partial IV) gives %s" % (
                                diff_step(it, s), short(a), short(b)))
        if ml != it:
            return ("tie", "one association table for both directions: implementation %s but model M (is_client) gives %s" % (
                field_diff(it, ml), field_diff(ml, it)))
        if itr.strip() != mtr.strip():
            return ("tie", "session->associations (is_client): implementation %s but model M says %s" % (
                first_diff(itr.strip(), mtr.strip()), first_diff(mtr.strip(), itr.strip())))
        if it != s and all(x == y or _own_piv_variant(x, y) for x, y in zip(fi, fs)) and len(fi) == len(fs):
            return None
        if it != s:
            return ("spec", "KNOWN c14-token-shared-across-directions: %s where the reference gives %s" % (field_diff(it, s), field_diff(s, it)))
        return None
    if op == "oscx":
        # impl: `seq <transcript> | <trace of the server session>`; driver: S = the transcript (every response protected with the
        # context of the request it answers, D14.19), M = session->recipient_ctx / the association of the token / the context
        # whose Sender Sequence Number a response consumed (Model/OscoreSrv.lean)
        it, _, itr = (i or "").partition(" |")
        if it != s:
            return ("spec", "several contexts on one server session, step %s: implementation %s but the RFC 8613 reference (a response "
                            "is protected with the security context of the request it answers) gives %s" % (
                                diff_step(it, s), field_diff(it, s), field_diff(s, it)))
        if itr.strip() != (m or "").strip():
            return ("tie", "server session (recipient_ctx / association / Sender Context used): implementation %s but model M says %s" % (
                first_diff(itr.strip(), (m or "").strip()), first_diff((m or "").strip(), itr.strip())))
        return None
    if op == "oinj":
        # impl / S: `dg=<datagram with the added outer options> u=<delivery>`; M: the option list libcoap's two decrypt loops build
        w = c["input"].split()
        if i == "setup-fail" and m == "setup-fail":
            return None
        mu = re.search(r" u=ok .* opts=(\S+) pl=", i or "")
        if mu:
            # the property itself, independent of S: the class E options handed on are the ORIGINAL ones (RFC 8613 8.2 / 8.4 step 1)
            orig = parse_udp(w[14] if w[17] == "q" else w[15])
            got = [] if mu.group(1) == "-" else [(int(x.split(":")[0]), x.split(":")[1]) for x in mu.group(1).split(",")]
            if orig:
                skip = {6} if w[17] == "r" else set()       # D14.3: the Observe value of a notification is the recipient's
                want = [(n, hx(v)) for n, v in orig[2] if n in CLASS_E and n not in skip]
                have = [(n, v) for n, v in got if n in CLASS_E and n not in skip]
                if want != have:
                    extra = [n for n, v in have if (n, v) not in want]
                    return ("spec", "outer option(s) added on the path are handed on with the unprotected message: class E options "
                                    "delivered %s, the sender's are %s%s" % (have, want, " (option %d is not the sender's)" % extra[0] if extra else ""))
        if i != s:
            return ("spec", "outer options added on the path: implementation %s but the RFC 8613 reference (class E outer options are "
                            "discarded, the others kept) gives %s" % (first_diff(i, s), first_diff(s, i)))
        if mu and "opts=" + mu.group(1) != (m or "").strip():
            return ("tie", "merged options: implementation opts=%s but model M (decryptSkips / decryptMerge) says %s" % (short(mu.group(1)), short(m)))
        return None
    if op == "olen":
        # impl: `dg=<datagram> u=<delivery>`; S: `len=<length of the OSCORE option value> u=<verdict>`; M: `len= dec=<oscore_decode_option_value>`
        if i == "setup-fail" and m == "setup-fail":
            return None
        iu = (i or "").partition(" u=")[2]
        ln = re.search(r"len=(\d+)", s or "")
        su = (s or "").partition(" u=")[2]
        rejected = iu in ("rej", "unparsable")
        if ln and int(ln.group(1)) > 255:
            # the property directly (RFC 8613 2: 0..255 bytes; "any modification of the OSCORE option makes the recipient reject")
            if not rejected:
                return ("spec", "OSCORE option of %s bytes accepted: %s" % (ln.group(1), short(iu)))
            if su != "rej":
                return ("tie", "the reference accepts an OSCORE option of %s bytes" % ln.group(1))
            if "dec=rej" not in (m or ""):
                return ("tie", "model M (oscore_decode_option_value) accepts an OSCORE option of %s bytes" % ln.group(1))
            return None
        if (rejected and su == "rej") or iu == su:
            return None
        return ("spec", "OSCORE option value extended on the path: implementation %s but the RFC 8613 reference gives %s" % (short(iu), short(su)))
    if op == "odisp":
        # impl / M: ` <o|p>:h<handler runs>,<response written>` per step; S: ` <o|p>:h<0|1>` = must the handler run
        fi, fs = (i or "").split(" "), (s or "").split(" ")
        if len(fi) != len(fs):
            return ("tie", "odisp: %s against %s" % (short(i), short(s)))
        for k, (a, b) in enumerate(zip(fi, fs)):
            if a.split(",")[0] != b:
                return ("spec", "request %d through coap_dispatch(): implementation %s but %s" % (
                    k, a, "an unprotected request must be rejected without invoking the handler of an OSCORE only resource"
                    if b == "p:h0" else "the property says %s" % b))
            if a.startswith("p:") and a.endswith("E"):
                return ("spec", "request %d: a protected response to an unprotected request (%s)" % (k, a))
        if i != m:
            return ("tie", "coap_dispatch / OSCORE only test: implementation %s but model M (Model/OscoreDispatch.lean) says %s" % (
                first_diff(i, m), first_diff(m, i)))
        return None
    if op == "findctx":
        # impl / M: result of every store operation and lookup + the final store; S: for the lookups of the kind
        # coap_oscore_decrypt_pdu does, the first (context, recipient) pair the request names (`~`: the store is ambiguous)
        ti, ts = (i or "").split(" "), (s or "").split(" ")
        for k, x in enumerate(ts):
            if x.startswith("f:") and not x.endswith("~") and (k >= len(ti) or ti[k] != x):
                return ("spec", "lookup %d in an unambiguous store of security contexts: oscore_find_context gives %s but the pair "
                                "whose Recipient ID / ID Context the request names is %s" % (k, ti[k] if k < len(ti) else "?", x))
        if i != m:
            return ("tie", "context store: implementation %s but model M says %s" % (first_diff(i, m), first_diff(m, i)))
        return None
    if op in ("sha256", "hmac", "hkdf", "ccm"):
        if c["input"] in KAT and m != KAT[c["input"]]:
            return ("tie", "S's primitive fails its known-answer test: %s, expected %s" % (short(m), KAT[c["input"]]))
        if i != m:
            return ("spec", "GnuTLS-backed primitive gives %s, the reference primitive %s" % (short(i), short(m)))
        return None
    # helpers: I vs S, I vs M
    if op == "derive" and i == "bad-context" and len(c["input"].split()[3]) // 2 > 57:
        # compose_info()'s 80-byte buffer: refused cleanly since fix d0cffe1
        ctx.cov["idctx_over_buffer_refused"] = ctx.cov.get("idctx_over_buffer_refused", 0) + 1
        return None
    if c["input"] in KAT and s != KAT[c["input"]]:
        return ("tie", "S fails the published vector: %s, expected %s" % (short(s), KAT[c["input"]]))
    if m == "oob":
        # M says the C code leaves its buffer: the harness gives a buffer that is large enough, the result is not meaningful
        ctx.cov["model_oob_cases"] = ctx.cov.get("model_oob_cases", 0) + 1
        return None
    if i != s:
        return ("spec", "implementation %s but the specification says %s" % (short(i), short(s)))
    if i != m:
        return ("tie", "implementation %s but model M says %s" % (short(i), short(m)))
    return None


def diff_step(a, b):
    """number (from 1) of the first `key=value` field of transcript a that differs from b"""
    fa, fb = (a or "").split(" "), (b or "").split(" ")
    n = 0
    for k, x in enumerate(fa):
        if "=" in x and x.split("=")[0] in ("req", "ureq", "resp", "uresp", "uresp2", "late", "dg", "u"):
            n += 1
        if k >= len(fb) or x != fb[k]:
            return "%d (%s)" % (n, x.split("=")[0])
    return "%d (end)" % n


def field_diff(a, b):
    """the first field of `k=v k=v …` line a that differs from b (and what follows, shortened)"""
    fa, fb = (a or "").split(" "), (b or "").split(" ")
    for k, x in enumerate(fa):
        if k >= len(fb) or x != fb[k]:
            return " ".join(y if len(y) < 90 else y[:80] + "…" for y in fa[k:k + 3])
    return "(nothing more)"


def first_diff(a, b):
    """the first differing field of two `k=v k=v …` lines"""
    a, b = a or "", b or ""
    fa, fb = a.split(" "), b.split(" ")
    for k, x in enumerate(fa):
        if k >= len(fb) or x != fb[k]:
            ctxt = " ".join(fa[max(0, k - 1):k + 7])
            return short(ctxt)
    return short(a[-150:])


def nontrivial(c):
    i = c["impl"] or ""
    op = c["input"].split()[0]
    if op == "osc":
        return "ureq=ok" in i
    if op == "oseq":
        return "uresp=ok" in i or "late=ok" in i
    if op == "oscm":
        return "ureq=ok" in i
    if op == "oscx":
        return "uresp=ok" in i
    if op == "oinj":
        return " u=ok" in i
    if op == "olen":
        return " u=" in i
    if op == "odisp":
        return ":h1" in i
    if op == "findctx":
        return re.search(r" f:\d", i) is not None
    if op == "tamper":
        return i.startswith("n=")
    return not i.startswith(("rej", "bad", "0 -", "fail", "crash"))


def classify(c):
    w = c["input"].split()
    op = w[0]
    i = c["impl"] or ""
    if op == "osc":
        k = "osc:" + ("mirrored" if w[1:4] == w[6:9] and w[4] == w[10] and w[5] == w[9] else "different-context")
        return k + (":observe" if ",6:" in i or "opts=6:" in i else "") + (":rejected" if "=rej" in i else "")
    if op == "tamper":
        return "tamper:" + w[17]
    if op == "oscm":
        sel = i.rpartition("sel=")[2]
        return "oscm:" + ("no-context" if sel == "none" else "first" if sel == "0.0" else "later") + \
               (":empty-kid" if w[4] == "-" else "") + (":rejected" if "=rej" in i else "")
    if op == "oinj":
        nums = [int(x.split(":")[0]) for x in w[18].split(",")]
        return "oinj:" + w[17] + (":classE" if any(n in CLASS_E for n in nums) else "") + \
               (":other" if any(n not in CLASS_E for n in nums) else "") + (":rejected" if "u=rej" in i else "")
    if op == "olen":
        return "olen:" + w[17] + (":over255" if int(w[18]) >= 256 else ":short") + (":rejected" if i.endswith(("u=rej", "u=unparsable")) else "")
    if op == "odisp":
        return "odisp" + (":plain-after-oscore" if re.search(r"o:h1.* p:", i) else "") + (":rejected" if "o:h0" in i else "")
    if op == "oscx":
        tr = i.partition(" |")[2]
        sel = re.findall(r" s:(\S+)", tr)
        return "oscx:" + ("interleaved" if len(set(sel)) > 1 else "one-context") + (":observe" if re.search(r",1( |$)", tr) else "") + \
               (":rejected" if "=rej" in i else "")
    if op == "oseq":
        st = oseq_groups(w[14:])
        qs = [g for g in st if g[0] == "q"]
        toks = [g[1][8:8 + 2 * (int(g[1][1], 16))] if len(g) > 1 else "" for g in qs]
        k = "oseq:" + ("reuse" if len(set(toks)) < len(toks) else "fresh")
        if any(g[0] == "f" for g in st): k += ":late"
        if any(g[0] == "r" and g[3] == "dd" for g in st): k += ":dup"
        return k + (":observe" if ",6:" in i or "opts=6:" in i else "") + (":rejected" if "=rej" in i else "")
    return op


def oseq_groups(w):
    """the step words of an oseq line as groups: ['q', req, how] / ['r', resp, piv, how] / ['f', idx]"""
    out, k = [], 0
    size = {"q": 3, "r": 4, "f": 2}
    while k < len(w):
        n = size.get(w[k], 1)
        out.append(w[k:k + n])
        k += n
    return out


def search(ctx, tie_breaks, proof):
    rng = ctx.rng
    out = []
    for i in range(3000):
        out.append(gen_oseq_line(rng, wrong="sid" if rng.random() < 0.05 else None, weird=rng.random() < 0.2))
    for i in range(3000):
        out.append(gen_osc_line(rng, wrong=rng.random() < 0.1, weird=rng.random() < 0.2))
    for i in range(60):
        out.append(gen_tamper_line(rng))
    for i in range(1500):
        out.append(gen_oscm_line(rng, unknown=rng.random() < 0.1))
    for i in range(1500):
        out.append(gen_findctx_line(rng))
    for i in range(1500):
        out.append(gen_oinj_line(rng))
    for i in range(1500):
        out.append(gen_oscx_line(rng))
    out += gen_helper_lines(rng, 6000)
    return out


def shrink(ctx, case):
    """osc lines: drop responses from the end, then shrink nothing else (the line is already one exchange);
    tamper lines: narrow the flip / truncation range to the first offending position"""
    from vlib.runner import diff_side
    import props.C14 as me
    w = case["input"].split()
    if w[0] == "tamper":
        m = re.search(r"(flip of bit|truncat\w+ to) (\d+)", case.get("why", ""))
        if m:
            k = int(m.group(2))
            rng_ = ["%d" % k, "%d" % (k + 1), "0", "0"] if m.group(1).startswith("flip") else ["0", "0", "%d" % k, "%d" % (k + 1)]
            line = " ".join(w[:18] + rng_)
            for cc in diff_side(ctx, me, [line]):
                v = judge(ctx, cc)
                if v and v[0] == "spec":
                    cc["why"] = v[1]
                    return cc
        return case
    if w[0] == "oseq":
        # drop steps from the end, then single steps (a dropped `h` step renumbers the held datagrams: the candidate simply
        # has to fail again to be kept)
        def fails(groups):
            if not oseq_in_domain(w[:14] + [x for g in groups for x in g]):
                return None
            cc = diff_side(ctx, me, [" ".join(w[:14] + [x for g in groups for x in g])])[0]
            v = judge(ctx, cc)
            if v and v[0] == "spec":
                cc["why"] = v[1]
                return cc
            return None
        groups, best = oseq_groups(w[14:]), case
        while len(groups) > 1:
            cc = fails(groups[:-1])
            if not cc:
                break
            groups, best = groups[:-1], cc
        k = 0
        while k < len(groups) and len(groups) > 1:
            cc = fails(groups[:k] + groups[k + 1:])
            if cc:
                groups, best = groups[:k] + groups[k + 1:], cc
            else:
                k += 1
        return best
    if w[0] in ("oinj", "oscx"):
        def fails(words):
            cc = diff_side(ctx, me, [" ".join(words)])[0]
            v = judge(ctx, cc)
            if v and v[0] == "spec":
                cc["why"] = v[1]
                return cc
            return None
        best = case
        if w[0] == "oinj":
            # drop the added options one at a time
            items, k = w[18].split(","), 0
            while len(items) > 1 and k < len(items):
                cand = items[:k] + items[k + 1:]
                cc = fails(w[:18] + [",".join(cand)])
                if cc:
                    items, best = cand, cc
                else:
                    k += 1
            return best
        # oscx: drop steps from the end, then single steps (the line has to fail again to be kept)
        ns = int(w[3])
        base = 5 + 5 * ns + 2 * int(w[4 + 5 * ns])
        size = {"q": 4, "r": 5}
        groups, k = [], base
        while k < len(w):
            n = size.get(w[k], 1)
            groups.append(w[k:k + n]); k += n
        flat = lambda gs: w[:base] + [x for g in gs for x in g]
        while len(groups) > 1:
            cc = fails(flat(groups[:-1]))
            if not cc:
                break
            groups, best = groups[:-1], cc
        k = 0
        while k < len(groups) and len(groups) > 1:
            cc = fails(flat(groups[:k] + groups[k + 1:]))
            if cc:
                groups, best = groups[:k] + groups[k + 1:], cc
            else:
                k += 1
        return best
    if w[0] == "findctx":
        # drop steps one at a time (the line has to fail again to be kept)
        size = {"c": 3, "a": 2, "d": 2, "f": 4}
        groups, k = [], 1
        while k < len(w):
            n = size.get(w[k], 1)
            groups.append(w[k:k + n]); k += n
        best, k = case, 0
        while k < len(groups) and len(groups) > 1:
            cand = groups[:k] + groups[k + 1:]
            cc = diff_side(ctx, me, [" ".join(["findctx"] + [x for g in cand for x in g])])[0]
            v = judge(ctx, cc)
            if v and v[0] == "spec":
                cc["why"] = v[1]; groups, best = cand, cc
            else:
                k += 1
        return best
    if w[0] == "oscm":
        # drop the responses, then the server's contexts one at a time (the line has to fail again to be kept)
        def fails(words):
            cc = diff_side(ctx, me, [" ".join(words)])[0]
            v = judge(ctx, cc)
            if v and v[0] == "spec":
                cc["why"] = v[1]
                return cc
            return None
        best = case
        ns = int(w[9])
        base = 10 + 5 * ns
        cc = fails(w[:base + 1])
        if cc:
            w, best = w[:base + 1], cc
        k = 0
        while ns > 1 and k < ns:
            cand = w[:9] + [str(ns - 1)] + w[10:10 + 5 * k] + w[15 + 5 * k:]
            cc = fails(cand)
            if cc:
                w, best, ns = cand, cc, ns - 1
            else:
                k += 1
        return best
    if w[0] == "osc":
        best = case
        while len(w) > 15:
            w = w[:-2]
            cc = diff_side(ctx, me, [" ".join(w)])[0]
            v = judge(ctx, cc)
            if v and v[0] == "spec":
                cc["why"] = v[1]; best = cc
            else:
                break
        return best
    return case


def known(ctx, c):
    """open finding c14-token-shared-across-directions: an `oend` line on which one token is used in both directions, libcoap
    (as model M with its ONE table predicts, transcript and associations) refuses to protect a response / rejects a genuine
    response where the reference with token spaces per direction produces / accepts one — and nothing else differs"""
    if c["input"].split()[0] != "oend":
        return None
    v = judge(ctx, c)
    if v and v[0] == "spec" and v[1].startswith("KNOWN c14-token-shared-across-directions"):
        return "c14-token-shared-across-directions"
    return None


# ---- T1Y: the numerals of this property's models are tied to the current tree.  extract/consts2*.c + a source scan
# rewrite lean/CoapVerif/Generated/Consts2.lean on every check; Props/C14Consts.lean proves `<model numeral / model
# function> = Generated.C2.<name>` (design/T1.md).  A changed macro / enum value / case label / literal breaks one of
# these named obligations.
LEAN_MODULES = list(LEAN_MODULES) + ["CoapVerif.Props.C14Consts"]
REQUIRED_THEOREMS = list(REQUIRED_THEOREMS) + [
    "protectClass_matches_code",
    "protectGroups_match_code",
    "decryptSkips_matches_code",
    "decryptMerge_matches_code",
    "generateNonce_matches_code",
    "aesCcm_parameters_match_code",
    "oscoreOptionNumbers_match_code",
]
TRUSTED_BASE = list(TRUSTED_BASE) + ["T1 extractors extract/consts2.c, consts2_net.c, consts2_opt.c, consts2_res.c and the source scan vlib/tables.py scan_consts2 / scan_oscore_protect (Generated/Consts2.lean)"]
_t1x_prev_extract = globals().get("extract")


def extract(ctx):
    from vlib import tables
    return (_t1x_prev_extract(ctx) if _t1x_prev_extract else []) + tables.extract_consts2()
