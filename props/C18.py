"""C18 — any single allocation failure is survived: clean error, no leak, endpoint still works (DESIGN.md §4 C18, design/C18.md)."""
import os, re, subprocess, sys
from vlib import common as C
from vlib.simlib import SIM_WRAPS

# clean (exit 0) at seeds 1..5 quick on 2026-09-26 with the 16-scenario catalogue + observer scripts
MANIFEST = {
    "category": "proof",
    "text": "PROOF for the helper layer and the send-path skeleton, FAULT ENUMERATION for the catalogue. Proved in Lean for every "
            "allocation oracle (any pattern of failing requests) and all arguments, about a transcription M of coap_pdu_init / "
            "coap_pdu_resize / coap_pdu_check_resize / coap_add_token / coap_add_option (append branch) / coap_add_data / "
            "coap_new_optlist+insert / coap_delete_optlist / coap_add_optlist_pdu / coap_new_string|str_const|bin_const and of the "
            "ownership skeleton of coap_send -> coap_send_internal -> {sent & freed | queued node owns it | delayed node owns it | "
            "error & freed}: failure_atomic (a failing primitive leaves the PDU and the ledger as they were), no_leak_on_failure, "
            "send_consumes_pdu (released exactly once or owned by exactly one node; COAP_INVALID_MID only with the PDU released), "
            "next_op_succeeds, alloc_count_matches, and ledger_replay / script_ledger_ok (for every script and oracle M's ledger is "
            "exactly what the verified monitor ledgerOk computes from M's trace). Also in M and proved for every oracle: Observe "
            "registration -- coap_pdu_duplicate (no option filter), coap_cache_derive_key_w_ignore (one request), coap_add_observer "
            "(found / replaced through the cache key / new, payload copy, second key derivation) and coap_delete_observer with the "
            "server session's reference count: observer_refs_balanced (every script, every oracle: session->ref = number of "
            "subscriptions, so no failing request leaves a reference without holder or a holder without reference), "
            "add_observer_spec (NULL => subscriber list, reference count and ledger exactly as before; success => one subscription, "
            "one reference, exactly its four objects), add_observer_succeeds_with_memory (all-true oracle: a registration whose token "
            "and options fit succeeds), deleteObserver_spec, pduDuplicate_live. M is tied to the compiled code by running generated "
            "helper scripts under every single failing request index (and sampled pairs) on both and comparing return values, request "
            "counts, PDU bytes, alloc_size, queues, the session's reference count, the subscriber list, the request kept with a subscription "
            "and the allocation trace event by event. NOT proved, enumerated only (OBSERVATION of the real code against the property text, no theorem): the 16 scenarios "
            "uri, pdu, request/response, Block1, Block2, observe, set-up/tear-down, OSCORE, 5.08, /.well-known/core of a 17-resource "
            "server (block-wise, with filters), hand-built Block1 upload without Size1 (in and out of order), hand-written Block2 "
            "server without Size2 (no ETag / ETag / changing ETag), block-wise observe, cache entries with app data, async, observer life "
            "cycle (FETCH registration with payload, re-registration under a new token, second subscription, deregistration by an "
            "unknown token, resource deleted while observed) are run on "
            "the real code with every single allocation request failing (about 1570 runs; thorough: every pair, capped at 40000 per scenario), "
            "each followed by a canary exchange on the same contexts, and "
            "judged by ASan/UBSan, the verified ledger monitor on the REAL allocation trace, LSan, PDU-consumed evidence, the canary, "
            "and SESSION-REFERENCE ACCOUNTING after the canary: every session's reference count equals the number of its holders "
            "(application, subscriptions, async entries, send-queue nodes) and every server session nothing holds is reclaimed "
            "once the session timeout has passed in virtual time (a leaked reference is invisible to the ledger: tear-down drops it); "
            "this searches for a failing (scenario, k) and validates nothing beyond what it executes.",
    "note": "Twenty libcoap defects found and fixed on the way (KNOWN_FINDINGS.txt, fixed: property=C18; the last three: coap_add_observer "
            "kept a subscription whose FETCH request had lost its body, coap_pdu_duplicate returned a copy without token, "
            "coap_register_async kept a request that had lost its body); no open "
            "finding. TCP/TLS/WS "
            "sessions, Q-Block and proxy paths are not in the catalogue. Only requests made "
            "through coap_malloc_type/coap_realloc_type are failed (uthash's malloc exits on OOM; GnuTLS/libc untouched). Trusted: "
            "Lean kernel (+ propext, Classical.choice, Quot.sound), harness + allocator wrap + virtual-time epoll_wait + judge, "
            "addr2line for site names, the hand transcription M (checked on the scripts run).",
    "design_ref": "DESIGN.md §4 C18, design/C18.md",
}
LEAN_MODULES = ["CoapVerif.Props.C18"]
NAMESPACE = "Coap.C18"
REQUIRED_THEOREMS = ["failure_atomic", "no_leak_on_failure", "send_consumes_pdu", "send_error_keeps_slot", "next_op_succeeds",
                     "alloc_count_matches", "ledger_replay", "script_ledger_ok", "script_verdict",
                     "observer_refs_balanced", "observer_refs_count", "add_observer_spec", "createSub_spec", "deleteObserver_spec",
                     "pduDuplicate_live", "addObserver_balanced", "add_observer_succeeds_with_memory"]
RULE = ("(1) helper-layer scripts `ahelp k1 k2 <ops>`: random sequences (4..16 calls) of coap_pdu_init / add_token / add_option "
        "(ascending numbers, lengths on both sides of 12/13, 268/269) / add_data / pdu_resize / pdu_check_resize / delete_pdu / "
        "new_optlist+insert_optlist / add_optlist_pdu / delete_optlist / new_string|str_const|bin_const / delete / coap_send "
        "(CON and NON, socket write ok or failing) / in about a third of the scripts coap_add_observer and coap_delete_observer on "
        "the server's session with the current PDU as the request (same token again, another token for the same request, after "
        "more options or a payload, token lengths 0..300) with sizes on both sides of the 256-byte first buffer and of max_size, run "
        "under EVERY single failing request index (and sampled pairs) on the real code and on the model M: return values, "
        "number of requests, PDU bytes, alloc_size, queues, session reference count / subscriber tokens / the request kept with "
        "the first subscription and the allocation trace must be equal (and, against the property itself: reference count = "
        "number of subscriptions, every subscription under a token a successful call was given); "
        "(2) fault ENUMERATION of the catalogue scenarios (harness/allocfail.c): uri, pdu, rr, b1, b2, obs, setup, osc, h508, "
        "wkc (12 more resources with attributes, GET /.well-known/core unfiltered / rt=temp* / if=core.p / no match, block-wise), "
        "b1raw (five hand-built 512-byte Block1 requests without Size1, in order and in the order 0,2,1,4,3, to a SINGLE_BODY "
        "server), b2raw (libcoap client against a hand-written Block2 server side without Size2: no ETag, ETag, ETag changing "
        "once), obsblk (observe of a 3-block body: registration, 2 notifications, cancel), cache (coap_cache_ignore_options, "
        "derive_key, new_cache_entry with recorded PDU and app data, lookup, expiry, tear-down), async (coap_register_async, "
        "coap_async_trigger, timer; GET and a PUT whose payload the delayed call must still see), obsre (observer life cycle: FETCH registration with payload, the same request under a new "
        "token, a second subscription, deregistration by a token the server never saw, coap_delete_resource while observed): every single failing request index k (quick and thorough) and pairs (k, k2) (quick: a "
        "seeded sample of 4000, thorough: every pair of a scenario up to 40000 per scenario, i.e. at present all 120833 pairs; a seeded sample beyond), each "
        "followed by a canary exchange, judged by ASan/UBSan, the Lean-verified ledger monitor on the real allocation trace, "
        "LSan, PDU-consumed evidence, 'a 2.xx body that claims to be complete is the body' (obsre: 'a notification is computed "
        "from the request the subscription was registered with'), the canary, and after the canary: reference count of every "
        "session = number of its holders, and no server session without holder survives the session timeout; non-trivial = a run "
        "in which at least one request actually failed")
TRUSTED_BASE = ["Lean 4.33 kernel; axioms allowed: propext, Classical.choice, Quot.sound (audited per theorem each run)",
                "harness/allocfail.c on sim_core.h (virtual clock, scripted network, epoll_wait in virtual time), the wrapped "
                "allocator (coap_malloc_type/realloc_type/free_type) that injects the failure and records the real trace, "
                "harness/allocfail_pipe.py (crash attribution, addr2line), generators, the python judge",
                "ASan/UBSan/LSan as observers of the compiled C (invalid access, leaks of memory not allocated through coap_malloc_type)",
                "M (CoapVerif/Model/AllocOracle.lean) is a hand transcription of the helper layer, of the ownership skeleton "
                "of the send path and of coap_add_observer / coap_delete_observer / coap_pdu_duplicate; checked against the compiled "
                "code only on the scripts run; SHA-256 of the cache key is abstracted to its input (no collision among the keys of a script)",
                "the holder count of the reference accounting is computed by the harness from libcoap's own lists (send queue, "
                "subscribers of every resource, async list) -- the list of who may hold a session reference is read from the source",
                "T1 extractor extract/repeatable.c (non-repeatable option table used by coap_add_option)"]
ASSUMPTIONS = ["PROVED only for the helper layer (PDU init/resize/token/option/data, optlist, strings) and the ownership skeleton of "
               "coap_send/coap_send_internal; for the catalogue scenarios beyond it (request/response, Block1, Block2, observe, "
               "OSCORE, set-up/tear-down) the run is fault ENUMERATION: it searches for a failing (scenario, k) and validates "
               "nothing beyond what it executes",
               "only allocations made through coap_malloc_type / coap_realloc_type are failed; uthash's internal malloc (exit on "
               "OOM), GnuTLS and libc allocations are not",
               "option model domain: coap_add_option in ascending order, numbers other than Proxy-Uri/Proxy-Scheme (append branch)",
               "send skeleton: UDP client session, ESTABLISHED, block mode off, no OSCORE, no Echo pending",
               "observer model: one observable resource, one UDP server session, request code not FETCH (payload copied but not part "
               "of the key), no observe_added / observe_deleted callbacks, COAP_RESOURCE_MAX_SUBSCRIBER = 0; add_observer_spec's ledger "
               "part is stated for the case that no subscription is replaced (the replaced one is covered by deleteObserver_spec "
               "and observer_refs_balanced)",
               "compiled Lean definitions agree with the kernel's reading of them"]
SPEC_DECISIONS = ["D18a 'the next operation with memory available succeeds' is checked by a canary CON GET on the SAME contexts after the "
                  "outstanding exchanges have run their course in virtual time (retransmissions included), on fresh ones when "
                  "set-up itself was the operation that failed",
                  "D18b a failed operation may have partial, well-formed effects where the API has no transactional contract "
                  "(coap_add_optlist_pdu stops after the options already added); `failure_atomic` is stated for the primitive helpers",
                  "D18c a truncated or wrong body handed to the application as if complete is NOT a clean failure"]
RUN_KW = {"timeout": 1800, "env": {"ASAN_OPTIONS": "detect_leaks=1:abort_on_error=0:exitcode=86:allocator_may_return_null=1:leak_check_at_exit=0"}}
WRAPS = SIM_WRAPS + ["coap_malloc_type", "coap_realloc_type", "coap_free_type", "epoll_wait"]
PAIR_CAP = 40000        # thorough: pairs per scenario (every pair below it, a seeded sample above)
SCENARIOS = ["uri", "pdu", "rr", "b1", "b2", "obs", "setup", "osc", "h508", "wkc", "b1raw", "b2raw", "obsblk", "cache", "async", "obsre"]
# visible outcome of every scenario when no request fails (k = 0)
EXPECT0 = {
    "uri": "split0,u2o1,u2os0,p2o1,q2o1,ins1,olpdu1,path9,query8,str1111,rsz1,uri11,req0,rsp0,nack0,body0/0,put0/0",
    "pdu": "tok1,o202,o122,o6,o152,o6,d1,dup11,used498,used342,parse1,req0,rsp0,nack0,body0/0,put0/0",
    "rr": "req2,rsp3,c2.05,c2.05,c4.04,nack0,body0/0,put0/0",
    "b1": "req1,rsp1,c2.04,nack0,body0/0,put1/0",
    "b2": "req1,rsp1,c2.05,nack0,body1/0,put0/0",
    "obs": "notify1,notify1,cancel1,notify0,req4,rsp4,c2.05,c2.05,c2.05,c2.05,nack0,body0/0,put0/0",
    "setup": "up,down,req0,rsp0,nack0,body0/0,put0/0",
    "osc": "req1,rsp1,c2.05,nack0,body0/0,put0/0",
    "h508": "req1,rsp1,c5.08,nack0,body0/0,put0/0",
    "wkc": "len1159,len393,len163,len0,req0,rsp4,c2.05,c2.05,c2.05,c2.05,nack0,body4/0,put0/0",
    "b1raw": "req2,rsp10,c2.31,c2.31,c2.31,c2.31,c2.04,c2.31,c2.31,c2.31,c2.31,c2.04,nack0,body0/0,put2/0",
    "b2raw": "req18,rsp3,c2.05,c2.05,c2.05,nack0,body3/0,put0/0",
    "obsblk": "notify1,notify1,cancel1,notify0,req4,rsp4,c2.05,c2.05,c2.05,c2.05,nack0,body4/0,put0/0",
    "cache": "ign1,ign1,cb1,key11,ent1,pdu313,bykey1,bypdu1,other1,req3,rsp3,c2.01,c2.05,c2.01,nack0,body0/0,put0/0",
    "async": "pending1,req6,rsp3,c2.05,c2.05,c2.05,nack0,body0/0,put0/0",
    "obsre": "subs1,notify1,subs2,notify1,subs1,notify1,delres1,req8,rsp9,c2.05,c2.05,c2.05,c2.05,c2.05,c2.05,c2.05,c2.05,c4.04,nack0,body0/0,put0/0",
}


def extract(ctx):
    import props.C01 as c01          # M uses Generated.nonRepeatable (coap_option_check_repeatable)
    return c01.extract(ctx)


def _binary():
    bdir = C.build_libcoap()
    out = os.path.join(bdir, "h_allocfail")
    core = os.path.join(C.VERIF, "harness", "sim_core.h")
    if os.path.exists(out) and os.path.getmtime(core) > os.path.getmtime(out):
        os.unlink(out)
    return C.build_harness("allocfail", bdir, wraps=WRAPS)


def harness(ctx):
    return [sys.executable, os.path.join(C.VERIF, "harness", "allocfail_pipe.py"), _binary(), C.driver_path()]


def _run_direct(lines):
    e = dict(os.environ)
    e.update(RUN_KW["env"])
    e["UBSAN_OPTIONS"] = "print_stacktrace=1:halt_on_error=1:exitcode=87"
    r = subprocess.run(harness(None), input="".join(l + "\n" for l in lines), stdout=subprocess.PIPE, stderr=subprocess.PIPE,
                       text=True, env=e, timeout=600)
    return r.stdout.splitlines()


# ------------------------------------------------------------------ generators
def gen_script(rng):
    """a helper-layer script inside M's domain (option numbers ascending, no Proxy-Uri/-Scheme); returns (ops, request bound)"""
    ops = []
    cur = rng.choice([0, 1, 3, 11])
    have_pdu = False
    ol_open = False
    bound = 0
    n = rng.choice([4, 6, 8, 10, 12, 16])
    if rng.random() < 0.8:
        ops.append("I%d" % rng.choice([0, 8, 64, 255, 256, 257, 300, 1152, 1152, 1152, 5000, 70000]))
        have_pdu = True; bound += 2
    nol = 0
    ol_max = 0
    # observer scripts (about a third): coap_add_observer / coap_delete_observer on the server's session with the current PDU
    # as the request -- the same token again (found), another token for the same request (replaced through the cache key),
    # after more options / a payload (a further subscription; the payload is copied), tokens on both sides of 8/12/13/268/269
    obs_mode = rng.random() < 0.35
    obs_toks = [rng.choice([0, 1, 2, 4, 8]), rng.choice([1, 3, 8, 9, 12, 13]), rng.choice([5, 200, 268, 269, 300])]
    for _ in range(n):
        if obs_mode and rng.random() < 0.4:
            if rng.random() < 0.7:
                ops.append("A%d" % rng.choice(obs_toks))
                bound += 8
            else:
                ops.append("B%d" % rng.choice(obs_toks + [7]))
            continue
        c = rng.random()
        if c < 0.08:
            ops.append("I%d" % rng.choice([0, 8, 64, 255, 256, 257, 300, 1152, 1152, 5000, 70000, 8388858, 8388859]))
            have_pdu = True; bound += 2
        elif c < 0.16:
            ops.append("T%d" % rng.choice([0, 1, 4, 8, 9, 12, 13, 200, 268, 269, 300]))
            bound += 1
        elif c < 0.40 and not ol_open:
            cur += rng.choice([0, 0, 1, 1, 2, 5, 12, 13, 14, 200, 268, 269, 270, 1000])
            while cur in (35, 39):
                cur += 1
            cur = min(cur, 65000)
            ops.append("O%d:%d" % (cur, rng.choice([0, 1, 3, 12, 13, 14, 100, 230, 255, 268, 269, 270, 400, 1000, 1300])))
            bound += 1
        elif c < 0.50:
            ops.append("D%d" % rng.choice([0, 1, 10, 200, 243, 250, 255, 256, 600, 1100, 2000]))
            bound += 1
        elif c < 0.56:
            ops.append("%s%d" % (rng.choice("RC"), rng.choice([0, 1, 100, 255, 256, 257, 511, 512, 513, 1151, 1152, 1153, 5000, 40000])))
            bound += 1
        elif c < 0.70:
            num = cur + rng.choice([0, 0, 1, 3, 12, 13, 200, 300, 1000])
            while num in (35, 39):
                num += 1
            num = min(num, 65000)
            ops.append("L%d:%d" % (num, rng.choice([0, 1, 5, 12, 13, 100, 268, 269, 300])))
            ol_open = True; nol += 1; bound += 1
            ol_max = max(num, ol_max)
        elif c < 0.76:
            # the list is not consumed by coap_add_optlist_pdu: a second P would re-add lower numbers (insert branch,
            # outside M's domain), so the list is deleted right away
            ops.append("P"); ops.append("X")
            if ol_open:
                cur = max(cur, ol_max)
            ol_open = False
            bound += nol
            nol = 0; ol_max = 0
        elif c < 0.79:
            ops.append("X"); ol_open = False; nol = 0; ol_max = 0
        elif c < 0.86:
            ops.append("%s%d" % (rng.choice("Ssb"), rng.choice([0, 1, 5, 100, 1000])))
            bound += 1
        elif c < 0.88:
            ops.append("F")
        elif c < 0.90:
            ops.append("K")
        elif c < 0.97:
            ops.append(rng.choice(["Vc", "Vc", "Vn"]))
            bound += 1
        else:
            ops.append(rng.choice(["W0", "W1"]))
    return ops, bound


def generate(ctx, escalate=False):
    rng = ctx.rng
    out = []
    thorough = ctx.thorough() or escalate
    # (2) catalogue: count the requests of every scenario first (k = 0), then every single k, then pairs
    base = _run_direct(["alloc %s 0" % s for s in SCENARIOS])
    counts = {}
    for s, b in zip(SCENARIOS, base):
        m = re.match(r"n=(\d+) ", b or "")
        counts[s] = int(m.group(1)) if m else 0
    ctx.cov["allocation_requests_per_scenario"] = dict(counts)
    for s in SCENARIOS:
        out.append("alloc %s 0" % s)
        out += ["alloc %s %d" % (s, k) for k in range(1, counts[s] + 1)]
    pairs = []
    ctx.cov["pairs_total"] = 0
    for s in SCENARIOS:
        ps = [(s, a, b) for a in range(1, counts[s] + 1) for b in range(a + 1, counts[s] + 1)]
        ctx.cov["pairs_total"] += len(ps)
        if len(ps) > PAIR_CAP:                     # thorough: every pair of a scenario up to PAIR_CAP, a seeded sample beyond
            ps = rng.sample(ps, PAIR_CAP)
        pairs += ps
    if not thorough:
        pairs = rng.sample(pairs, min(len(pairs), 4000))
    ctx.cov["pairs_run"] = len(pairs)
    out += ["alloc %s %d %d" % p for p in pairs]
    # (1) modelled layer
    nscripts = 1200 if thorough else 160
    for _ in range(nscripts):
        ops, bound = gen_script(rng)
        body = " ".join(ops)
        out.append("ahelp 0 0 " + body)
        for k in range(1, bound + 1):
            out.append("ahelp %d 0 %s" % (k, body))
        for _ in range(6 if thorough else 2):
            if bound >= 2:
                a = rng.randrange(1, bound)
                b = rng.randrange(a + 1, bound + 1)
                out.append("ahelp %d %d %s" % (a, b, body))
    return out


# ------------------------------------------------------------------ reading a canonical line
def fields(s):
    f = {}
    parts = (s or "").split(" | ")
    for w in parts[0].split(" T ")[0].split():
        if "=" in w:
            k, _, v = w.partition("=")
            f[k] = v
    if " T " in parts[0]:
        f["T"] = re.sub(r":[a-z]+", "", parts[0].split(" T ", 1)[1].strip())
    for p in parts[1:]:
        k, _, v = p.partition("=")
        f[k.strip()] = v.strip()
    return f


def site_of(impl):
    m = re.search(r"fail=(\S+)", impl or "")
    return m.group(1) if m else "-"


def symptoms(c):
    """what is wrong with a catalogue run, as a dict {class: detail}; classes: crash, ledger, lsan, consumed, canary, refs, idle, body, baseline"""
    i = c["impl"] or ""
    w = c["input"].split()
    scn = w[1]
    ks = [int(x) for x in w[2:]]
    if i.startswith("crash"):
        return {"crash": i.split(" ", 2)[2] if len(i.split(" ", 2)) > 2 else i}
    f = fields(i)
    what = {}
    led = f.get("ledger", "")
    if not led.startswith("true"):
        what["ledger"] = "the real allocation trace is rejected by the verified monitor ledgerOk: %s" % led
    if f.get("lsan", "0") != "0":
        what["lsan"] = "LeakSanitizer reports a leak after everything was freed"
    if f.get("pdu_consumed") != "yes":
        what["consumed"] = "a PDU given to coap_send was never released (%s, sends=%s)" % (f.get("pdu_consumed"), f.get("sends"))
    can = f.get("canary", "")
    if not can.startswith("ok"):
        what["canary"] = ("the canary exchange with memory available failed (%s: 1 no PDU, 2 coap_send refused, 3 request never "
                          "reached the handler, 4 no response, 5 wrong response code)" % can)
    if f.get("refs", "ok") != "ok":
        what["refs"] = ("a session's reference count differs from the number of its holders (application, subscriptions, async "
                        "entries, send-queue nodes) after everything has settled: %s as <S server|C client><index>:<ref>/<holders> "
                        "(a reference without holder pins the session until the endpoint goes)" % f.get("refs"))
    if f.get("idle", "0") != "0":
        what["idle"] = ("%s server session(s) that nothing holds survive the session timeout (never reclaimed as idle)" % f.get("idle"))
    out = f.get("out", "")
    m = re.search(r"body(\d+)/(\d+),put(\d+)/(\d+)", out)
    if m and (int(m.group(2)) or int(m.group(4))):
        what["body"] = "the application was handed a truncated or wrong body as if it were complete (%s)" % m.group(0)
    if all(k == 0 for k in ks) and out != EXPECT0.get(scn):
        what["baseline"] = "without any failing request the scenario's outcome is `%s`, expected `%s`" % (out, EXPECT0.get(scn))
    return what


def judge_alloc(c):
    i = c["impl"] or ""
    w = c["input"].split()
    if i == "bad-op":
        return ("tie", "harness does not know this line")
    what = symptoms(c)
    if what:
        return ("spec", "scenario %s, failing request(s) %s requested by %s: %s" % (
            w[1], [int(x) for x in w[2:]], site_of(i),
            ("the real code aborted (%s)" % what["crash"]) if "crash" in what else "; ".join(what.values())))
    return None


CMP = ["rc", "n", "pdu", "ol", "str", "q", "obs", "sp", "T"]


def judge_help(c):
    i, m = c["impl"] or "", c["model"] or ""
    if i.startswith("crash"):
        return ("spec", "helper script under failing request(s) %s (%s): the real code aborted (%s)" % (
            c["input"].split()[1:3], site_of(i), i))
    if i == "bad-op" or m == "bad-op":
        return None if i == m else ("tie", "bad-op on one side only: impl %s model %s" % (i[:40], m[:40]))
    fi, fm = fields(i), fields(m)
    if not fi.get("ledger", "").startswith("true"):
        return ("spec", "helper script: the real allocation trace is rejected by the verified monitor ledgerOk: %s" % fi.get("ledger"))
    if fi.get("lsan", "0") != "0":
        return ("spec", "helper script: LeakSanitizer reports a leak")
    # I-vs-property for the observer ops: every subscription carries a token some successful coap_add_observer was given, and
    # the session's reference count is the number of subscriptions (nothing else holds the server session in a script)
    w = c["input"].split()
    rcs = fi.get("rc", "").split(",")
    if "obs" in fi and len(rcs) == len(w) - 3:
        ref, _, toks = fi["obs"].partition("/")
        toks = [] if toks in ("-", "") else toks.split(",")
        given = set(op[1:] for op, rc in zip(w[3:], rcs) if op[0] == "A" and rc == "1")
        lost = [t for t in toks if t not in given]
        if lost:
            return ("spec", "helper script under failing request(s) %s (%s): a subscription is registered under a token of length %s "
                    "that no successful coap_add_observer call was given (the copy of the request lost its token): obs=%s"
                    % (w[1:3], site_of(i), ",".join(lost), fi["obs"]))
        if ref != str(len(toks)):
            return ("spec", "helper script under failing request(s) %s (%s): the server session's reference count is %s with %d "
                    "subscription(s) and no other holder (a reference without holder pins the session for ever, a holder "
                    "without reference is a use after free): obs=%s" % (w[1:3], site_of(i), ref, len(toks), fi["obs"]))
    if "unmodelled" in fm.get("rc", ""):
        return ("tie", "the script left M's domain (generator defect): %s" % fm.get("rc"))
    if fm.get("ledger") != "ok":
        return ("tie", "model M's own ledger is not clean: %s" % fm.get("ledger"))
    for k in CMP:
        if fi.get(k) != fm.get(k):
            return ("tie", "%s: implementation `%s` but model M `%s`" % (k, (fi.get(k) or "")[:200], (fm.get(k) or "")[:200]))
    return None


def judge(ctx, c):
    op = c["input"].split(" ", 1)[0]
    if op == "alloc":
        return judge_alloc(c)
    if op == "ahelp":
        return judge_help(c)
    return None if (c["impl"] == "bad-op" and c["model"] == "bad-op") else ("tie", "unknown op")


def nontrivial(c):
    i = c["impl"] or ""
    return "fail=-" not in i and "fail=" in i or ("ahelp" in c["input"] and c["input"].split()[1] != "0" and "rc=" in i)


def classify(c):
    w = c["input"].split()
    if w[0] == "alloc":
        return "%s:%s" % (w[1], "none" if w[2] == "0" else "single" if len(w) == 3 else "pair")
    k = sum(1 for x in w[1:3] if x != "0")
    return "ahelp:%s" % ["none", "single", "pair"][k]


# ------------------------------------------------------------------ known findings: (scenario, requesting function, what happens)
def known(ctx, c):
    """signature = (scenario, function that requested a failing allocation, what happens).  A case matches an open finding only
    if one of its failing sites lies in the finding's code AND its symptoms are within the finding's symptoms: a different
    site with the same symptom, or the same site with another symptom, is still reported."""
    w = c["input"].split()
    if w[0] != "alloc":
        return None
    sites = site_of(c["impl"] or "").split(",")
    what = set(symptoms(c))
    if not what or sites == ["-"]:
        return None
    def some_site(*names):
        return any(all(n in s.split("<") for n in names) for s in sites)
    # (oscore-conf-alloc-failure-ignored was open here until the fix of coap_parse_oscore_conf_mem: nothing in osc is excused any more)
    # (block2-partial-body-on-alloc-failure and block1-wrong-body-after-build-body-failure were open here until the fixes
    #  dd57cca / 28062c6: no case of b1, b2, b1raw, b2raw, wkc, obsblk may be excused any more)
    return None


def search(ctx, tie_breaks, proof):
    """all pairs for the scenarios + every prefix of the disagreeing helper scripts under every failing index"""
    out = []
    for c in tie_breaks[:20]:
        w = c["input"].split()
        if w[0] != "ahelp":
            continue
        ops = w[3:]
        for n in range(1, len(ops) + 1):
            for k in range(0, 2 * n + 3):
                out.append("ahelp %d 0 %s" % (k, " ".join(ops[:n])))
    return out


def shrink(ctx, case):
    """helper scripts: delete ops while the implementation still contradicts the property; scenarios are already minimal (scenario, k)"""
    w = case["input"].split()
    if w[0] != "ahelp":
        return case
    from vlib.runner import diff_side
    import props.C18 as me
    best, ops = case, w[3:]
    changed, rounds = True, 0
    while changed and rounds < 10 and len(ops) > 1:
        changed = False; rounds += 1
        lines = ["ahelp %s %s %s" % (w[1], w[2], " ".join(ops[:i] + ops[i + 1:])) for i in range(len(ops))]
        for cc in diff_side(ctx, me, lines):
            v = judge(ctx, cc)
            if v and v[0] == "spec":
                cc = dict(cc); cc["why"] = v[1]; best = cc
                ops = cc["input"].split()[3:]
                changed = True
                break
    return best
