"""C18 — any single allocation failure is survived: clean error, no leak, endpoint still works (DESIGN.md §4 C18, design/C18.md)."""
import os, re, subprocess, sys
from vlib import common as C
from vlib.simlib import SIM_WRAPS

# clean (exit 0) at seeds 1..5 quick on 2026-09-26 with the 19-scenario catalogue + generated b1o / b1u orders + observer / atrack / asrcv / asrcvu scripts
MANIFEST = {
    "category": "proof",
    "text": "PROOF for the helper layer, the send-path skeleton, Observe registration and two containers of the Block layer, FAULT ENUMERATION for the catalogue. Proved in Lean for every "
            "allocation oracle (any pattern of failing requests) and all arguments, about a transcription M of coap_pdu_init / "
            "coap_pdu_resize / coap_pdu_check_resize / coap_add_token / coap_add_option (append branch) / coap_add_data / "
            "coap_new_optlist+insert / coap_delete_optlist / coap_add_optlist_pdu / coap_new_string|str_const|bin_const and of the "
            "ownership skeleton of coap_send -> coap_send_internal -> {sent & freed | queued node owns it | delayed node owns it | "
            "error & freed}, for a session that is established or NOT YET established (every message is then delayed: "
            "coap_session_delay_pdu) and with coap_session_connected draining the delay queue: send_pdu_consumed_exactly_once "
            "(for every oracle and session state the ledger events of coap_send are exactly `free buffer, free header` -- sent or "
            "refused -- or `alloc node` with that one node owning the PDU in the send queue or the delay queue), "
            "delayed_send_node_failure_releases_once (message has to be delayed and the delay-queue node is refused: "
            "COAP_INVALID_MID, session untouched, the PDU released exactly once), send_delayed_iff, connected_drain_spec (every "
            "node taken off the delay queue is moved to the send queue still owning its PDU, or released with it exactly once; "
            "no request is made); failure_atomic (a failing primitive leaves the PDU and the ledger as they were), no_leak_on_failure, "
            "send_consumes_pdu (released exactly once or owned by exactly one node; COAP_INVALID_MID only with the PDU released), "
            "next_op_succeeds, alloc_count_matches, and ledger_replay / script_ledger_ok (for every script and oracle M's ledger is "
            "exactly what the verified monitor ledgerOk computes from M's trace). Also in M and proved for every oracle: Observe "
            "registration -- coap_pdu_duplicate (no option filter), coap_cache_derive_key_w_ignore (one request), coap_add_observer "
            "(found / replaced through the cache key / new, payload copy, second key derivation) and coap_delete_observer with the "
            "server session's reference count: observer_refs_balanced (every script, every oracle: session->ref = number of "
            "subscriptions, so no failing request leaves a reference without holder or a holder without reference), "
            "add_observer_spec (NULL => subscriber list, reference count and ledger exactly as before; success => one subscription, "
            "one reference, exactly its four objects), add_observer_succeeds_with_memory (all-true oracle: a registration whose token "
            "and options fit succeeds), deleteObserver_spec, pduDuplicate_live. Also in M (Model/AllocBlock.lean) and proved for every "
            "oracle, two containers of the Block layer: (a) the client's lg_crcv with its list of Observe tokens of a large FETCH "
            "(coap_block_new_lg_crcv, track_fetch_observe, coap_block_delete_lg_crcv): obs_token_cnt_within_list (EVERY call "
            "sequence: the count never exceeds the allocated list, a NULL list has count 0, no call and no tear-down touches memory "
            "outside the list), track_realloc_failure_atomic, lg_crcv_ledger_sound (call sequences the callers can produce: nothing "
            "released twice, nothing live after the lg_crcv is deleted), lg_crcv_new_succeeds_with_memory; (b) the server's lg_srcv "
            "of a Block1 transfer with the body under reassembly and the token of an early final block "
            "(coap_handle_request_put_block in SINGLE_BODY mode, coap_block_build_body, coap_block_delete_lg_srcv): "
            "lg_srcv_ledger_sound (EVERY sequence of Block1 requests -- any order, repeats, the final block early and again -- : "
            "nothing released twice, live objects = exactly lg_srcv + body + last_token at any time, nothing live once it is "
            "deleted), lg_srcv_failure_drops_state (an answer 5.00 leaves no transfer state), lg_srcv_restart_succeeds; the "
            "lg_srcv model also covers a transfer to the UNKNOWN resource, where the lg_srcv keeps a copy of the URI path "
            "(second request of the set-up; released first by coap_block_delete_lg_srcv): lg_srcv_setup_failure_atomic / "
            "lg_srcv_uri_path_failure (the lg_srcv or the path copy cannot be allocated: 5.00, no lg_srcv, the ledger exactly as "
            "before -- the lg_srcv is not yet in the session's list and is released by itself), all lg_srcv theorems hold with "
            "and without the path copy. "
            "M is tied to the compiled code by running generated "
            "helper scripts under every single failing request index (and sampled pairs) on both and comparing return values, request "
            "counts, PDU bytes, alloc_size, queues, the session's reference count, the subscriber list, the request kept with a subscription "
            "and the allocation trace event by event; the two containers by generated `atrack` / `asrcv` scripts that call the real "
            "coap_block_new_lg_crcv / track_fetch_observe / coap_block_delete_lg_crcv and coap_handle_request_put_block / "
            "coap_block_delete_lg_srcv directly (src/coap_block.c is #included by the harness) under every single failing request "
            "index: return values, request counts, count and entries of the token list, received ranges / total / body length / "
            "no_more_seen / last_token of the lg_srcv (`asrcvu`: the same against the unknown resource, plus whether the path "
            "copy is there), trace. Also in M and proved for every oracle, every byte stream and every cut into read events: the "
            "allocation skeleton of the reliable-transport receive path (coap_read_session's stream branch: partial_pdu allocated "
            "when the header is complete, stored in the session, grown to the announced size, detached / dispatched / deleted when "
            "complete, deleted by coap_session_disconnected_lkd on every failure exit and by coap_session_free) -- "
            "recv_at_most_one_partial, recv_pdu_released_once, recv_no_leak_on_failure, recv_new_session_starts_clean, and SERVED: with "
            "memory available the skeleton simulates C05's stream reader (recv_dispatches_what_reader_delivers: what reaches "
            "coap_dispatch is what the reader delivers for every cut; recv_dispatches_spec_frames: = the frames the specification finds "
            "in the bytes; recv_served_after_failure: after ANY past a new session gets every message dispatched), recv_ledger_replays; tied by "
            "`arecv` scripts (real coap_read_session of a TCP session fed by a chunk feeder, coap_dispatch recorded through the "
            "source hook) under every single failing request index. NOT proved, enumerated only (OBSERVATION of the real code against the property text, no theorem): the 19 scenarios "
            "uri, pdu, request/response, Block1, Block2, observe, set-up/tear-down, OSCORE, 5.08, /.well-known/core of a 17-resource "
            "server (block-wise, with filters), hand-built Block1 upload without Size1 (in and out of order), hand-written Block2 "
            "server without Size2 (no ETag / ETag / changing ETag), block-wise observe, cache entries with app data, async, observer life "
            "cycle (FETCH registration with payload, re-registration under a new token, second subscription, deregistration by an "
            "unknown token, resource deleted while observed), FETCH observations with the client's block handling on (small body, "
            "2500-byte body sent block-wise, coap_cancel_observe of both; a cancel that failed because of the failing request is "
            "repeated and must then succeed), an OSCORE-protected observation whose token is used AGAIN while its association is "
            "alive (oscobs: registration, re-registration under the same token, coap_cancel_observe -- the association is "
            "refreshed, not created; observation only, the OSCORE layer is not modelled), requests to a resource that answers "
            "4.01 + Echo until the request carries the option (echo: the client block layer's check_freshness repeats GET / PUT "
            "with a body / FETCH observation / its cancel, sized so that the copy has to grow for the option and for the body), "
            "the five hand-built Block1 requests in GENERATED orders with repeated blocks "
            "(b1o.<order>: the final block early, again before the gap is filled, a block after the end), and hand-built Block1 "
            "transfers to the UNKNOWN resource alone and interleaved with a transfer to /put in fixed and generated orders "
            "(b1u.<pairs>), sends that have to WAIT in the session's delay queue (dly: three CONs and a NON back to back with "
            "NSTART = 1, a lost first transmission with CONs queued behind it) and CoAP over TCP on the kernel's loopback (tcp: "
            "a TCP endpoint, two client sessions, CSM exchange, 400- and 1200-byte messages that make coap_read_session grow the "
            "receive PDU; a session that is still up must still be served after a failure closed another one; ws: the same two sessions over CoAP over WebSockets; wsp: with short socket writes, frames written and read in parts) are run on "
            "the real code with every single allocation request failing (about 3600 runs; thorough: every pair, capped at 40000 per scenario, 1500 per generated order, 8000 / 6000 for oscobs / echo), "
            "each followed by a canary exchange on the same contexts, and "
            "judged by ASan/UBSan, the verified ledger monitor on the REAL allocation trace, LSan, PDU-consumed evidence, the canary, "
            "and SESSION-REFERENCE ACCOUNTING after the canary: every session's reference count equals the number of its holders "
            "(application, subscriptions, async entries, send-queue nodes) and every server session nothing holds is reclaimed "
            "once the session timeout has passed in virtual time (a leaked reference is invisible to the ledger: tear-down drops it); "
            "this searches for a failing (scenario, k) and validates nothing beyond what it executes.",
    "note": "Twenty-six libcoap defects found and fixed on the way (KNOWN_FINDINGS.txt, fixed: property=C18; the last three: "
            "coap_handle_request_put_block did not check the copy of the URI path of a Block1 transfer to the unknown resource "
            "(NULL dereference in the next look-up), check_freshness leaked the copy of the request when the Echo option could "
            "not be inserted, and repeated a request WITHOUT its body when the body could not be copied); no open "
            "finding. The ledger theorem of the lg_crcv assumes the discipline of track_fetch_observe's callers (block numbers of "
            "one lg_crcv only go up; outside it the real code leaks tokens WITHOUT any allocation failure -- Echo repeat in the "
            "middle of a block-wise FETCH --, not this property's subject; memory safety is proved without the assumption). TLS/WS "
            "sessions, Q-Block and proxy paths are not in the catalogue; of the TCP receive path nothing is in M (observation only). Only requests made "
            "through coap_malloc_type/coap_realloc_type are failed (uthash's malloc exits on OOM; GnuTLS/libc untouched). Trusted: "
            "Lean kernel (+ propext, Classical.choice, Quot.sound), harness + allocator wrap + virtual-time epoll_wait + judge, "
            "addr2line for site names, the hand transcription M (checked on the scripts run).",
    "design_ref": "DESIGN.md §4 C18, design/C18.md",
}
LEAN_MODULES = ["CoapVerif.Props.C18", "CoapVerif.Props.C18Recv"]
NAMESPACE = "Coap.C18"
# clean (exit 0) at seeds 1..3 quick on 2026-09-28 with dly / tcp / ws / wsp and the delayed-send scripts (E0 / E1)
REQUIRED_THEOREMS = ["failure_atomic", "no_leak_on_failure", "send_consumes_pdu", "send_error_keeps_slot", "next_op_succeeds",
                     "alloc_count_matches", "ledger_replay", "script_ledger_ok", "script_verdict",
                     "observer_refs_balanced", "observer_refs_count", "add_observer_spec", "createSub_spec", "deleteObserver_spec",
                     "pduDuplicate_live", "addObserver_balanced", "add_observer_succeeds_with_memory",
                     "obs_token_cnt_within_list", "track_realloc_failure_atomic", "lg_crcv_ledger_sound", "lg_srcv_ledger_sound",
                     "lg_srcv_failure_drops_state", "lg_srcv_restart_succeeds", "lg_crcv_new_succeeds_with_memory",
                     "lg_srcv_setup_failure_atomic", "lg_srcv_uri_path_failure",
                     "send_pdu_consumed_exactly_once", "send_delayed_iff", "delayed_send_node_failure_releases_once",
                     "delayed_send_succeeds_with_memory", "connected_drain_spec", "drain_reqs_replays",
                     "recv_at_most_one_partial", "recv_pdu_released_once", "recv_script_clean", "recv_no_leak_on_failure",
                     "recv_alloc_failure_is_failure_exit", "recv_new_session_starts_clean",
                     "recv_dispatches_what_reader_delivers", "recv_dispatches_spec_frames", "recv_served_after_failure",
                     "recv_ledger_replays"]
RULE = ("(1) helper-layer scripts `ahelp k1 k2 <ops>`: random sequences (4..16 calls) of coap_pdu_init / add_token / add_option "
        "(ascending numbers, lengths on both sides of 12/13, 268/269) / add_data / pdu_resize / pdu_check_resize / delete_pdu / "
        "new_optlist+insert_optlist / add_optlist_pdu / delete_optlist / new_string|str_const|bin_const / delete / coap_send "
        "(CON and NON, socket write ok or failing; in delayed-send scripts several sends with a PDU each, so that a CON finds the "
        "NSTART slot taken, E0 = session not established: every message is delayed, E1 = coap_session_connected drains the delay "
        "queue) / in about a third of the scripts coap_add_observer and coap_delete_observer on "
        "the server's session with the current PDU as the request (same token again, another token for the same request, after "
        "more options or a payload, token lengths 0..300) with sizes on both sides of the 256-byte first buffer and of max_size, run "
        "under EVERY single failing request index (and sampled pairs) on the real code and on the model M: return values, "
        "number of requests, PDU bytes, alloc_size, queues, session reference count / subscriber tokens / the request kept with "
        "the first subscription and the allocation trace must be equal (and, against the property itself: reference count = "
        "number of subscriptions, every subscription under a token a successful call was given); "
        "(1b) container scripts under EVERY single failing request index (and sampled pairs) on the real code and on M: "
        "`atrack k1 k2 <steps>` = coap_block_new_lg_crcv (FETCH / GET, Observe 0 / 1 / 2 / absent, token 0..8 bytes) / "
        "track_fetch_observe (register with block numbers going up by 0,1,2,3,7,40, look-ups on both sides of the count, other "
        "Observe values) / coap_block_delete_lg_crcv / start again; `asrcv k1 k2 <szx> <bodylen> <tl> <size1|-> <steps>` = "
        "coap_handle_request_put_block for a body of 3..6 blocks of 16 / 64 / 512 bytes arriving in a generated order (repeats, "
        "the final block early and again before the gap is filled, a block missing, blocks after the end, short blocks, wrong "
        "More bit, the state dropped in between), no / exact / too small / too large Size1, token 0..8 bytes: return values, "
        "request counts, token list, lg_srcv fields and the allocation trace must be equal; against the property itself: no "
        "abort, ledger and LSan clean, never a count with a NULL list, a body handed over is the body sent; "
        "(1c) `asrcvu`: the `asrcv` scripts against the UNKNOWN resource (the lg_srcv keeps a copy of the URI path: one more "
        "request whenever a transfer starts), same comparison plus presence of the copy; "
        "(2) fault ENUMERATION of the catalogue scenarios (harness/allocfail.c): uri, pdu, rr (incl. error responses to requests with a query), b1, b2, obs, setup, osc, h508, "
        "wkc (12 more resources with attributes, GET /.well-known/core unfiltered / rt=temp* / if=core.p / no match, block-wise), "
        "b1raw (five hand-built 512-byte Block1 requests without Size1, in order and in the order 0,2,1,4,3, to a SINGLE_BODY "
        "server), b2raw (libcoap client against a hand-written Block2 server side without Size2: no ETag, ETag, ETag changing "
        "once), obsblk (observe of a 3-block body: registration, 2 notifications, cancel), cache (coap_cache_ignore_options, "
        "derive_key, new_cache_entry with recorded PDU and app data, lookup, expiry, tear-down), async (coap_register_async, "
        "coap_async_trigger, timer; GET and a PUT whose payload the delayed call must still see), obsre (observer life cycle: FETCH registration with payload, the same request under a new "
        "token, a second subscription, deregistration by a token the server never saw, coap_delete_resource while observed), obsfetch "
        "(FETCH observations with the client's block handling on: 2-byte and 2500-byte body, notifications, coap_cancel_observe of both, "
        "a cancel that failed because of the failing request repeated), oscobs (OSCORE observation: registration, re-registration and "
        "coap_cancel_observe under the SAME token: association refreshed), echo (resource demanding an Echo option: GET with 250 bytes "
        "of options, PUT with 190 bytes of options and a 400-byte body, FETCH observation, its cancel, a short GET, each repeated by "
        "check_freshness), b1o.<order> (the five hand-built Block1 requests in 2 fixed and "
        "5 generated orders with repeated blocks; thorough 6), b1u.<pairs> (hand-built Block1 transfers to the unknown resource "
        "and to /put, 2 fixed + 2 generated interleavings, thorough 4: the unknown-resource transfer first or second, final "
        "block early, repeats, the /put transfer complete or left unfinished), dly (sends waiting in the delay queue: second and "
        "third CON of a burst, CONs behind a retransmission), tcp (CoAP over TCP on loopback: two sessions, messages of 400 and "
        "1200 bytes, a session still up must still be served), ws (the same over CoAP over WebSockets: HTTP upgrade on loopback, session->ws, the frame buffer of coap_ws_write, the receive PDU of the WS branch of coap_read_session), wsp (ws with a socket that takes only half of every large write on the second session: coap_ws_write's progress within a frame, the delay queue's partial_write, the server's ws->rx_data): every single failing request index k (quick and thorough) and pairs (k, k2) (quick: a "
        "seeded sample of 4000, thorough: every pair of a scenario up to 40000 per scenario, 1500 per generated b1o / b1u order, 8000 of oscobs, 6000 of echo, 3000 each of tcp / ws / wsp; a seeded sample beyond), each "
        "followed by a canary exchange, judged by ASan/UBSan, the Lean-verified ledger monitor on the real allocation trace, "
        "LSan, PDU-consumed evidence, 'a 2.xx body that claims to be complete is the body' (obsre: 'a notification is computed "
        "from the request the subscription was registered with'), the canary, and after the canary: reference count of every "
        "session = number of its holders, and no server session without holder survives the session timeout; non-trivial = a run "
        "in which at least one request actually failed")
TRUSTED_BASE = ["Lean 4.33 kernel; axioms allowed: propext, Classical.choice, Quot.sound (audited per theorem each run)",
                "harness/allocfail.c on sim_core.h (virtual clock, scripted network, epoll_wait in virtual time), the wrapped "
                "allocator (coap_malloc_type/realloc_type/free_type) that injects the failure and records the real trace, "
                "harness/allocfail_pipe.py (crash attribution, addr2line), generators, the python judge",
                "ASan/UBSan/LSan as observers of the compiled C (invalid access, leaks of memory not allocated through coap_malloc_type)",
                "M (CoapVerif/Model/AllocOracle.lean) is a hand transcription of the helper layer, of the ownership skeleton "
                "of the send path and of coap_add_observer / coap_delete_observer / coap_pdu_duplicate; checked against the compiled "
                "code only on the scripts run; SHA-256 of the cache key is abstracted to its input (no collision among the keys of a script)",
                "M (CoapVerif/Model/AllocBlock.lean) is a hand transcription of coap_block_new_lg_crcv / track_fetch_observe / "
                "coap_block_delete_lg_crcv and of the ownership side of coap_handle_request_put_block / coap_block_build_body / "
                "coap_block_delete_lg_srcv (which blocks have arrived is decided by C09's model functions recvLoop / "
                "checkAllBlocksIn); harness/allocfail.c #includes src/coap_block.c to reach the static function, so the whole "
                "catalogue runs the harness's compilation of that file (same source, -O1)",
                "T1 extractor extract/blockconst.c (COAP_RBLOCK_CNT used by the lg_srcv model)",
                "the holder count of the reference accounting is computed by the harness from libcoap's own lists (send queue, "
                "subscribers of every resource, async list) -- the list of who may hold a session reference is read from the source",
                "T1 extractor extract/repeatable.c (non-repeatable option table used by coap_add_option)"]
ASSUMPTIONS = ["PROVED only for the helper layer (PDU init/resize/token/option/data, optlist, strings) and the ownership skeleton of "
               "coap_send/coap_send_internal; for the catalogue scenarios beyond it (request/response, Block1, Block2, observe, "
               "OSCORE, set-up/tear-down) the run is fault ENUMERATION: it searches for a failing (scenario, k) and validates "
               "nothing beyond what it executes",
               "only allocations made through coap_malloc_type / coap_realloc_type are failed; uthash's internal malloc (exit on "
               "OOM), GnuTLS and libc allocations are not",
               "option model domain: coap_add_option in ascending order, numbers other than Proxy-Uri/Proxy-Scheme (append branch)",
               "send skeleton: UDP client session, ESTABLISHED or not yet (state forced by the script: E0 = CONNECTING, E1 = "
               "coap_session_connected), block mode off, no OSCORE, no Echo pending, message ids pairwise distinct (the `mid already "
               "in use` refusal of coap_session_delay_pdu does not occur), drain as for an unreliable transport",
               "tcp / ws scenarios: real loopback TCP sockets; the harness waits in real time (at most 2 s) until nothing is in flight "
               "(SIOCOUTQ = 0 on every connection, both sides agree on the number of connections) before it lets virtual time pass",
               "observer model: one observable resource, one UDP server session, request code not FETCH (payload copied but not part "
               "of the key), no observe_added / observe_deleted callbacks, COAP_RESOURCE_MAX_SUBSCRIBER = 0; add_observer_spec's ledger "
               "part is stated for the case that no subscription is replaced (the replaced one is covered by deleteObserver_spec "
               "and observer_refs_balanced)",
               "lg_crcv model: lg_xmit == NULL, no body under reassembly; its ledger theorem is for call sequences inside the callers' "
               "discipline (`feasible`: block numbers registered for one lg_crcv only go up, block 0 again only while no later "
               "block is registered) -- the bounds theorem obs_token_cnt_within_list needs no such assumption",
               "lg_srcv model: Block1 without BERT / Q-Block, COAP_BLOCK_SINGLE_BODY, blocks in any order allowed, ONE resource (of "
               "its own, or the unknown resource with the uri_path copy; two transfers interleaved on one session are catalogue "
               "scenarios b1u, not M), no Request-Tag, one block size per transfer, tokens of at most 8 bytes of equal length "
               "(the separate 2.31 copies a response without options: two requests)",
               "compiled Lean definitions agree with the kernel's reading of them"]
SPEC_DECISIONS = ["D18a 'the next operation with memory available succeeds' is checked by a canary CON GET on the SAME contexts after the "
                  "outstanding exchanges have run their course in virtual time (retransmissions included), on fresh ones when "
                  "set-up itself was the operation that failed",
                  "D18b a failed operation may have partial, well-formed effects where the API has no transactional contract "
                  "(coap_add_optlist_pdu stops after the options already added); `failure_atomic` is stated for the primitive helpers",
                  "D18c a truncated or wrong body handed to the application as if complete is NOT a clean failure"]
RUN_KW = {"timeout": 1800, "env": {"ASAN_OPTIONS": "detect_leaks=1:abort_on_error=0:exitcode=86:allocator_may_return_null=1:leak_check_at_exit=0"}}
WRAPS = SIM_WRAPS + ["coap_malloc_type", "coap_realloc_type", "coap_free_type", "epoll_wait"]
PAIR_CAP = 40000        # thorough: pairs per scenario (every pair below it, a seeded sample above)
B1O_PAIR_CAP = 1500     # ... per generated b1o.<order> / b1u.<pairs> scenario (their single failures are all run)
# ... of the scenarios added last (all 60 975 pairs of oscobs, echo and the two fixed b1u were run once by hand, design/C18.md):
# a seeded sample keeps the thorough tier inside its 30 minutes
SCN_PAIR_CAP = {"oscobs": 8000, "echo": 6000,
                # real loopback sockets, served in real time (0.1-0.5 s per run): all 39 158 pairs of tcp / ws / wsp took the thorough tier
                # far beyond its budget; their single failures are all run, pairs are a seeded sample
                "tcp": 3000, "ws": 3000, "wsp": 3000}
SCENARIOS = ["uri", "pdu", "rr", "b1", "b2", "obs", "setup", "osc", "h508", "wkc", "b1raw", "b2raw", "obsblk", "cache", "async", "obsre",
             "obsfetch", "oscobs", "echo", "xtok", "dly", "tcp", "ws", "wsp"]
# parametrised scenario b1o.<digits>: the five hand-built Block1 requests of b1raw in a generated order (repeats allowed);
# these two always run (the final block early, and again before the gap is filled / a repeated middle block, a block after the end)
B1O_FIXED = ["b1o.0442130", "b1o.4400123312"]
# parametrised scenario b1u.<pairs>: hand-built Block1 requests to TWO targets, interleaved as the pairs <target><block> say:
# u = PUT /unk1 (served by the UNKNOWN-resource handler: the lg_srcv keeps a copy of the URI path), p = PUT /put.
# These two always run: a transfer to the unknown resource alone, and one interleaved with a transfer to /put (final blocks early)
B1U_FIXED = ["b1u.u0u1u2u3u4", "b1u.u0p0u4p4u1p1u2p2u3p3"]
# visible outcome of every scenario when no request fails (k = 0)
EXPECT0 = {
    "uri": "split0,u2o1,u2os0,p2o1,q2o1,ins1,olpdu1,path9,query8,str1111,rsz1,uri11,req0,rsp0,nack0,body0/0,put0/0",
    "pdu": "tok1,o202,o122,o6,o152,o6,d1,dup11,used498,used342,parse1,req0,rsp0,nack0,body0/0,put0/0",
    "rr": "req2,rsp4,c2.05,c2.05,c4.04,c4.05,nack0,body0/0,put0/0",
    "b1": "req1,rsp1,c2.04,nack0,body0/0,put1/0",
    "b2": "req1,rsp1,c2.05,nack0,body1/0,put0/0",
    "obs": "notify1,notify1,cancel1,notify0,req4,rsp4,c2.05,c2.05,c2.05,c2.05,nack0,body0/0,put0/0",
    "setup": "up,down,req0,rsp0,nack0,body0/0,put0/0",
    "osc": "req1,rsp1,c2.05,nack0,body0/0,put0/0",
    "h508": "req1,rsp1,c5.08,nack0,body0/0,put0/0",
    "wkc": "len1159,len393,len163,len0,req0,rsp4,c2.05,c2.05,c2.05,c2.05,nack0,body4/0,put0/0",
    "b1raw": "req2,rsp10,c2.31,c2.31,c2.31,c2.31,c2.04,c2.31,c2.31,c2.31,c2.31,c2.04,nack0,body0/0,put2/0",
    "b2raw": "req18,rsp3,c2.05,c2.05,c2.05,nack0,body3/0,put0/0",
    "obsblk": "notify1,notify1,cancel1,notify0,req4,rsp4,c2.05,c2.05,c2.05,c2.05,nack0,body4/0,put0/0",
    "cache": "ign1,ign1,cb1,key11,ent1,pdu313,bykey1,bypdu1,other1,req3,rsp3,c2.01,c2.05,c2.01,nack0,body0/0,put0/0",
    "async": "pending1,req6,rsp3,c2.05,c2.05,c2.05,nack0,body0/0,put0/0",
    "obsre": "subs1,notify1,subs2,notify1,subs1,notify1,delres1,req8,rsp9,c2.05,c2.05,c2.05,c2.05,c2.05,c2.05,c2.05,c2.05,c4.04,nack0,body0/0,put0/0",
    "oscobs": "subs1,notify1,subs1,notify1,cancel1,subs0,notify0,req5,rsp5,c2.05,c2.05,c2.05,c2.05,c2.05,nack0,body0/0,put0/0",
    "echo": "subs1,notify1,cancel1,subs0,req11,rsp6,c2.05,c2.05,c2.05,c2.05,c2.05,c2.05,nack0,body0/0,put0/0",
    "xtok": "req2,rsp2,c2.05,c2.05,nack0,body0/0,put0/0",
    "dly": "dq2,dq0,dq2,dq0,req7,rsp7,c2.05,c2.05,c2.05,c2.05,c2.05,c2.05,c2.05,nack0,body0/0,put0/0",
    "tcp": "sess11,est11/2,tput4/0,srvs2,up2,req7,rsp7,c2.04,c2.04,c2.04,c2.05,c2.04,c2.05,c2.05,nack0,body0/0,put0/0",
    "ws": "sess11,est11/2,tput4/0,srvs2,up2,req7,rsp7,c2.04,c2.04,c2.04,c2.05,c2.04,c2.05,c2.05,nack0,body0/0,put0/0",
    "wsp": "sess11,est11/2,tput4/0,srvs2,up2,req7,rsp7,c2.04,c2.04,c2.04,c2.05,c2.04,c2.05,c2.05,nack0,body0/0,put0/0",
    "obsfetch": "subs1,notify1,subs2,notify1,cancel1,subs1,cancel1,subs0,notify0,req7,rsp7,c2.05,c2.05,c2.05,c2.05,c2.05,c2.05,c2.05,nack0,body0/0,put0/0",
}


def b1o_puts(order):
    """how many complete bodies the PUT handler sees when the five blocks (4 = the final one) arrive in this order: a body is
    handed over when all five are in, then the transfer state is gone and the next block starts a new one"""
    seen, puts = set(), 0
    for d in order:
        seen.add(int(d))
        if len(seen) == 5:
            puts += 1
            seen = set()
    return puts


def gen_b1o(rng):
    """an order of the five blocks that completes the body exactly at its end, with 1..3 blocks repeated before that (lost
    ACK / retransmission under a new token); two thirds have the FINAL block early, half of those repeat it before the gap
    is filled; sometimes one more block follows the completed body (a transfer that is never finished)"""
    perm = [0, 1, 2, 3, 4]
    rng.shuffle(perm)
    if rng.random() < 0.66 and perm[-1] == 4:
        i = rng.randrange(0, 4)
        perm[i], perm[4] = perm[4], perm[i]
    order = list(perm)
    dups = rng.randint(1, 3)
    if perm[-1] != 4 and rng.random() < 0.5:
        at = order.index(4)
        order.insert(rng.randint(at + 1, len(order) - 1), 4)
        dups -= 1
    for _ in range(dups):
        j = rng.randrange(0, len(order) - 1)
        order.insert(rng.randint(j + 1, len(order) - 1), order[j])
    if rng.random() < 0.3:
        order.append(rng.randrange(0, 5))
    return "b1o." + "".join(str(d) for d in order)


def b1u_puts(spec):
    """complete bodies handed to the two handlers when the blocks arrive as the pairs say (one lg_srcv per target)"""
    seen, puts = {"u": set(), "p": set()}, 0
    for i in range(0, len(spec), 2):
        t = spec[i]
        seen[t].add(int(spec[i + 1]))
        if len(seen[t]) == 5:
            puts += 1
            seen[t] = set()
    return puts


def gen_b1u(rng):
    """the five blocks of a body for the unknown resource (any order, half of them with the final block early, 0..2 repeated),
    two thirds interleaved with a transfer to /put (all of it or its first blocks only: a transfer left unfinished), the
    unknown-resource transfer starting first in 60 % -- its lg_srcv is then set up while session->lg_srcv is still empty"""
    def one(t, n):
        perm = [0, 1, 2, 3, 4]
        if rng.random() < 0.6:
            rng.shuffle(perm)
            if rng.random() < 0.5 and perm[-1] == 4:
                i = rng.randrange(0, 4)
                perm[i], perm[4] = perm[4], perm[i]
        order = perm[:n]
        for _ in range(rng.choice([0, 0, 1, 2])):
            j = rng.randrange(0, len(order))
            order.insert(rng.randint(j + 1, len(order)), order[j])
        return [t + str(d) for d in order]
    us = one("u", 5)
    ps = one("p", rng.choice([5, 5, 2, 3])) if rng.random() < 0.66 else []
    out = []
    if ps and rng.random() >= 0.6:
        out.append(ps.pop(0))
    else:
        out.append(us.pop(0))
    while us or ps:
        src = us if (us and (not ps or rng.random() < 0.5)) else ps
        out.append(src.pop(0))
    return "b1u." + "".join(out[:20])


def extract(ctx):
    import props.C01 as c01          # M uses Generated.nonRepeatable (coap_option_check_repeatable)
    import props.C09 as c09          # the lg_srcv model uses Generated.rblockCnt (COAP_RBLOCK_CNT)
    return c01.extract(ctx) + c09.extract(ctx)


def _binary():
    bdir = C.build_libcoap()
    out = os.path.join(bdir, "h_allocfail")
    # sim_core.h and src/coap_block.c are #included by the harness
    deps = [os.path.join(C.VERIF, "harness", "sim_core.h"), os.path.join(C.REPO, "src", "coap_block.c")]
    if os.path.exists(out) and max(os.path.getmtime(d) for d in deps) > os.path.getmtime(out):
        os.unlink(out)
    return C.build_harness("allocfail", bdir, wraps=WRAPS)


def harness(ctx):
    return [sys.executable, os.path.join(C.VERIF, "harness", "allocfail_pipe.py"), _binary(), C.driver_path()]


def _run_direct(lines):
    e = dict(os.environ)
    e.update(RUN_KW["env"])
    e["UBSAN_OPTIONS"] = "print_stacktrace=1:halt_on_error=1:exitcode=87"
    r = subprocess.run(harness(None), input="".join(l + "\n" for l in lines), stdout=subprocess.PIPE, stderr=subprocess.PIPE,
                       text=True, env=e, timeout=600)
    return r.stdout.splitlines()


# ------------------------------------------------------------------ generators
def gen_script(rng):
    """a helper-layer script inside M's domain (option numbers ascending, no Proxy-Uri/-Scheme); returns (ops, request bound)"""
    ops = []
    cur = rng.choice([0, 1, 3, 11])
    have_pdu = False
    ol_open = False
    bound = 0
    n = rng.choice([4, 6, 8, 10, 12, 16])
    if rng.random() < 0.8:
        ops.append("I%d" % rng.choice([0, 8, 64, 255, 256, 257, 300, 1152, 1152, 1152, 5000, 70000]))
        have_pdu = True; bound += 2
    nol = 0
    ol_max = 0
    # observer scripts (about a third): coap_add_observer / coap_delete_observer on the server's session with the current PDU
    # as the request -- the same token again (found), another token for the same request (replaced through the cache key),
    # after more options / a payload (a further subscription; the payload is copied), tokens on both sides of 8/12/13/268/269
    obs_mode = rng.random() < 0.35
    obs_toks = [rng.choice([0, 1, 2, 4, 8]), rng.choice([1, 3, 8, 9, 12, 13]), rng.choice([5, 200, 268, 269, 300])]
    # delayed-send scripts (about a third): several sends in one script, each with a PDU of its own, so that a CON finds the NSTART
    # slot taken (coap_session_delay_pdu: the delay-queue node is one more request that can fail), the session not yet
    # established (E0: every message is delayed, NON included) and coap_session_connected draining the queue (E1), with the
    # socket write working or failing
    dly_mode = not obs_mode and rng.random() < 0.45
    for _ in range(n):
        if dly_mode and rng.random() < 0.6:
            c = rng.random()
            if c < 0.62:
                ops.append("I%d" % rng.choice([0, 8, 64, 300, 1152]))
                bound += 2
                if rng.random() < 0.3:
                    ops.append("T%d" % rng.choice([1, 4, 8, 8, 9]))
                    bound += 1
                ops.append(rng.choice(["Vc", "Vc", "Vc", "Vn"]))
                have_pdu = False
                bound += 1
            elif c < 0.80:
                ops.append(rng.choice(["E0", "E1", "E1"]))
            elif c < 0.90:
                ops.append(rng.choice(["W0", "W0", "W1"]))
            else:
                ops.append(rng.choice(["Vc", "Vn", "K"]))
                bound += 1
            continue
        if obs_mode and rng.random() < 0.4:
            if rng.random() < 0.7:
                ops.append("A%d" % rng.choice(obs_toks))
                bound += 8
            else:
                ops.append("B%d" % rng.choice(obs_toks + [7]))
            continue
        c = rng.random()
        if c < 0.08:
            ops.append("I%d" % rng.choice([0, 8, 64, 255, 256, 257, 300, 1152, 1152, 5000, 70000, 8388858, 8388859]))
            have_pdu = True; bound += 2
        elif c < 0.16:
            ops.append("T%d" % rng.choice([0, 1, 4, 8, 9, 12, 13, 200, 268, 269, 300]))
            bound += 1
        elif c < 0.40 and not ol_open:
            cur += rng.choice([0, 0, 1, 1, 2, 5, 12, 13, 14, 200, 268, 269, 270, 1000])
            while cur in (35, 39):
                cur += 1
            cur = min(cur, 65000)
            ops.append("O%d:%d" % (cur, rng.choice([0, 1, 3, 12, 13, 14, 100, 230, 255, 268, 269, 270, 400, 1000, 1300])))
            bound += 1
        elif c < 0.50:
            ops.append("D%d" % rng.choice([0, 1, 10, 200, 243, 250, 255, 256, 600, 1100, 2000]))
            bound += 1
        elif c < 0.56:
            ops.append("%s%d" % (rng.choice("RC"), rng.choice([0, 1, 100, 255, 256, 257, 511, 512, 513, 1151, 1152, 1153, 5000, 40000])))
            bound += 1
        elif c < 0.70:
            num = cur + rng.choice([0, 0, 1, 3, 12, 13, 200, 300, 1000])
            while num in (35, 39):
                num += 1
            num = min(num, 65000)
            ops.append("L%d:%d" % (num, rng.choice([0, 1, 5, 12, 13, 100, 268, 269, 300])))
            ol_open = True; nol += 1; bound += 1
            ol_max = max(num, ol_max)
        elif c < 0.76:
            # the list is not consumed by coap_add_optlist_pdu: a second P would re-add lower numbers (insert branch,
            # outside M's domain), so the list is deleted right away
            ops.append("P"); ops.append("X")
            if ol_open:
                cur = max(cur, ol_max)
            ol_open = False
            bound += nol
            nol = 0; ol_max = 0
        elif c < 0.79:
            ops.append("X"); ol_open = False; nol = 0; ol_max = 0
        elif c < 0.86:
            ops.append("%s%d" % (rng.choice("Ssb"), rng.choice([0, 1, 5, 100, 1000])))
            bound += 1
        elif c < 0.88:
            ops.append("F")
        elif c < 0.90:
            ops.append("K")
        elif c < 0.97:
            ops.append(rng.choice(["Vc", "Vc", "Vn"]))
            bound += 1
        else:
            ops.append(rng.choice(["W0", "W1"]))
    return ops, bound



def gen_track(rng):
    """an `atrack` script inside the callers' discipline: the block numbers of one transfer only go up (coap_handle_response_send_block:
    block.num > last_block), block 0 comes again (the Echo repeat of check_freshness) only while at most one token is kept;
    Observe 0 / 1 / 2 / absent, FETCH and GET, cancel look-ups on both sides of the count, delete and start again.
    Returns (steps, bound on the number of requests)"""
    steps, bound = [], 0
    have, hi = False, 0           # hi = largest block number registered so far + 1
    for _ in range(rng.choice([3, 4, 6, 8, 10])):
        c = rng.random()
        if not have or c < 0.08:
            o = rng.choice("eeeeeecxn")
            steps.append("n%s:%s:%d:%d" % (rng.choice("ffffg"), o, rng.choice([0, 1, 2, 4, 8]), rng.choice([0, 2, 40])))
            bound += 5
            if not have:
                hi = 0
            have = True
            hi = max(hi, 1)
        elif c < 0.62:
            bn = 0 if (hi <= 1 and rng.random() < 0.3) else max(hi - 1, 0) + rng.choice([0, 1, 1, 1, 1, 2, 3, 7, 40])
            if bn + 1 < hi:
                bn = hi - 1
            steps.append("te:%d:%d" % (bn, rng.choice([1, 2, 7, 8, 8])))
            hi = max(hi, bn + 1)
            bound += 2
        elif c < 0.82:
            steps.append("tc:%d:2" % max(0, hi + rng.choice([-3, -2, -1, -1, 0, 0, 1, 5])))
        elif c < 0.90:
            steps.append("t%s:%d:3" % (rng.choice("xn"), rng.randrange(0, hi + 2)))
        else:
            steps.append("d")
            have, hi = False, 0
    return steps, bound


def gen_srcv(rng):
    """an `asrcv` script: a body of 3..6 blocks (16 / 64 / 512 bytes, last one shorter or full) arriving in a generated order --
    repeated blocks, the final block early and again, blocks missing, a block after the end, short blocks, the state dropped
    in between --, without Size1 or with an exact / too small / too large one.  Returns (head, steps, bound)"""
    szx = rng.choice([0, 2, 5, 5])
    chunk = 1 << (szx + 4)
    nb = rng.randint(3, 6 if szx < 5 else 5)
    last = rng.choice([1, chunk // 2, chunk - 1, chunk])
    if szx == 5 and nb == 5:
        last = min(last, 452)
    blen = (nb - 1) * chunk + last
    tl = rng.choice([0, 1, 2, 4, 8, 8])
    size1 = rng.choice(["-", "-", "-", str(blen), str(chunk), str(blen + 100), "0"])
    perm = list(range(nb))
    rng.shuffle(perm)
    if rng.random() < 0.6 and perm[-1] == nb - 1:
        i = rng.randrange(0, nb - 1)
        perm[i], perm[-1] = perm[-1], perm[i]
    order = list(perm)
    if perm[-1] != nb - 1 and rng.random() < 0.6:
        at = order.index(nb - 1)
        order.insert(rng.randint(at + 1, len(order) - 1), nb - 1)
    for _ in range(rng.randint(0, 3)):
        j = rng.randrange(0, len(order) - 1)
        order.insert(rng.randint(j + 1, len(order) - 1), order[j])
    if rng.random() < 0.25:
        order.pop(rng.randrange(len(order)))            # a block never arrives (or one repeat fewer)
    if rng.random() < 0.3:
        order += [rng.randrange(0, nb) for _ in range(rng.randint(1, 3))]
    steps = []
    for b in order:
        m = 0 if b == nb - 1 else 1
        r = rng.random()
        if r < 0.05:
            steps.append("p%d:%d:%d" % (b, m, rng.choice([0, 1, chunk - 1])))      # short block: 4.00 with More, a short end without
        elif r < 0.08:
            steps.append("p%d:%d" % (b, 1 - m))                                     # More bit wrong
        else:
            steps.append("p%d:%d" % (b, m))
        if rng.random() < 0.05:
            steps.append("x")
    return "%d %d %d %s" % (szx, blen, tl, size1), steps, 3 * len(steps) + 2


def _tcp_msg(rng, kind):
    """one CoAP-over-TCP message (RFC 8323 3.2): Len/TKL byte, extended length, code, token, payload marker + payload.
    kind: 'empty' (Len 0, no token: complete with its header), 'small' (fits the 256-byte first buffer), 'big' (the receive PDU has
    to grow), 'bad' (does not parse: a payload marker without payload), 'huge' (announces more than COAP_DEFAULT_MAX_PDU_RX_SIZE)"""
    if kind == "huge":
        return bytes([0xF0, 0xFF, 0xFF, 0xFF, 0xFF, 0x01])
    tkl = rng.choice([0, 0, 2, 4, 8, 13]) if kind != "empty" else 0
    tok = bytes(range(0x40, 0x40 + (13 if tkl == 13 else tkl)))
    tokext = b"\x00" if tkl == 13 else b""
    if kind == "empty":
        rest = b""
    elif kind == "bad":
        rest = b"\xff"
    elif kind == "small":
        rest = b"\xff" + bytes((i * 5 + 1) & 0xFF for i in range(rng.choice([1, 5, 11, 12, 20, 100, 200])))
    else:
        rest = b"\xff" + bytes((i * 3 + 7) & 0xFF for i in range(rng.choice([255, 256, 270, 300, 600, 1500])))
    ln = len(rest)
    if ln < 13:
        hdr = bytes([(ln << 4) | tkl])
    elif ln < 269:
        hdr = bytes([(13 << 4) | tkl, ln - 13])
    else:
        hdr = bytes([(14 << 4) | tkl]) + (ln - 269).to_bytes(2, "big")
    return hdr + bytes([rng.choice([0x01, 0x45, 0xE3])]) + tokext + tok + rest


def _cut(rng, data):
    """the byte stream cut into read events"""
    if not data:
        return []
    r = rng.random()
    if r < 0.2:
        cuts = []
    elif r < 0.35:
        cuts = list(range(1, min(len(data), 8)))                      # the header byte by byte
    else:
        cuts = sorted(set(rng.randrange(1, len(data)) for _ in range(rng.randint(1, 5)))) if len(data) > 1 else []
    pts = [0] + cuts + [len(data)]
    return ["c" + data[a:b].hex() for a, b in zip(pts, pts[1:]) if b > a]


def gen_recv(rng):
    """an `arecv` script: 1..3 sessions one after the other on the same context; each gets a stream of 1..4 messages (complete
    with the header / small / larger than the first buffer / not parsable / announcing too much) cut into read events, sometimes
    ending in the middle of a message, sometimes with the peer going away; most scripts end with a NEW session that receives a
    small message (served after whatever happened before).  Returns (head, steps, bound)"""
    csm = rng.choice([8388864, 8388864, 8388864, 1152, 300, 600])
    steps, nmsg = [], 0
    for si in range(rng.randint(1, 3)):
        if si:
            steps.append("n")
        data = b""
        for _ in range(rng.randint(1, 4)):
            kind = rng.choice(["empty", "small", "small", "big", "big", "big", "bad"] + (["huge"] if rng.random() < 0.15 else []))
            data += _tcp_msg(rng, kind)
            nmsg += 1
        if rng.random() < 0.3:
            data = data[:rng.randrange(1, len(data) + 1)]                 # the stream stops in the middle of a message
        steps += _cut(rng, data)
        if rng.random() < 0.25:
            steps.append("x")
    if rng.random() < 0.7:
        steps.append("n")
        steps += _cut(rng, _tcp_msg(rng, "small"))
        nmsg += 1
    dk = rng.choice([0, 0, 0, 1, 1, 2, 3])
    return "%d %d" % (dk, csm), steps, 3 * nmsg


def generate(ctx, escalate=False):
    rng = ctx.rng
    out = []
    thorough = ctx.thorough() or escalate
    # (2) catalogue: count the requests of every scenario first (k = 0), then every single k, then pairs
    scenarios = list(SCENARIOS) + B1O_FIXED
    while len(scenarios) < len(SCENARIOS) + len(B1O_FIXED) + (6 if thorough else 5):
        o = gen_b1o(rng)
        if o not in scenarios:
            scenarios.append(o)
    scenarios += B1U_FIXED
    nb1u = len(scenarios) + (4 if thorough else 2)
    while len(scenarios) < nb1u:
        o = gen_b1u(rng)
        if o not in scenarios:
            scenarios.append(o)
    base = _run_direct(["alloc %s 0" % s for s in scenarios])
    counts = {}
    for s, b in zip(scenarios, base):
        m = re.match(r"n=(\d+) ", b or "")
        counts[s] = int(m.group(1)) if m else 0
    ctx.cov["allocation_requests_per_scenario"] = dict(counts)
    for s in scenarios:
        out.append("alloc %s 0" % s)
        out += ["alloc %s %d" % (s, k) for k in range(1, counts[s] + 1)]
    pairs = []
    ctx.cov["pairs_total"] = 0
    for s in scenarios:
        ps = [(s, a, b) for a in range(1, counts[s] + 1) for b in range(a + 1, counts[s] + 1)]
        ctx.cov["pairs_total"] += len(ps)
        cap = B1O_PAIR_CAP if s.startswith(("b1o.", "b1u.")) else SCN_PAIR_CAP.get(s, PAIR_CAP)
        if len(ps) > cap:                          # thorough: every pair of a scenario up to the cap, a seeded sample beyond
            ps = rng.sample(ps, cap)
        pairs += ps
    if not thorough:
        pairs = rng.sample(pairs, min(len(pairs), 4000))
    ctx.cov["pairs_run"] = len(pairs)
    out += ["alloc %s %d %d" % p for p in pairs]
    # (1) modelled layer
    nscripts = 1200 if thorough else 160
    for _ in range(nscripts):
        ops, bound = gen_script(rng)
        body = " ".join(ops)
        out.append("ahelp 0 0 " + body)
        for k in range(1, bound + 1):
            out.append("ahelp %d 0 %s" % (k, body))
        for _ in range(6 if thorough else 2):
            if bound >= 2:
                a = rng.randrange(1, bound)
                b = rng.randrange(a + 1, bound + 1)
                out.append("ahelp %d %d %s" % (a, b, body))
    # (1b) Block-layer containers: the lg_crcv's list of Observe tokens, the lg_srcv's body and early-final-block token
    for op, gen, nsc in (("atrack", gen_track, 240 if thorough else 40), ("asrcv", gen_srcv, 400 if thorough else 70),
                         ("asrcvu", gen_srcv, 200 if thorough else 30), ("arecv", gen_recv, 400 if thorough else 60)):
        for _ in range(nsc):
            r = gen(rng)
            head, steps, bound = (r[0] + " ", r[1], r[2]) if len(r) == 3 else ("", r[0], r[1])
            if op == "asrcvu":
                bound += len(steps)          # one more request (the copy of the URI path) whenever a transfer starts
            body = head + " ".join(steps)
            out.append("%s 0 0 %s" % (op, body))
            for k in range(1, bound + 1):
                out.append("%s %d 0 %s" % (op, k, body))
            for _ in range(6 if thorough else 2):
                if bound >= 2:
                    a = rng.randrange(1, bound)
                    b = rng.randrange(a + 1, bound + 1)
                    out.append("%s %d %d %s" % (op, a, b, body))
    return out


# ------------------------------------------------------------------ reading a canonical line
def fields(s):
    f = {}
    parts = (s or "").split(" | ")
    for w in parts[0].split(" T ")[0].split():
        if "=" in w:
            k, _, v = w.partition("=")
            f[k] = v
    if " T " in parts[0]:
        f["T"] = re.sub(r":[a-z]+", "", parts[0].split(" T ", 1)[1].strip())
    for p in parts[1:]:
        k, _, v = p.partition("=")
        f[k.strip()] = v.strip()
    return f


def site_of(impl):
    m = re.search(r"fail=(\S+)", impl or "")
    return m.group(1) if m else "-"


def symptoms(c):
    """what is wrong with a catalogue run, as a dict {class: detail}; classes: crash, ledger, lsan, consumed, canary, refs, idle, retry, body, baseline"""
    i = c["impl"] or ""
    w = c["input"].split()
    scn = w[1]
    ks = [int(x) for x in w[2:]]
    if i.startswith("crash"):
        return {"crash": i.split(" ", 2)[2] if len(i.split(" ", 2)) > 2 else i}
    f = fields(i)
    what = {}
    led = f.get("ledger", "")
    if not led.startswith("true"):
        what["ledger"] = "the real allocation trace is rejected by the verified monitor ledgerOk: %s" % led
    if f.get("lsan", "0") != "0":
        what["lsan"] = "LeakSanitizer reports a leak after everything was freed"
    if f.get("pdu_consumed") != "yes":
        what["consumed"] = "a PDU given to coap_send was never released (%s, sends=%s)" % (f.get("pdu_consumed"), f.get("sends"))
    can = f.get("canary", "")
    if not can.startswith("ok"):
        what["canary"] = ("the canary exchange with memory available failed (%s: 1 no PDU, 2 coap_send refused, 3 request never "
                          "reached the handler, 4 no response, 5 wrong response code)" % can)
    if f.get("refs", "ok") != "ok":
        what["refs"] = ("a session's reference count differs from the number of its holders (application, subscriptions, async "
                        "entries, send-queue nodes) after everything has settled: %s as <S server|C client><index>:<ref>/<holders> "
                        "(a reference without holder pins the session until the endpoint goes)" % f.get("refs"))
    if f.get("idle", "0") != "0":
        what["idle"] = ("%s server session(s) that nothing holds survive the session timeout (never reclaimed as idle)" % f.get("idle"))
    out = f.get("out", "")
    if re.search(r"cancelr0:kept(,|$)", out):
        what["retry"] = ("coap_cancel_observe failed because one of its own allocation requests failed, and the SAME call made again "
                         "with memory available fails too while the server still holds the subscription: the observation can no "
                         "longer be cancelled through the API")
    if re.search(r"(^|,)deaf\d", out):
        what["deaf"] = ("a TCP session that is still established is no longer served after the failure hit ANOTHER session "
                        "(answered/asked: %s)" % re.search(r"deaf(\d+/\d+)", out).group(1))
    if scn in ("tcp", "ws", "wsp") and re.search(r"tput\d+/[1-9]", out):
        what["body"] = "a PUT handler on a TCP session was given a payload that is not the payload sent (%s)" % re.search(r"tput\d+/\d+", out).group(0)
    m = re.search(r"body(\d+)/(\d+),put(\d+)/(\d+)", out)
    if m and (int(m.group(2)) or int(m.group(4))):
        what["body"] = "the application was handed a truncated or wrong body as if it were complete (%s)" % m.group(0)
    if all(k == 0 for k in ks) and scn.startswith(("b1o.", "b1u.")):
        want = "put%d/0" % (b1o_puts(scn[4:]) if scn.startswith("b1o.") else b1u_puts(scn[4:]))
        if not out.endswith("nack0,body0/0," + want) or "fail" in out:
            what["baseline"] = "without any failing request the scenario's outcome is `%s`, expected `…nack0,body0/0,%s`" % (out, want)
    elif all(k == 0 for k in ks) and out != EXPECT0.get(scn):
        what["baseline"] = "without any failing request the scenario's outcome is `%s`, expected `%s`" % (out, EXPECT0.get(scn))
    return what


def judge_alloc(c):
    i = c["impl"] or ""
    w = c["input"].split()
    if i == "bad-op":
        return ("tie", "harness does not know this line")
    what = symptoms(c)
    if what:
        return ("spec", "scenario %s, failing request(s) %s requested by %s: %s" % (
            w[1], [int(x) for x in w[2:]], site_of(i),
            ("the real code aborted (%s)" % what["crash"]) if "crash" in what else "; ".join(what.values())))
    return None


CMP = ["rc", "n", "pdu", "ol", "str", "q", "obs", "sp", "T"]


def judge_help(c):
    i, m = c["impl"] or "", c["model"] or ""
    if i.startswith("crash"):
        return ("spec", "helper script under failing request(s) %s (%s): the real code aborted (%s)" % (
            c["input"].split()[1:3], site_of(i), i))
    if i == "bad-op" or m == "bad-op":
        return None if i == m else ("tie", "bad-op on one side only: impl %s model %s" % (i[:40], m[:40]))
    fi, fm = fields(i), fields(m)
    if not fi.get("ledger", "").startswith("true"):
        return ("spec", "helper script: the real allocation trace is rejected by the verified monitor ledgerOk: %s" % fi.get("ledger"))
    if fi.get("lsan", "0") != "0":
        return ("spec", "helper script: LeakSanitizer reports a leak")
    # I-vs-property for the observer ops: every subscription carries a token some successful coap_add_observer was given, and
    # the session's reference count is the number of subscriptions (nothing else holds the server session in a script)
    w = c["input"].split()
    rcs = fi.get("rc", "").split(",")
    if "obs" in fi and len(rcs) == len(w) - 3:
        ref, _, toks = fi["obs"].partition("/")
        toks = [] if toks in ("-", "") else toks.split(",")
        given = set(op[1:] for op, rc in zip(w[3:], rcs) if op[0] == "A" and rc == "1")
        lost = [t for t in toks if t not in given]
        if lost:
            return ("spec", "helper script under failing request(s) %s (%s): a subscription is registered under a token of length %s "
                    "that no successful coap_add_observer call was given (the copy of the request lost its token): obs=%s"
                    % (w[1:3], site_of(i), ",".join(lost), fi["obs"]))
        if ref != str(len(toks)):
            return ("spec", "helper script under failing request(s) %s (%s): the server session's reference count is %s with %d "
                    "subscription(s) and no other holder (a reference without holder pins the session for ever, a holder "
                    "without reference is a use after free): obs=%s" % (w[1:3], site_of(i), ref, len(toks), fi["obs"]))
    if "unmodelled" in fm.get("rc", ""):
        return ("tie", "the script left M's domain (generator defect): %s" % fm.get("rc"))
    if fm.get("ledger") != "ok":
        return ("tie", "model M's own ledger is not clean: %s" % fm.get("ledger"))
    for k in CMP:
        if fi.get(k) != fm.get(k):
            return ("tie", "%s: implementation `%s` but model M `%s`" % (k, (fi.get(k) or "")[:200], (fm.get(k) or "")[:200]))
    return None


def judge_block(c):
    """atrack / asrcv: the real container code against the property (abort, ledger, leak, a count that says there are entries
    in a list that is NULL, a wrong body handed over), then against M field by field"""
    i, m = c["impl"] or "", c["model"] or ""
    w = c["input"].split()
    what = ("the lg_crcv's list of Observe tokens" if w[0] == "atrack" else
            "the receive PDU of a reliable session (coap_read_session)" if w[0] == "arecv" else
            "the lg_srcv of a Block1 transfer" + (" to the unknown resource" if w[0] == "asrcvu" else ""))
    if i.startswith("crash"):
        return ("spec", "%s under failing request(s) %s (%s): the real code aborted (%s)" % (what, w[1:3], site_of(i), i))
    if i == "bad-op" or m == "bad-op":
        return None if i == m else ("tie", "bad-op on one side only: impl %s model %s" % (i[:40], m[:40]))
    fi, fm = fields(i), fields(m)
    if not fi.get("ledger", "").startswith("true"):
        return ("spec", "%s under failing request(s) %s (%s): the real allocation trace is rejected by the verified monitor ledgerOk: %s"
                % (what, w[1:3], site_of(i), fi.get("ledger")))
    if fi.get("lsan", "0") != "0":
        return ("spec", "%s under failing request(s) %s (%s): LeakSanitizer reports a leak" % (what, w[1:3], site_of(i)))
    if "NULL!" in fi.get("tab", ""):
        return ("spec", "%s under failing request(s) %s (%s): obs_token_cnt says there are entries while the list is NULL (tab=%s): the next "
                "walk over the list (coap_block_delete_lg_crcv, an Observe cancel) dereferences NULL" % (what, w[1:3], site_of(i), fi.get("tab")))
    bad = [r for r in fi.get("rc", "").split(",") if re.fullmatch(r"d\d+:0", r)]
    if bad:
        return ("spec", "%s under failing request(s) %s (%s): the PUT handler is given a body that is not the body sent (%s)"
                % (what, w[1:3], site_of(i), bad[0]))
    if "unmodelled" in fm.get("rc", "") or "INVALID" in fm.get("rc", "") or "infeasible" in fm.get("rc", ""):
        return ("tie", "the script left M's domain (generator defect): %s" % fm.get("rc"))
    if fm.get("ledger") != "ok":
        return ("tie", "model M's own ledger is not clean: %s" % fm.get("ledger"))
    for k in ["rc", "n", "tab", "lg", "st", "disp", "T"]:
        if fi.get(k) != fm.get(k):
            return ("tie", "%s: %s: implementation `%s` but model M `%s`" % (what, k, (fi.get(k) or "")[:200], (fm.get(k) or "")[:200]))
    return None


def judge(ctx, c):
    op = c["input"].split(" ", 1)[0]
    if op == "alloc":
        return judge_alloc(c)
    if op == "ahelp":
        return judge_help(c)
    if op in ("atrack", "asrcv", "asrcvu", "arecv"):
        return judge_block(c)
    return None if (c["impl"] == "bad-op" and c["model"] == "bad-op") else ("tie", "unknown op")


def nontrivial(c):
    i = c["impl"] or ""
    return "fail=-" not in i and "fail=" in i or (c["input"].split()[0] in ("ahelp", "atrack", "asrcv", "asrcvu", "arecv") and c["input"].split()[1] != "0" and "rc=" in i)


def classify(c):
    w = c["input"].split()
    if w[0] == "alloc":
        return "%s:%s" % (w[1].split(".")[0], "none" if w[2] == "0" else "single" if len(w) == 3 else "pair")
    k = sum(1 for x in w[1:3] if x != "0")
    return "%s:%s" % (w[0], ["none", "single", "pair"][k])


# ------------------------------------------------------------------ known findings: (scenario, requesting function, what happens)
def known(ctx, c):
    """signature = (scenario, function that requested a failing allocation, what happens).  A case matches an open finding only
    if one of its failing sites lies in the finding's code AND its symptoms are within the finding's symptoms: a different
    site with the same symptom, or the same site with another symptom, is still reported."""
    w = c["input"].split()
    if w[0] != "alloc":
        return None
    sites = site_of(c["impl"] or "").split(",")
    what = set(symptoms(c))
    if not what or sites == ["-"]:
        return None
    def some_site(*names):
        return any(all(n in s.split("<") for n in names) for s in sites)
    # open: a part of a message is on the stream (short write) and the node that would keep the rest cannot be allocated:
    # coap_send_internal releases the PDU and reports COAP_INVALID_MID, the session stays up with half a frame sent
    if w[1] == "wsp" and some_site("coap_new_node", "coap_session_delay_pdu", "coap_send_internal") and what <= {"deaf", "body"}:
        return "partial-write-not-queued-stream-out-of-step"
    # (oscore-conf-alloc-failure-ignored was open here until the fix of coap_parse_oscore_conf_mem: nothing in osc is excused any more)
    # (block2-partial-body-on-alloc-failure and block1-wrong-body-after-build-body-failure were open here until the fixes
    #  dd57cca / 28062c6: no case of b1, b2, b1raw, b2raw, wkc, obsblk may be excused any more)
    return None


def search(ctx, tie_breaks, proof):
    """all pairs for the scenarios + every prefix of the disagreeing helper scripts under every failing index"""
    out = []
    for c in tie_breaks[:20]:
        w = c["input"].split()
        if w[0] in ("atrack", "asrcv", "asrcvu", "arecv"):
            hd = 3 if w[0] == "atrack" else 5 if w[0] == "arecv" else 7
            for n in range(1, len(w) - hd + 1):
                for k in range(0, 3 * n + 6):
                    out.append("%s %d 0 %s" % (w[0], k, " ".join(w[3:hd] + w[hd:hd + n])))
            continue
        if w[0] != "ahelp":
            continue
        ops = w[3:]
        for n in range(1, len(ops) + 1):
            for k in range(0, 2 * n + 3):
                out.append("ahelp %d 0 %s" % (k, " ".join(ops[:n])))
    return out


def shrink(ctx, case):
    """helper scripts: delete ops while the implementation still contradicts the property; scenarios are already minimal (scenario, k)"""
    w = case["input"].split()
    if w[0] not in ("ahelp", "atrack", "asrcv", "asrcvu", "arecv"):
        return case
    from vlib.runner import diff_side
    import props.C18 as me
    hd = 7 if w[0] in ("asrcv", "asrcvu") else 5 if w[0] == "arecv" else 3
    head = " ".join(w[:hd])
    best, ops = case, w[hd:]
    changed, rounds = True, 0
    while changed and rounds < 10 and len(ops) > 1:
        changed = False; rounds += 1
        lines = ["%s %s" % (head, " ".join(ops[:i] + ops[i + 1:])) for i in range(len(ops))]
        for cc in diff_side(ctx, me, lines):
            v = judge(ctx, cc)
            if v and v[0] == "spec":
                cc = dict(cc); cc["why"] = v[1]; best = cc
                ops = cc["input"].split()[hd:]
                changed = True
                break
    return best


# ---- T1X: the numerals of this property's models are tied to the current tree.  extract/consts2*.c + a source scan
# rewrite lean/CoapVerif/Generated/Consts2.lean on every check; Props/C18Consts.lean proves `<model numeral> =
# Generated.C2.<name>` (design/T1.md).  A changed macro / struct size / literal breaks one of these named obligations.
LEAN_MODULES = list(LEAN_MODULES) + ["CoapVerif.Props.C18Consts"]
REQUIRED_THEOREMS = list(REQUIRED_THEOREMS) + [
    "sessMaxPdu_matches_code",
    "maxSubscriber_matches_code",
]
TRUSTED_BASE = list(TRUSTED_BASE) + ["T1 extractors extract/consts2.c, consts2_net.c, consts2_opt.c and the source scan vlib/tables.py scan_consts2 (Generated/Consts2.lean)"]
_t1x_prev_extract = globals().get("extract")


def extract(ctx):
    from vlib import tables
    return (_t1x_prev_extract(ctx) if _t1x_prev_extract else []) + tables.extract_consts2()
