"""C10 — server answers each request datagram once, with the protocol-prescribed code (DESIGN.md §4 C10)."""
import json, os, re
from vlib import common as C, coapgen as G, simlib

MANIFEST = {
    "text": "Lean theorem decision_eq_spec: for every context configuration, resource table and request, the transcription M of "
            "coap_dispatch (request path) + handle_request + no_response + coap_new_error_response prescribes exactly the outcome "
            "(messages sent with type, code, message id, token; handler call with resource, method, path, query, option view, payload) "
            "that the specification S prescribes, up to the diagnostic content of library-generated replies; clause theorems: at most "
            "one reply (or Empty ACK + separate CON for a proxied CON request), token echo, message id, NON never ACKed, 4.02/Reset, "
            "4.04/2.02, 4.05, 4.12, 4.15, 5.05, 5.08/4.00, handler runs once with the request view, No-Response and multicast "
            "suppression; the critical-option list, the repeatable table, the code classes and the escape sets are regenerated from "
            "the code and proved equal to / within the RFC tables. M is tied to the compiled code by differential runs on a real "
            "coap_context_t (virtual clock, scripted datagram socket): one fresh server and one generated request datagram per case, "
            "unicast and multicast, every transmitted datagram and every handler call compared (I vs M exactly, I vs S on what S fixes). "
            "Sequences: sequence_eq_spec (M = S on every sequence of datagrams from any peers, from any history of deferred "
            "responses / last proxied message ids), pending_of_others_irrelevant (after any sequence a datagram is decided as on a "
            "fresh context unless the SAME peer has a deferred request with the SAME token or sent the same message id to the proxy "
            "handler), deferred_retransmission_acked, reply_shape_any_history; tied by differential runs of 2-5 datagrams from up "
            "to 3 peers at one context with handlers that defer their response (coap_register_async). The handlers the resource "
            "constructors register by themselves are regenerated and proved to be the documented ones (constructor_presets_match_api); "
            "the executable S escapes every byte RFC 3986 requires, whatever the implementation's table says (escape_restrict_id). "
            "Deferred responses (coap_async.c, Model/Async.lean: entry list, stored request copy, delay / trigger, session "
            "references, idle-session reaper, coap_check_async from the I/O step): for every event sequence of request "
            "datagrams, time steps, coap_async_trigger / _set_delay / coap_free_async — coap_check_async hands to the "
            "application exactly the entries whose time has come, each once, with exactly the stored request, and removes them "
            "(async_fires_exactly_the_due, async_fired_were_registered); its return value is not later than the earliest deadline "
            "(async_wait_le_earliest_deadline); at most one entry per (session, token) (async_one_entry_per_session_token); a "
            "retransmission of a deferred request registers nothing and gets an Empty ACK only "
            "(async_retransmission_no_second_entry, async_retransmission_acked_only); every entry holds exactly one session "
            "reference, session->ref = number of entries of the session, no entry names a freed session, the idle reaper never "
            "reclaims a session with a pending entry (async_refs_balanced, async_no_entry_of_freed_session, "
            "async_pending_session_not_reclaimed: inductive invariant over every event sequence); the second pass under an "
            "unchanged table calls the same handler with the same request view as the first (async_second_pass_same_handler); "
            "after coap_delete_resource in between no handler of a deleted resource runs and the error response is a separate "
            "response, never an ACK (async_deleted_resource_handler_never_runs, async_second_pass_error_is_separate_response). "
            "Tied by differential runs (op asq, incl. coap_delete_resource events) of the "
            "real coap_register_async / coap_check_async / coap_async_trigger / coap_async_set_delay / coap_free_async on the "
            "virtual clock against the model, event by event (transmissions, handler calls, the entry list with the stored "
            "request, session reference counts, the reported wait), plus an oracle that reads the property off the "
            "implementation's own report. Block mode kept across the requests of a session (Model/ServerBlock.lean, op srvb): "
            "handle_request's save / force COAP_BLOCK_SINGLE_BODY (FETCH, force-single-body resource) / restore of "
            "session->block_mode around coap_handle_request_put_block, the re-assembly itself being C09's srcvStep: after ANY "
            "sequence of request datagrams every session runs in the configured block mode (block_mode_restored, "
            "block_mode_reported_is_configured) and a Block1 fragment with the More bit never reaches a handler in single-body "
            "mode whatever preceded it (single_body_fragment_never_reaches_handler); tied by differential runs of 1-14 "
            "datagrams (FETCH / force-single-body requests, 2-4 block uploads in order / lost / duplicated / reordered / "
            "interleaved, block modes 0, 1, 3) with the handler's coap_get_data_large view and session->block_mode compared, "
            "plus an oracle: one handler call per body with the concatenation of the blocks in single-body mode, one per "
            "block with its offset in per-block mode.",
    "note": "Deferred responses: session close by the application / context teardown are not events of the async machine "
            "(C12 covers them); a delayed invocation "
            "whose handler sets no code (D13), requests with an Observe option and the proxy-URI resource are outside the "
            "async machine's scope. Partial: proxy forwarding itself (coap_proxy.c) is outside the model — the proxy resource's handler is treated as an "
            "application handler (Empty ACK + separate CON response), coap_split_proxy_uri is an oracle; handler verdicts of 5.08, "
            "requests with a registered OSCORE option, libcoap-managed block transfer beyond the Block1 request stage of "
            "handle_request (Block2 responses / lg_xmit, Q-Block, Request-Tag, out-of-order completion, Block1 for the "
            "unknown-resource handler; liveness of the re-assembly is proved on decided instances only, its soundness is C09's) "
            "and Empty/response codes "
            "are out of scope; the /.well-known/core listing is opaque (C20). Trusted: Lean kernel (+ propext, Classical.choice, "
            "Quot.sound), the T1 extractor, the H-sim harness/generator, the hand transcription M (checked against the compiled code "
            "on the cases run only).",
    "design_ref": "DESIGN.md §4 C10, design/C10.md",
}
LEAN_MODULES = ["CoapVerif.Props.C10", "CoapVerif.Props.C10Block"]
NAMESPACE = "Coap.C10"


def ivs(xs):
    """sorted ints -> inclusive intervals"""
    out = []
    for x in xs:
        if out and out[-1][1] + 1 == x:
            out[-1][1] = x
        else:
            out.append([x, x])
    return out


def render_tables(d):
    L = lambda xs: "[" + ", ".join(str(x) for x in xs) + "]"
    I = lambda xs: "[" + ", ".join("(%d, %d)" % (a, b) for a, b in ivs(xs)) + "]"
    ph = ",\n   ".join("(%d, %s)" % (c, L(bs)) for c, bs in d["phrases"])
    return ("/- GENERATED by extract/server.c (T1) from /repo's working tree by evaluating libcoap's own functions over their whole\n"
            "   domain (coap_option_check_critical, coap_option_check_repeatable, coap_check_code_class, is_unescaped_in_path/_query,\n"
            "   coap_response_phrase, coap_option_filter_set).  Do not edit. -/\n"
            "namespace Coap.Generated.Server\n\n"
            "/-- odd option numbers accepted by coap_option_check_critical on a context without registered options -/\n"
            "def criticalBuiltin : List Nat := %s\n\n"
            "/-- option numbers for which coap_option_check_repeatable returns 0 -/\n"
            "def nonRepeatable : List Nat := %s\n\n"
            "/-- codes accepted by coap_check_code_class on a UDP session (inclusive intervals) -/\n"
            "def codeOk : List (Nat × Nat) := %s\n\n"
            "/-- bytes copied unescaped by coap_get_uri_path / coap_get_query (inclusive intervals) -/\n"
            "def unescPath : List (Nat × Nat) := %s\n"
            "def unescQuery : List (Nat × Nat) := %s\n\n"
            "/-- coap_response_phrase: code ↦ ASCII bytes -/\n"
            "def phrases : List (Nat × List Nat) :=\n  [%s]\n\n"
            "/-- slots of a coap_opt_filter_t for option numbers ≤ 255 / > 255 -/\n"
            "def filterShort : Nat := %d\ndef filterLong : Nat := %d\n\n"
            "/-- handlers registered by the constructors themselves (bit m-1 = method m): coap_resource_init,\n"
            "coap_resource_unknown_init2, coap_resource_proxy_uri_init2 -/\n"
            "def presetRes : Nat := %d\ndef presetUnk : Nat := %d\ndef presetPrx : Nat := %d\n\n"
            "end Coap.Generated.Server\n" % (L(d["critical"]), L(d["nonrepeat"]), I(d["codeok"]), I(d["unesc_path"]),
                                            I(d["unesc_query"]), ph, d["filter_short"], d["filter_long"],
                                            d["preset_res"], d["preset_unk"], d["preset_prx"]))


def extract(ctx):
    from vlib.tables import run_extractor
    d = run_extractor("server", C.build_libcoap())
    C.write_if_changed(os.path.join(C.LEAN, "CoapVerif", "Generated", "ServerTables.lean"), render_tables(d))
    return ["Generated.Server.criticalBuiltin (%d)" % len(d["critical"]), "Generated.Server.nonRepeatable (%d)" % len(d["nonrepeat"]),
            "Generated.Server.codeOk (%d codes)" % len(d["codeok"]), "Generated.Server.unescPath/unescQuery (%d/%d bytes)" % (
                len(d["unesc_path"]), len(d["unesc_query"])), "Generated.Server.phrases (%d)" % len(d["phrases"]),
            "Generated.Server.filterShort/Long (%d/%d)" % (d["filter_short"], d["filter_long"]),
            "Generated.Server.presetRes/Unk/Prx (%d/%d/%d)" % (d["preset_res"], d["preset_unk"], d["preset_prx"])]


def harness(ctx):
    return simlib.build_sim_harness("server")


# --------------------------------------------------------------------------------------------- generator
def hx(b):
    return b.hex() if b else "-"


M_FLAGS = [8, 16, 32, 64, 128, 256]
PATH_POOL = [b"a", b"b", b"a/b", b"", b".well-known/core", b"a%20b", b"x/", b"/a", b"s/t/u", b"%C3%A9", b"a b", b"core",
             b".well-known", b"a//c", b"long/path/with/many/segments"]
SEGS = [b"a", b"b", b"x", b"", b"a b", b".well-known", b"core", b"s", b"t", b"u", b"\xc3\xa9", b"%", b"a/b", b"c", b"~._-", b"A&=;",
        b"long", b"path", b"with", b"many", b"segments", b"\x00", b"\xff/"]
HOSTS = [b"h", b"p", b"ph"]
UNK_CRIT = [13, 21, 25, 29, 33, 37, 2049, 2051, 65001, 65003, 19, 31, 9, 257, 261, 1001]
UNK_ELEC = [2, 10, 18, 22, 2048, 65000, 2050, 30]
REG_POOL = [65001, 65003, 2049, 2051, 13, 21, 25, 29, 257, 261, 1001, 65000]


PCHAR = set(b"ABCDEFGHIJKLMNOPQRSTUVWXYZabcdefghijklmnopqrstuvwxyz0123456789-._~!$&'()*+,;=:@")
# bytes worth trying in a path segment / query value: every class of RFC 3986 and the edges of the byte range
EDGE_BYTES = [0x00, 0x00, 0x01, 0x1f, 0x20, 0x22, 0x23, 0x25, 0x2f, 0x3f, 0x5b, 0x5c, 0x5e, 0x60, 0x7b, 0x7c, 0x7f, 0x80, 0xfe, 0xff,
              0x26, 0x3d, 0x2b, 0x3a, 0x40, 0x7e, 0x2e, 0x30, 0x41, 0x7a]


def rbyte(rng):
    c = rng.random()
    if c < 0.35: return rng.choice(b"abnxyz019")
    if c < 0.70: return rng.choice(EDGE_BYTES)
    return rng.randrange(256)


def rseg(rng):
    """a Uri-Path segment / Uri-Query value over ALL byte values (0x00 and 0xff included)"""
    return bytes(rbyte(rng) for _ in range(rng.choice([1, 1, 2, 3, 3, 5])))


def canon(seg):
    """the name under which a resource for this segment is registered: RFC 3986 pchar left alone, the rest %XX"""
    return b"".join(bytes([b]) if b in PCHAR else b"%%%02X" % b for b in seg)


def rpath(rng):
    return b"/".join(canon(rseg(rng)) for _ in range(rng.choice([1, 1, 2, 3])))


def rflags(rng, extra=()):
    f = 0
    for b in M_FLAGS:
        if rng.random() < 0.25:
            f |= b
    for b, p in extra:
        if rng.random() < p:
            f |= b
    return f


def rmask(rng):
    c = rng.random()
    if c < 0.45: return 127
    if c < 0.5: return 0
    if c < 0.5: return 1 << rng.randrange(7)
    return rng.randrange(128)


def gen_table(rng):
    n = rng.choice([0, 1, 2, 2, 3, 4])
    paths = rng.sample(PATH_POOL, n)
    for i in range(n):
        if rng.random() < 0.3:
            p = rpath(rng)
            if p not in paths:
                paths[i] = p
    res = [(p, rmask(rng), rflags(rng, [(2, 0.2), (4, 0.1), (0x400, 0.04), (0x200, 0.05)]), int(rng.random() < 0.4)) for p in paths]
    unk = None
    if rng.random() < 0.45:
        unk = (rng.choice([2, 2, 127, 6, rmask(rng)]), rflags(rng, [(0x800, 0.35), (0x400, 0.03)]))
    prx = None
    if rng.random() < 0.4:
        prx = (rng.choice([127, 127, 127, 1, rmask(rng)]), rflags(rng, [(0x400, 0.03)]), rng.choice([b"", b"p", b"ph", b"p"]))
    return res, unk, prx


def path_segments(rng, res):
    c = rng.random()
    if res and c < 0.5:
        p = rng.choice(res)[0]
        # the segment list whose reconstruction is the registered path (when there is one)
        segs = [unpct(s) for s in p.split(b"/")] if p else []
        if rng.random() < 0.15 and segs:
            segs[rng.randrange(len(segs))] = rng.choice(SEGS) if rng.random() < 0.5 else rseg(rng)
        return segs
    if c < 0.62:
        return [b".well-known", b"core"]
    if c < 0.66:
        return [b".well-known/core"]
    if c < 0.72:
        return []
    return [rng.choice(SEGS) if rng.random() < 0.6 else rseg(rng) for _ in range(rng.choice([1, 1, 2, 2, 3, 5]))]


def unpct(s):
    out = bytearray(); i = 0
    while i < len(s):
        if s[i] == 0x25 and i + 2 < len(s) + 0 and all(chr(c) in "0123456789abcdefABCDEF" for c in s[i + 1:i + 3]) and len(s[i + 1:i + 3]) == 2:
            out.append(int(s[i + 1:i + 3], 16)); i += 3
        else:
            out.append(s[i]); i += 1
    return bytes(out)


PROXY_URIS = [(b"coap://h/x", (b"h", b"x")), (b"coap://p/x", (b"p", b"x")), (b"coap://ph/y/z", (b"ph", b"y/z")), (b"coap://h", (b"h", b"")),
              (b"coap://p/a", (b"p", b"a")), (b"x", None), (b"nope//h/x", None)]


def gen_request(rng, res, unk, prx):
    c = rng.random()
    typ = 0 if c < 0.47 else 1 if c < 0.92 else 2 if c < 0.96 else 3
    c = rng.random()
    if c < 0.80: code = rng.choice([1, 1, 1, 2, 3, 4, 5, 6, 7])
    elif c < 0.87: code = rng.randint(8, 31)
    elif c < 0.94: code = rng.choice([32, 33, 63, 192, 200, 223, 224, 230, 231, 255, rng.randint(32, 63), rng.randint(192, 224)])
    else: code = rng.randint(1, 31)
    mid = rng.choice([0, 1, 0xFFFF, rng.randint(0, 0xFFFF), rng.randint(0, 0xFFFF)])
    c = rng.random()
    tok = G.rbytes(rng, 0 if c < 0.2 else rng.randint(1, 8) if c < 0.94 else rng.choice([9, 10, 12, 13, 16, 17, 20]))
    opts = [(11, s) for s in path_segments(rng, res)]
    r = rng.random
    if r() < 0.06: opts.append((1, G.rbytes(rng, rng.randint(0, 8))))
    if r() < 0.10: opts.append((3, rng.choice(HOSTS)))
    if r() < 0.06: opts.append((4, G.rbytes(rng, rng.randint(1, 8))))
    if r() < 0.14: opts.append((5, b""))
    if r() < 0.16: opts.append((6, rng.choice([b"", b"\x00", b"\x01", b"\x02", b"\x00\x00", b"\x00\x01"])))
    if r() < 0.04: opts.append((7, rng.choice([b"", b"\x16\x33"])))
    if r() < 0.30 or (code == 5 and r() < 0.5): opts.append((12, rng.choice([b"", b"\x28", b"\x32", b"\x01\x00"])))
    if r() < 0.05: opts.append((14, G.rbytes(rng, rng.randint(0, 4))))
    for _ in range(rng.choice([0, 0, 0, 1, 1, 2, 3])):
        opts.append((15, rng.choice([b"x=1", b"y&z", b"a b", b"", b"k=\xc3\xa9", b"rt=t", b"q?/", b"#%"]) if r() < 0.6 else rseg(rng)))
    if r() < 0.13: opts.append((16, bytes([rng.choice([0, 1, 1, 2, 5, 255, rng.randrange(256)])])))
    if r() < 0.05: opts.append((17, rng.choice([b"", b"\x28"])))
    if r() < 0.10: opts.append((23, rng.choice([b"", b"\x08", b"\x18", b"\x0e", b"\x10", b"\x00\x08", b"\x07", b"\x0f", b"\x00", b"\x01\x0a", b"\xff\xff\xff"])))
    if r() < 0.05: opts.append((27, rng.choice([b"", b"\x08", b"\x10"])))
    if r() < 0.04: opts.append((28, b"\x10"))
    pu = None
    pp = 0.22 if prx else 0.05
    if r() < pp:
        v, pu_ = rng.choice(PROXY_URIS); opts.append((35, v)); pu = (v, pu_)
    if r() < pp:
        opts.append((39, rng.choice([b"coap", b"http"])))
        if not any(n == 3 for n, _ in opts) and r() < 0.8: opts.append((3, rng.choice(HOSTS)))
    if r() < 0.03: opts.append((9, rng.choice([b"", b"\x09\x14", b"\x19\x05\x01", G.rbytes(rng, rng.randint(1, 6))])))   # OSCORE on a server without OSCORE configuration: an unknown critical option
    if r() < 0.04: opts.append((60, b"\x10"))
    if r() < 0.04: opts.append((252, G.rbytes(rng, rng.randint(1, 8))))
    if r() < 0.22: opts.append((258, rng.choice([b"", b"\x02", b"\x08", b"\x10", b"\x1a", b"\x18", b"\x04", b"\x7f", b"\xff", b"\x00", b"\x0a"])))
    if r() < 0.04: opts.append((292, G.rbytes(rng, rng.randint(0, 8))))
    if r() < 0.08:
        for _ in range(rng.choice([1, 1, 2, 7, 9])):
            opts.append((rng.choice(UNK_CRIT), G.rbytes(rng, rng.randint(0, 3))))
    if r() < 0.10:
        for _ in range(rng.choice([1, 1, 2])):
            opts.append((rng.choice(UNK_ELEC), G.rbytes(rng, rng.randint(0, 3))))
    if r() < 0.06 and opts:
        for _ in range(rng.choice([1, 1, 1, 2, 8])):
            n, v = rng.choice(opts)
            if n != 11:
                opts.append((n, v if r() < 0.5 or n in G.LIMITS else G.rbytes(rng, 1)))
    # stable sort by number: repeated options keep their relative order, Uri-Path order is the path
    opts.sort(key=lambda o: o[0])
    pl = b"" if r() < 0.5 else G.rbytes(rng, rng.randint(1, 12))
    # the oracle for coap_split_proxy_uri on the FIRST Proxy-Uri option
    puw = "-"
    first35 = [v for n, v in opts if n == 35]
    if first35:
        d = dict(PROXY_URIS).get(first35[0])
        puw = "bad" if d is None else "%s/%s" % (hx(d[0]), hx(d[1]))
    return typ, code, mid, tok, opts, pl, puw


def gen_verdict(rng):
    c = rng.random()
    if c < 0.12: code = 0
    elif c < 0.6: code = rng.choice([65, 66, 67, 68, 69, 69, 69, 95])
    elif c < 0.8: code = rng.choice([128, 129, 132, 133, 140, 160, 163, 165])
    elif c < 0.9: code = rng.choice([40, 200, 225, 96, 100, 64, 31, 1])
    else: code = rng.choice([c for c in range(256) if c != 168])
    pl = b"" if rng.random() < 0.35 else rng.choice([b"hi", G.rbytes(rng, rng.randint(1, 16))])
    return "%d:%s" % (code, hx(pl))


def make_line(cfg, tbl, verdict, puw, dst, dgram):
    mpr, mts, known = cfg
    res, unk, prx = tbl
    return "srv %d %d %s %s %s %s %s %s %s %s" % (
        mpr, mts, ",".join(str(k) for k in known) or "-",
        "%d:%d" % unk if unk else "-",
        "%d:%d:%s" % (prx[0], prx[1], hx(prx[2])) if prx else "-",
        ";".join("%s:%d:%d:%d" % (hx(p), m, f, o) for p, m, f, o in res) or "-",
        verdict, puw, dst, hx(dgram))


def gen_case(rng):
    res, unk, prx = gen_table(rng)
    mpr = int(rng.random() < 0.35)
    mts = rng.choice([8, 8, 8, 8, 12, 16])
    known = []
    if rng.random() < 0.3:
        known = rng.sample(REG_POOL, rng.choice([1, 1, 2, 3, 6]))
        # a coap_opt_filter_t holds 6 numbers <= 255 and 2 above
        ks, kl = [k for k in known if k <= 255][:6], [k for k in known if k > 255][:2]
        known = [k for k in known if k in ks or k in kl]
    typ, code, mid, tok, opts, pl, puw = gen_request(rng, res, unk, prx)
    dst = "m" if rng.random() < 0.22 else "u"
    return make_line((mpr, mts, known), (res, unk, prx), gen_verdict(rng), puw, dst, G.encode("udp", typ, code, mid, tok, opts, pl))


# ---- sequences of datagrams from several peers at one context (op `srvq`)
def cfg_words(cfg, tbl):
    mpr, mts, known = cfg
    res, unk, prx = tbl
    return "%d %d %s %s %s %s" % (
        mpr, mts, ",".join(str(k) for k in known) or "-",
        "%d:%d" % unk if unk else "-",
        "%d:%d:%s" % (prx[0], prx[1], hx(prx[2])) if prx else "-",
        ";".join("%s:%d:%d:%d" % (hx(p), m, f, o) for p, m, f, o in res) or "-")


def seq_request(rng, res, unk, prx, toks, mids, aim, dupmode=False):
    """one request of a sequence: tokens and message ids come from small per-line pools so that peers collide;
    `aim`: go for a handler (a registered path with a method it serves / the proxy resource)"""
    typ, code, mid, tok, opts, pl, puw = gen_request(rng, res, unk, prx)
    if aim:
        typ = rng.choice([0, 0, 1])
        c = rng.random()
        if prx and (c < 0.35 or dupmode):
            ms = [m for m in range(1, 8) if prx[0] >> (m - 1) & 1] or [1]
            code = rng.choice(ms)
            v, pu_ = rng.choice(PROXY_URIS[:5])
            opts = [(35, v)] if rng.random() < 0.7 else [(3, rng.choice(HOSTS)), (39, b"coap")]
            if code == 5: opts.append((12, b""))
        elif res:
            p, mask, fl, ob = rng.choice(res)
            ms = [m for m in range(1, 8) if mask >> (m - 1) & 1] or [1]
            code = rng.choice(ms)
            opts = [(11, unpct(x)) for x in p.split(b"/")] if p else []
            if code == 5: opts.append((12, b""))
            if ob and rng.random() < 0.3: opts.append((6, rng.choice([b"", b"\x01"])))
        elif unk:
            ms = [m for m in range(1, 8) if unk[0] >> (m - 1) & 1] or [3]
            code = rng.choice(ms)
            opts = [(11, b"zz")] + ([(12, b"")] if code == 5 else [])
        opts.sort(key=lambda o: o[0])
        first35 = [v for n, v in opts if n == 35]
        puw = "-"
        if first35:
            d = dict(PROXY_URIS).get(first35[0])
            puw = "bad" if d is None else "%s/%s" % (hx(d[0]), hx(d[1]))
    if typ > 1 and rng.random() < 0.7:
        typ = rng.choice([0, 1])
    if rng.random() < 0.85: tok = rng.choice(toks)
    if rng.random() < 0.6: mid = rng.choice(mids)
    if dupmode and aim:
        # duplicate detection of proxied Confirmable requests: same peer, same message id, fresh tokens
        typ, mid = (0 if rng.random() < 0.85 else 1), (mids[0] if rng.random() < 0.8 else mid)
        if rng.random() < 0.7: tok = G.rbytes(rng, rng.randint(1, 4))
    return typ, code, mid, tok, opts, pl, puw


def gen_seq(rng):
    res, unk, prx = gen_table(rng)
    if not res and not unk and not prx:
        res = [(b"a", 127, 0, 0)]
    mpr = int(rng.random() < 0.25)
    mts = rng.choice([8, 8, 8, 16])
    toks = [G.rbytes(rng, rng.choice([0, 1, 1, 2, 4, 8])) for _ in range(rng.choice([1, 2, 2, 3]))]
    if rng.random() < 0.3 and toks[0]:
        toks.append(toks[0][:-1])                      # a prefix of another token
        toks.append(toks[0] + b"\x00")
    toks = [t[:8] for t in toks]
    mids = [rng.randint(0, 0xFFFF) for _ in range(rng.choice([1, 2, 2]))]
    peers = rng.sample(range(16), rng.choice([1, 2, 2, 3]))
    k = rng.choice([1, 1, 2, 2, 3, 4])
    dupmode = bool(prx) and rng.random() < 0.25
    if dupmode and rng.random() < 0.7:
        peers = peers[:1]
    steps = []
    for j in range(k + 1):
        last = j == k
        typ, code, mid, tok, opts, pl, puw = seq_request(rng, res, unk, prx, toks, mids, aim=rng.random() < (0.6 if last else 0.8),
                                                         dupmode=dupmode and rng.random() < 0.8)
        proxied = any(n in (35, 39) for n, _ in opts)
        if last:
            verdict = gen_verdict(rng) if rng.random() < 0.9 else "defer"
        elif rng.random() < 0.75 or (proxied and typ == 0):
            # (an earlier proxied Confirmable request always defers: its separate Confirmable response would be
            #  retransmitted while later datagrams are processed — C06/C08's subject)
            verdict = "defer"
        else:
            verdict = gen_verdict(rng)
        if verdict.startswith("168:"):
            verdict = "69:-"
        dst = "m" if rng.random() < 0.1 else "u"
        steps.append("%d %s %s %s %s" % (rng.choice(peers), verdict, puw, dst, hx(G.encode("udp", typ, code, mid, tok, opts, pl))))
    return "srvq " + cfg_words((mpr, mts, []), (res, unk, prx)) + " " + " ".join(steps)


# ---- deferred responses (coap_async.c): schedules of defer / time / trigger / set_delay / free / retransmission (op `asq`)
ASQ_DELAYS = [0, 0, 0, 1, 10, 100, 100, 500, 1000, 2500]
ASQ_DTS = [0, 0, 1, 9, 10, 99, 100, 101, 499, 500, 999, 1000, 1001, 2000, 2500, 3000, 5000]


def asq_verdict(rng):
    while True:
        v = gen_verdict(rng)
        if v.startswith("168:"):
            continue
        if v.startswith("0:") and rng.random() < 0.9:
            continue
        return v


def gen_async(rng):
    res, unk, _ = gen_table(rng)
    res = [r for r in res if r[0] != b".well-known/core"]
    if not any(r[1] for r in res):
        res = [r for r in res if r[0] != b"a"] + [(b"a", 127, 0, int(rng.random() < 0.3))]
    mpr = int(rng.random() < 0.15)
    mts = rng.choice([8, 8, 8, 16])
    toks = [G.rbytes(rng, rng.choice([0, 1, 1, 2, 4, 8])) for _ in range(rng.choice([1, 2, 2, 3]))]
    if rng.random() < 0.3 and toks[0]:
        toks.append(toks[0][:-1]); toks.append((toks[0] + b"\x00")[:8])
    mids = [rng.randint(0, 0xFFFF) for _ in range(3)]
    peers = rng.sample(range(16), rng.choice([1, 2, 2, 3]))
    tmo = rng.choice([1, 1, 2, 3])
    evs, sent, nent = [], [], 0
    for _ in range(rng.choice([3, 4, 5, 6, 8, 10])):
        c = rng.random()
        if c < 0.45 or not evs:
            if sent and rng.random() < 0.3:
                # a retransmission (same peer, same bytes; sometimes a fresh message id / another peer with the same bytes)
                peer, dg = rng.choice(sent)
                if rng.random() < 0.3: dg = dg[:2] + bytes([rng.randrange(256), rng.randrange(256)]) + dg[4:]
                if rng.random() < 0.15: peer = rng.choice(peers)
            else:
                typ, code, mid, tok, opts, pl, puw = seq_request(rng, res, unk, None, toks, mids, aim=rng.random() < 0.85)
                opts = [(n, v) for n, v in opts if n not in (35, 39)]
                if rng.random() < 0.12:
                    opts = sorted([(n, v) for n, v in opts if n != 16] + [(16, bytes([rng.choice([0, 1, 2, 2, 3, 255])]))], key=lambda o: o[0])
                peer, dg = rng.choice(peers), G.encode("udp", typ, code, mid, tok, opts, pl)
                sent.append((peer, dg))
            act = "d%d" % rng.choice(ASQ_DELAYS) if rng.random() < 0.7 else "r"
            evs.append("rx %d %s %s %s" % (peer, act, asq_verdict(rng), hx(dg)))
            nent += 1
        elif c < 0.78:
            evs.append("io %d %s" % (rng.choice(ASQ_DTS), asq_verdict(rng)))
        elif c < 0.87:
            evs.append("tr %d" % rng.choice([0, 0, 1, 2]))
        elif c < 0.93:
            evs.append("sd %d %d" % (rng.choice([0, 0, 1, 2]), rng.choice(ASQ_DELAYS)))
        elif c < 0.96 and res:
            # coap_delete_resource between the two passes of a deferred request
            evs.append("dr %d" % rng.randrange(len(res) + (rng.random() < 0.1)))
        else:
            evs.append("fr %d" % rng.choice([0, 0, 1, 2]))
    if rng.random() < 0.7:
        evs.append("io %d %s" % (rng.choice([1000, 3000, 5000]), asq_verdict(rng)))
    return "asq " + cfg_words((mpr, mts, []), (res, unk, None)) + " %d " % tmo + " ".join(evs)


def asq_events(line):
    """the events of an `asq` line: (kind, words)"""
    w = line.split()[8:]
    out, i = [], 0
    size = {"rx": 5, "io": 3, "tr": 2, "sd": 3, "fr": 2, "dr": 2}
    while i < len(w):
        k = size.get(w[i])
        if not k or i + k > len(w):
            return None
        out.append((w[i], w[i + 1:i + k])); i += k
    return out


ASQ_RE = re.compile(r"^tx=(\S+) h=(\S+) a=(\S+) s=(\S+) w=(\S+)$")


def asq_entries(a):
    out = []
    if a == "-":
        return out
    for e in a.split("/"):
        f = e.split(":")
        if len(f) != 9:
            raise ValueError(e)
        out.append({"id": int(f[0]), "peer": int(f[1]), "delay": int(f[2]), "K": f[3], "code": f[4], "mid": int(f[5]), "tok": f[6],
                    "opts": f[7], "pl": f[8], "raw": e})
    return out


def judge_async_spec(line, impl):
    """the property read off the implementation's own report, independently of M: at most one entry per (session, token);
    session reference count = number of entries of the session; an entry that is due is handed to the application exactly
    once, at or after its time, with exactly the stored request, by the handler that deferred it, and is gone afterwards;
    nothing is handed over for an entry that is not due or not registered any more; a retransmission of a deferred request
    is acknowledged (CON) / ignored (NON) and changes nothing; the reported wait is not later than the earliest deadline"""
    evs = asq_events(line)
    if evs is None:
        return None
    outs = impl.split(SEP)
    now, prev, prevraw, fired, regcall, regdg = 1000, [], "-", set(), {}, {}
    # the ordinary resources of the table as it is now, by their position in the line (`dr` deletes; the harness names a
    # handler r<i> by the resource's CURRENT position)
    w6 = line.split()[6]
    cur = list(range(0 if w6 == "-" else len(w6.split(";"))))

    def orig(call):
        name, _, rest = call.partition(":")
        if name[:1] == "r" and name[1:].isdigit():
            return ("R%d" % cur[int(name[1:])] if int(name[1:]) < len(cur) else "R?") + ":" + rest
        return call
    for k, ((kind, w), o) in enumerate(zip(evs, outs)):
        m = ASQ_RE.match(o)
        if not m:
            return None
        tx, h, a, ss, wt = m.groups()
        where = "event %d (%s): " % (k + 1, kind)
        try:
            ents = asq_entries(a)
            sess = dict((int(x.split(":")[0]), int(x.split(":")[1])) for x in ss.split("/")) if ss != "-" else {}
        except ValueError:
            return ("spec", where + "unreadable state " + short(o))
        calls = [] if h == "-" else h.split("/")
        if kind == "io":
            now += int(w[0])
        if kind == "dr":
            if int(w[0]) < len(cur):
                del cur[int(w[0])]
            if calls or tx != "-":
                return ("spec", where + "coap_delete_resource made the server act: " + short(o))
        if any(orig(c_.rpartition(">")[2]).startswith("R?:") for c_ in calls):
            return ("spec", where + "a handler of a resource that is not in the table ran: " + h)
        # at most one entry per (session, token)
        keys = [(e["peer"], e["tok"]) for e in ents]
        if len(set(keys)) != len(keys) or len(set(e["id"] for e in ents)) != len(ents):
            return ("spec", where + "two entries for one (session, token): " + a)
        # one session reference per entry, entries only of live sessions
        for e in ents:
            if e["peer"] not in sess:
                return ("spec", where + "entry %d refers to a session that is gone: a=%s s=%s" % (e["id"], a, ss))
        for p_, r_ in sess.items():
            if r_ != sum(1 for e in ents if e["peer"] == p_):
                return ("spec", where + "session %d holds %d references for %d entries: a=%s s=%s" % (
                    p_, r_, sum(1 for e in ents if e["peer"] == p_), a, ss))
        # delayed invocations
        due = [e for e in prev if e["delay"] != 0 and e["delay"] <= now] if kind in ("rx", "io") else []
        dueids = [e["id"] for e in due]
        seen = []
        for c in calls:
            if not c.startswith("re"):
                continue
            rid, call = c[2:].split(">", 1)
            rid = int(rid)
            call = orig(call)
            e = next((x for x in prev if x["id"] == rid), None)
            if e is None or rid in fired:
                return ("spec", where + "entry %d handed to the application although it is not registered (any more)" % rid)
            if rid not in dueids:
                return ("spec", where + "entry %d handed to the application at %d, its time is %d" % (rid, now, e["delay"]))
            if rid in seen:
                return ("spec", where + "entry %d handed to the application twice" % rid)
            seen.append(rid)
            f = call.split(":")
            if len(f) != 6 or (f[1], f[4], f[5]) != (e["code"], e["opts"], e["pl"]):
                return ("spec", where + "entry %d: the application is handed %s, the stored request is %s" % (rid, call, e["raw"]))
            if rid in regcall and regcall[rid] != call:
                gone = regcall[rid][:1] == "R" and int(regcall[rid].split(":")[0][1:]) not in cur
                # the resource was deleted in between: only the unknown-resource handler may get the stored request
                if not (gone and call.startswith("unk:") and call.split(":")[1:] == regcall[rid].split(":")[1:]):
                    return ("spec", where + "entry %d: deferred by %s, handed over again as %s" % (rid, regcall[rid], call))
        for e in due:
            # whatever answers a deferred request is a separate response (RFC 7252 5.2.2): never an ACK — its message id
            # is the stored copy's, which acknowledges nothing the client sent
            for t_ in ([] if tx == "-" else tx.split("/")):
                f = t_.split(":")
                if len(f) == 6 and f[0] == "A" and f[1] != "0" and f[2] == str(e["mid"]) and f[3] == e["tok"]:
                    return ("spec", where + "entry %d answered by an ACK with the copy's message id %d: %s" % (e["id"], e["mid"], t_))
        for rid in dueids:
            if rid not in seen and rid in regcall and regcall[rid][:1] == "R" and int(regcall[rid].split(":")[0][1:]) not in cur:
                # its resource was deleted in between and no unknown-resource handler took it: answered by the library
                if any(e["id"] == rid for e in ents):
                    return ("spec", where + "entry %d is still registered after its time" % rid)
                fired.add(rid)
                continue
            if rid not in seen:
                return ("spec", where + "entry %d is due (time %d, now %d) and was not handed to the application" % (
                    rid, next(x["delay"] for x in prev if x["id"] == rid), now))
            if any(e["id"] == rid for e in ents):
                return ("spec", where + "entry %d is still registered after its delayed invocation" % rid)
            fired.add(rid)
        # a retransmission of a deferred request
        if kind == "rx":
            dg = bytes.fromhex(w[3]) if w[3] != "-" else b""
            key = (int(w[0]), dg[:2] + dg[4:])
            live = [i_ for i_, kk in regdg.items() if kk == key and any(e["id"] == i_ for e in prev) and i_ not in dueids]
            if live and len(dg) >= 4:
                want = "A:0:%d:-:-:-" % (dg[2] << 8 | dg[3]) if (dg[0] >> 4 & 3) == 0 else "-"
                own = [c for c in calls if not c.startswith("re")]
                if own or (not dueids and (a != prevraw or tx != want)) or (dueids and want != "-" and not tx.startswith(want)):
                    return ("spec", where + "retransmission of the deferred request %d: %s (expected %s, no handler, no change)" % (
                        live[0], short(o), want))
            new = [e for e in ents if not any(x["id"] == e["id"] for x in prev)]
            if len(new) > 1:
                return ("spec", where + "more than one new entry: " + a)
            for e in new:
                own = [c for c in calls if not c.startswith("re")]
                if len(own) != 1 or w[1] == "r":
                    return ("spec", where + "entry %d registered without a deferring handler call: %s" % (e["id"], short(o)))
                regcall[e["id"]] = orig(own[0])
                regdg[e["id"]] = key
        elif any(not any(x["id"] == e["id"] for x in prev) for e in ents):
            return ("spec", where + "an entry appeared without a request: " + a)
        # the reported wait
        if kind in ("rx", "io"):
            if not wt.isdigit():
                return ("spec", where + "no wait reported")
            pend = [e["delay"] - now for e in ents if e["delay"] != 0]
            if any(d <= 0 for d in pend):
                return ("spec", where + "an entry that is due is still registered: " + a)
            if pend and not (0 < int(wt) <= min(pend)):
                return ("spec", where + "reported wait %s, earliest deadline in %d" % (wt, min(pend)))
        prev, prevraw = ents, a
    return None


def judge_async(ctx, c):
    i, m = c["impl"], c["model"]
    if m == "malformed":
        return None
    if i is not None and i.startswith("crash"):
        return ("spec", "implementation crashed: %s" % i[:200])
    if m is None or not (m.startswith("tx=") or m.startswith("oos")):
        return None if m == i else ("tie", "implementation %s but model M says %s" % (short(i), short(m)))
    ms, is_ = m.split(SEP), (i or "").split(SEP)
    # the property, read off the implementation's report up to the first event the model puts out of scope
    n_ok = ms.index("oos") if "oos" in ms else len(ms)
    if n_ok and len(is_) >= n_ok:
        v = judge_async_spec(c["input"], SEP.join(is_[:n_ok]))
        if v:
            return v
    if "oos" not in ms and len(is_) != len(ms):
        return ("tie", "implementation printed %d outcomes, the model %d" % (len(is_), len(ms)))
    for k, (ik, mk) in enumerate(zip(is_, ms)):
        if mk == "oos":
            break
        if norm_impl(ik, mk) != mk:
            return ("tie", "event %d of %d: implementation %s but model M says %s" % (k + 1, len(ms), short(ik), short(mk)))
    return None


# ---- block mode kept across requests on a session (op `srvb`): COAP_BLOCK_USE_LIBCOAP with / without COAP_BLOCK_SINGLE_BODY,
# ---- FETCH requests, COAP_RESOURCE_FLAGS_FORCE_SINGLE_BODY resources, short Block1 uploads after them
B_PATHS = [b"a", b"b", b"up", b"f", b"s/t"]
B_OK = [65, 68, 68, 68, 69, 67]


def b_simple(rng, res, unk, toks):
    """a request without Block1: any method, aimed at a handler most of the time; FETCH carries a Content-Format"""
    typ = 0 if rng.random() < 0.7 else 1
    if res and rng.random() < 0.85:
        p, mask, fl, ob = rng.choice(res)
        ms = [m for m in range(1, 8) if mask >> (m - 1) & 1] or [1]
        code = rng.choice(ms + ([5] if 5 in ms else []) * 3) if rng.random() < 0.9 else rng.randint(1, 7)
        segs = p.split(b"/")
    else:
        code = rng.choice([1, 2, 3, 4, 5, 6, 7])
        segs = [rng.choice([b"zz", b"nope"])]
    opts = [(11, x) for x in segs]
    if code == 5 and rng.random() < 0.93: opts.append((12, rng.choice([b"", b"\x32", b"\x3c"])))
    elif rng.random() < 0.1: opts.append((12, b"\x2a"))
    if rng.random() < 0.15: opts.append((15, rng.choice([b"x=1", b"k"])))
    if rng.random() < 0.04: opts.append((23, rng.choice([b"", b"\x02", b"\x10"])))
    if rng.random() < 0.05: opts.append((27, rng.choice([b"", b"\x02", b"\x07"])))       # Block1 NUM 0 without M: a single block
    if rng.random() < 0.03: opts.append((258, rng.choice([b"\x02", b"\x1a"])))
    opts.sort(key=lambda o: o[0])
    pl = b"" if rng.random() < 0.4 else G.rbytes(rng, rng.randint(1, 10))
    return G.encode("udp", typ, code, rng.randint(0, 0xFFFF), rng.choice(toks), opts, pl)


def b_block_val(num, m, szx):
    v = num << 4 | (8 if m else 0) | szx
    out = b""
    while v:
        out = bytes([v & 255]) + out; v >>= 8
    return out


def b_upload(rng, res, unk, toks):
    """the datagrams of one Block1 upload (2-4 blocks of 16/32/64 bytes): a list of (kind, datagram)"""
    typ = 0 if rng.random() < 0.8 else 1
    cands = [r for r in res if r[1] & (2 | 4 | 16 | 64)]
    if cands and rng.random() < 0.93:
        p, mask, fl, ob = rng.choice(cands)
        code = rng.choice([m for m in (2, 3, 3, 5, 7) if mask >> (m - 1) & 1])
        segs = p.split(b"/")
    elif unk and rng.random() < 0.5:
        code, segs = 3, [b"new"]
    else:
        p, mask, fl, ob = rng.choice(res)
        code, segs = rng.choice([2, 3, 5]), p.split(b"/")
    szx = rng.choice([0, 0, 1, 2])
    chunk = 16 << szx
    nblk = rng.choice([2, 2, 3, 3, 4])
    body = G.rbytes(rng, (nblk - 1) * chunk + rng.choice([chunk, rng.randint(1, chunk), rng.randint(1, chunk)]))
    cf = None
    if code == 5 or rng.random() < 0.3: cf = rng.choice([b"", b"\x2a", b"\x3c"])
    size1 = rng.random() < 0.2
    same_tok = rng.random() < 0.3
    tok = rng.choice(toks)
    mid = rng.randint(0, 0xFFFF)
    out = []
    for k in range(nblk):
        opts = [(11, x) for x in segs]
        c = cf
        if c is not None and k and rng.random() < 0.03: c = b"\x29"            # Content-Format changes in the middle
        if c is not None: opts.append((12, c))
        opts.append((27, b_block_val(k, k < nblk - 1, szx)))
        if size1 and k == 0: opts.append((60, len(body).to_bytes(2, "big").lstrip(b"\0")))
        opts.sort(key=lambda o: o[0])
        pl = body[k * chunk:(k + 1) * chunk]
        if rng.random() < 0.02 and k < nblk - 1: pl = pl[:-1]                  # undersized
        out.append(G.encode("udp", typ, code, (mid + k) & 0xFFFF, tok if same_tok else G.rbytes(rng, rng.choice([1, 2, 4])), opts, pl))
    c = rng.random()
    if c < 0.08 and nblk > 2: del out[rng.randrange(1, nblk - 1)]              # a block lost, the upload goes on
    elif c < 0.16: k = rng.randrange(len(out)); out.insert(k, out[k])          # a duplicate
    elif c < 0.22: k = rng.randrange(len(out) - 1); out[k], out[k + 1] = out[k + 1], out[k]   # reordered
    elif c < 0.27: out = out[:-1]                                              # abandoned
    return out


def gen_blockseq(rng):
    bm = rng.choice([3, 3, 3, 3, 3, 1, 1, 1, 0])
    n = rng.choice([1, 2, 2, 3])
    paths = rng.sample(B_PATHS, n)
    res = []
    for p in paths:
        mask = rng.choice([127, 127, 22, 6 | 16, 4, 1 | 4 | 16])
        fl = (0x200 if rng.random() < 0.3 else 0) | (8 if rng.random() < 0.1 else 0)
        res.append((p, mask, fl, int(rng.random() < 0.1)))
    unk = (rng.choice([4, 6, 127]), 0) if rng.random() < 0.15 else None
    toks = [G.rbytes(rng, rng.choice([0, 1, 2, 4, 8])) for _ in range(3)]
    peers = rng.sample(range(16), rng.choice([1, 1, 2]))
    evs = []
    # what the change under test needs: something that forces COAP_BLOCK_SINGLE_BODY for one request (FETCH / a
    # force-single-body resource), then an upload on the same session — but every other order as well
    for _ in range(rng.choice([1, 2, 2, 3, 4])):
        if rng.random() < 0.5:
            evs.append([(rng.choice(peers), b_simple(rng, res, unk, toks))])
        else:
            peer = rng.choice(peers)
            evs.append([(peer, d) for d in b_upload(rng, res, unk, toks)])
    # interleave: mostly one after the other, sometimes a request in the middle of an upload
    flat = []
    for e in evs:
        if len(e) > 1 and flat and rng.random() < 0.3:
            k = rng.randrange(1, len(e))
            e = e[:k] + [(rng.choice(peers), b_simple(rng, res, unk, toks))] + e[k:]
        flat += e
    flat = flat[:14]
    steps = []
    for peer, dg in flat:
        v = "%d:%s" % (rng.choice(B_OK), hx(b"" if rng.random() < 0.5 else b"ok")) if rng.random() < 0.85 else gen_verdict(rng)
        if v.startswith("168:"): v = "68:-"
        steps.append("%d %s %s" % (peer, v, hx(dg)))
    return "srvb " + cfg_words((0, 8, []), (res, unk, None)) + " %d " % bm + " ".join(steps)


def b_steps(line):
    w = line.split()
    if len(w) < 11 or (len(w) - 8) % 3:
        return None
    return w[:8], [w[8 + 3 * j:11 + 3 * j] for j in range((len(w) - 8) // 3)]


B_RE = re.compile(r"^tx=(\S+) h=(\S+) bm=(\d+)$")
B_PLAIN_OPTS = {11, 12, 15, 27, 60}


def judge_block_spec(line, impl):
    """the property read off the implementation's own report, independently of M: every datagram makes at most one
    handler call; a request that the table maps to a handler (plain options only) and that is NOT part of a block-wise
    body in single-body mode reaches that handler with exactly its payload (per-block mode: with the block's place in
    the body); in single-body mode (context configured COAP_BLOCK_SINGLE_BODY, or a FETCH, or a force-single-body
    resource) a clean in-order Block1 upload on a session with no transfer pending for the resource reaches the handler
    exactly once, at its last block, with the concatenation of the blocks — whatever requests preceded it"""
    st = b_steps(line)
    if st is None:
        return None
    head, steps = st
    try:
        bm = int(head[7])
    except ValueError:
        return None
    res = []
    if head[6] != "-":
        for r in head[6].split(";"):
            f = r.split(":")
            res.append((bytes.fromhex(f[0]) if f[0] != "-" else b"", int(f[1]), int(f[2]) & ~1, int(f[3])))
    outs = impl.split(SEP)
    pending = {}        # (peer, resource index) -> clean upload in progress: dict(next, szx, code, cf, body)
    dirty = set()       # (peer, resource index): something irregular happened, no longer judged
    for k, (stp, o) in enumerate(zip(steps, outs)):
        where = "datagram %d of %d: " % (k + 1, len(steps))
        m = B_RE.match(o)
        if not m:
            return None
        tx, h, _ = m.groups()
        calls = [] if h == "-" else h.split("/")
        if len(calls) > 1:
            return ("spec", where + "more than one handler call: " + h)
        try:
            peer = int(stp[0])
            typ, code, mid, tok, opts, pl = parse_udp(bytes.fromhex(stp[2]))
        except Exception:
            continue
        if (bm & 1) == 0 and bm:
            continue
        nums = [n_ for n_, _ in opts]
        path = b"/".join(v for n_, v in opts if n_ == 11)
        ri = next((i for i, r in enumerate(res) if r[0] == path), None)
        plain = (typ in (0, 1) and 1 <= code <= 7 and len(tok) <= 8 and set(nums) <= B_PLAIN_OPTS and len(set(nums) - {11, 15}) ==
                 len([n_ for n_ in nums if n_ not in (11, 15)]) and all(b"%" not in v and v for n_, v in opts if n_ in (11, 15)))
        if ri is None or not plain:
            if ri is not None: dirty.add((peer, ri))
            continue
        key = (peer, ri)
        r = res[ri]
        reaches = (r[1] >> (code - 1) & 1) and not (r[2] & 0x400) and (code != 5 or 12 in nums)
        if not reaches:
            if 27 in nums: dirty.add(key)
            continue
        b1 = next((v for n_, v in opts if n_ == 27), None)
        num = mbit = szx = 0
        if b1 is not None:
            if len(b1) > 3:
                dirty.add(key); continue
            v = int.from_bytes(b1, "big")
            num, mbit, szx = v >> 4, v >> 3 & 1, v & 7
            if szx == 7:
                b1 = None
        blockwise = b1 is not None and (num, mbit) != (0, 0)
        single = bool(bm & 1) and (bool(bm & 2) or code == 5 or bool(r[2] & 0x200))
        cf = next((v for n_, v in opts if n_ == 12), None)
        want_name = "r%d" % ri

        def call_ok(data, off, tot):
            if len(calls) != 1:
                return "no handler call"
            f = calls[0].split(":")
            if len(f) != 8 or f[0] != want_name or f[1] != str(code):
                return "handler call " + calls[0]
            if (f[5], f[6], f[7]) != (hx(data), str(off), str(tot)):
                return "the handler was given data=%s offset=%s total=%s, the request's body is %s (offset %d, total %d)" % (
                    f[5][:80], f[6], f[7], hx(data)[:80], off, tot)
            return None
        if not blockwise:
            if key in pending:
                # a plain request in the middle of an upload does not disturb it
                pass
            why = call_ok(pl, 0, len(pl))
            if why:
                return ("spec", where + "request for %s (method %d, not block-wise): %s — expected exactly the handler r%d with "
                        "the request's payload" % (path.decode("latin1"), code, why, ri))
            continue
        if bm == 0:
            why = call_ok(pl, 0, len(pl))
            if why:
                return ("spec", where + "block mode 0, the application handles blocks: " + why)
            continue
        chunk = 16 << szx
        if 60 in nums or (mbit and len(pl) != chunk) or (not mbit and not (1 <= len(pl) <= chunk)) or key in dirty:
            dirty.add(key); pending.pop(key, None)
            continue
        if not single:
            # per-block mode: every block is handed to the handler with its place in the body
            why = call_ok(pl, num * chunk, num * chunk + len(pl) + mbit)
            if why:
                return ("spec", where + "Block1 NUM %d of a body for %s in per-block mode (block mode %d): %s" % (
                    num, path.decode("latin1"), bm, why))
            continue
        p_ = pending.get(key)
        if p_ is None:
            if num != 0:
                dirty.add(key); continue
            p_ = pending[key] = {"next": 0, "szx": szx, "code": code, "cf": cf, "body": b""}
        if (num, szx, code, cf) != (p_["next"], p_["szx"], p_["code"], p_["cf"]):
            dirty.add(key); pending.pop(key, None)
            continue
        p_["body"] += pl
        p_["next"] += 1
        if mbit:
            if calls:
                return ("spec", where + "Block1 NUM %d (More) of a body for %s in single-body mode (block mode %d%s): the handler "
                        "ran with a fragment (%s) — expected one call with the whole body after the last block" % (
                            num, path.decode("latin1"), bm, ", FETCH" if code == 5 else ", force-single-body resource" if r[2] & 0x200 else "",
                            calls[0][:120]))
            continue
        body = p_["body"]
        pending.pop(key, None)
        why = call_ok(body, 0, len(body))
        if why:
            return ("spec", where + "last block (NUM %d) of a %d-byte body for %s in single-body mode (block mode %d): %s" % (
                num, len(body), path.decode("latin1"), bm, why))
    return None


def b_match(i, m):
    """I = M up to the diagnostic payload of a 4.08 generated by coap_handle_request_put_block (`*` in M)"""
    if i == m:
        return True
    mi, mm = B_RE.match(i or ""), B_RE.match(m or "")
    if not mi or not mm or mi.group(2) != mm.group(2) or mi.group(3) != mm.group(3):
        return False
    a, b = mi.group(1).split("/"), mm.group(1).split("/")
    if len(a) != len(b):
        return False
    for x, y in zip(a, b):
        fx, fy = x.split(":"), y.split(":")
        if len(fx) != len(fy) or any(p != q and q != "*" for p, q in zip(fx, fy)):
            return False
    return True


def judge_block(ctx, c):
    i, m = c["impl"], c["model"]
    if m == "malformed":
        return None
    if i is not None and i.startswith("crash"):
        return ("spec", "implementation crashed: %s" % i[:200])
    if m is None or not (m.startswith("tx=") or m.startswith("oos")):
        return None if m == i else ("tie", "implementation %s but model M says %s" % (short(i), short(m)))
    ms, is_ = m.split(SEP), (i or "").split(SEP)
    n_ok = ms.index("oos") if "oos" in ms else len(ms)
    if n_ok and len(is_) >= n_ok:
        hd, steps = b_steps(c["input"]) or (None, None)
        if steps:
            v = judge_block_spec(" ".join(hd + [x for s_ in steps[:n_ok] for x in s_]), SEP.join(is_[:n_ok]))
            if v:
                return v
    if "oos" not in ms and len(is_) != len(ms):
        return ("tie", "implementation printed %d outcomes, the model %d" % (len(is_), len(ms)))
    for k, (ik, mk) in enumerate(zip(is_, ms)):
        if mk == "oos":
            break
        if not b_match(ik, mk):
            return ("tie", "datagram %d of %d: implementation %s but model M says %s" % (k + 1, len(ms), short(ik), short(mk)))
    return None


def gen_mcast_case(rng):
    """per-resource multicast configuration (coap_mcast_per_resource): a multicast request that reaches a handler of a
    resource with some combination of the multicast flags, handler verdicts of every class, with/without No-Response"""
    res, unk, prx = gen_table(rng)
    path = rng.choice(PATH_POOL[:3] + [rpath(rng)])
    res = [r for r in res if r[0] != path][:2]
    flags = 0
    for b, pr in ((8, 0.85), (16, 0.4), (32, 0.4), (64, 0.3), (128, 0.5), (256, 0.5)):
        if rng.random() < pr: flags |= b
    mask = rmask(rng) | 1
    res.insert(rng.randrange(len(res) + 1), (path, mask, flags, int(rng.random() < 0.2)))
    code = rng.choice([m for m in range(1, 8) if mask >> (m - 1) & 1])
    opts = [(11, unpct(x)) for x in path.split(b"/")] if path else []
    if code == 5 or rng.random() < 0.2: opts.append((12, b""))
    if rng.random() < 0.25: opts.append((258, rng.choice([b"", b"\x02", b"\x08", b"\x10", b"\x1a", b"\x18", b"\x0a", b"\x00"])))
    if rng.random() < 0.1: opts.append((15, rseg(rng)))
    opts.sort(key=lambda o: o[0])
    typ = 1 if rng.random() < 0.9 else 0
    vc = rng.choice([69, 69, 65, 68, 67, 128, 132, 133, 143, 160, 161, 163, 165, 0])
    verdict = "%d:%s" % (vc, hx(b"" if rng.random() < 0.4 else b"hi"))
    mpr = int(rng.random() < 0.85)
    dst = "m" if rng.random() < 0.9 else "u"
    tok = G.rbytes(rng, rng.randint(0, 8))
    return make_line((mpr, 8, []), (res, unk, prx), verdict, "-", dst,
                     G.encode("udp", typ, code, rng.randint(0, 0xFFFF), tok, opts, b"" if rng.random() < 0.6 else b"p"))


def generate(ctx, escalate=False):
    n = 400000 if ctx.thorough() else 40000
    if escalate:
        n *= 2
    out = [gen_case(ctx.rng) if ctx.rng.random() < 0.92 else gen_mcast_case(ctx.rng) for _ in range(n)]
    out += [gen_seq(ctx.rng) for _ in range(n // 4)]
    out += [gen_async(ctx.rng) for _ in range(n // 5)]
    out += [gen_blockseq(ctx.rng) for _ in range(n // 5)]
    return out


# --------------------------------------------------------------------------------------------- verdict
WK_RE = re.compile(r"(:12=28:)(?:[0-9a-f]+|-)")


def norm_impl(i, ref):
    """the listing of /.well-known/core is C20's subject: opaque here (only where the reference says it is the listing)"""
    if i and ref and "<wk>" in ref:
        return WK_RE.sub(r"\1<wk>", i)
    return i


def matches_spec(i, s):
    """S prints `*` for the options / diagnostic payload of library-generated replies (SPEC DECISION D4): anything matches there"""
    if i is None or s is None or not i.startswith("tx=") or not s.startswith("tx="):
        return i == s
    (itx, ih), (stx, sh) = i.split(" h=", 1), s.split(" h=", 1)
    if ih != sh:
        return False
    ir, sr = itx[3:].split("/"), stx[3:].split("/")
    if len(ir) != len(sr):
        return False
    for a, b in zip(ir, sr):
        fa, fb = a.split(":"), b.split(":")
        if len(fa) != len(fb) or any(x != y and y != "*" for x, y in zip(fa, fb)):
            return False
    return True


SEP = " ;; "


def judge(ctx, c):
    if c["input"].startswith("srvq "):
        return judge_seq(ctx, c)
    if c["input"].startswith("asq "):
        return judge_async(ctx, c)
    if c["input"].startswith("srvb "):
        return judge_block(ctx, c)
    return judge_one(c["impl"], c["model"], c["spec"])


def judge_seq(ctx, c):
    """every datagram of the sequence is judged like a single one; nothing after a datagram the model puts out of scope"""
    i, m, s = c["impl"], c["model"], c["spec"]
    if m == "malformed":
        return None
    if m is None or not m.startswith("tx=") and not m.startswith("oos"):
        return None if m == i else ("tie", "implementation %s but model M says %s" % (short(i), short(m)))
    if i is not None and i.startswith("crash"):
        return ("spec", "implementation crashed: %s" % i[:200])
    ms, ss, is_ = m.split(SEP), (s.split(SEP) if s is not None else None), (i or "").split(SEP)
    if len(is_) != len(ms):
        return ("tie", "implementation printed %d outcomes, the model %d" % (len(is_), len(ms)))
    tie = None
    for k, (ik, mk) in enumerate(zip(is_, ms)):
        sk = ss[k] if ss else None
        if sk == "oos" or (mk == "oos" and sk is None):
            break
        if mk == "oos":
            v = judge_one(ik, mk, sk)
            if v:
                return ("spec", "datagram %d of %d: %s" % (k + 1, len(ms), v[1]))
            break
        v = judge_one(ik, mk, sk)
        if v and v[0] == "spec":
            return ("spec", "datagram %d of %d: %s" % (k + 1, len(ms), v[1]))
        if v and not tie:
            tie = ("tie", "datagram %d of %d: %s" % (k + 1, len(ms), v[1]))
            break                                      # from here on the histories may differ
    return tie


def judge_one(i, m, s):
    if m == "malformed" or s == "oos" or (m == "oos" and s is None):
        return None
    if m == "oos":
        # M puts the datagram out of its scope (e.g. a table regenerated from the code now accepts an option) while the
        # specification still prescribes an outcome: the implementation is judged against S alone
        if i is not None and i.startswith("crash"):
            return ("spec", "implementation crashed: %s" % i[:200])
        si = norm_impl(i, s)
        return None if matches_spec(si, s) else ("spec", "implementation %s but the specification prescribes %s" % (short(si), short(s)))
    if i is not None and i.startswith("crash"):
        return ("spec", "implementation crashed: %s" % i[:200])
    if s is not None:
        si = norm_impl(i, s)
        if not matches_spec(si, s):
            return ("spec", "implementation %s but the specification prescribes %s" % (short(si), short(s)))
    if norm_impl(i, m) != m:
        return ("tie", "implementation %s but model M says %s" % (short(i), short(m)))
    return None


def short(s):
    return s if s is None or len(s) < 300 else s[:290] + "…"


def nontrivial(c):
    m = c["model"] or ""
    if c["input"].startswith("srvb "):
        return m.startswith("tx=") and " h=r" in m
    if c["input"].startswith("asq "):
        return " a=" in m and (" a=-" not in m.split(SEP)[0] or ">" in m or any(" a=-" not in x for x in m.split(SEP)))
    return m.startswith("tx=") and any(x != "tx=- h=-" for x in m.split(SEP))


def classify(c):
    m = c["model"] or ""
    if not m.startswith("tx="):
        return m[:10]
    if c["input"].startswith("asq "):
        ms = m.split(SEP)
        return "asq|%s%s%s" % ("fired" if any("h=re" in x or "/re" in x for x in ms) else "nofire",
                                "|ackagain" if any(x.startswith("tx=A:0:") and " h=- " in x for x in ms[1:]) else "",
                                "|oos" if "oos" in ms else "")
    if c["input"].startswith("srvb "):
        ms = m.split(SEP)
        w = c["input"].split()
        return "blk|bm%s|%s%s%s" % (w[7] if len(w) > 7 else "?", "cont" if any(":95:" in x and " h=- " in x for x in ms) else "nocont",
                                   "|body" if any(" h=r" in x and x.split(" bm=")[0].rsplit(":", 2)[-2] == "0" and ":95:" not in x
                                                  for x in ms[1:]) else "", "|oos" if "oos" in ms else "")
    if c["input"].startswith("srvq "):
        ms = m.split(SEP)
        return "seq%d|%s" % (len(ms), classify({"input": "srv", "model": ms[-1]}))
    tx, h = m.split(" h=", 1)
    rs = tx[3:].split("/")
    codes = "+".join(r.split(":")[0] + r.split(":")[1] if r != "-" else "none" for r in rs)
    return codes + ("|h" if h != "-" else "")


def known(ctx, c):
    return None


def search(ctx, tie_breaks, proof):
    """correspondence or proof broken without a contradiction yet: the neighbourhood of every disagreeing line (other request
    types, the same request to unicast / multicast, other handler verdicts, every No-Response value) and a fresh batch"""
    rng = ctx.rng
    out = []
    for c in tie_breaks[:40]:
        w = c["input"].split()
        if len(w) != 11 or w[0] != "srv":
            continue
        dg = bytes.fromhex(w[10]) if w[10] != "-" else b""
        for typ in range(4):
            for dst in "um":
                for v in (w[7], "0:-", "69:6869", "132:-", "160:78", "40:-"):
                    if len(dg) >= 4:
                        d2 = bytes([dg[0] & 0xCF | typ << 4]) + dg[1:]
                        out.append(" ".join(w[:7] + [v, w[8], dst, hx(d2)]))
        for code in (1, 2, 3, 4, 5, 6, 7, 9, 33, 200):
            if len(dg) >= 4:
                out.append(" ".join(w[:10] + [hx(dg[:1] + bytes([code]) + dg[2:])]))
    out += [gen_case(rng) for _ in range(40000)]
    out += [gen_seq(rng) for _ in range(10000)]
    out += [gen_blockseq(rng) for _ in range(8000)]
    return out


def shrink(ctx, case):
    """drop options / resources / payload of the failing line while the implementation still contradicts the specification"""
    from vlib.runner import diff_side
    import props.C10 as me
    best = case
    if case["input"].startswith("asq "):
        return shrink_async(ctx, case)
    if case["input"].startswith("srvq "):
        return shrink_seq(ctx, case)
    if case["input"].startswith("srvb "):
        return shrink_block(ctx, case)
    for _ in range(4):
        w = best["input"].split()
        cands = []
        # fewer resources
        if w[6] != "-":
            rs = w[6].split(";")
            for i in range(len(rs)):
                cands.append(" ".join(w[:6] + [";".join(rs[:i] + rs[i + 1:]) or "-"] + w[7:]))
        for k in (3, 4, 5):
            if w[k] != "-":
                cands.append(" ".join(w[:k] + ["-"] + w[k + 1:]))
        # fewer bytes of the datagram: drop whole options / the payload (re-encode from the parsed form)
        try:
            dg = bytes.fromhex(w[10])
            typ, code, mid, tok, opts, pl = parse_udp(dg)
            for i in range(len(opts)):
                o2 = opts[:i] + opts[i + 1:]
                puw = w[8] if any(n == 35 for n, _ in o2) else "-"
                cands.append(" ".join(w[:8] + [puw, w[9], hx(G.encode("udp", typ, code, mid, tok, o2, pl))]))
            if pl:
                cands.append(" ".join(w[:10] + [hx(G.encode("udp", typ, code, mid, tok, opts, b""))]))
            if tok:
                cands.append(" ".join(w[:10] + [hx(G.encode("udp", typ, code, mid, b"", opts, pl))]))
        except Exception:
            pass
        found = None
        for cc in diff_side(ctx, me, cands[:300]):
            v = judge(ctx, cc)
            if v and v[0] == "spec" and len(cc["input"]) < len(best["input"]):
                cc["why"] = v[1]
                found = cc
                break
        if not found:
            break
        best = found
    return best


def shrink_seq(ctx, case):
    """drop earlier datagrams / resources / options of the datagrams while the implementation still contradicts S"""
    from vlib.runner import diff_side
    import props.C10 as me
    best = case
    for _ in range(6):
        w = best["input"].split()
        head, steps = w[:7], [w[7 + 5 * j:12 + 5 * j] for j in range((len(w) - 7) // 5)]
        cands = []
        join = lambda h, st: " ".join(h + [x for s_ in st for x in s_])
        for j in range(len(steps) - 1):
            cands.append(join(head, steps[:j] + steps[j + 1:]))
        if len(steps) > 1:
            cands.append(join(head, steps[:-1]))
        if head[6] != "-":
            rs = head[6].split(";")
            for i in range(len(rs)):
                cands.append(join(head[:6] + [";".join(rs[:i] + rs[i + 1:]) or "-"], steps))
        for k in (3, 4, 5):
            if head[k] != "-":
                cands.append(join(head[:k] + ["-"] + head[k + 1:], steps))
        for j, st in enumerate(steps):
            try:
                typ, code, mid, tok, opts, pl = parse_udp(bytes.fromhex(st[4]))
            except Exception:
                continue
            for i in range(len(opts)):
                o2 = opts[:i] + opts[i + 1:]
                puw = st[2] if any(n == 35 for n, _ in o2) else "-"
                cands.append(join(head, steps[:j] + [[st[0], st[1], puw, st[3], hx(G.encode("udp", typ, code, mid, tok, o2, pl))]] + steps[j + 1:]))
            if pl:
                cands.append(join(head, steps[:j] + [st[:4] + [hx(G.encode("udp", typ, code, mid, tok, opts, b""))]] + steps[j + 1:]))
        found = None
        for cc in diff_side(ctx, me, cands[:300]):
            v = judge(ctx, cc)
            if v and v[0] == "spec" and len(cc["input"]) < len(best["input"]):
                cc["why"] = v[1]
                found = cc
                break
        if not found:
            break
        best = found
    return best


def shrink_block(ctx, case):
    """drop datagrams / resources of a `srvb` line while the implementation still contradicts the property"""
    from vlib.runner import diff_side
    import props.C10 as me
    best = case
    for _ in range(10):
        st = b_steps(best["input"])
        if not st:
            break
        head, steps = st
        join = lambda h, ss: " ".join(h + [x for s_ in ss for x in s_])
        cands = [join(head, steps[:j] + steps[j + 1:]) for j in range(len(steps)) if len(steps) > 1]
        if head[6] != "-":
            rs = head[6].split(";")
            for i in range(len(rs)):
                cands.append(join(head[:6] + [";".join(rs[:i] + rs[i + 1:]) or "-"] + head[7:], steps))
        if head[4] != "-":
            cands.append(join(head[:4] + ["-"] + head[5:], steps))
        for j, stp in enumerate(steps):
            if stp[1] != "68:-":
                cands.append(join(head, steps[:j] + [[stp[0], "68:-", stp[2]]] + steps[j + 1:]))
        found = None
        for cc in diff_side(ctx, me, cands[:300]):
            v = judge(ctx, cc)
            if v and v[0] == "spec" and len(cc["input"]) < len(best["input"]):
                cc["why"] = v[1]
                found = cc
                break
        if not found:
            break
        best = found
    return best


def shrink_async(ctx, case):
    """drop events / resources of an `asq` line while the implementation still contradicts the property"""
    from vlib.runner import diff_side
    import props.C10 as me
    best = case
    for _ in range(8):
        w = best["input"].split()
        evs = asq_events(best["input"])
        if not evs:
            break
        head = w[:8]
        join = lambda h, es: " ".join(h + [x for k_, ws in es for x in [k_] + ws])
        cands = [join(head, evs[:j] + evs[j + 1:]) for j in range(len(evs)) if len(evs) > 1]
        if head[6] != "-":
            rs = head[6].split(";")
            for i in range(len(rs)):
                cands.append(join(head[:6] + [";".join(rs[:i] + rs[i + 1:]) or "-"] + head[7:], evs))
        if head[4] != "-":
            cands.append(join(head[:4] + ["-"] + head[5:], evs))
        for j, (k_, ws) in enumerate(evs):
            if k_ != "rx":
                continue
            try:
                typ, code, mid, tok, opts, pl = parse_udp(bytes.fromhex(ws[3]))
            except Exception:
                continue
            for i in range(len(opts)):
                d2 = hx(G.encode("udp", typ, code, mid, tok, opts[:i] + opts[i + 1:], pl))
                cands.append(join(head, evs[:j] + [(k_, ws[:3] + [d2])] + evs[j + 1:]))
            if pl:
                cands.append(join(head, evs[:j] + [(k_, ws[:3] + [hx(G.encode("udp", typ, code, mid, tok, opts, b""))])] + evs[j + 1:]))
        found = None
        for cc in diff_side(ctx, me, cands[:300]):
            v = judge(ctx, cc)
            if v and v[0] == "spec" and len(cc["input"]) < len(best["input"]):
                cc["why"] = v[1]
                found = cc
                break
        if not found:
            break
        best = found
    return best


def parse_udp(b):
    typ, tkl, code, mid = b[0] >> 4 & 3, b[0] & 15, b[1], b[2] << 8 | b[3]
    i = 4
    if tkl == 13: tl = b[i] + 13; i += 1
    elif tkl == 14: tl = (b[i] << 8 | b[i + 1]) + 269; i += 2
    else: tl = tkl
    tok = b[i:i + tl]; i += tl
    opts, num = [], 0
    while i < len(b) and b[i] != 0xFF:
        d, l = b[i] >> 4, b[i] & 15; i += 1
        if d == 13: d = b[i] + 13; i += 1
        elif d == 14: d = (b[i] << 8 | b[i + 1]) + 269; i += 2
        if l == 13: l = b[i] + 13; i += 1
        elif l == 14: l = (b[i] << 8 | b[i + 1]) + 269; i += 2
        num += d
        opts.append((num, b[i:i + l])); i += l
    pl = b[i + 1:] if i < len(b) else b""
    return typ, code, mid, tok, opts, pl


REQUIRED_THEOREMS = ["decision_eq_spec", "at_most_one_reply", "reply_echoes_token", "con_reply_acks_mid", "non_never_acked",
                     "unknown_critical_402_or_rst", "no_resource_404_or_202", "no_handler_405", "inm_existing_412",
                     "fetch_no_cf_415", "proxy_505", "hop_limit_508_400", "handler_runs_once_with_request_view",
                     "no_response_suppression", "multicast_suppression", "request_view_is_request", "handler_only_when_registered",
                     "critical_table_matches_rfc", "repeatable_table_matches_rfc", "code_class_table_matches_rfc",
                     "escape_tables_legal", "escape_restrict_id", "restricted_tables_legal", "constructor_presets_match_api",
                     "handlers_as_registered", "impl_table_eq", "decisionA_eq_specA", "nothing_found_is_fresh", "sequence_eq_spec",
                     "pending_of_others_irrelevant", "deferred_retransmission_acked", "history_changes_only_by_ack_again",
                     "reply_shape_any_history", "async_fires_exactly_the_due", "async_fired_were_registered",
                     "async_wait_le_earliest_deadline", "async_one_entry_per_session_token",
                     "async_retransmission_no_second_entry", "async_retransmission_acked_only",
                     "async_refs_balanced", "async_no_entry_of_freed_session", "async_pending_session_not_reclaimed",
                     "async_balance_inductive", "async_second_pass_same_handler",
                     "async_second_pass_handler_of_current_table", "async_deleted_resource_handler_never_runs",
                     "async_registered_entry_second_pass", "async_wait_of_untriggered_entry_witness",
                     "async_second_pass_error_is_separate_response", "async_changing_table",
                     "block_mode_restored", "block_mode_reported_is_configured", "block_mode_unchanged_by_request",
                     "block_mode_zero_is_plain", "single_body_fragment_never_reaches_handler",
                     "single_body_fragment_never_reaches_handler_any_state"]
RULE = ("one line = one fresh server context + one request datagram: resource tables (0-4 ordinary resources from a pool of paths incl. "
        "'', '.well-known/core', percent-escaped and empty segments; per-method handler masks; observable; all multicast flag "
        "combinations; OSCORE-only; unknown-resource handler with/without HANDLE_WELLKNOWN_CORE; proxy resource with host name), "
        "context (mcast_per_resource, max token size 8/12/16, registered option numbers) x requests (type CON/NON/ACK/RST, codes "
        "0.01-0.31 and invalid classes 1.xx/6.xx/7.xx, token 0-20 bytes, every known option with legal values, unknown "
        "critical/elective/unsafe options, illegal repetitions, Uri-Path hitting/missing the table, Hop-Limit, Block2, Observe, "
        "Proxy-Uri/Proxy-Scheme, No-Response values) x scripted handler verdict (any code incl. none and invalid classes, payload) "
        "x unicast/multicast destination; Uri-Path segments / Uri-Query values and registered paths over every byte value 0x00-0xff; "
        "8% of the lines aim at the per-resource multicast rules (multicast request reaching a handler, every flag combination, "
        "verdicts of every class); + n/4 `srvq` lines = one server context and 2-5 datagrams from up to 3 of 16 peers, tokens and "
        "message ids from small per-line pools (same / other peer with the same token, prefix tokens, empty token), earlier "
        "datagrams mostly deferred by their handler (coap_register_async), proxied Confirmable duplicates; every datagram's "
        "transmissions (and their destination) and handler call compared; "
        "+ n/5 `asq` lines = one server context, 3-11 events: request datagrams from up to 3 peers whose handler defers "
        "(coap_register_async with delay 0/1/10/100/500/1000/2500 ticks) or answers, retransmissions (same bytes, fresh "
        "message id, other peer), virtual time steps 0-5000 ticks, coap_async_trigger / coap_async_set_delay / "
        "coap_free_async on the k-th entry, coap_delete_resource on the k-th resource (between the two passes of a deferred "
        "request), session idle timeout 1-3 s, Hop-Limit and No-Response options; "
        "+ n/5 `srvb` lines = one server context with block mode 0 / USE_LIBCOAP / USE_LIBCOAP|SINGLE_BODY, 1-3 resources "
        "(30% COAP_RESOURCE_FLAGS_FORCE_SINGLE_BODY), 1-2 peers, 1-14 datagrams: plain requests of every method (FETCH "
        "favoured), Block1 uploads of 2-4 blocks of 16/32/64 bytes (PUT/POST/FETCH/iPATCH; a block lost / duplicated / "
        "reordered / the upload abandoned / undersized block / Content-Format change / Size1), a plain request in the middle of "
        "an upload, handler verdicts of every class; per datagram the transmissions, the handler's coap_get_data_large view "
        "(data, offset, total) and session->block_mode afterwards are compared; "
        "non-trivial = distinct line on which the model prescribes a reply or a handler call")
TRUSTED_BASE = ["Lean 4.33 kernel; axioms allowed: propext, Classical.choice, Quot.sound (audited per theorem each run)",
                "T1 extractor extract/server.c (evaluation of coap_option_check_critical, coap_option_check_repeatable, "
                "coap_check_code_class, is_unescaped_in_path/_query, coap_response_phrase, coap_option_filter_set, handler[] after "
                "the three resource constructors) and its renderer",
                "harness/server.c on harness/sim_core.h (real coap_context_t, wrapped clock and datagram socket; transmitted datagrams "
                "decoded with libcoap's own parser, C03), the generator and the comparison in props/C10.py",
                "M (CoapVerif/Model/Server.lean) is a hand transcription of coap_dispatch (request path), handle_request, no_response, "
                "coap_new_error_response, check_token_size, coap_option_check_critical, coap_get_uri_path/_query, the async lookup "
                "(coap_find_async_lkd by session + token) and last_con_mid; Model/Async.lean of coap_async.c, coap_check_async, the "
                "async branch of handle_request and the idle-session reaper; Model/ServerBlock.lean of the block-mode stage of "
                "handle_request (save / force / restore, exits of coap_handle_request_put_block around C09's srcvStep); checked "
                "against the compiled code only on the cases run"]
ASSUMPTIONS = ["UDP endpoint of a fresh context per line: no OSCORE context, block mode 0 (application handles blocks; op srvb: also "
               "COAP_BLOCK_USE_LIBCOAP with / without COAP_BLOCK_SINGLE_BODY, COAP_BLOCK_MAX_SIZE bits 0), Q-Block not "
               "enabled, no Echo pending; earlier datagrams at the context (op srvq) are requests whose handler defers indefinitely "
               "(coap_register_async delay 0, never triggered) or answers directly; observers, caches and retransmission of separate "
               "responses are other properties' state (C11, C06/C08)",
               "option registrations fit the 6+2 slots of a coap_opt_filter_t (hypothesis `fits` of decision_eq_spec)",
               "coap_split_proxy_uri is an oracle (C16); the listing of /.well-known/core is opaque (C20)",
               "compiled Lean definitions agree with the kernel's reading of them"]
SPEC_DECISIONS = ["D1 precedence of simultaneous error conditions", "D2 recognised critical options; OSCORE / Q-Block not recognised here",
                  "D3 Safe-to-Forward unknown critical options tolerated in proxy requests", "D4 options and diagnostic payload of "
                  "library-generated replies are not constrained", "D5 Confirmable multicast request ignored after the option check",
                  "D6 multicast suppression", "D7 request view: Hop-Limit decremented, Block2 M bit cleared",
                  "D8 handler verdict 5.08 and proxy forwarding out of scope; proxy handler reply is Empty ACK + separate CON",
                  "D9 Empty / response codes out of scope (C07)", "D10 invalid response code class set by the handler: no reply",
                  "D11 a request of the same peer with the token of a request whose response is deferred is a retransmission: "
                  "Empty ACK again if Confirmable, no handler; other peers / tokens unaffected",
                  "D12 deduplication only where libcoap does it: a duplicate (peer, message id) of a Confirmable request handed to "
                  "the proxy handler is acknowledged again and not processed again",
                  "D13 a delayed invocation whose handler sets no response code is out of scope"]


# ---- T1Y: the numerals of this property's models are tied to the current tree.  extract/consts2*.c + a source scan
# rewrite lean/CoapVerif/Generated/Consts2.lean on every check; Props/C10Consts.lean proves `<model numeral / model
# function> = Generated.C2.<name>` (design/T1.md).  A changed macro / enum value / case label / literal breaks one of
# these named obligations.
LEAN_MODULES = list(LEAN_MODULES) + ["CoapVerif.Props.C10Consts"]
REQUIRED_THEOREMS = list(REQUIRED_THEOREMS) + [
    "resourceFlags_match_code",
    "messageTypes_match_code",
    "respType_matches_code",
    "filterGet_matches_code",
    "filterSlots_match_code",
    "hopBlock_matches_code",
    "pathBlock_matches_code",
    "selectStage_matches_code",
    "checkStage_matches_code",
    "obsStage_matches_code",
    "dispatch_numerals_match_code",
    "blockMode_matches_code",
    "tickModulus_matches_code",
    "delayOf_matches_code",
]
TRUSTED_BASE = list(TRUSTED_BASE) + ["T1 extractors extract/consts2.c, consts2_net.c, consts2_opt.c, consts2_res.c and the source scan vlib/tables.py scan_consts2 / scan_oscore_protect (Generated/Consts2.lean)"]
_t1x_prev_extract = globals().get("extract")


def extract(ctx):
    from vlib import tables
    return (_t1x_prev_extract(ctx) if _t1x_prev_extract else []) + tables.extract_consts2()
