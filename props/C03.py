"""C03 — decoder accepts exactly the well-formed messages (DESIGN.md §4 C03)."""
import json, os
from vlib import common as C, coapgen as G
from vlib.tables import render_optlen

MANIFEST = {
    "text": "Lean theorem parse_eq_spec: for every framing and every byte string the transcription M of coap_pdu_parse & callees accepts iff "
            "the RFC decoder S does, with equal decoded content; clause theorems (reserved nibbles, number > 65535, truncation, marker without "
            "payload, non-empty Empty, length table) about S; the accessor walk equals the decoder's view; the per-option length table is "
            "regenerated from the code and proved equal to the RFCs' table. M is tied to the compiled code by differential runs (I vs M vs S) "
            "on generated and field-mutated byte strings for all three framings; C03's TCP frames are also sent through the real stream reassembly "
            "(coap_read_session, whole and in random cuts) with C05's op, model, specification and judge (borrowed).",
    "note": "Trusted: Lean kernel (+ propext, Classical.choice, Quot.sound), the T1 extractor and T2 harness/generators, the hand "
            "transcription M (checked against the compiled code on the cases run only). TCP is judged per frame (SPEC DECISION D10).",
    "design_ref": "DESIGN.md §4 C03",
}
LEAN_MODULES = ["CoapVerif.Props.C03"]
NAMESPACE = "Coap.C03"
REQUIRED_THEOREMS = ["parse_eq_spec", "optLenTable_matches_rfc", "reserved_nibble_rejected",
                     "number_above_65535_rejected", "truncated_value_rejected", "marker_without_payload_rejected",
                     "nonempty_empty_rejected", "every_wellformed_accepted", "accessors_report_wire", "parse_never_oob",
                     "filter_op_refines", "filter_run_refines", "filtered_iteration_is_filter", "filtered_accessors_report_wire",
                     "check_option_is_first", "bset_laws"]
RULE = ("byte strings for udp/tcp/ws framing: valid encodings from an independent generator (token/option/payload "
        "length classes on both sides of 12/13, 268/269, 65804), 1-3 field-level mutations of them (nibbles, extension "
        "bytes, TKL, length prefix, marker, truncation), blind random bytes, the fixed corpus; non-trivial = distinct "
        "input on which the specification decoder or the implementation accepted, or which is a mutation of a valid encoding; + op optit (filter scripts, filtered iteration, "
        "coap_check_option over accepted datagrams and arbitrary option regions); + op tcp (borrowed from C05): streams of 1-3 of C03's TCP frames, whole and cut at 0-3 random places")
TRUSTED_BASE = ["Lean 4.33 kernel; axioms allowed: propext, Classical.choice, Quot.sound (audited per theorem each run)",
                "T1 extractor extract/optlen.c (evaluation of libcoap's static length-table functions) and its renderer",
                "harness/codec.c + generators + string comparison",
                "M (CoapVerif/Model/Parse.lean) is a hand transcription of coap_pdu_parse & callees; checked against the "
                "compiled code only on the cases run"]
ASSUMPTIONS = ["TCP: the unit judged is exactly one frame as cut by coap_read_session's framing arithmetic (SPEC DECISION D10)",
               "compiled Lean definitions agree with the kernel's reading of them"]
SPEC_DECISIONS = ["D1 unknown critical option in 7.01-7.05 rejected at parse time", "D3 type/mid are CON/0 on reliable transports",
                  "D10 TCP Len must match the frame", "D11 WS Len nibble ignored", "D12 TKL per RFC 8974"]


def extract(ctx):
    bdir = C.build_libcoap()
    from vlib.tables import run_extractor
    data = run_extractor("optlen", bdir)
    C.write_if_changed(os.path.join(C.LEAN, "CoapVerif", "Generated", "OptLen.lean"), render_optlen(data))
    return ["Generated.lenGroups (%d code groups, %d rows)" % (len(data["groups"]), sum(len(g["table"]["rows"]) for g in data["groups"]))]


def harness(ctx):
    return C.build_harness("codec", C.build_libcoap())


def hx(b):
    return b.hex() if b else "-"


def generate(ctx, escalate=False):
    rng = ctx.rng
    n = 400000 if ctx.thorough() else 40000
    if escalate:
        n *= 3
    out = []
    for i in range(n):
        proto = rng.choice(["udp", "udp", "tcp", "ws"])
        wire = {"udp": "dtls", "tcp": "tls", "ws": "wss"}[proto] if rng.random() < 0.15 else proto   # secured names: same framing (D17)
        c = rng.random()
        if c < 0.08:
            b = G.rbytes(rng, rng.choice([0, 1, 2, 3, 4, 5, 6, 8, 12, 20]))
        elif c < 0.13:
            b = G.edge_fields(rng, proto)
        else:
            big = ctx.thorough() and rng.random() < 0.02 or rng.random() < 0.002
            m = G.gen_msg(rng, big=big, valid_len=rng.random() < 0.8)
            b = G.encode(proto, *m)
            if c < 0.55:
                for _ in range(rng.choice([1, 1, 1, 2, 3])):
                    b = G.mutate(rng, b)
        out.append("parse %s %s" % (wire, hx(b)))
    out += gen_optit(ctx, n // 6)
    out += gen_stream_frames(ctx, n // 16)
    return out


# ---- the stream reassembly in front of the decoder (borrowed from C05: its op `tcp`, harness, model, specification and judge) ----
# C03 judges a TCP frame as cut by the framing arithmetic of coap_read_session (SPEC DECISION D10) - through a COPY of that arithmetic in
# harness/codec.c.  What coap_read_session itself hands to coap_pdu_parse_header / coap_pdu_parse_opt (header bytes, extended-token
# length bytes, the body) is C05's territory; three seeded changes there (C03-6, C03-8, C03-15) were silent in C03 and reported by C05.
# C03's own frames (its generator's field edge cases: extended tokens, option extensions, length prefixes) are therefore also sent
# through the real coap_read_session as whole streams and in random cuts, and judged by C05's judge (I vs S_stream, I vs M_stream).
def _p05():
    import props.C05 as P5
    return P5


HARNESS_FOR_OP = {"tcp": lambda ctx: _p05().harness(ctx)}


def gen_stream_frames(ctx, n):
    rng = ctx.rng
    out = []
    for i in range(n):
        msgs = []
        for _ in range(rng.choice([1, 1, 2, 3])):
            m = G.gen_msg(rng, big=False, valid_len=rng.random() < 0.85)
            if len(m[5]) > 600:
                m = m[:5] + (m[5][:600],)
            b = G.encode("tcp", *m)
            if rng.random() < 0.15:
                b = G.mutate(rng, b)
            msgs.append(b)
        stream = b"".join(msgs)
        ncut = rng.choice([0, 0, 1, 2, 3])
        cuts = sorted(set(rng.randrange(1, len(stream)) for _ in range(ncut))) if len(stream) > 1 else []
        out.append("tcp 0 %s %s" % (hx(stream), ",".join(str(c) for c in cuts) if cuts else "-"))
    return out


def gen_optit(ctx, n):
    """option filter scripts + filtered iteration + coap_check_option over accepted datagrams (udp: I vs M vs S) and over
    arbitrary option regions in an exact-size PDU buffer (raw: I vs M under ASan)"""
    rng = ctx.rng
    out = []
    for i in range(n):
        m = G.gen_msg(rng, big=False, valid_len=rng.random() < 0.85)
        nums = [o[0] for o in m[4]] if len(m) > 4 else []
        pool = nums + [0, 1, 255, 256, 257, 65535, 65534, 300, 2048] + [rng.randrange(0, 65536) for _ in range(3)]
        short = [x for x in pool if x < 256] + [rng.randrange(0, 256) for _ in range(8)]
        long_ = [x for x in pool if x > 255] + [rng.randrange(256, 65536) for _ in range(4)]
        sc = []
        k = rng.choice([0, 1, 1, 2, 3, 5, 8, 12, 20, 30])
        mode = rng.random()
        for _ in range(k):
            c = rng.random()
            src = short if mode < 0.45 else long_ if mode < 0.6 else pool      # fill one class beyond its capacity / mix
            prev = [t[1:] for t in sc if t != "c"]
            x = rng.choice(prev) if prev and c > 0.8 or prev and rng.random() < 0.3 else str(rng.choice(src))
            sc.append(("s" if c < 0.55 else "u" if c < 0.75 else "g" if c < 0.97 else "c") + (x if c < 0.97 else ""))
        script = ",".join(sc) if sc else "-"
        if rng.random() < 0.6:
            b = G.encode("udp", *m)
            if rng.random() < 0.25:
                b = G.mutate(rng, b)
            out.append("optit udp %s %s" % (hx(b), script))
        else:
            b = G.encode("udp", m[0], m[1], m[2], b"", m[4], m[5])[4:]
            c = rng.random()
            if c < 0.5:
                for _ in range(rng.choice([1, 1, 2, 3])):
                    b = G.mutate(rng, b)
            elif c < 0.6:
                b = G.rbytes(rng, rng.choice([0, 1, 2, 3, 5, 8, 13]))
            elif c < 0.7 and len(b) > 1:
                b = b[:rng.randrange(len(b))]
            out.append("optit raw %s %s" % (hx(b), script))
    return out


def judge(ctx, c):
    if c["input"].startswith("tcp "):
        return _p05().judge(ctx, c)
    i, m, s = c["impl"], c["model"], c["spec"]
    if c["input"].startswith("optit"):
        import re
        if s != "na" and re.sub(r" mask=\d+", "", i or "") != s:
            return ("spec", "filtered option access: implementation %s but the bounded-set / reference-decoding answer is %s" % (short(i), short(s)))
        if i != m:
            return ("tie", "filtered option access: implementation %s but model M says %s" % (short(i), short(m)))
        return None
    if i != s:
        return ("spec", "implementation %s but the reference decoding is %s" % (short(i), short(s)))
    if i != m:
        return ("tie", "implementation %s but model M says %s" % (short(i), short(m)))
    return None


def short(s):
    return s if s is None or len(s) < 160 else s[:150] + "…"


def nontrivial(c):
    if c["input"].startswith("tcp "):
        return _p05().nontrivial(c)
    if c["input"].startswith("optit"):
        return (c["impl"] or "").startswith("r=") and "it=- " not in (c["impl"] or "")
    return (c["spec"] or "").startswith("ok") or (c["impl"] or "").startswith("ok")


def classify(c):
    if c["input"].startswith("tcp "):
        return "stream-" + _p05().classify(c)
    if c["input"].startswith("optit"):
        i = c["impl"] or ""
        return "optit-" + c["input"].split()[1] + ":" + ("rej" if i == "rej" else "refused-set" if "0" in i.split(" ")[0].replace("g", "") and "s" in c["input"] else "ok")
    p = c["input"].split()[1]
    return p + ":" + ("accept" if (c["spec"] or "").startswith("ok") else "reject")


def search(ctx, tie_breaks, proof):
    """neighbourhood of the disagreeing strings + rows where the regenerated table differs from the RFC table"""
    rng = ctx.rng
    out = []
    for c in tie_breaks[:50]:
        if c["input"].startswith("tcp "):
            continue
        if c["input"].startswith("optit"):
            _, mode, h, sc = c["input"].split()
            b = bytes.fromhex(h) if h != "-" else b""
            for _ in range(100):
                out.append("optit %s %s %s" % (mode, hx(G.mutate(rng, b)), sc))
            continue
        _, proto, h = c["input"].split()
        b = bytes.fromhex(h) if h != "-" else b""
        for _ in range(200):
            out.append("parse %s %s" % (proto, hx(G.mutate(rng, b))))
    out += table_witnesses()
    return out


def table_witnesses():
    """turn every (code group, option number, boundary length) of the regenerated table and of the RFC table into a concrete message"""
    out = []
    try:
        data = json.load(open(os.path.join(C.build_libcoap(), "x_optlen.json")))
    except Exception:
        return out
    nums = set(G.LIMITS) | {2, 4, 6}
    lens = set()
    for g in data["groups"]:
        for num, ivs in g["table"]["rows"]:
            nums.add(num)
            for lo, hi in ivs:
                lens |= {max(0, lo - 1), lo, hi, hi + 1}
    for lo, hi in G.LIMITS.values():
        lens |= {max(0, lo - 1), lo, hi, hi + 1}
    lens = sorted(l for l in lens if l <= 65804)
    for g in data["groups"]:
        code = g["codes"][0][0]
        if code == 0:
            code = 1
        for num in sorted(nums):
            for l in lens:
                for proto in (["udp", "tcp"] if l < 1400 else ["tcp"]):
                    out.append("parse %s %s" % (proto, hx(G.encode(proto, 0, code, 1, b"", [(num, bytes(l))], b""))))
    return out


def shrink(ctx, case):
    """greedy byte deletion while the implementation still contradicts the specification"""
    if case["input"].startswith("optit") or case["input"].startswith("tcp "):
        return case
    _, proto, h = case["input"].split()
    b = bytes.fromhex(h) if h != "-" else b""
    from vlib.runner import diff_side
    import props.C03 as me
    best = case
    changed = True
    rounds = 0
    while changed and rounds < 6 and len(b) > 1:
        changed = False; rounds += 1
        cands = [b[:i] + b[i + 1:] for i in range(len(b))][:400]
        lines = ["parse %s %s" % (proto, hx(x)) for x in cands]
        for cc in diff_side(ctx, me, lines):
            v = judge(ctx, cc)
            if v and v[0] == "spec":
                cc["why"] = v[1]; best = cc
                hh = cc["input"].split()[2]
                b = bytes.fromhex(hh) if hh != "-" else b""
                changed = True
                break
    return best


def known(ctx, c):
    return None


# ---- T1X: the numerals of this property's models are tied to the current tree.  extract/consts2*.c + a source scan
# rewrite lean/CoapVerif/Generated/Consts2.lean on every check; Props/C03Consts.lean proves `<model numeral> =
# Generated.C2.<name>` (design/T1.md).  A changed macro / struct size / literal breaks one of these named obligations.
LEAN_MODULES = list(LEAN_MODULES) + ["CoapVerif.Props.C03Consts"]
REQUIRED_THEOREMS = list(REQUIRED_THEOREMS) + [
    "optFilter_slots_matches_code",
    "optFilter_capLong_matches_code",
    "optFilter_capShort_matches_code",
    "optFilter_longThreshold_matches_code",
    "optFilter_op_class_matches_code",
    "optFilter_mask_matches_code",
    "optFilter_payloadMarker_matches_code",
]
TRUSTED_BASE = list(TRUSTED_BASE) + ["T1 extractors extract/consts2.c, consts2_net.c, consts2_opt.c and the source scan vlib/tables.py scan_consts2 (Generated/Consts2.lean)"]
_t1x_prev_extract = globals().get("extract")


def extract(ctx):
    from vlib import tables
    return (_t1x_prev_extract(ctx) if _t1x_prev_extract else []) + tables.extract_consts2()
