"""C04 — in-place message edits change only what they name (DESIGN.md §4 C04).
Shares harness ops, line format and the judge's rules with C01 (props/C01.py)."""
import os
from vlib import common as C, coapgen as G
import props.C01 as B

# clean (exit 0, no KNOWN-FINDING) at seeds 1..5 on the tree with the Hop-Limit fix (branch ws-P04).
MANIFEST = {
    "text": 'Proved in Lean, for every abstract message the API can produce, every argument and every capacity (refusals included): coap_insert_option (append path, the middle path with all six next-option header rewrite cases, implicit Hop-Limit), coap_update_option (in-place replacement of the first match with any length change, else insertion), coap_remove_option (first match removed, following delta re-encoded in all six growth cases, or max_opt falling back) and coap_update_token (all three memmove directions) map the PDU representing an abstract (token, ordered option list, payload) message to the PDU representing the abstract edit of the specification; hence any sequence of such edits never leaves the buffer and ends on the PDU representing the same edits applied to the abstract model (edits_then_roundtrip), which serialises and decodes to exactly that model on udp/tcp/ws whenever it is well-formed — and it is well-formed whenever the start message was and every inserted/updated value respects the RFC length limit of its option (edits_then_roundtrip_wf: hypotheses on the inputs only); the PDU the parser leaves behind for a received message is such a representing PDU (parsed_start_is_refined); plus the frame theorems (an edit changes only the element it names, order kept). A refused edit leaves the PDU exactly as it was (the former open finding — a refused Proxy-Uri/Proxy-Scheme on a request left Hop-Limit=16 behind — is fixed in libcoap and M is transcribed from the fixed code). The model M is tied to the C code by differential runs (edit sequences up to 45 calls on parsed and built messages, thresholds 13/269 crossed in both directions, tight maximum sizes; I vs M vs S byte for byte, per-call digests).',
    "note": 'Same trusted base and fixes as C01; no open finding. The theorems are about the hand transcription M (Model/Build.lean); M = the compiled code is measured on the generated cases only. The RFC per-option length limits are a hypothesis on the values the caller passes (the API does not enforce them); on tcp the edited message must still fit the 32-bit extended length. M.ofParsed (what coap_pdu_parse leaves in the PDU) is tied to the code by the differential runs. Removal branches are exercised but not individually attributable from the harness output.',
    "design_ref": "design/C04.md, DESIGN.md §4 C04",
}

LEAN_MODULES = ["CoapVerif.Props.C04"]
NAMESPACE = "Coap.C04"
REQUIRED_THEOREMS = ["edit_frame", "edits_keep_order", "edit_sequence_keeps_order", "update_token_refines", "roundtrip_of_refined",
                     "insert_refines", "insert_refines_middle", "update_refines", "update_refines_present", "remove_refines",
                     "edits_then_roundtrip", "parsed_start_is_refined", "edits_keep_wellformed", "edits_then_roundtrip_wf"]
NOT_PROVED = []
RULE = ("edit sequences (coap_insert_option / coap_update_option / coap_remove_option / coap_update_token, mixed with "
        "add_option / add_data) of up to 40 calls applied to (a) messages parsed from generated wire bytes for "
        "udp/tcp/ws, with and without payload, and (b) freshly built messages; option numbers chosen so that the "
        "delta of the FOLLOWING option crosses 12/13 and 268/269 in both directions; replacement tokens of length "
        "classes 0, 1-8, 9-12, 13, 14-268, 269, 270-65804; maximum sizes from 'exactly fits' upwards so that growth "
        "is refused at every possible step; non-trivial = distinct case with at least one accepted edit")
TRUSTED_BASE = B.TRUSTED_BASE
ASSUMPTIONS = B.ASSUMPTIONS + ["a parsed start message is represented by the PDU coap_pdu_parse leaves behind "
                               "(max_opt = last option number, data = offset behind the marker): M.ofParsed, tied by T2"]
SPEC_DECISIONS = B.SPEC_DECISIONS

extract = B.extract
harness = B.harness
fields, rc_pattern, short, s_alts = B.fields, B.rc_pattern, B.short, B.s_alts


def hx(b):
    return b.hex() if b else "-"


def threshold_edits(rng, nums, code, big):
    """calls around existing option numbers so that the following option's delta crosses 12/13 and 268/269"""
    ops = []
    base = rng.choice(nums) if nums else rng.randint(0, 1000)
    for _ in range(rng.randint(1, 6)):
        off = rng.choice([0, 1, 11, 12, 13, 14, 255, 256, 267, 268, 269, 270, 280, 281, 282, 283, 537, 538])
        n = base - off if rng.random() < 0.6 else base + off
        if not (0 <= n <= 65535):
            continue
        k = rng.choice(["I", "I", "U", "R", "O"])
        if k == "R":
            ops.append("R%d" % n)
        else:
            ops.append("%s%d:%s" % (k, n, B.val(rng, B.opt_len(rng, n, code, big))))
        if rng.random() < 0.5:
            base = n
    return ops


def gen_edits(rng, nums, code, big, maxn=40):
    n = rng.choice([1, 2, 3, 5, 8, 12, 20, maxn])
    ops = []
    while len(ops) < n:
        c = rng.random()
        if c < 0.45:
            ops += threshold_edits(rng, nums, code, big)
        elif c < 0.60 and nums:
            ops.append("R%d" % rng.choice(nums))
        elif c < 0.75:
            ops.append("K" + B.val(rng, B.tok_len(rng, big)))
        elif c < 0.9:
            num = rng.choice(nums) if nums and rng.random() < 0.6 else B.opt_num(rng)
            ops.append("U%d:%s" % (num, B.val(rng, B.opt_len(rng, num, code, big))))
        else:
            num = B.opt_num(rng)
            ops.append("%s%d:%s" % (rng.choice(["I", "O"]), num, B.val(rng, B.opt_len(rng, num, code, big))))
        for o in ops[-3:]:
            if o[0] in "OIU":
                nums = nums + [int(o[1:].split(":")[0])]
    return ops[:maxn]


def generate(ctx, escalate=False):
    rng = ctx.rng
    n = 100000 if ctx.thorough() else 10000
    if escalate:
        n *= 3
    out = []
    for i in range(n):
        proto = rng.choice(["udp", "udp", "tcp", "ws"])
        big = rng.random() < 0.02
        if rng.random() < 0.6:
            # (a) start from the wire
            typ, code, mid, token, opts, pl = G.gen_msg(rng, big=big, valid_len=True)
            if code == 0:
                code = rng.choice([1, 2, 69])
            wire = G.encode(proto, typ, code, mid, token, opts, pl)
            body = len(wire)
            ops = gen_edits(rng, [o[0] for o in opts], code, big)
            c = rng.random()
            ms = 0 if c < 0.4 else body + rng.choice([0, 0, 1, 2, 3, 4, 5, 8, 16, 64, 300]) if c < 0.9 else rng.choice([1152, 65535])
            out.append("edit %s %d %s %s" % (proto, ms, hx(wire), ";".join(ops) if ops else "-"))
        else:
            # (b) freshly built, then edited
            code, ops = B.gen_script(rng, big, edits=True)
            nums = [int(o[1:].split(":")[0]) for o in ops if o[0] in "OIU"]
            ops += gen_edits(rng, nums, code if code else 1, big, maxn=20)
            c = rng.random()
            ms = 0 if c < 0.5 else max(1, rng.randint(1, B.script_size(ops) + 4))
            out.append("build %s %d %d %d %d %s" % (proto, ms, rng.randint(0, 3), code, rng.randint(0, 65535), ";".join(ops) if ops else "-"))
    return out


def wire_code(proto, wire):
    try:
        b = bytes.fromhex(wire) if wire != "-" else b""
        if proto in ("udp", "ws"):
            return b[1]
        L = b[0] >> 4
        return b[{13: 2, 14: 3, 15: 5}.get(L, 1)]
    except Exception:
        return 1


def in_domain(line):
    w = line.split()
    if w[0] == "build":
        return B.in_domain(line)
    code = wire_code(w[1], w[3])
    if code == 0:
        return w[4] == "-"
    for o in B.script_ops(line):
        if o[0] in "OIU":
            num, v = o[1:].split(":")
            ln = int(v.split("*")[1]) if v.startswith("*") else (0 if v == "-" else len(v) // 2)
            if not B.G_len_ok(code, int(num), ln):
                return False
    return True


def judge(ctx, c):
    """C01's rules, with the domain test extended to `edit` lines"""
    i, m, s = c["impl"], c["model"], c["spec"]
    proto = c["input"].split()[1]
    if i is not None and i.startswith("crash"):
        return ("spec", "the edit sequence aborts the process: " + i[:200])
    if i in ("rej", "fail") or m in ("rej", "fail"):
        return None if i == m else ("tie", "implementation %s but model M says %s" % (short(i), short(m)))
    fi = fields(i)
    dom = in_domain(c["input"])
    if fi and dom and fi.get("hdr") != "0" and fi["reparse"] != "ok " + B.d3(proto, fi["built"]):
        return ("spec", "round trip broken after the edits: built %s but the serialised bytes re-parse as %s" % (short(fi["built"]), short(fi["reparse"])))
    if fi and dom and fi.get("hdr") == "0":
        return ("spec", "the edited message cannot be serialised (coap_pdu_encode_header returned 0)")
    bad = B.refused_changes(c["input"], fi)
    if bad:
        k, op, before, after = bad[0]
        return ("spec", "refused call #%d %s returned 0 but changed the PDU: used_size.fnv32 %s -> %s" % (k + 1, short(op), before, after))
    if fi and s and s != "skip":
        spat = s.split(" ")[0][4:]
        spat = "" if spat == "-" else spat
        if rc_pattern(fi.get("steps")) == spat:
            alts = [(sm, sb) for tag, sm, sb in s_alts(s) if not tag] or [("(no admissible abstract result)", "-")]
            if not any(fi["reparse"] == "ok " + sm for sm, sb in alts):
                return ("spec", "edited message %s differs from the same edits on the abstract model %s" % (short(fi["reparse"]), short(alts[0][0])))
            if not any(fi["reparse"] == "ok " + sm and fi["bytes"] == sb for sm, sb in alts):
                return ("spec", "serialised bytes %s differ from Spec.encode of the edited abstract model %s" % (short(fi["bytes"]), short(alts[0][1])))
    if i != m:
        return ("tie", "implementation %s but model M says %s" % (short(i), short(m)))
    return None


def nontrivial(c):
    return "1" in rc_pattern(fields(c["impl"]).get("steps"))


def classify(c):
    w = c["input"].split()
    pat = rc_pattern(fields(c["impl"]).get("steps"))
    ms = w[2]
    return "%s:%s:%s:%s" % (w[0], w[1], "limited" if ms != "0" else "unlimited", "some-refused" if "0" in pat else "all-accepted")


def _mk(w, ops):
    k = 6 if w[0] == "build" else 4
    return " ".join(w[:k] + [";".join(ops) if ops else "-"])


def search(ctx, tie_breaks, proof):
    out = []
    for c in tie_breaks[:30]:
        w = c["input"].split()
        ops = B.script_ops(c["input"])
        for k in range(1, len(ops)):
            out.append(_mk(w, ops[:k]))
        for k in range(len(ops)):
            out.append(_mk(w, ops[:k] + ops[k + 1:]))
    return out


def shrink(ctx, case):
    from vlib.runner import diff_side
    import props.C04 as me
    w = case["input"].split()
    ops = B.script_ops(case["input"])
    best = case
    changed = True
    while changed and len(ops) > 1:
        changed = False
        cands = [ops[:k] + ops[k + 1:] for k in range(len(ops))]
        for cc, x in zip(diff_side(ctx, me, [_mk(w, x) for x in cands]), cands):
            v = judge(ctx, cc)
            if v and v[0] == "spec":
                cc["why"] = v[1]; best = cc; ops = x; changed = True
                break
    return best
