"""C04 — in-place message edits change only what they name (DESIGN.md §4 C04).
Shares harness ops, line format and the judge's rules with C01 (props/C01.py)."""
import os
from vlib import common as C, coapgen as G
import props.C01 as B

# clean (exit 0, no KNOWN-FINDING) at seeds 1..5 on the tree with the Hop-Limit fix (branch ws-P04).
MANIFEST = {
    "text": 'Proved in Lean, for every abstract message the API can produce, every argument and every capacity (refusals included): coap_insert_option (append path, the middle path with all six next-option header rewrite cases, implicit Hop-Limit), coap_update_option (in-place replacement of the first match with any length change, else insertion), coap_remove_option (first match removed, following delta re-encoded in all six growth cases, or max_opt falling back) and coap_update_token (all three memmove directions) map the PDU representing an abstract (token, ordered option list, payload) message to the PDU representing the abstract edit of the specification; hence any sequence of such edits never leaves the buffer and ends on the PDU representing the same edits applied to the abstract model (edits_then_roundtrip), which serialises and decodes to exactly that model on udp/tcp/ws whenever it is well-formed — and it is well-formed whenever the start message was and every inserted/updated value respects the RFC length limit of its option (edits_then_roundtrip_wf: hypotheses on the inputs only); the PDU the parser leaves behind for a received message is such a representing PDU (parsed_start_is_refined); plus the frame theorems (an edit changes only the element it names, order kept). coap_pdu_duplicate_lkd — the copy the library goes on editing (block-wise transfer, proxy, OSCORE, async) — is covered as the edit sequence "replace the token, remove every option the drop filter names" on a copy without payload (D16: duplicate_is_edit_sequence, duplicate_frame): on the PDU representing any abstract message, for every new token, message id, filter, session size and capacity, the memcpy branch (drop_options NULL) returns NULL exactly when token + options do not fit / the token is over-long, and otherwise the PDU representing the abstract copy whatever the two token lengths are (duplicate_memcpy_refines, closed form); the filter branch returns NULL or the PDU representing the copy with exactly the options not named, numbers/values/order kept, Hop-Limit=16 added only where D13 allows (duplicate_filter_refines); both after any edit sequence and with the round trip of the copy (edits_then_duplicate). The return code of a removal is prescribed (D17): coap_remove_option returns 1 exactly when the abstract message reached so far holds the option and, on a message without it, returns 0 and changes nothing whichever higher-numbered options follow (remove_absent_changes_nothing, remove_rc_prescribed, edits_rc_prescribed over whole sequences). A refused edit leaves the PDU exactly as it was (the former open finding — a refused Proxy-Uri/Proxy-Scheme on a request left Hop-Limit=16 behind — is fixed in libcoap and M is transcribed from the fixed code). The model M is tied to the C code by differential runs (edit sequences up to 45 calls on parsed and built messages, thresholds 13/269 crossed in both directions, tight maximum sizes; duplications of parsed / built / edited messages with tokens of equal, neighbouring and other length classes, NULL / empty / overflowing filters, session sizes around the exact fit, further edits on the copy; I vs M vs S byte for byte, per-call digests, the digest of the original after the duplication). Oracle independent of M (observation, not theorem): wherever the implementation\'s output differs from M\'s, S is evaluated a second time under the return codes the IMPLEMENTATION reported (driver op respec); a removal that reports 1 on a message without the option / 0 on one with it, or a final message that is not an admissible result of the edits the implementation says it performed, is reported as a contradiction with the specification, not as a broken correspondence.',
    "note": 'Same trusted base and fixes as C01; no open finding. The theorems are about the hand transcription M (Model/Build.lean); M = the compiled code is measured on the generated cases only. The RFC per-option length limits are a hypothesis on the values the caller passes (the API does not enforce them); on tcp the edited message must still fit the 32-bit extended length. M.ofParsed (what coap_pdu_parse leaves in the PDU) is tied to the code by the differential runs. Removal branches are exercised but not individually attributable from the harness output. coap_pdu_duplicate: one libcoap defect fixed on the way (56eb60f: the result of coap_add_token was ignored, a token that did not fit gave a copy WITHOUT token); coap_opt_filter_t is modelled as the set of numbers held (2 long + 6 short slots), the slot/mask layout is tied by the runs only (return value of every filter_set, effect of every filter_get on the copy); the two session calls (new message id, maximum PDU size) are oracles pinned by the harness through tx_mid / mtu of a UDP client session; lg_xmit (a pointer copy) is not observed.',
    "design_ref": "design/C04.md, DESIGN.md §4 C04",
}

LEAN_MODULES = ["CoapVerif.Props.C04"]
NAMESPACE = "Coap.C04"
REQUIRED_THEOREMS = ["edit_frame", "edits_keep_order", "edit_sequence_keeps_order", "update_token_refines", "roundtrip_of_refined",
                     "insert_refines", "insert_refines_middle", "update_refines", "update_refines_present", "remove_refines",
                     "edits_then_roundtrip", "parsed_start_is_refined", "edits_keep_wellformed", "edits_then_roundtrip_wf",
                     # coap_pdu_duplicate (D16)
                     "duplicate_is_edit_sequence", "duplicate_frame", "duplicate_memcpy_refines", "duplicate_filter_refines",
                     "edits_then_duplicate",
                     # return codes of removals (D17)
                     "remove_absent_changes_nothing", "remove_rc_prescribed", "edits_rc_prescribed"]
NOT_PROVED = []
RULE = ("edit sequences (coap_insert_option / coap_update_option / coap_remove_option / coap_update_token, mixed with "
        "add_option / add_data) of up to 40 calls applied to (a) messages parsed from generated wire bytes for "
        "udp/tcp/ws, with and without payload, and (b) freshly built messages; option numbers chosen so that the "
        "delta of the FOLLOWING option crosses 12/13 and 268/269 in both directions; replacement tokens of length "
        "classes 0, 1-8, 9-12, 13, 14-268, 269, 270-65804; maximum sizes from 'exactly fits' upwards so that growth "
        "is refused at every possible step; (c) coap_pdu_duplicate of (a)/(b)-style messages (edited or not): new token of "
        "the same length, +-1/2/4/8, the class boundaries 0/12/13/14/268/269/270 or any class; drop filter NULL (memcpy "
        "branch), empty, or 1-10 numbers drawn from the options of the message, Hop-Limit/Proxy-*, the 255/256 slot boundary, "
        "same-low-byte aliases, more than the 6+2 slots; session maximum size generous, 0, exact fit -3..+8, or random "
        "below; then 0-8 further edits / add_data on the copy; non-trivial = distinct case with at least one accepted "
        "edit (dup lines: a copy was returned); about 30 % of the removals name a number that is ABSENT (next to / between / "
        "below / above the present ones, +-12/13/268/269 away)")
TRUSTED_BASE = B.TRUSTED_BASE
ASSUMPTIONS = B.ASSUMPTIONS + ["a parsed start message is represented by the PDU coap_pdu_parse leaves behind "
                               "(max_opt = last option number, data = offset behind the marker): M.ofParsed, tied by T2"]
ASSUMPTIONS = ASSUMPTIONS + ["coap_pdu_duplicate: coap_new_message_id_lkd / coap_session_max_pdu_size_lkd are oracles "
                             "(harness: UDP client session, tx_mid and mtu set directly); coap_opt_filter_t = the set of "
                             "numbers successfully set on a cleared filter (6 short + 2 long slots), tied by T2"]
SPEC_DECISIONS = B.SPEC_DECISIONS + ["D17 coap_remove_option returns non-zero exactly when the message holds an option with "
                                     "that number (a removal needs no room: D14 does not extend to it); on a message "
                                     "without it the call returns 0 and changes nothing",
                                     "D16 coap_pdu_duplicate = on a copy without payload and with the session's next "
                                     "message id: token replacement, then removal of every option the filter names; may "
                                     "be refused as a whole (NULL); D13 applies to the copy"]

extract = B.extract
harness = B.harness
fields, rc_pattern, short, s_alts = B.fields, B.rc_pattern, B.short, B.s_alts


def hx(b):
    return b.hex() if b else "-"


def threshold_edits(rng, nums, code, big):
    """calls around existing option numbers so that the following option's delta crosses 12/13 and 268/269"""
    ops = []
    base = rng.choice(nums) if nums else rng.randint(0, 1000)
    for _ in range(rng.randint(1, 6)):
        off = rng.choice([0, 1, 11, 12, 13, 14, 255, 256, 267, 268, 269, 270, 280, 281, 282, 283, 537, 538])
        n = base - off if rng.random() < 0.6 else base + off
        if not (0 <= n <= 65535):
            continue
        k = rng.choice(["I", "I", "U", "R", "O"])
        if k == "R":
            ops.append("R%d" % n)
        else:
            ops.append("%s%d:%s" % (k, n, B.val(rng, B.opt_len(rng, n, code, big))))
        if rng.random() < 0.5:
            base = n
    return ops


def gen_edits(rng, nums, code, big, maxn=40):
    n = rng.choice([1, 2, 3, 5, 8, 12, 20, maxn])
    ops = []
    while len(ops) < n:
        c = rng.random()
        if c < 0.45:
            ops += threshold_edits(rng, nums, code, big)
        elif c < 0.60 and nums:
            if rng.random() < 0.7:
                ops.append("R%d" % rng.choice(nums))
            else:
                # a number that is (most likely) ABSENT: next to / between / below / above the present ones
                # (D17: returns 0, changes nothing — whatever follows it in the message)
                sn = sorted(set(nums))
                k = rng.randrange(len(sn))
                cand = [sn[k] - 1, sn[k] + 1, (sn[k] + sn[k - 1]) // 2 if k else sn[0] // 2, sn[0] - 1, sn[-1] + 1,
                        0, 65535, sn[k] + rng.choice([12, 13, 268, 269]), sn[k] - rng.choice([12, 13, 268, 269])]
                ops.append("R%d" % min(65535, max(0, rng.choice(cand))))
        elif c < 0.75:
            ops.append("K" + B.val(rng, B.tok_len(rng, big)))
        elif c < 0.9:
            num = rng.choice(nums) if nums and rng.random() < 0.6 else B.opt_num(rng)
            ops.append("U%d:%s" % (num, B.val(rng, B.opt_len(rng, num, code, big))))
        else:
            num = B.opt_num(rng)
            ops.append("%s%d:%s" % (rng.choice(["I", "O"]), num, B.val(rng, B.opt_len(rng, num, code, big))))
        for o in ops[-3:]:
            if o[0] in "OIU":
                nums = nums + [int(o[1:].split(":")[0])]
    return ops[:maxn]


# ---------------------------------------------------------------- coap_pdu_duplicate (ops dupb / dupe)
def enc_tok_len(n):
    return n + (0 if n < 13 else 1 if n < 269 else 2)


def dup_token(rng, old_len, big):
    """token of the copy: same length as the original's, one off, another length class, or anything"""
    c = rng.random()
    if c < 0.25:
        n = old_len
    elif c < 0.40:
        n = max(0, old_len + rng.choice([-2, -1, 1, 2, 4, 8]))
    elif c < 0.50:
        n = rng.choice([0, 12, 13, 14, 268, 269, 270])
    else:
        n = B.tok_len(rng, big)
    return n, B.val(rng, n)


def dup_filter(rng, nums, code):
    """N = NULL (memcpy path), - = empty filter, or the numbers of the coap_option_filter_set calls"""
    c = rng.random()
    if c < 0.40:
        return "N"
    if c < 0.48:
        return "-"
    f = []
    for _ in range(rng.choice([1, 1, 2, 2, 3, 4, 6, 7, 9])):
        c = rng.random()
        if c < 0.6 and nums:
            f.append(rng.choice(nums))
        elif c < 0.7:
            f.append(rng.choice([16, 35, 39]))           # Hop-Limit / Proxy-*: D13 on the copy
        elif c < 0.85:
            f.append(B.opt_num(rng))
        else:
            f.append(rng.choice([0, 255, 256, 257, 511, 65535] + nums))   # short/long slot boundary, low byte aliases
    if nums and rng.random() < 0.1:
        f.append(rng.choice(nums) ^ 256)                 # same low byte, other slot class
    return ",".join(str(x & 0xFFFF) for x in f)


def dup_smax(rng, est):
    """result of coap_session_max_pdu_size_lkd: generous, 0, or around the size the copy needs"""
    c = rng.random()
    if c < 0.35:
        return rng.choice([1152, 1152, 1400, 65535, 8388858, 8388859])
    if c < 0.42:
        return 0
    if c < 0.75:
        return max(0, est + rng.choice([-3, -2, -1, 0, 0, 0, 1, 2, 3, 5, 8]))
    return rng.randint(1, est + 4)


def gen_dup(rng):
    proto = rng.choice(["udp", "udp", "tcp", "ws"])
    big = rng.random() < 0.02
    mid = rng.choice([0, 1, 65535, rng.randint(0, 65535)])
    if rng.random() < 0.55:
        # the original is a received message, edited or not
        typ, code, omid, token, opts, pl = G.gen_msg(rng, big=big, valid_len=True)
        if code == 0:
            code = rng.choice([1, 2, 69])
        if 1 <= code < 32 and rng.random() < 0.2:         # Proxy-Uri / Proxy-Scheme with or without Hop-Limit
            opts = sorted(opts + [(rng.choice([35, 39]), b"x")] + ([(16, b"\x05")] if rng.random() < 0.5 else []),
                          key=lambda o: o[0])
            seen, o2 = set(), []
            for o in opts:
                if o[0] in (16, 35, 39) and o[0] in seen:
                    continue
                seen.add(o[0]); o2.append(o)
            opts = o2
        wire = G.encode(proto, typ, code, omid, token, opts, pl)
        nums = [o[0] for o in opts]
        ops1 = gen_edits(rng, nums, code, big, maxn=6) if rng.random() < 0.4 else []
        c = rng.random()
        ms = 0 if c < 0.5 else len(wire) + rng.choice([0, 1, 4, 16, 300]) if c < 0.8 else rng.choice([1152, 65535])
        optbytes = len(G.encode("udp", 0, code, 0, b"", opts, b"")) - 4
        ntok, tok = dup_token(rng, len(token), big)
        head = "dupe %s %d %s %s" % (proto, ms, hx(wire), ";".join(ops1) if ops1 else "-")
    else:
        code, ops1 = B.gen_script(rng, big, edits=rng.random() < 0.5)
        nums = [int(o[1:].split(":")[0]) for o in ops1 if o[0] in "OIU"]
        c = rng.random()
        ms = 0 if c < 0.6 else rng.choice([1152, 65535]) if c < 0.8 else max(1, rng.randint(1, B.script_size(ops1) + 4))
        optbytes = B.script_size([o for o in ops1 if o[0] in "OIU"])
        told = [o for o in ops1 if o[0] in "TK"]
        tl = told[-1][1:] if told else "-"
        old_len = int(tl.split("*")[1]) if tl.startswith("*") else 0 if tl == "-" else len(tl) // 2
        ntok, tok = dup_token(rng, old_len, big)
        head = "dupb %s %d %d %d %d %s" % (proto, ms, rng.randint(0, 3), code, rng.randint(0, 65535),
                                          ";".join(ops1) if ops1 else "-")
    flt = dup_filter(rng, nums, code)
    smax = dup_smax(rng, enc_tok_len(ntok) + optbytes)
    ops2 = []
    if rng.random() < 0.45:
        ops2 = gen_edits(rng, nums, code if code else 1, big, maxn=rng.choice([1, 2, 4, 8]))
        if rng.random() < 0.4:
            ops2.append("D" + B.val(rng, rng.choice([1, 2, 12, 13, rng.randint(1, 300)])))
    return "%s %d %d %s %s %s" % (head, smax, mid, tok, flt, ";".join(ops2) if ops2 else "-")


def generate(ctx, escalate=False):
    rng = ctx.rng
    n = 100000 if ctx.thorough() else 10000
    if escalate:
        n *= 3
    out = []
    for i in range(n):
        proto = rng.choice(["udp", "udp", "tcp", "ws"])
        big = rng.random() < 0.02
        if rng.random() < 0.6:
            # (a) start from the wire
            typ, code, mid, token, opts, pl = G.gen_msg(rng, big=big, valid_len=True)
            if code == 0:
                code = rng.choice([1, 2, 69])
            wire = G.encode(proto, typ, code, mid, token, opts, pl)
            body = len(wire)
            ops = gen_edits(rng, [o[0] for o in opts], code, big)
            c = rng.random()
            ms = 0 if c < 0.4 else body + rng.choice([0, 0, 1, 2, 3, 4, 5, 8, 16, 64, 300]) if c < 0.9 else rng.choice([1152, 65535])
            out.append("edit %s %d %s %s" % (proto, ms, hx(wire), ";".join(ops) if ops else "-"))
        else:
            # (b) freshly built, then edited
            code, ops = B.gen_script(rng, big, edits=True)
            nums = [int(o[1:].split(":")[0]) for o in ops if o[0] in "OIU"]
            ops += gen_edits(rng, nums, code if code else 1, big, maxn=20)
            c = rng.random()
            ms = 0 if c < 0.5 else max(1, rng.randint(1, B.script_size(ops) + 4))
            out.append("build %s %d %d %d %d %s" % (proto, ms, rng.randint(0, 3), code, rng.randint(0, 65535), ";".join(ops) if ops else "-"))
    # (c) duplication of (a)/(b)-style messages, edits continued on the copy (after the others: their stream is unchanged)
    for i in range(n // 3):
        out.append(gen_dup(rng))
    return out


def wire_code(proto, wire):
    try:
        b = bytes.fromhex(wire) if wire != "-" else b""
        if proto in ("udp", "ws"):
            return b[1]
        L = b[0] >> 4
        return b[{13: 2, 14: 3, 15: 5}.get(L, 1)]
    except Exception:
        return 1


DUP_IDX = {"dupb": (6, 11), "dupe": (4, 9)}      # word index of <ops1>, <ops2>


def dup_ops(line):
    """(ops1, ops2) of a dupb / dupe line"""
    w = line.split()
    a, b = DUP_IDX[w[0]]
    return ([] if w[a] == "-" else w[a].split(";")), ([] if w[b] == "-" else w[b].split(";"))


def all_ops(line):
    if line.split()[0] in DUP_IDX:
        a, b = dup_ops(line)
        return a + b
    return B.script_ops(line)


def in_domain(line):
    w = line.split()
    if w[0] == "build":
        return B.in_domain(line)
    if w[0] == "dupb":
        code = int(w[4])
    else:
        code = wire_code(w[1], w[3])
    if code == 0:
        return w[0] == "edit" and w[4] == "-"
    for o in all_ops(line):
        if o[0] in "OIU":
            num, v = o[1:].split(":")
            ln = int(v.split("*")[1]) if v.startswith("*") else (0 if v == "-" else len(v) // 2)
            if not B.G_len_ok(code, int(num), ln):
                return False
    return True


def dfields(s):
    """dup output line → dict (head words k=v, plus built / reparse when the copy exists)"""
    if s is None or " flt=" not in s:
        return {}
    d = fields(s)
    if not d:
        for w in s.split():
            if "=" in w:
                k, v = w.split("=", 1); d[k] = v
    return d


def refused_in(ops, steps, prev):
    """(index, op, before, after) of the first call that returned 0 and changed used_size.fnv32"""
    if steps in (None, "-") or prev is None:
        return None
    for k, (op, st) in enumerate(zip(ops, steps.split(","))):
        if "." not in st:
            return None
        rc, dig = st.split(".", 1)
        if rc == "0" and dig != prev:
            return (k, op, prev, dig)
        prev = dig
    return None


def last_digest(steps, start):
    if steps in (None, "-"):
        return start
    st = steps.split(",")[-1]
    return st.split(".", 1)[1] if "." in st else None


def impl_pattern(line, i):
    """the 0/1 pattern of the return codes the IMPLEMENTATION reported, as the `respec` op takes it (None: it reported none)"""
    if line.split(" ", 1)[0] in DUP_IDX:
        fi = dfields(i)
        if "steps" not in fi:
            return None
        p1 = rc_pattern(fi["steps"]) or "-"
        if fi.get("dup") == "ok" and "steps2" in fi:
            return p1 + "/" + (rc_pattern(fi["steps2"]) or "-")
        return p1 + "/N" if fi.get("dup") == "null" else None
    fi = fields(i)
    return (rc_pattern(fi.get("steps")) or "-") if fi else None


def npat(p):
    return p.replace("-", "")


def s_pattern(s):
    return npat(s.split(" ")[0][4:]) if s and s.startswith("rcs=") else None


def respec(ctx, cases):
    """Second pass (hook of vlib/runner.diff_side): where the implementation's output differs from M's, the S column is
    recomputed under the return codes the IMPLEMENTATION reported (driver op `respec`, Driver/EditSpec.lean), so that it is
    judged against the specification on its own claims: its final message must be an admissible result of the edits it
    says it performed, and (D17) a removal must say 1 exactly when the abstract message held the option."""
    todo = []
    for c in cases:
        i = c["impl"]
        if i is None or i == c["model"] or i.startswith("crash"):
            continue
        pat = impl_pattern(c["input"], i)
        if pat is None or s_pattern(c["spec"]) == npat(pat):
            continue
        todo.append((c, pat))
    if not todo:
        return
    outs = C.run_sharded([C.driver_path()], ["respec %s %s" % (pat, c["input"]) for c, pat in todo],
                         per_line_crash="model-crash")
    for (c, pat), o in zip(todo, outs):
        if o and o.startswith("M respec | S "):
            c["spec_under_model_rcs"] = c["spec"]
            c["spec"] = o[len("M respec | S "):]


def norun_why(line, s, after):
    """S column `rcs=… [copy ]norun call=<k> op=<call> rc=<0|1>` → the contradiction in words (None: S has a run)"""
    w = s.split(" ")
    if "norun" not in w[1:3]:
        return None
    d = dict(x.split("=", 1) for x in w if "=" in x)
    where = " on the copy" if w[1] == "copy" else ""
    num = d.get("op", "R?")[1:]
    if d.get("rc") == "1":
        return ("call #%s%s coap_remove_option(%s) returned non-zero but the abstract message holds no option %s at that "
                "point: it must return 0 and change nothing (D17); the implementation ends on %s"
                % (d.get("call"), where, num, num, short(after)))
    return ("call #%s%s coap_remove_option(%s) returned 0 but the abstract message holds option %s at that point: its "
            "first occurrence must go and the call return 1 (D17); the implementation ends on %s"
            % (d.get("call"), where, num, num, short(after)))


def judge_dup(ctx, c):
    """coap_pdu_duplicate: the original stays as it was; the copy is the abstract copy (D16) — judged on the accessor dump,
    the serialised bytes and their re-parse; a refused duplication (NULL) is admissible (D14), WHEN it is refused is M's."""
    i, m, s = c["impl"], c["model"], c["spec"]
    line = c["input"]
    proto = line.split()[1]
    if i is not None and i.startswith("crash"):
        return ("spec", "duplicating the message aborts the process: " + i[:200])
    fi = dfields(i)
    if not fi:
        return None if i == m else ("tie", "implementation %s but model M says %s" % (short(i), short(m)))
    ops1, ops2 = dup_ops(line)
    start = fi.get("start") if line.startswith("dupe") else B.EMPTY_DIGEST
    bad = refused_in(ops1, fi.get("steps"), start)
    if bad:
        return ("spec", "refused call #%d %s returned 0 but changed the PDU: used_size.fnv32 %s -> %s" % (bad[0] + 1, short(bad[1]), bad[2], bad[3]))
    before = last_digest(fi.get("steps"), start)
    if before is not None and fi.get("old") is not None and fi["old"] != before:
        return ("spec", "coap_pdu_duplicate changed the ORIGINAL: used_size.fnv32 %s -> %s" % (before, fi["old"]))
    ip = impl_pattern(line, i)
    if s and s != "skip" and ip is not None and s_pattern(s) == npat(ip):
        why = norun_why(line, s, fi.get("reparse") or "no copy (NULL)")
        if why:
            return ("spec", why)
    if fi.get("dup") == "ok":
        bad = refused_in(ops2, fi.get("steps2"), fi.get("copy"))
        if bad:
            return ("spec", "refused call #%d %s on the copy returned 0 but changed it: used_size.fnv32 %s -> %s" % (bad[0] + 1, short(bad[1]), bad[2], bad[3]))
        dom = in_domain(line)
        if dom and "reparse" in fi and fi.get("hdr") != "0" and fi["reparse"] != "ok " + B.d3(proto, fi["built"]):
            return ("spec", "round trip of the copy broken: its accessors show %s but its serialised bytes re-parse as %s" % (short(fi["built"]), short(fi["reparse"])))
        if dom and fi.get("hdr") == "0":
            return ("spec", "the copy cannot be serialised (coap_pdu_encode_header returned 0)")
        if "reparse" in fi and s and s != "skip":
            spat = s.split(" ")[0][4:]
            if rc_pattern(fi.get("steps")) + "/" + rc_pattern(fi.get("steps2")) == spat.replace("-", ""):
                alts = s_alts(s) or [(False, "(no admissible abstract result)", "-")]
                if not any(fi["reparse"] == "ok " + sm for tag, sm, sb in alts):
                    return ("spec", "the copy %s is not the original with the new token and without the dropped options: abstract model %s" % (short(fi["reparse"]), short(alts[0][1])))
                if not any(fi["reparse"] == "ok " + sm and fi["bytes"] == sb for tag, sm, sb in alts):
                    return ("spec", "serialised bytes of the copy %s differ from Spec.encode of the abstract copy %s" % (short(fi["bytes"]), short(alts[0][2])))
    if i != m:
        return ("tie", "implementation %s but model M says %s" % (short(i), short(m)))
    return None


def judge(ctx, c):
    """C01's rules, with the domain test extended to `edit` lines"""
    if c["input"].split(" ", 1)[0] in DUP_IDX:
        return judge_dup(ctx, c)
    i, m, s = c["impl"], c["model"], c["spec"]
    proto = c["input"].split()[1]
    if i is not None and i.startswith("crash"):
        return ("spec", "the edit sequence aborts the process: " + i[:200])
    if i in ("rej", "fail") or m in ("rej", "fail"):
        return None if i == m else ("tie", "implementation %s but model M says %s" % (short(i), short(m)))
    fi = fields(i)
    dom = in_domain(c["input"])
    if fi and dom and fi.get("hdr") != "0" and fi["reparse"] != "ok " + B.d3(proto, fi["built"]):
        return ("spec", "round trip broken after the edits: built %s but the serialised bytes re-parse as %s" % (short(fi["built"]), short(fi["reparse"])))
    if fi and dom and fi.get("hdr") == "0":
        return ("spec", "the edited message cannot be serialised (coap_pdu_encode_header returned 0)")
    bad = B.refused_changes(c["input"], fi)
    if bad:
        k, op, before, after = bad[0]
        return ("spec", "refused call #%d %s returned 0 but changed the PDU: used_size.fnv32 %s -> %s" % (k + 1, short(op), before, after))
    if fi and s and s != "skip":
        spat = s.split(" ")[0][4:]
        spat = "" if spat == "-" else spat
        if rc_pattern(fi.get("steps")) == spat:
            why = norun_why(c["input"], s, fi["reparse"])
            if why:
                return ("spec", why)
            alts = [(sm, sb) for tag, sm, sb in s_alts(s) if not tag] or [("(no admissible abstract result)", "-")]
            if not any(fi["reparse"] == "ok " + sm for sm, sb in alts):
                return ("spec", "edited message %s differs from the same edits on the abstract model %s" % (short(fi["reparse"]), short(alts[0][0])))
            if not any(fi["reparse"] == "ok " + sm and fi["bytes"] == sb for sm, sb in alts):
                return ("spec", "serialised bytes %s differ from Spec.encode of the edited abstract model %s" % (short(fi["bytes"]), short(alts[0][1])))
    if i != m:
        return ("tie", "implementation %s but model M says %s" % (short(i), short(m)))
    return None


def nontrivial(c):
    if c["input"].split(" ", 1)[0] in DUP_IDX:
        return dfields(c["impl"]).get("dup") == "ok"
    return "1" in rc_pattern(fields(c["impl"]).get("steps"))


def classify(c):
    w = c["input"].split()
    if w[0] in DUP_IDX:
        f = dfields(c["impl"])
        flt = w[DUP_IDX[w[0]][1] - 1]
        return "%s:%s:%s:%s%s" % (w[0], w[1], "memcpy" if flt == "N" else "filter", f.get("dup", "-"),
                                  ":then-edited" if w[DUP_IDX[w[0]][1]] != "-" else "")
    pat = rc_pattern(fields(c["impl"]).get("steps"))
    ms = w[2]
    return "%s:%s:%s:%s" % (w[0], w[1], "limited" if ms != "0" else "unlimited", "some-refused" if "0" in pat else "all-accepted")


def _mk(w, ops):
    k = 6 if w[0] == "build" else 4
    return " ".join(w[:k] + [";".join(ops) if ops else "-"])


def dup_variants(line):
    """a dup line with one call of <ops1> or <ops2> deleted, <ops2> dropped, or the filter emptied"""
    w = line.split()
    ia, ib = DUP_IDX[w[0]]
    out = []
    for idx in (ib, ia):
        ops = [] if w[idx] == "-" else w[idx].split(";")
        if idx == ib and ops:
            out.append(" ".join(w[:idx] + ["-"] + w[idx + 1:]))
        for k in range(len(ops)):
            rest = ops[:k] + ops[k + 1:]
            out.append(" ".join(w[:idx] + [";".join(rest) if rest else "-"] + w[idx + 1:]))
    if w[ib - 1] not in ("N", "-"):
        out.append(" ".join(w[:ib - 1] + ["-"] + w[ib:]))
    return out


def search(ctx, tie_breaks, proof):
    out = []
    for c in tie_breaks[:30]:
        w = c["input"].split()
        if w[0] in DUP_IDX:
            out += dup_variants(c["input"])
            continue
        ops = B.script_ops(c["input"])
        for k in range(1, len(ops)):
            out.append(_mk(w, ops[:k]))
        for k in range(len(ops)):
            out.append(_mk(w, ops[:k] + ops[k + 1:]))
    return out


def shrink(ctx, case):
    from vlib.runner import diff_side
    import props.C04 as me
    w = case["input"].split()
    if w[0] in DUP_IDX:
        best = case
        changed = True
        while changed:
            changed = False
            cands = dup_variants(best["input"])
            for cc in diff_side(ctx, me, cands):
                v = judge(ctx, cc)
                if v and v[0] == "spec":
                    cc["why"] = v[1]; best = cc; changed = True
                    break
        return best
    ops = B.script_ops(case["input"])
    best = case
    changed = True
    while changed and len(ops) > 1:
        changed = False
        cands = [ops[:k] + ops[k + 1:] for k in range(len(ops))]
        for cc, x in zip(diff_side(ctx, me, [_mk(w, x) for x in cands]), cands):
            v = judge(ctx, cc)
            if v and v[0] == "spec":
                cc["why"] = v[1]; best = cc; ops = x; changed = True
                break
    return best


# ---- T1Y: the numerals of this property's models are tied to the current tree.  extract/consts2*.c + a source scan
# rewrite lean/CoapVerif/Generated/Consts2.lean on every check; Props/C04Consts.lean proves `<model numeral / model
# function> = Generated.C2.<name>` (design/T1.md).  A changed macro / enum value / case label / literal breaks one of
# these named obligations.
LEAN_MODULES = list(LEAN_MODULES) + ["CoapVerif.Props.C04Consts"]
REQUIRED_THEOREMS = list(REQUIRED_THEOREMS) + [
    "filterSet_matches_code",
    "tokBias_matches_code",
    "optEncodeSize_matches_code",
    "edit_numerals_match_code",
]
TRUSTED_BASE = list(TRUSTED_BASE) + ["T1 extractors extract/consts2.c, consts2_net.c, consts2_opt.c, consts2_res.c and the source scan vlib/tables.py scan_consts2 / scan_oscore_protect (Generated/Consts2.lean)"]
_t1x_prev_extract = globals().get("extract")


def extract(ctx):
    from vlib import tables
    return (_t1x_prev_extract(ctx) if _t1x_prev_extract else []) + tables.extract_consts2()
